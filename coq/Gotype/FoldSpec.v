(* L0: the value a Go value folds to, written from the documented mapping (README, the
   doc comment of tagOptions, the property text) - not from fold_reflect.go:
     struct  -> object; member name = tag name, else the lower-cased field name; in field
                order; without unexported, "-" and omit fields; without omitempty fields that
                are empty (zero-length string/slice/array/map, nil pointer or interface,
                looking through pointers and interfaces); inline/squash fields replaced by
                the members of their struct or map
     pointer, interface -> their target, or null when nil
     map     -> object, slice/array -> array, numbers with their exact value.
   [None] = the type is not supported / the combination is refused.  No proofs here. *)
From SF Require Import Base.Prelude Core.Events Gotype.Types.
Open Scope Z_scope.

Definition spec_num (k : nkind) (z : Z) : cvalue := CNum (canon_num k z).

(* is the value empty in the sense of omitempty? *)
Fixpoint spec_empty (fuel : nat) (t : gtype) (v : gvalue) : bool :=
  match fuel with
  | O => false
  | S f =>
      match under t, v with
      | (TPtr _ | TIface), GNil => true
      | TPtr u, GPtr x => spec_empty f u x
      | TIface, GIface dt dv => spec_empty f dt dv
      | TString, GStr s => zlen s =? 0
      | (TSlice _ | TMap _ | TMapK _), GNil => true
      | (TSlice _ | TArray _ _), GList l => zlen l =? 0
      | (TMap _ | TMapK _), GMap l => zlen l =? 0
      | _, _ => false
      end
  end.

(* Is the static type one Fold supports?  (What an interface holds is judged on the value.) *)
Fixpoint spec_supported (fuel : nat) (t : gtype) : bool :=
  match fuel with
  | O => false
  | S f =>
      match t with
      | TBool | TString | TNum _ | TIface => true
      | TUnsup | TMapK _ => false
      | TPtr u | TSlice u | TArray _ u | TMap u | TNamed u => spec_supported f u
      | TStruct fs =>
          forallb (fun fd => match fd with (name, tag, ft) =>
             if negb (exported name) then true else
             let o := snd (parse_tags tag) in
             if t_squash o && t_omitempty o then false
             else if t_omit o then true
             else if t_squash o then
               match under (snd (base_type ft)) with
               | TStruct _ | TMap _ => spec_supported f (snd (base_type ft))
               | TIface => true
               | _ => false
               end
             else spec_supported f ft end) fs
      end
  end.

Fixpoint opt_all {A} (l : list (option A)) : option (list A) :=
  match l with
  | [] => Some []
  | Some x :: r => match opt_all r with Some xs => Some (x :: xs) | None => None end
  | None :: _ => None
  end.

Fixpoint spec_fold (fuel : nat) (t : gtype) (v : gvalue) : option cvalue :=
  match fuel with
  | O => None
  | S f =>
      (* the members an inlined value contributes *)
      let inline_members (t : gtype) (v : gvalue) : option (list (bytes * cvalue)) :=
        (fix im (g : nat) (inif : bool) (t : gtype) (v : gvalue) : option (list (bytes * cvalue)) :=
           match g with
           | O => None
           | S g' =>
               match under t, v with
               | TMap _, GNil => Some []
               (* a nil pointer or nil interface reached THROUGH an interface is no object *)
               | TIface, GNil | TPtr _, GNil => if inif then None else Some []
               | TPtr u, GPtr x => im g' inif u x
               | TIface, GIface dt dv => if spec_supported fuel dt then im g' true dt dv else None
               | (TStruct _ | TMap _), _ =>
                   match spec_fold f t v with Some (CObj ms) => Some ms | _ => None end
               | _, _ => None
               end
           end) fuel false t v in
      match under t, v with
      | TBool, GBool b => Some (CBool b)
      | TString, GStr s => Some (CStr s)
      | TNum k, GNum z => Some (spec_num k z)
      | TPtr _, GNil | TIface, GNil => Some CNil
      | TPtr u, GPtr x => spec_fold f u x
      | TIface, GIface dt dv => if spec_supported fuel dt then spec_fold f dt dv else None   (* the dynamic type must be a supported one *)
      | TSlice _, GNil => Some (CArr [])
      | (TSlice u | TArray _ u), GList l =>
          match opt_all (map (spec_fold f u) l) with Some vs => Some (CArr vs) | None => None end
      | TMap _, GNil => Some (CObj [])
      | TMap u, GMap kvs =>
          match opt_all (map (fun kv => match spec_fold f u (snd kv) with
                                        | Some x => Some (fst kv, x) | None => None end) kvs) with
          | Some ms => Some (CObj ms)
          | None => None
          end
      | TStruct fs, GStruct vs =>
          (fix fields (fs : list (bytes * bytes * gtype)) (vs : list gvalue) (acc : list (bytes * cvalue))
             : option cvalue :=
             match fs, vs with
             | (name, tag, ft) :: fr, fv :: vr =>
                 if negb (exported name) then fields fr vr acc else
                 let '(tn, o) := parse_tags tag in
                 if t_squash o && t_omitempty o then None
                 else if t_omit o then fields fr vr acc
                 else if t_squash o then
                   match inline_members ft fv with
                   | Some ms => fields fr vr (rev ms ++ acc)
                   | None => None
                   end
                 else if t_omitempty o && spec_empty fuel ft fv then fields fr vr acc
                 else
                   match spec_fold f ft fv with
                   | Some x => fields fr vr ((field_name name tn, x) :: acc)
                   | None => None
                   end
             | _, _ => Some (CObj (rev acc))
             end) fs vs []
      | _, _ => None
      end
  end.

