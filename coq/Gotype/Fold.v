(* L1: gotype.Fold - fold.go, fold_reflect.go, fold_inline.go, fold_map.go, fold_arr.go,
   fold_primitives.go, fold_map_inline.generated.go, fold_refl_sel.generated.go, tags.go,
   visitors/expect_obj.go.  The model computes the events the iterator sends to its
   visitor and the error (class) it returns, for a Go value given as (dynamic type, value).
   User folders / Folder / IsZeroer implementations are not part of this model.
   No proofs here. *)
From SF Require Import Base.Prelude Core.Events Gotype.Types.
Open Scope Z_scope.

(* error classes *)
Definition feUnsupported := 1.
Definition feMapKey := 2.
Definition feSquashNeedObject := 3.
Definition feInlineOmitEmpty := 4.
Definition feInlineNoObject := 5.
Definition feMissingClose := 6.

(* events delivered so far, and the error that stopped the fold (None = nil) *)
Definition fr := (list event * option Z)%type.
Definition fok (evs : list event) : fr := (evs, None).
Definition ferr (e : Z) : fr := ([], Some e).
Definition fseq (a : fr) (k : unit -> fr) : fr :=
  match a with
  | (ev, None) => let '(ev2, e2) := k tt in (ev ++ ev2, e2)
  | _ => a
  end.
Notation "a ;; k" := (fseq a (fun _ => k)) (at level 61, right associativity).

(* the event a numeric Go kind is reported with by fold_primitives.go:
   int goes out as OnInt64, everything else with its own method *)
Definition num_event_kind (k : nkind) : nkind := match k with KInt => KInt64 | _ => k end.

(* exact unnamed primitive types: bool, string, the 12 numeric kinds *)
Definition prim_scalar (inline_map : bool) (t : gtype) (v : gvalue) : option scalar :=
  match t, v with
  | TBool, GBool b => Some (SBool b)
  | TString, GStr s => Some (SStr s)
  | TNum k, GNum z => Some (SNum (if inline_map then k else num_event_kind k) z)
  | _, _ => None
  end.
Definition is_prim (t : gtype) : bool := match t with TBool | TString | TNum _ => true | _ => false end.

Definition prim_bt (t : gtype) : btype :=
  match t with TBool => BBool | TString => BString | TNum k => bt_of_kind k | _ => BAny end.

(* scalar of a typed array/map element: element kind = the Go kind *)
Definition xscalar (t : gtype) (v : gvalue) : scalar :=
  match t, v with
  | TBool, GBool b => SBool b
  | TString, GStr s => SStr s
  | TNum k, GNum z => SNum k z
  | _, _ => SNil
  end.

Definition glist (v : gvalue) : list gvalue := match v with GList l => l | _ => [] end.
Definition gmap (v : gvalue) : list (bytes * gvalue) := match v with GMap l => l | _ => [] end.

(* _reflPrimitivesMapping / the type switch of getFoldGoTypes, for the types both share.
   [top] selects the top-level switch, where []byte is folded with OnBytes. *)
Definition prim_fold (top : bool) (t : gtype) (v : gvalue) : option (list event) :=
  match t with
  | TBool | TString | TNum _ =>
      match prim_scalar false t v with Some s => Some [EVal s] | None => None end
  | TSlice e =>
      if is_prim e then
        let bt := if top && gtype_eqb e (TNum KUint8) then BByte else prim_bt e in
        Some [EXArr bt (map (fun x => match bt, xscalar e x with
                                      | BByte, SNum _ z => SNum KByte z
                                      | _, s => s end) (glist v))]
      else None
  | TMap e =>
      if is_prim e then Some [EXObj (prim_bt e) (map (fun kv => (fst kv, xscalar e (snd kv))) (gmap v))]
      else None
  | _ => None
  end.

(* walk n pointer levels; None = a nil pointer on the way *)
Fixpoint deref (n : nat) (v : gvalue) : option gvalue :=
  match n with
  | O => Some v
  | S m => match v with GPtr x => deref m x | _ => None end
  end.

(* has the omitempty resolver chain something to say about this type? *)
Definition has_resolver (t : gtype) : bool :=
  match under t with
  | TPtr _ | TIface | TMap _ | TMapK _ | TString | TSlice _ | TArray _ _ => true
  | _ => false
  end.

Definition glen (v : gvalue) : Z :=
  match v with GStr s => zlen s | GList l => zlen l | GMap l => zlen l | _ => 0 end.

(* makeResolveNonEmptyValue: None = empty, omit the field; Some (t, v) = fold this *)
Fixpoint resolve (fuel : nat) (t : gtype) (v : gvalue) : option (gtype * gvalue) :=
  match fuel with
  | O => None
  | S f =>
      let '(n, bt) := base_type t in
      match deref n v with
      | None => None
      | Some bv =>
          match under bt with
          | TIface =>
              match bv with
              | GIface dt dv => if has_resolver dt then resolve f dt dv else Some (TIface, bv)
              | _ => None
              end
          | TMap _ | TMapK _ | TString | TSlice _ | TArray _ _ =>
              if glen bv >? 0 then Some (bt, bv) else None
          | _ => Some (bt, bv)
          end
      end
  end.

(* the ExpectObjVisitor around an inlined interface / folder: the outermost object start
   and finish are swallowed, everything else must happen inside it *)
Fixpoint expect_obj (depth : Z) (evs : list event) (acc : list event) : list event * option Z * Z :=
  match evs with
  | [] => (rev acc, None, depth)
  | e :: r =>
      match e with
      | EObjStart _ _ =>
          if depth =? 0 then expect_obj 1 r acc else expect_obj (depth + 1) r (e :: acc)
      | EObjEnd =>
          if depth =? 1 then expect_obj 0 r acc else expect_obj (depth - 1) r (e :: acc)
      | EXArr _ _ | EXObj _ _ => (rev acc, Some feUnsupported, depth)   (* expanded before *)
      | _ =>
          if depth =? 0 then (rev acc, Some feInlineNoObject, depth) else expect_obj depth r (e :: acc)
      end
  end.

(* embeddObjReFold around a folder that produced (evs, err) *)
Definition embed_obj (r : fr) : fr :=
  let '(evs, err) := r in
  let '(fw, e2, depth) := expect_obj 0 (flat_map expand evs) [] in
  match e2 with
  | Some e => (fw, Some e)
  | None =>
      match err with
      | Some e => (fw, Some e)
      | None => if depth =? 0 then (fw, None) else (fw, Some feMissingClose)
      end
  end.

(* structFoldLen: the announced member count; -1 when omitempty / inline fields make it
   depend on the value *)
Definition count_fields (fs : list (bytes * bytes * gtype)) : Z :=
  if existsb (fun f => match f with (_, tag, _) =>
                let o := snd (parse_tags tag) in t_omitempty o || t_squash o end) fs
  then -1
  else zlen (filter (fun f => match f with (name, tag, _) =>
                  exported name && negb (t_omit (snd (parse_tags tag))) end) fs).

(* compile-time check of getReflectFold: the error it returns, if any *)
Fixpoint cc (fuel : nat) (t : gtype) : option Z :=
  match fuel with
  | O => Some feUnsupported
  | S f =>
      match t with
      | TBool | TString | TNum _ | TIface => None
      | TUnsup => Some feUnsupported
      | TMapK _ => Some feMapKey
      | TPtr u | TSlice u | TArray _ u | TMap u | TNamed u => cc f u
      | TStruct fs =>
          (fix go (l : list (bytes * bytes * gtype)) : option Z :=
             match l with
             | [] => None
             | (name, tag, ft) :: r =>
                 if negb (exported name) then go r else
                 let o := snd (parse_tags tag) in
                 if t_squash o && t_omitempty o then Some feInlineOmitEmpty
                 else if t_omit o then go r
                 else
                   let here :=
                     if t_squash o then
                       match under (snd (base_type ft)) with
                       | TStruct _ | TMap _ | TMapK _ => cc f (snd (base_type ft))
                       | TIface => None
                       | _ => Some feSquashNeedObject
                       end
                     else cc f ft in
                   match here with Some e => Some e | None => go r end
             end) fs
      end
  end.

Fixpoint tsize (t : gtype) : nat :=
  match t with
  | TPtr u | TSlice u | TArray _ u | TMap u | TMapK u | TNamed u => S (tsize u)
  | TStruct fs => S ((fix go (l : list (bytes * bytes * gtype)) : nat :=
                        match l with [] => O | (_, _, ft) :: r => S (tsize ft + go r) end) fs)
  | _ => 1%nat
  end.

Definition cc_type (t : gtype) : option Z := cc (S (tsize t)) t.

(* [rf]: a compiled reflection folder applied to a value (getReflectFold(t)(C, v));
   [ftop]: foldInterfaceValue on a Go value of dynamic type t (top-level dispatch);
   [anyr]: foldAnyReflect = compile the dynamic type, then run. *)
Fixpoint rf (fuel : nat) (inl : bool) (t : gtype) (v : gvalue) : fr :=
  match fuel with
  | O => ([], Some feUnsupported)
  | S f =>
      let anyr (dt : gtype) (dv : gvalue) : fr :=
        match cc_type dt with Some e => ferr e | None => rf f false dt dv end in
      let elems (et : gtype) (l : list gvalue) : fr :=
        fold_right (fun x acc => rf f false et x ;; acc) (fok []) l in
      (* getReflectFoldMapKeys *)
      let mapkeys (et : gtype) (kvs : list (bytes * gvalue)) : fr :=
        fold_right (fun kv acc =>
           fok [EKey (fst kv)] ;;
           (if is_prim et then
              match prim_scalar true et (snd kv) with Some s => fok [EVal s] | None => ferr feUnsupported end
            else if gtype_eqb et TIface then
              match snd kv with
              | GIface dt dv => ftop f dt dv
              | _ => fok [EVal SNil]
              end
            else rf f false et (snd kv)) ;; acc) (fok []) kvs in
      let fields :=
        (fix fields (fs : list (bytes * bytes * gtype)) (vs : list gvalue) : fr :=
           match fs, vs with
           | (name, tag, ft) :: fr', fv :: vr =>
               if negb (exported name) then fields fr' vr else
               let '(tn, o) := parse_tags tag in
               if t_omit o then fields fr' vr
               else if t_squash o then
                 let '(n, bt) := base_type ft in
                 (match deref n fv with
                  | None => fok []          (* makeInlinePointerFold: a nil pointer inlines nothing *)
                  | Some bv =>
                      match under bt, bv with
                      | TStruct _, GStruct _ => rf f true bt bv
                      | TMap et, GMap kvs => mapkeys et kvs
                      | TMap _, _ => fok []
                      | TIface, GIface dt dv => embed_obj (anyr dt dv)
                      | TIface, _ => fok []
                      | _, _ => ferr feSquashNeedObject
                      end
                  end) ;; fields fr' vr
               else
                 let name' := field_name name tn in
                 (if t_omitempty o then
                    match resolve f ft fv with
                    | None => fok []
                    | Some (t', v') =>
                        fok [EKey name'] ;;
                        (match t', v' with
                         | TIface, GIface dt dv => anyr dt dv
                         | TIface, _ => fok [EVal SNil]
                         | _, _ => anyr t' v'
                         end)
                    end
                  else fok [EKey name'] ;; rf f false ft fv) ;; fields fr' vr
           | _, _ => fok []
           end) in
      match prim_fold false t v with
      | Some evs => fok evs
      | None =>
          match t with
          | TPtr _ =>
              let '(n, bt) := base_type t in
              match deref n v with
              | None => fok [EVal SNil]
              | Some bv => rf f false bt bv
              end
          | TStruct fs =>
              match v with
              | GStruct vs =>
                  if inl then fields fs vs   (* inlined struct: the fields without start / finish *)
                  else fok [EObjStart (count_fields fs) BAny] ;; fields fs vs ;; fok [EObjEnd]
              | _ => ferr feUnsupported
              end
          | TMap et | TNamed (TMap et) =>
              fok [EObjStart (glen v) BAny] ;; mapkeys et (gmap v) ;; fok [EObjEnd]
          | TSlice et | TArray _ et | TNamed (TSlice et) | TNamed (TArray _ et) =>
              fok [EArrStart (glen v) BAny] ;; elems et (glist v) ;; fok [EArrEnd]
          | TIface =>
              match v with
              | GIface dt dv => anyr dt dv
              | _ => fok [EVal SNil]
              end
          | TNamed u =>
              (* getReflectFoldPrimitiveKind: by kind *)
              match prim_scalar false u v with Some s => fok [EVal s] | None => ferr feUnsupported end
          | TMapK _ => ferr feMapKey
          | _ => ferr feUnsupported
          end
      end
  end
with ftop (fuel : nat) (t : gtype) (v : gvalue) : fr :=
  match fuel with
  | O => ([], Some feUnsupported)
  | S f =>
      let anyr (dt : gtype) (dv : gvalue) : fr :=
        match cc_type dt with Some e => ferr e | None => rf f false dt dv end in
      let ielem (x : gvalue) : fr :=
        match x with GIface dt dv => ftop f dt dv | _ => fok [EVal SNil] end in
      let fast (u : gtype) : option fr :=
        match prim_fold true u v with
        | Some evs => Some (fok evs)
        | None =>
            match u with
            | TSlice TIface =>
                Some (fok [EArrStart (glen v) BAny] ;;
                      fold_right (fun x acc => ielem x ;; acc) (fok []) (glist v) ;; fok [EArrEnd])
            | TMap TIface =>
                Some (fok [EObjStart (glen v) BAny] ;;
                      fold_right (fun kv acc => fok [EKey (fst kv)] ;; ielem (snd kv) ;; acc) (fok []) (gmap v) ;;
                      fok [EObjEnd])
            | _ => None
            end
        end in
      match fast t with
      | Some r => r
      | None =>
          match t with
          | TNamed ((TMap _ | TSlice _) as u) =>
              match fast u with Some r => r | None => anyr t v end
          | _ => anyr t v
          end
      end
  end.

Fixpoint vsize (v : gvalue) : nat :=
  match v with
  | GPtr x => S (vsize x)
  | GIface t x => S (tsize t + vsize x)
  | GList l => S (fold_right (fun x a => (vsize x + a)%nat) O l)
  | GMap l => S (fold_right (fun kv a => (vsize (snd kv) + a)%nat) O l)
  | GStruct l => S (fold_right (fun x a => (vsize x + a)%nat) O l)
  | _ => 1%nat
  end.

(* gotype.Fold(v, visitor) for a non-nil interface value of dynamic type t; a nil interface is GNil *)
Definition fold_value (t : gtype) (v : gvalue) : fr :=
  match v, t with
  | GNil, TIface => fok [EVal SNil]
  | _, _ => ftop (4 * (tsize t + vsize v) + 8) t v
  end.

(* ---------- with a failing visitor (C16): the events reach the visitor one by one ---------- *)
Definition fold_into (s : sink) (t : gtype) (v : gvalue) : sink * option Z :=
  let '(evs, err) := fold_value t v in
  let '(s', ok) := emit_all s evs in
  (s', if ok then err else Some err_injected).
