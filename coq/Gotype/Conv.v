(* Go numeric conversions T(v) between the 12 numeric kinds (plus byte), as the
   generated unfolders perform them: integers wrap (two's complement), integer -> float
   rounds to nearest even, float -> integer truncates toward zero (defined by Go only when
   the truncated value fits; the model wraps like amd64 does not - see [conv_defined]),
   float32 <-> float64 widen exactly / round to nearest even.  Floats are IEEE bit
   patterns.  No proofs here. *)
From SF Require Import Base.Prelude Core.Events.
Open Scope Z_scope.

Definition kind_bits (k : nkind) : Z :=
  match k with
  | KInt8 | KUint8 | KByte => 8 | KInt16 | KUint16 => 16 | KInt32 | KUint32 | KFloat32 => 32
  | _ => 64
  end.
Definition kind_signed (k : nkind) : bool :=
  match k with KInt8 | KInt16 | KInt32 | KInt64 | KInt => true | _ => false end.
Definition kind_float (k : nkind) : bool := match k with KFloat32 | KFloat64 => true | _ => false end.

(* ---------- IEEE 754 binary formats: mbits mantissa bits, ebits exponent bits ---------- *)
Inductive fval := FNaN | FInf (neg : bool) | FFin (neg : bool) (m : Z) (e : Z).   (* value = m * 2^e, m >= 0 *)

Definition fl_decode (mbits ebits bits : Z) : fval :=
  let neg := negb (bits / 2 ^ (mbits + ebits) mod 2 =? 0) in
  let ex := bits / 2 ^ mbits mod 2 ^ ebits in
  let mant := bits mod 2 ^ mbits in
  let bias := 2 ^ (ebits - 1) - 1 in
  if ex =? 2 ^ ebits - 1 then (if mant =? 0 then FInf neg else FNaN)
  else if ex =? 0 then FFin neg mant (1 - bias - mbits)
  else FFin neg (2 ^ mbits + mant) (ex - bias - mbits).

(* x * 2^s rounded to an integer, ties to even *)
Definition round_shift (x s : Z) : Z :=
  if 0 <=? s then x * 2 ^ s
  else
    let d := 2 ^ (- s) in
    let q := x / d in
    let r := x mod d in
    if 2 * r <? d then q
    else if d <? 2 * r then q + 1
    else if q mod 2 =? 0 then q else q + 1.

Definition fl_encode (mbits ebits : Z) (neg : bool) (m e : Z) : Z :=
  let bias := 2 ^ (ebits - 1) - 1 in
  let sign := if neg then 2 ^ (mbits + ebits) else 0 in
  if m =? 0 then sign
  else
    let top := Z.log2 m + e in                 (* exponent of the leading bit *)
    let emin := 1 - bias in
    let ex := Z.max top emin in                (* exponent the significand is scaled to *)
    let sig := round_shift m (e - (ex - mbits)) in   (* in [0, 2^(mbits+1)] *)
    (* sig = 2^(mbits+1) carries into the exponent by plain addition *)
    let field := (ex - emin) * 2 ^ mbits + sig in    (* normal: exponent field ex-emin+1 and the hidden bit of sig add up; subnormal: ex = emin *)
    let maxfield := (2 ^ ebits - 1) * 2 ^ mbits in
    sign + (if maxfield <=? field then maxfield else field).

(* NaN keeps being a NaN (quiet bit set); payloads are not compared by the harness *)
Definition fl_nan (mbits ebits : Z) : Z := (2 ^ ebits - 1) * 2 ^ mbits + 2 ^ (mbits - 1).
Definition fl_inf (mbits ebits : Z) (neg : bool) : Z :=
  (if neg then 2 ^ (mbits + ebits) else 0) + (2 ^ ebits - 1) * 2 ^ mbits.

Definition fmt_m (k : nkind) : Z := match k with KFloat32 => 23 | _ => 52 end.
Definition fmt_e (k : nkind) : Z := match k with KFloat32 => 8 | _ => 11 end.

(* integer value of a finite float, truncated toward zero *)
Definition trunc_fin (neg : bool) (m e : Z) : Z :=
  let a := if 0 <=? e then m * 2 ^ e else m / 2 ^ (- e) in
  if neg then - a else a.

(* the conversion dst(v) for a value delivered with kind src *)
Definition conv (src dst : nkind) (z : Z) : Z :=
  if kind_float src then
    match fl_decode (fmt_m src) (fmt_e src) z with
    | FNaN => if kind_float dst then (if nkind_eqb src dst then z else fl_nan (fmt_m dst) (fmt_e dst)) else 0
    | FInf neg => if kind_float dst then fl_inf (fmt_m dst) (fmt_e dst) neg else 0
    | FFin neg m e =>
        if kind_float dst then
          if nkind_eqb src dst then z else fl_encode (fmt_m dst) (fmt_e dst) neg m e
        else
          let t := trunc_fin neg m e in
          if kind_signed dst then wraps (kind_bits dst) t else wrapu (kind_bits dst) t
    end
  else if kind_float dst then
    fl_encode (fmt_m dst) (fmt_e dst) (z <? 0) (Z.abs z) 0
  else if kind_signed dst then wraps (kind_bits dst) z else wrapu (kind_bits dst) z.

(* where Go defines the result: everything except float -> integer of a value that does
   not fit (and NaN/Inf -> integer) *)
Definition conv_defined (src dst : nkind) (z : Z) : bool :=
  if kind_float src && negb (kind_float dst) then
    match fl_decode (fmt_m src) (fmt_e src) z with
    | FFin neg m e =>
        let t := trunc_fin neg m e in
        if kind_signed dst then in_s (kind_bits dst) t else in_u (kind_bits dst) t
    | _ => false
    end
  else true.
