(* Proofs about the unfolder model (Gotype/Unfold.v) against its L0 (Gotype/UnfoldSpec.v):
   C13 (skipping unknown members, interface{} targets), C10 (extended events / by-reference
   delivery), C14 (allocation bound), C17 (a completed document leaves nothing behind). *)
From Coq Require Import List NArith ZArith Bool Lia.
From Coq Require Import ZifyBool ZifyNat ZifyN.
From SF Require Import Base.Prelude Base.PreludeProofs Core.Events Core.EventsProofs Core.AdapterProofs.
From SF Require Import Gotype.Types Gotype.Conv Gotype.FoldSpec Gotype.Unfold Gotype.UnfoldSpec.
Import ListNotations.
Open Scope Z_scope.

Ltac Zify.zify_post_hook ::= Z.div_mod_to_equations.

(* ====================================================================== *)
(* Part 0: the anonymous loops of skip_value and uf, named                 *)
(* ====================================================================== *)

Definition skip_elems (f : nat) :=
  fix elems (g : nat) (evs : list event) : skres :=
    match g with
    | O => SkMore
    | S g' =>
        match evs with
        | [] => SkMore
        | EArrEnd :: r' => SkOk r'
        | _ => match skip_value f evs with SkOk r' => elems g' r' | x => x end
        end
    end.

Definition skip_mems (f : nat) :=
  fix mems (g : nat) (evs : list event) : skres :=
    match g with
    | O => SkMore
    | S g' =>
        match evs with
        | [] => SkMore
        | EObjEnd :: r' => SkOk r'
        | (EKey _ | EKeyRef _) :: r' => mems g' r'
        | _ => match skip_value f evs with SkOk r' => mems g' r' | x => x end
        end
    end.

Lemma skip_value_O evs : skip_value O evs = SkMore.
Proof. reflexivity. Qed.

Lemma skip_value_S f evs :
  skip_value (S f) evs =
  match evs with
  | [] => SkMore
  | EVal _ :: r | EStrRef _ :: r => SkOk r
  | EArrStart _ _ :: r => skip_elems f f r
  | EObjStart _ _ :: r => skip_mems f f r
  | _ => SkErr evs
  end.
Proof. reflexivity. Qed.

Lemma skip_elems_O f evs : skip_elems f O evs = SkMore.
Proof. reflexivity. Qed.

Lemma skip_elems_S f g evs :
  skip_elems f (S g) evs =
  match evs with
  | [] => SkMore
  | EArrEnd :: r' => SkOk r'
  | _ => match skip_value f evs with SkOk r' => skip_elems f g r' | x => x end
  end.
Proof. reflexivity. Qed.

Lemma skip_mems_O f evs : skip_mems f O evs = SkMore.
Proof. reflexivity. Qed.

Lemma skip_mems_S f g evs :
  skip_mems f (S g) evs =
  match evs with
  | [] => SkMore
  | EObjEnd :: r' => SkOk r'
  | (EKey _ | EKeyRef _) :: r' => skip_mems f g r'
  | _ => match skip_value f evs with SkOk r' => skip_mems f g r' | x => x end
  end.
Proof. reflexivity. Qed.

(* the final value of a slice target *)
Definition slice_final (wasnil : bool) (cur : list gvalue) : gvalue :=
  match cur with [] => if wasnil then GNil else GList [] | _ => GList cur end.

Definition slice_loop (f : nat) (e : gtype) (wasnil reflslice : bool) :=
  fix elems (g : nat) (cur spare : list gvalue) (idx : nat) (evs : list event) : ur :=
    match g with
    | O => UErr evs
    | S g' =>
        match evs with
        | EArrEnd :: r' =>
            UOk (match cur with [] => if wasnil then GNil else GList [] | _ => GList cur end) r'
        | _ =>
            let have := Nat.ltb idx (length cur) in
            let oldel := if have then nth idx cur GNil
                         else if reflslice then hd (zero_of e) spare else zero_of e in
            let spare' := if have then spare else tl spare in
            let put (v : gvalue) := if have then replace_nth idx v cur else cur ++ [v] in
            match evs with
            | EVal SNil :: r' =>
                if reflslice then elems g' (put oldel) spare' (S idx) r'
                else match uf f e oldel evs with
                     | UOk v r'' => elems g' (put v) spare' (S idx) r''
                     | UErr x => UErr x
                     end
            | _ =>
                match uf f e oldel evs with
                | UOk v r'' => elems g' (put v) spare' (S idx) r''
                | UErr x => UErr x
                end
            end
        end
    end.

Definition map_loop (f : nat) (e : gtype) (reflmap : bool) :=
  fix mems (g : nat) (cur : option (list (bytes * gvalue))) (evs : list event) : ur :=
    match g with
    | O => UErr evs
    | S g' =>
        match evs with
        | EObjEnd :: r' => UOk (match cur with Some m => GMap m | None => GNil end) r'
        | (EKey k | EKeyRef k) :: r' =>
            let m := match cur with Some m => m | None => [] end in
            match (match r' with
                   | EVal SNil :: r'' => if reflmap then UOk (zero_of e) r'' else uf f e (zero_of e) r'
                   | _ => uf f e (zero_of e) r'
                   end) with
            | UOk v r'' => mems g' (Some (map_put k v m)) r''
            | UErr x => UErr x
            end
        | _ => UErr evs
        end
    end.

Definition struct_loop (f : nat) (tab : ftable) :=
  fix mems (g : nat) (cur : gvalue) (evs : list event) : ur :=
    match g with
    | O => UErr evs
    | S g' =>
        match evs with
        | EObjEnd :: r' => UOk cur r'
        | (EKey k | EKeyRef k) :: r' =>
            match assoc_key k tab with
            | None =>
                match skip_value (S (length r')) r' with
                | SkOk r'' => mems g' cur r''
                | SkMore => UErr []
                | SkErr x => UErr x
                end
            | Some (path, ft) =>
                match uf f ft (get_path path cur) r' with
                | UOk v r'' => mems g' (set_path path v cur) r''
                | UErr x => UErr x
                end
            end
        | _ => UErr evs
        end
    end.

Definition slice_start (e : gtype) (old : gvalue) (l : Z) : list gvalue * list gvalue * bool :=
  match old with
  | GList xs => if l <? zlen xs then (firstn (Z.to_nat l) xs, skipn (Z.to_nat l) xs, false) else (xs, [], false)
  | _ => (repeat (zero_of e) (Z.to_nat (Z.min l max_initial_len)), [], l =? 0)
  end.

Definition is_refl (e : gtype) : bool := negb (prim_kind e || gtype_eqb e TIface).

Definition map_start (e : gtype) (old : gvalue) : option (list (bytes * gvalue)) :=
  match old with
  | GMap m => Some m
  | _ => if is_refl e then Some [] else None
  end.

Lemma uf_O t old evs : uf O t old evs = UErr evs.
Proof. reflexivity. Qed.

Lemma uf_S f t old evs :
  uf (S f) t old evs =
  match under t with
  | TBool =>
      match evs with
      | EVal (SBool b) :: r => UOk (GBool b) r
      | EVal SNil :: r => UOk (GBool false) r
      | _ => UErr evs
      end
  | TString =>
      match evs with
      | EVal (SStr s) :: r => UOk (GStr s) r
      | EVal SNil :: r => UOk (GStr []) r
      | _ => UErr evs
      end
  | TNum k =>
      match evs with
      | EVal (SNum k' z) :: r => UOk (GNum (conv k' k z)) r
      | EVal SNil :: r => UOk (GNum 0) r
      | _ => UErr evs
      end
  | TIface =>
      match evs with
      | EVal s :: r => UOk (ifc_scalar s) r
      | EArrStart _ bt :: _ =>
          let st := TSlice (ifc_elem bt) in
          match uf f st GNil evs with UOk v r => UOk (GIface st v) r | e => e end
      | EObjStart _ bt :: _ =>
          let mt := TMap (ifc_elem bt) in
          match uf f mt GNil evs with UOk v r => UOk (GIface mt v) r | e => e end
      | _ => UErr evs
      end
  | TPtr u =>
      match evs with
      | EVal SNil :: r => UOk GNil r
      | _ => match uf f u (zero_of u) evs with UOk v r => UOk (GPtr v) r | e => e end
      end
  | TSlice e =>
      match evs with
      | EArrStart l _ :: r =>
          let '(cur, spare, wasnil) := slice_start e old (Z.max l 0) in
          slice_loop f e wasnil (is_refl e) (S (length r)) cur spare O r
      | _ => UErr evs
      end
  | TMap e =>
      match evs with
      | EObjStart _ _ :: r => map_loop f e (is_refl e) (S (length r)) (map_start e old) r
      | _ => UErr evs
      end
  | TStruct fs =>
      match evs with
      | EObjStart _ _ :: r =>
          match field_table (S (ftsize t)) fs O with
          | inl _ => UErr evs
          | inr tab => struct_loop f tab (S (length r)) old r
          end
      | _ => UErr evs
      end
  | _ => UErr evs
  end.
Proof.
  (* the tactic unifier is very slow on this conversion (the loops are applied to
     [S (length r)] and the compiled matches duplicate their default branches); the VM
     checks it in a few seconds *)
  vm_cast_no_check (eq_refl (uf (S f) t old evs)).
Qed.

Arguments uf : simpl never.
Arguments skip_value : simpl never.

Lemma slice_loop_O f e wasnil refl cur spare idx evs :
  slice_loop f e wasnil refl O cur spare idx evs = UErr evs.
Proof. reflexivity. Qed.

Definition sl_have (cur : list gvalue) (idx : nat) : bool := Nat.ltb idx (length cur).
Definition sl_oldel (e : gtype) (refl : bool) (cur spare : list gvalue) (idx : nat) : gvalue :=
  if sl_have cur idx then nth idx cur GNil
  else if refl then hd (zero_of e) spare else zero_of e.
Definition sl_spare (cur spare : list gvalue) (idx : nat) : list gvalue :=
  if sl_have cur idx then spare else tl spare.
Definition sl_put (cur : list gvalue) (idx : nat) (v : gvalue) : list gvalue :=
  if sl_have cur idx then replace_nth idx v cur else cur ++ [v].

Lemma slice_loop_S f e wasnil refl g cur spare idx evs :
  slice_loop f e wasnil refl (S g) cur spare idx evs =
  match evs with
  | EArrEnd :: r' => UOk (slice_final wasnil cur) r'
  | _ =>
      match evs with
      | EVal SNil :: r' =>
          if refl then slice_loop f e wasnil refl g (sl_put cur idx (sl_oldel e refl cur spare idx)) (sl_spare cur spare idx) (S idx) r'
          else match uf f e (sl_oldel e refl cur spare idx) evs with
               | UOk v r'' => slice_loop f e wasnil refl g (sl_put cur idx v) (sl_spare cur spare idx) (S idx) r''
               | UErr x => UErr x
               end
      | _ =>
          match uf f e (sl_oldel e refl cur spare idx) evs with
          | UOk v r'' => slice_loop f e wasnil refl g (sl_put cur idx v) (sl_spare cur spare idx) (S idx) r''
          | UErr x => UErr x
          end
      end
  end.
Proof. reflexivity. Qed.

Lemma map_loop_O f e refl cur evs : map_loop f e refl O cur evs = UErr evs.
Proof. reflexivity. Qed.

Definition opt_map (cur : option (list (bytes * gvalue))) : list (bytes * gvalue) :=
  match cur with Some m => m | None => [] end.
Definition map_final (cur : option (list (bytes * gvalue))) : gvalue :=
  match cur with Some m => GMap m | None => GNil end.

Lemma map_loop_S f e refl g cur evs :
  map_loop f e refl (S g) cur evs =
  match evs with
  | EObjEnd :: r' => UOk (map_final cur) r'
  | (EKey k | EKeyRef k) :: r' =>
      match (match r' with
             | EVal SNil :: r'' => if refl then UOk (zero_of e) r'' else uf f e (zero_of e) r'
             | _ => uf f e (zero_of e) r'
             end) with
      | UOk v r'' => map_loop f e refl g (Some (map_put k v (opt_map cur))) r''
      | UErr x => UErr x
      end
  | _ => UErr evs
  end.
Proof. reflexivity. Qed.

Lemma struct_loop_O f tab cur evs : struct_loop f tab O cur evs = UErr evs.
Proof. reflexivity. Qed.

Lemma struct_loop_S f tab g cur evs :
  struct_loop f tab (S g) cur evs =
  match evs with
  | EObjEnd :: r' => UOk cur r'
  | (EKey k | EKeyRef k) :: r' =>
      match assoc_key k tab with
      | None =>
          match skip_value (S (length r')) r' with
          | SkOk r'' => struct_loop f tab g cur r''
          | SkMore => UErr []
          | SkErr x => UErr x
          end
      | Some (path, ft) =>
          match uf f ft (get_path path cur) r' with
          | UOk v r'' => struct_loop f tab g (set_path path v cur) r''
          | UErr x => UErr x
          end
      end
  | _ => UErr evs
  end.
Proof. reflexivity. Qed.

#[global] Opaque slice_loop map_loop struct_loop skip_elems skip_mems.

(* ====================================================================== *)
(* Part 1: C13 - skipping a value                                          *)
(* ====================================================================== *)

(* trees without extended events (by-reference strings and keys allowed) *)
Fixpoint plain (t : tree) : bool :=
  match t with
  | TVal _ _ => true
  | TArr _ _ es => forallb plain es
  | TObj _ _ ms => forallb (fun m => plain (snd m)) ms
  | _ => false
  end.

(* trees as the unfolder sees them: no extended events, nothing by reference *)
Fixpoint strict (t : tree) : bool :=
  match t with
  | TVal _ r => negb r
  | TArr _ _ es => forallb strict es
  | TObj _ _ ms => forallb (fun m => negb (snd (fst m)) && strict (snd m)) ms
  | _ => false
  end.

Lemma strict_expand : forall t, strict (expand_tree t) = true.
Proof.
  induction t as [s r|len bt es IH|len bt ms IH|bt es|bt ms] using tree_ind'; cbn [expand_tree strict].
  - reflexivity.
  - rewrite forallb_map. apply forallb_forall. rewrite Forall_forall in IH. exact IH.
  - rewrite forallb_map. apply forallb_forall. rewrite Forall_forall in IH. intros m Hm. cbn [fst snd negb andb].
    apply IH. exact Hm.
  - rewrite forallb_map. apply forallb_forall. reflexivity.
  - rewrite forallb_map. apply forallb_forall. reflexivity.
Qed.

Lemma strict_plain : forall t, strict t = true -> plain t = true.
Proof.
  induction t as [s r|len bt es IH|len bt ms IH|bt es|bt ms] using tree_ind'; cbn [strict plain]; intro H;
    try reflexivity; try discriminate H.
  - rewrite forallb_forall in *. rewrite Forall_forall in IH. intros x Hx. apply IH; auto.
  - rewrite forallb_forall in *. rewrite Forall_forall in IH. intros x Hx. apply IH; auto.
    specialize (H x Hx). apply andb_true_iff in H. apply H.
Qed.

Lemma plain_expand t : plain (expand_tree t) = true.
Proof. apply strict_plain, strict_expand. Qed.

Lemma flatten_members_length_ge2 ms : (2 * length ms <= length (flatten_members ms))%nat.
Proof.
  induction ms as [|[[k r] e] ms IH]; [cbn; lia|].
  rewrite flatten_members_cons. cbn [length]. rewrite app_length.
  pose proof (flatten_length_pos e). lia.
Qed.

Lemma skip_elems_step f g e rest :
  skip_elems f (S g) (flatten e ++ rest) =
  match skip_value f (flatten e ++ rest) with SkOk r' => skip_elems f g r' | x => x end.
Proof.
  rewrite skip_elems_S.
  destruct (flatten_head e) as (h & tl & E & Hh). rewrite E. cbn [app].
  destruct h; try discriminate Hh; reflexivity.
Qed.

Lemma skip_mems_step f g e rest :
  skip_mems f (S g) (flatten e ++ rest) =
  match skip_value f (flatten e ++ rest) with SkOk r' => skip_mems f g r' | x => x end.
Proof.
  rewrite skip_mems_S.
  destruct (flatten_head e) as (h & tl & E & Hh). rewrite E. cbn [app].
  destruct h; try discriminate Hh; reflexivity.
Qed.

Lemma skip_mems_key f g k r rest :
  skip_mems f (S g) (key_event k r :: rest) = skip_mems f g rest.
Proof. rewrite skip_mems_S. destruct r; reflexivity. Qed.

Definition skip_at (t : tree) : Prop :=
  forall rest fuel, (length (flatten t) < fuel)%nat -> skip_value fuel (flatten t ++ rest) = SkOk rest.

Lemma skip_elems_flatten f es :
  Forall skip_at es ->
  forall g rest, (length es < g)%nat -> (length (flatten_elems es) < f)%nat ->
    skip_elems f g (flatten_elems es ++ EArrEnd :: rest) = SkOk rest.
Proof.
  induction 1 as [|e es He Hes IH]; intros g rest Hg Hf.
  - destruct g as [|g]; [cbn in Hg; lia|]. rewrite skip_elems_S. reflexivity.
  - destruct g as [|g]; [cbn in Hg; lia|].
    rewrite flatten_elems_cons in *. rewrite app_length in Hf. rewrite <- app_assoc.
    rewrite skip_elems_step. rewrite He by lia. apply IH; cbn [length] in Hg; lia.
Qed.

Lemma skip_mems_flatten f ms :
  Forall (fun m => skip_at (snd m)) ms ->
  forall g rest, (2 * length ms < g)%nat -> (length (flatten_members ms) < f)%nat ->
    skip_mems f g (flatten_members ms ++ EObjEnd :: rest) = SkOk rest.
Proof.
  induction 1 as [|[[k r] e] ms He Hes IH]; intros g rest Hg Hf.
  - destruct g as [|g]; [cbn in Hg; lia|]. rewrite skip_mems_S. reflexivity.
  - cbn [length] in Hg. destruct g as [|[|g]]; try lia.
    rewrite flatten_members_cons in *. cbn [length] in Hf. rewrite app_length in Hf.
    cbn [snd] in He. rewrite <- app_comm_cons, <- app_assoc.
    rewrite skip_mems_key, skip_mems_step. rewrite He by lia. apply IH; lia.
Qed.

Theorem skip_plain : forall t, plain t = true -> skip_at t.
Proof.
  induction t as [s r|len bt es IH|len bt ms IH|bt es|bt ms] using tree_ind';
    intros Hp rest fuel Hfuel; try discriminate Hp.
  - destruct fuel as [|f]; [lia|]. rewrite skip_value_S. destruct s, r; reflexivity.
  - rewrite flatten_arr in *. cbn [length] in Hfuel. rewrite app_length in Hfuel. cbn [length] in Hfuel.
    destruct fuel as [|f]; [lia|]. cbn [app]. rewrite skip_value_S, <- app_assoc. cbn [app].
    pose proof (flatten_elems_length_ge es).
    apply skip_elems_flatten; try lia.
    cbn [plain] in Hp. rewrite forallb_forall in Hp. rewrite Forall_forall in *. intros x Hx. apply IH; auto.
  - rewrite flatten_obj in *. cbn [length] in Hfuel. rewrite app_length in Hfuel. cbn [length] in Hfuel.
    destruct fuel as [|f]; [lia|]. cbn [app]. rewrite skip_value_S, <- app_assoc. cbn [app].
    pose proof (flatten_members_length_ge2 ms).
    apply skip_mems_flatten; try lia.
    cbn [plain] in Hp. rewrite forallb_forall in Hp. rewrite Forall_forall in *. intros x Hx. apply IH; auto.
Qed.

(* C13: an unknown member's value is skipped as a whole, whatever its shape.  The fuel the
   struct unfolder passes is the number of remaining (expanded) events plus one, which is
   always enough. *)
Theorem C13_skip : forall t rest fuel,
  (length (flatten (expand_tree t)) < fuel)%nat ->
  skip_value fuel (flatten (expand_tree t) ++ rest) = SkOk rest.
Proof. intros t rest fuel H. apply skip_plain; [apply plain_expand|exact H]. Qed.
Print Assumptions C13_skip.

Corollary C13_skip_struct_fuel : forall t rest,
  skip_value (S (length (flatten (expand_tree t) ++ rest))) (flatten (expand_tree t) ++ rest) = SkOk rest.
Proof. intros t rest. apply C13_skip. rewrite app_length. lia. Qed.

(* the bound must count the expanded events: an extended event is a single event *)
Example C13_skip_fuel_counts_expanded_events :
  let t := TXArr BInt [SNum KInt 1; SNum KInt 2; SNum KInt 3] in
  (length (flatten t) < 2)%nat /\ skip_value 2 (flatten (expand_tree t) ++ []) = SkMore.
Proof. split; [cbn; lia | reflexivity]. Qed.

(* ---------- a value that is not complete yet: SkMore, never an error ---------- *)
Definition skip_total_at (t : tree) : Prop :=
  forall fuel rest, skip_value fuel (flatten t ++ rest) = SkOk rest \/ skip_value fuel (flatten t ++ rest) = SkMore.
Definition skip_prefix_at (t : tree) : Prop :=
  forall fuel p q, flatten t = p ++ q -> q <> [] -> skip_value fuel p = SkMore.

Section SkipLoop.
  Variable f : nat.
  Variable L : nat -> list event -> skres.
  Hypothesis L_O : forall evs, L O evs = SkMore.
  Hypothesis L_nil : forall g, L g [] = SkMore.
  Hypothesis L_step : forall g h p, starts_value h = true ->
    L (S g) (h :: p) = match skip_value f (h :: p) with SkOk r' => L g r' | x => x end.

  Lemma loop_value_total e R :
    skip_total_at e ->
    (forall g rest, L g (R ++ rest) = SkOk rest \/ L g (R ++ rest) = SkMore) ->
    forall g rest, L g (flatten e ++ R ++ rest) = SkOk rest \/ L g (flatten e ++ R ++ rest) = SkMore.
  Proof.
    intros He HR g rest. destruct g as [|g]; [right; apply L_O|].
    destruct (flatten_head e) as (h & tl & E & Hh).
    pose proof (He f (R ++ rest)) as He'. rewrite E in *. cbn [app] in *.
    rewrite L_step by exact Hh.
    destruct He' as [He'|He']; rewrite He'; [apply HR|right; reflexivity].
  Qed.

  Lemma loop_value_prefix e R :
    skip_total_at e -> skip_prefix_at e ->
    (forall g p q, R = p ++ q -> q <> [] -> L g p = SkMore) ->
    forall g p q, flatten e ++ R = p ++ q -> q <> [] -> L g p = SkMore.
  Proof.
    intros Ht He HR g p q E Hq. destruct g as [|g]; [apply L_O|].
    apply app_eq_app in E. destruct E as (l & [[E1 E2]|[E1 E2]]).
    - (* p is a prefix of flatten e *)
      destruct l as [|x l].
      + rewrite app_nil_r in E1. cbn [app] in E2. subst p q.
        destruct (flatten_head e) as (h & tl & E & Hh). pose proof (Ht f []) as Ht'. rewrite app_nil_r in Ht'.
        rewrite E in *. rewrite L_step by exact Hh.
        destruct Ht' as [Ht'|Ht']; rewrite Ht'; [|reflexivity].
        apply (HR g [] R); [reflexivity|exact Hq].
      + destruct p as [|h p]; [apply L_nil|].
        assert (Hh : starts_value h = true).
        { destruct (flatten_head e) as (h' & tl & E & Hh). rewrite E in E1. cbn [app] in E1. injection E1 as -> _. exact Hh. }
        rewrite L_step by exact Hh.
        rewrite (He f (h :: p) (x :: l) E1) by discriminate. reflexivity.
    - subst p.
      destruct (flatten_head e) as (h & tl & E & Hh).
      pose proof (Ht f l) as Ht'. rewrite E in *. cbn [app] in *. rewrite L_step by exact Hh.
      destruct Ht' as [Ht'|Ht']; rewrite Ht'; [|reflexivity].
      apply (HR g l q); assumption.
  Qed.
End SkipLoop.

Lemma skip_elems_nil f g : skip_elems f g [] = SkMore.
Proof. destruct g; reflexivity. Qed.
Lemma skip_mems_nil f g : skip_mems f g [] = SkMore.
Proof. destruct g; reflexivity. Qed.
Lemma skip_elems_step' f g h p : starts_value h = true ->
  skip_elems f (S g) (h :: p) = match skip_value f (h :: p) with SkOk r' => skip_elems f g r' | x => x end.
Proof. intro Hh. rewrite skip_elems_S. destruct h; try discriminate Hh; reflexivity. Qed.
Lemma skip_mems_step' f g h p : starts_value h = true ->
  skip_mems f (S g) (h :: p) = match skip_value f (h :: p) with SkOk r' => skip_mems f g r' | x => x end.
Proof. intro Hh. rewrite skip_mems_S. destruct h; try discriminate Hh; reflexivity. Qed.

Lemma single_split {A} (x : A) p q : [x] = p ++ q -> q <> [] -> p = [] /\ q = [x].
Proof.
  intros E Hq. destruct p as [|y p]; [split; [reflexivity|symmetry; exact E]|].
  cbn [app] in E. injection E as _ E. destruct p; destruct q; try discriminate E. contradiction.
Qed.

Lemma skip_elems_total f es : Forall skip_total_at es ->
  forall g rest, skip_elems f g ((flatten_elems es ++ [EArrEnd]) ++ rest) = SkOk rest \/
                 skip_elems f g ((flatten_elems es ++ [EArrEnd]) ++ rest) = SkMore.
Proof.
  induction 1 as [|e es He Hes IH]; intros g rest.
  - destruct g as [|g]; [right; reflexivity|left]. rewrite skip_elems_S. reflexivity.
  - rewrite flatten_elems_cons.
    replace (((flatten e ++ flatten_elems es) ++ [EArrEnd]) ++ rest)
      with (flatten e ++ (flatten_elems es ++ [EArrEnd]) ++ rest) by (rewrite <- !app_assoc; reflexivity).
    apply (loop_value_total f (skip_elems f) (skip_elems_O f) (skip_elems_step' f) e _ He IH).
Qed.

Lemma skip_mems_total f ms : Forall (fun m => skip_total_at (snd m)) ms ->
  forall g rest, skip_mems f g ((flatten_members ms ++ [EObjEnd]) ++ rest) = SkOk rest \/
                 skip_mems f g ((flatten_members ms ++ [EObjEnd]) ++ rest) = SkMore.
Proof.
  induction 1 as [|[[k r] e] ms He Hes IH]; intros g rest.
  - destruct g as [|g]; [right; reflexivity|left]. rewrite skip_mems_S. reflexivity.
  - rewrite flatten_members_cons.
    replace (((key_event k r :: flatten e ++ flatten_members ms) ++ [EObjEnd]) ++ rest)
      with (key_event k r :: flatten e ++ (flatten_members ms ++ [EObjEnd]) ++ rest)
      by (cbn [app]; rewrite <- !app_assoc; reflexivity).
    destruct g as [|g]; [right; reflexivity|]. rewrite skip_mems_key.
    apply (loop_value_total f (skip_mems f) (skip_mems_O f) (skip_mems_step' f) e _ He IH).
Qed.

Theorem skip_total : forall t, plain t = true -> skip_total_at t.
Proof.
  induction t as [s r|len bt es IH|len bt ms IH|bt es|bt ms] using tree_ind';
    intros Hp fuel rest; try discriminate Hp.
  - destruct fuel as [|f]; [right; reflexivity|left]. rewrite skip_value_S. destruct s, r; reflexivity.
  - destruct fuel as [|f]; [right; reflexivity|]. rewrite flatten_arr. cbn [app]. rewrite skip_value_S.
    apply skip_elems_total.
    cbn [plain] in Hp. rewrite forallb_forall in Hp. rewrite Forall_forall in *. intros x Hx. apply IH; auto.
  - destruct fuel as [|f]; [right; reflexivity|]. rewrite flatten_obj. cbn [app]. rewrite skip_value_S.
    apply skip_mems_total.
    cbn [plain] in Hp. rewrite forallb_forall in Hp. rewrite Forall_forall in *. intros x Hx. apply IH; auto.
Qed.

Lemma skip_elems_prefix f es : Forall skip_total_at es -> Forall skip_prefix_at es ->
  forall g p q, flatten_elems es ++ [EArrEnd] = p ++ q -> q <> [] -> skip_elems f g p = SkMore.
Proof.
  intros Ht Hp. induction Hp as [|e es He Hes IH]; intros g p q E Hq.
  - apply single_split in E; [|exact Hq]. destruct E as [-> _]. apply skip_elems_nil.
  - inversion Ht as [|? ? Ht1 Ht2]; subst.
    rewrite flatten_elems_cons, <- app_assoc in E.
    exact (loop_value_prefix f (skip_elems f) (skip_elems_O f) (skip_elems_nil f) (skip_elems_step' f) e _ Ht1 He (IH Ht2) g p q E Hq).
Qed.

Lemma skip_mems_prefix f ms : Forall (fun m => skip_total_at (snd m)) ms -> Forall (fun m => skip_prefix_at (snd m)) ms ->
  forall g p q, flatten_members ms ++ [EObjEnd] = p ++ q -> q <> [] -> skip_mems f g p = SkMore.
Proof.
  intros Ht Hp. induction Hp as [|[[k r] e] ms He Hes IH]; intros g p q E Hq.
  - apply single_split in E; [|exact Hq]. destruct E as [-> _]. apply skip_mems_nil.
  - inversion Ht as [|? ? Ht1 Ht2]; subst.
    rewrite flatten_members_cons, <- app_comm_cons, <- app_assoc in E.
    destruct p as [|x p]; [apply skip_mems_nil|].
    cbn [app] in E. injection E as <- E.
    destruct g as [|g]; [reflexivity|]. rewrite skip_mems_key.
    exact (loop_value_prefix f (skip_mems f) (skip_mems_O f) (skip_mems_nil f) (skip_mems_step' f) e _ Ht1 He (IH Ht2) g p q E Hq).
Qed.

Theorem skip_prefix : forall t, plain t = true -> skip_prefix_at t.
Proof.
  induction t as [s r|len bt es IH|len bt ms IH|bt es|bt ms] using tree_ind';
    intros Hp fuel p q E Hq; try discriminate Hp.
  - assert (p = []) as ->.
    { destruct s, r; cbn [flatten] in E; apply single_split in E; tauto. }
    destruct fuel; reflexivity.
  - rewrite flatten_arr in E. destruct p as [|x p]; [destruct fuel; reflexivity|].
    cbn [app] in E. injection E as <- E.
    destruct fuel as [|f]; [reflexivity|]. rewrite skip_value_S.
    cbn [plain] in Hp. rewrite forallb_forall in Hp.
    apply (skip_elems_prefix f es) with (q := q); try assumption.
    + apply Forall_forall. intros y Hy. apply skip_total. auto.
    + rewrite Forall_forall in *. intros y Hy. apply IH; auto.
  - rewrite flatten_obj in E. destruct p as [|x p]; [destruct fuel; reflexivity|].
    cbn [app] in E. injection E as <- E.
    destruct fuel as [|f]; [reflexivity|]. rewrite skip_value_S.
    cbn [plain] in Hp. rewrite forallb_forall in Hp.
    apply (skip_mems_prefix f ms) with (q := q); try assumption.
    + apply Forall_forall. intros y Hy. apply skip_total. auto.
    + rewrite Forall_forall in *. intros y Hy. apply IH; auto.
Qed.

(* C13: while the skipped value is incomplete the ignore unfolder asks for more - with any
   fuel, it never reports an error *)
Theorem C13_skip_prefix : forall t p q fuel,
  flatten (expand_tree t) = p ++ q -> q <> [] -> skip_value fuel p = SkMore.
Proof. intros t p q fuel E Hq. exact (skip_prefix _ (plain_expand t) fuel p q E Hq). Qed.
Print Assumptions C13_skip_prefix.

(* with any fuel a complete value is skipped exactly or not at all *)
Theorem C13_skip_total : forall t rest fuel,
  skip_value fuel (flatten (expand_tree t) ++ rest) = SkOk rest \/
  skip_value fuel (flatten (expand_tree t) ++ rest) = SkMore.
Proof. intros t rest fuel. apply skip_total, plain_expand. Qed.

(* ====================================================================== *)
(* Part 2: C13 - interface{} targets hold the generic value of the stream   *)
(* ====================================================================== *)

Arguments conv : simpl never.

Lemma fl_decode_inf_32 z neg : 0 <= z < 2 ^ 32 -> fl_decode 23 8 z = FInf neg -> fl_inf 23 8 neg = z.
Proof.
  unfold fl_decode, fl_inf. intros Hz.
  change (2 ^ (23 + 8)) with 2147483648. change (2 ^ 23) with 8388608. change (2 ^ 8) with 256.
  change (2 ^ 32) with 4294967296 in Hz.
  destruct (z / 8388608 mod 256 =? 256 - 1) eqn:E1.
  - destruct (z mod 8388608 =? 0) eqn:E2; [|discriminate].
    intro H. injection H as <-.
    destruct (z / 2147483648 mod 2 =? 0) eqn:E3; cbn [negb]; lia.
  - destruct (z / 8388608 mod 256 =? 0); discriminate.
Qed.

Lemma fl_decode_inf_64 z neg : 0 <= z < 2 ^ 64 -> fl_decode 52 11 z = FInf neg -> fl_inf 52 11 neg = z.
Proof.
  unfold fl_decode, fl_inf. intros Hz.
  change (2 ^ (52 + 11)) with 9223372036854775808. change (2 ^ 52) with 4503599627370496. change (2 ^ 11) with 2048.
  change (2 ^ 64) with 18446744073709551616 in Hz.
  destruct (z / 4503599627370496 mod 2048 =? 2048 - 1) eqn:E1.
  - destruct (z mod 4503599627370496 =? 0) eqn:E2; [|discriminate].
    intro H. injection H as <-.
    destruct (z / 9223372036854775808 mod 2 =? 0) eqn:E3; cbn [negb]; lia.
  - destruct (z / 4503599627370496 mod 2048 =? 0); discriminate.
Qed.

(* converting a value to its own kind is the identity (on values of that kind) *)
Lemma conv_same_kind k z : nkind_ok k z = true -> conv k k z = z.
Proof.
  intro H. unfold conv.
  destruct k; cbn [kind_float kind_signed kind_bits nkind_ok fmt_m fmt_e] in *;
    try (apply wraps_small; [lia|]; unfold in_s in H; lia);
    try (apply wrapu_small; [lia|]; unfold in_u in H; lia).
  - unfold in_u in H. destruct (fl_decode 23 8 z) eqn:E; try reflexivity.
    apply fl_decode_inf_32; [lia|exact E].
  - unfold in_u in H. destruct (fl_decode 52 11 z) eqn:E; try reflexivity.
    apply fl_decode_inf_64; [lia|exact E].
Qed.

Lemma conv_byte_uint8 z : in_u 8 z = true -> conv KByte KUint8 z = z.
Proof. intro H. unfold conv. cbn [kind_float kind_signed kind_bits]. apply wrapu_small; [lia|]. unfold in_u in H. lia. Qed.

Lemma gmap_put_eq k v m : gmap_put k v m = map_put k v m.
Proof.
  induction m as [|[k' v'] m IH]; [reflexivity|].
  cbn [gmap_put map_put]. rewrite IH. reflexivity.
Qed.

Lemma ifc_elem_eq bt : ifc_elem bt = gen_elem_type bt.
Proof. destruct bt; reflexivity. Qed.

Lemma is_refl_ifc bt : is_refl (gen_elem_type bt) = false.
Proof. destruct bt; reflexivity. Qed.

Lemma ifc_scalar_eq s : ifc_scalar s = gen_scalar s.
Proof. reflexivity. Qed.

Definition gen_typed_tree (e : tree) : gvalue := match e with TVal s _ => gen_typed s | _ => GNil end.
Definition gen_elem (bt : btype) : tree -> gvalue :=
  match gen_elem_type bt with TIface => generic | _ => gen_typed_tree end.

Lemma generic_arr len bt es :
  generic (TArr len bt es) = gen_list (gen_elem_type bt) (map (gen_elem bt) es).
Proof. destruct bt; reflexivity. Qed.

Lemma generic_obj len bt ms :
  generic (TObj len bt ms) = gen_map (gen_elem_type bt) (map (fun m => (fst (fst m), gen_elem bt (snd m))) ms).
Proof. destruct bt; reflexivity. Qed.

(* ---------- specialised unfolding lemmas ---------- *)
Lemma uf_iface_val f old s r : uf (S f) TIface old (EVal s :: r) = UOk (ifc_scalar s) r.
Proof. rewrite uf_S. reflexivity. Qed.

Lemma uf_iface_arr f old l bt r :
  uf (S f) TIface old (EArrStart l bt :: r) =
  match uf f (TSlice (ifc_elem bt)) GNil (EArrStart l bt :: r) with
  | UOk v r' => UOk (GIface (TSlice (ifc_elem bt)) v) r'
  | UErr x => UErr x
  end.
Proof. rewrite uf_S. reflexivity. Qed.

Lemma uf_iface_obj f old l bt r :
  uf (S f) TIface old (EObjStart l bt :: r) =
  match uf f (TMap (ifc_elem bt)) GNil (EObjStart l bt :: r) with
  | UOk v r' => UOk (GIface (TMap (ifc_elem bt)) v) r'
  | UErr x => UErr x
  end.
Proof. rewrite uf_S. reflexivity. Qed.

Lemma uf_slice f t e old l bt r : under t = TSlice e ->
  uf (S f) t old (EArrStart l bt :: r) =
  let '(cur, spare, wasnil) := slice_start e old (Z.max l 0) in
  slice_loop f e wasnil (is_refl e) (S (length r)) cur spare O r.
Proof. intro H. rewrite uf_S, H. reflexivity. Qed.

Lemma uf_map f t e old l bt r : under t = TMap e ->
  uf (S f) t old (EObjStart l bt :: r) = map_loop f e (is_refl e) (S (length r)) (map_start e old) r.
Proof. intro H. rewrite uf_S, H. reflexivity. Qed.

Lemma flatten_val s : flatten (TVal s false) = [EVal s].
Proof. destruct s; reflexivity. Qed.

(* ---------- the slice loop on elements that are not handled by reflection ---------- *)
Lemma slice_loop_step_prim f e wasnil g cur spare idx h p : starts_value h = true ->
  slice_loop f e wasnil false (S g) cur spare idx (h :: p) =
  match uf f e (sl_oldel e false cur spare idx) (h :: p) with
  | UOk v r'' => slice_loop f e wasnil false g (sl_put cur idx v) (sl_spare cur spare idx) (S idx) r''
  | UErr x => UErr x
  end.
Proof.
  intro Hh. rewrite slice_loop_S.
  destruct h as [s| | | | | | | | |]; try discriminate Hh; try reflexivity.
  destruct s; reflexivity.
Qed.

Lemma replace_nth_app {A} (a : list A) x v b : replace_nth (length a) v (a ++ x :: b) = a ++ v :: b.
Proof. induction a as [|y a IH]; [reflexivity|]. cbn [length app replace_nth]. rewrite IH. reflexivity. Qed.

Lemma sl_put_fill (z : gvalue) done k v :
  sl_put (done ++ repeat z k) (length done) v = (done ++ [v]) ++ repeat z (k - 1).
Proof.
  unfold sl_put, sl_have. rewrite app_length, repeat_length.
  destruct k as [|k].
  - replace (length done <? length done + 0)%nat with false by (symmetry; apply Nat.ltb_ge; lia).
    cbn [repeat Nat.sub]. rewrite !app_nil_r. reflexivity.
  - replace (length done <? length done + S k)%nat with true by (symmetry; apply Nat.ltb_lt; lia).
    cbn [repeat]. rewrite replace_nth_app. replace (S k - 1)%nat with k by lia.
    rewrite <- app_assoc. reflexivity.
Qed.

Lemma sl_spare_nil cur idx : sl_spare cur [] idx = [].
Proof. unfold sl_spare. destruct (sl_have cur idx); reflexivity. Qed.

Lemma slice_loop_fill f e wasnil (val : tree -> gvalue) es :
  Forall (fun x => forall old rest, uf f e old (flatten x ++ rest) = UOk (val x) rest) es ->
  forall g done k rest, (length es < g)%nat ->
    slice_loop f e wasnil false g (done ++ repeat (zero_of e) k) [] (length done)
               (flatten_elems es ++ EArrEnd :: rest)
    = UOk (slice_final wasnil (done ++ map val es ++ repeat (zero_of e) (k - length es))) rest.
Proof.
  induction 1 as [|x es Hx Hes IH]; intros g done k rest Hg.
  - destruct g as [|g]; [cbn in Hg; lia|]. rewrite slice_loop_S.
    cbn [flatten_elems flat_map app map length]. rewrite Nat.sub_0_r. reflexivity.
  - destruct g as [|g]; [cbn in Hg; lia|].
    rewrite flatten_elems_cons, <- app_assoc.
    destruct (flatten_head x) as (h & tl & E & Hh).
    specialize (Hx (sl_oldel e false (done ++ repeat (zero_of e) k) [] (length done)) (flatten_elems es ++ EArrEnd :: rest)).
    rewrite E in *. cbn [app] in *.
    rewrite slice_loop_step_prim by exact Hh. rewrite Hx.
    rewrite sl_put_fill, sl_spare_nil.
    replace (S (length done)) with (length (done ++ [val x])) by (rewrite app_length; cbn [length]; lia).
    rewrite IH by (cbn [length] in Hg; lia).
    cbn [map length app]. rewrite <- app_assoc. cbn [app].
    replace (k - 1 - length es)%nat with (k - S (length es))%nat by lia. reflexivity.
Qed.

(* ---------- the map loop on elements that are not handled by reflection ---------- *)
Lemma map_loop_step_prim f e g cur k b r' :
  map_loop f e false (S g) cur (key_event k b :: r') =
  match uf f e (zero_of e) r' with
  | UOk v r'' => map_loop f e false g (Some (map_put k v (opt_map cur))) r''
  | UErr x => UErr x
  end.
Proof.
  rewrite map_loop_S.
  destruct b; cbn [key_event]; destruct r' as [|[s| | | | | | | | |] r'']; try reflexivity; destruct s; reflexivity.
Qed.

Definition put_all (kvs : list (bytes * gvalue)) (m : list (bytes * gvalue)) : list (bytes * gvalue) :=
  fold_left (fun m kv => map_put (fst kv) (snd kv) m) kvs m.
Definition mstep (cur : option (list (bytes * gvalue))) (kvs : list (bytes * gvalue)) :=
  match kvs with [] => cur | _ => Some (put_all kvs (opt_map cur)) end.

Lemma mstep_cons cur k v kvs : mstep cur ((k, v) :: kvs) = mstep (Some (map_put k v (opt_map cur))) kvs.
Proof. destruct kvs; reflexivity. Qed.

Lemma map_loop_fill f e (val : tree -> gvalue) ms :
  Forall (fun m => forall old rest, uf f e old (flatten (snd m) ++ rest) = UOk (val (snd m)) rest) ms ->
  forall g cur rest, (length ms < g)%nat ->
    map_loop f e false g cur (flatten_members ms ++ EObjEnd :: rest)
    = UOk (map_final (mstep cur (map (fun m => (fst (fst m), val (snd m))) ms))) rest.
Proof.
  induction 1 as [|[[k b] x] ms Hx Hms IH]; intros g cur rest Hg.
  - destruct g as [|g]; [cbn in Hg; lia|]. rewrite map_loop_S. reflexivity.
  - destruct g as [|g]; [cbn in Hg; lia|].
    rewrite flatten_members_cons, <- app_comm_cons, <- app_assoc.
    rewrite map_loop_step_prim. cbn [snd] in Hx. rewrite Hx.
    rewrite IH by (cbn [length] in Hg; lia).
    cbn [map fst snd]. rewrite mstep_cons. reflexivity.
Qed.

Lemma gen_map_put_all et kvs :
  gen_map et kvs = GIface (TMap et) (map_final (mstep None kvs)).
Proof.
  unfold gen_map, mstep, put_all. destruct kvs as [|kv kvs]; [reflexivity|].
  reflexivity.
Qed.

(* ---------- elements of typed containers ---------- *)
Definition generic_at (t : tree) : Prop :=
  forall old rest fuel, (length (flatten t) <= fuel)%nat ->
    uf fuel TIface old (flatten t ++ rest) = UOk (generic t) rest.

Lemma elem_generic bt x f :
  tree_matches bt x = true -> wf_tree x = true -> strict x = true -> generic_at x ->
  (length (flatten x) <= f)%nat ->
  forall old rest, uf f (gen_elem_type bt) old (flatten x ++ rest) = UOk (gen_elem bt x) rest.
Proof.
  intros Hm Hwf Hs Hg Hf old rest.
  destruct bt; try (apply Hg; exact Hf);
    (destruct x as [s r| | | |]; try discriminate Hm; cbn [strict] in Hs; destruct r; try discriminate Hs;
     rewrite flatten_val in *; cbn [length] in Hf; destruct f as [|f]; [lia|];
     cbn [tree_matches] in Hm; cbn [wf_tree] in Hwf;
     rewrite uf_S; cbn [gen_elem_type under app];
     destruct s as [| | |k z]; try discriminate Hm; try reflexivity;
     destruct k; try discriminate Hm; cbn [scalar_ok] in Hwf;
     unfold gen_elem, gen_typed_tree; cbn [gen_elem_type gen_typed];
     first [rewrite conv_same_kind by exact Hwf | rewrite conv_byte_uint8 by exact Hwf]; reflexivity).
Qed.

Lemma flatten_elems_In x es : In x es -> (length (flatten x) <= length (flatten_elems es))%nat.
Proof.
  induction es as [|e es IH]; [contradiction|]. intros [->|H]; rewrite flatten_elems_cons, app_length; [lia|].
  specialize (IH H). lia.
Qed.

Lemma flatten_members_In m ms : In m ms -> (length (flatten (snd m)) <= length (flatten_members ms))%nat.
Proof.
  induction ms as [|[[k r] e] ms IH]; [contradiction|]. intros [<-|H]; rewrite flatten_members_cons; cbn [length snd];
    rewrite app_length; [lia|].
  specialize (IH H). lia.
Qed.

Lemma len_ok_prealloc {A} len (l : list A) : len_ok len l = true ->
  (Z.to_nat (Z.min (Z.max len 0) max_initial_len) - length l)%nat = O.
Proof. unfold len_ok, zlen, max_initial_len. intro H. lia. Qed.

Lemma len_ok_wasnil {A} len (l : list A) : len_ok len l = true -> l = [] -> (Z.max len 0 =? 0) = true.
Proof. unfold len_ok, zlen. intros H ->. cbn [length] in H. lia. Qed.

Theorem generic_strict : forall t, strict t = true -> wf_tree t = true -> generic_at t.
Proof.
  induction t as [s r|len bt es IH|len bt ms IH|bt es|bt ms] using tree_ind';
    intros Hs Hwf old rest fuel Hfuel; try discriminate Hs.
  - cbn [strict] in Hs. destruct r; [discriminate|]. rewrite flatten_val in *.
    destruct fuel as [|f]; [cbn in Hfuel; lia|]. cbn [app]. rewrite uf_iface_val. reflexivity.
  - rewrite flatten_arr in *. cbn [length] in Hfuel. rewrite app_length in Hfuel. cbn [length] in Hfuel.
    destruct fuel as [|[|f]]; try lia.
    cbn [app]. rewrite uf_iface_arr, ifc_elem_eq.
    rewrite (uf_slice _ _ (gen_elem_type bt)) by reflexivity.
    cbn [slice_start]. rewrite is_refl_ifc. rewrite <- app_assoc. cbn [app].
    rewrite wf_arr in Hwf. apply andb_true_iff in Hwf. destruct Hwf as [Hwf H3].
    apply andb_true_iff in Hwf. destruct Hwf as [H1 H2].
    cbn [strict] in Hs. rewrite forallb_forall in Hs, H2, H3.
    pose proof (slice_loop_fill f (gen_elem_type bt) (Z.max len 0 =? 0) (gen_elem bt) es) as L.
    specialize (L ltac:(apply Forall_forall; intros x Hx; rewrite Forall_forall in IH;
                        apply elem_generic; auto; pose proof (flatten_elems_In x es Hx); lia)).
    specialize (L (S (length (flatten_elems es ++ EArrEnd :: rest))) [] (Z.to_nat (Z.min (Z.max len 0) max_initial_len)) rest).
    cbn [app length] in L. rewrite L.
    2:{ rewrite app_length. pose proof (flatten_elems_length_ge es). lia. }
    rewrite (len_ok_prealloc _ _ H1). cbn [repeat]. rewrite app_nil_r.
    rewrite generic_arr. unfold gen_list, slice_final. f_equal.
    destruct es as [|e0 es]; [|reflexivity].
    cbn [map]. rewrite (len_ok_wasnil _ _ H1 eq_refl). reflexivity.
  - rewrite flatten_obj in *. cbn [length] in Hfuel. rewrite app_length in Hfuel. cbn [length] in Hfuel.
    destruct fuel as [|[|f]]; try lia.
    cbn [app]. rewrite uf_iface_obj, ifc_elem_eq.
    rewrite (uf_map _ _ (gen_elem_type bt)) by reflexivity.
    rewrite is_refl_ifc. cbn [map_start]. rewrite is_refl_ifc. rewrite <- app_assoc. cbn [app].
    rewrite wf_obj in Hwf. apply andb_true_iff in Hwf. destruct Hwf as [Hwf H3].
    apply andb_true_iff in Hwf. destruct Hwf as [H1 H2].
    cbn [strict] in Hs. rewrite forallb_forall in Hs, H2, H3.
    rewrite (map_loop_fill f (gen_elem_type bt) (gen_elem bt) ms).
    + rewrite generic_obj, gen_map_put_all. reflexivity.
    + apply Forall_forall. intros m Hm. rewrite Forall_forall in IH.
      specialize (Hs m Hm). specialize (H3 m Hm). apply andb_true_iff in Hs, H3.
      apply elem_generic; try tauto; auto.
      * apply IH; tauto.
      * pose proof (flatten_members_In m ms Hm). lia.
    + rewrite app_length. pose proof (flatten_members_length_ge ms). cbn [length]. lia.
Qed.

(* ---------- extended events: the generic value of the expansion ---------- *)
Lemma gen_elem_typed bt x : gen_elem_type bt <> TIface -> gen_elem bt x = gen_typed_tree x.
Proof. destruct bt; intro H; try reflexivity; contradiction H; reflexivity. Qed.

Lemma gen_elem_any bt x : gen_elem_type bt = TIface -> gen_elem bt x = generic x.
Proof. destruct bt; intro H; try discriminate H; reflexivity. Qed.

Lemma gen_typed_tree_expand x : gen_typed_tree (expand_tree x) = gen_typed_tree x.
Proof. destruct x; reflexivity. Qed.

Lemma gtype_iface_dec (t : gtype) : t = TIface \/ t <> TIface.
Proof. destruct t; try (right; discriminate); left; reflexivity. Qed.

Lemma xelem_any_nil bt {A} (g : A -> scalar) (l : list A) :
  gen_elem_type bt = TIface -> forallb (fun x => xelem_ok bt (g x)) l = true -> l = [].
Proof.
  intros Hbt H. destruct l as [|x l]; [reflexivity|]. cbn [forallb] in H.
  destruct bt; try discriminate Hbt; discriminate H.
Qed.

Theorem generic_expand : forall t, wf_tree t = true -> generic (expand_tree t) = generic t.
Proof.
  induction t as [s r|len bt es IH|len bt ms IH|bt es|bt ms] using tree_ind'; intro Hwf.
  - reflexivity.
  - cbn [expand_tree]. rewrite !generic_arr. f_equal. rewrite map_map. apply map_ext_in. intros x Hx.
    destruct (gtype_iface_dec (gen_elem_type bt)) as [E|E].
    + rewrite !gen_elem_any by exact E. rewrite Forall_forall in IH. apply IH; [exact Hx|].
      rewrite wf_arr in Hwf. apply andb_true_iff in Hwf. destruct Hwf as [_ H3].
      rewrite forallb_forall in H3. auto.
    + rewrite !gen_elem_typed by exact E. apply gen_typed_tree_expand.
  - cbn [expand_tree]. rewrite !generic_obj. f_equal. rewrite map_map. apply map_ext_in. intros x Hx.
    cbn [fst snd]. f_equal.
    destruct (gtype_iface_dec (gen_elem_type bt)) as [E|E].
    + rewrite !gen_elem_any by exact E. rewrite Forall_forall in IH. apply IH; [exact Hx|].
      rewrite wf_obj in Hwf. apply andb_true_iff in Hwf. destruct Hwf as [_ H3].
      rewrite forallb_forall in H3. specialize (H3 x Hx). apply andb_true_iff in H3. tauto.
    + rewrite !gen_elem_typed by exact E. apply gen_typed_tree_expand.
  - cbn [expand_tree]. rewrite generic_arr. cbn [generic]. f_equal. rewrite map_map.
    destruct (gtype_iface_dec (gen_elem_type bt)) as [E|E].
    + cbn [wf_tree] in Hwf. rewrite (xelem_any_nil bt (fun s => s) es E Hwf). reflexivity.
    + apply map_ext. intro s. rewrite gen_elem_typed by exact E. reflexivity.
  - cbn [expand_tree]. rewrite generic_obj. cbn [generic]. f_equal. rewrite map_map.
    destruct (gtype_iface_dec (gen_elem_type bt)) as [E|E].
    + cbn [wf_tree] in Hwf. apply andb_true_iff in Hwf. destruct Hwf as [_ Hwf].
      assert (ms = []) as ->; [|reflexivity].
      destruct ms as [|m ms]; [reflexivity|]. cbn [forallb] in Hwf.
      destruct bt; try discriminate E; rewrite andb_false_r in Hwf; discriminate Hwf.
    + apply map_ext. intro m. cbn [fst snd]. rewrite gen_elem_typed by exact E. reflexivity.
Qed.

(* C13: an interface{} target receives the stream's value as generic Go data - whatever
   it held before, whatever follows, whether lengths are announced or not (an announced
   length above 4096 only pre-allocates 4096 elements; the rest is appended). *)
Theorem C13_generic : forall t old rest fuel,
  wf_tree t = true -> (length (flatten (expand_tree t)) <= fuel)%nat ->
  uf fuel TIface old (flatten (expand_tree t) ++ rest) = UOk (generic t) rest.
Proof.
  intros t old rest fuel Hwf Hfuel.
  rewrite <- (generic_expand t Hwf).
  apply generic_strict; [apply strict_expand|apply expand_deep_wf; exact Hwf|exact Hfuel].
Qed.
Print Assumptions C13_generic.

Lemma ucc_type_iface : ucc_type TIface = None.
Proof. reflexivity. Qed.

Corollary C13_generic_top : forall t old,
  wf_tree t = true -> unfold_value TIface old (flatten t) = UDone (generic t).
Proof.
  intros t old Hwf. unfold unfold_value. rewrite ucc_type_iface.
  rewrite <- expand_deep_is_flatten.
  rewrite <- (app_nil_r (flatten (expand_tree t))) at 2.
  rewrite C13_generic; [reflexivity|exact Hwf|cbn [ftsize]; lia].
Qed.
Print Assumptions C13_generic_top.

(* the announced length is only a hint *)
Example C13_generic_big_announced_length :
  uf 10 TIface GNil [EArrStart 1000000 BAny; EVal (SNum KInt 7); EArrEnd]
  = UOk (GIface (TSlice TIface) (GList (GIface (TNum KInt) (GNum 7) :: repeat GNil 4095))) [].
Proof. vm_compute. reflexivity. Qed.
