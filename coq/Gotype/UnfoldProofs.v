(* Proofs about the unfolder model (Gotype/Unfold.v) against its L0 (Gotype/UnfoldSpec.v):
     Part 0  the anonymous loops of skip_value / uf, named; unfolding equations
     Part 1  C13  skipping the value of an unknown member (complete, incomplete)
     Part 2  C13  interface{} targets hold the generic value of the stream
     Part 3  C10  extended events and by-reference delivery are irrelevant
     Part 4  C14  allocation is proportional to the events, announced lengths never enter
     Part 5  C17  a completed document leaves nothing behind (sequencing)
     Part 6  C11  direct route Fold -> Unfold for types without structs and interfaces
     Part 7  C11  direct route for flat structs (fields of the types of Part 6, no inlining) *)
From Coq Require Import List NArith ZArith Bool Lia.
From Coq Require Import ZifyBool ZifyNat ZifyN.
From SF Require Import Base.Prelude Base.PreludeProofs Core.Events Core.EventsProofs Core.AdapterProofs.
From SF Require Import Gotype.Types Gotype.Conv Gotype.FoldSpec Gotype.Unfold Gotype.UnfoldSpec.
Import ListNotations.
Open Scope Z_scope.

Ltac Zify.zify_post_hook ::= Z.div_mod_to_equations.

(* ====================================================================== *)
(* Part 0: the anonymous loops of skip_value and uf, named                 *)
(* ====================================================================== *)

Definition skip_elems (f : nat) :=
  fix elems (g : nat) (evs : list event) : skres :=
    match g with
    | O => SkMore
    | S g' =>
        match evs with
        | [] => SkMore
        | EArrEnd :: r' => SkOk r'
        | _ => match skip_value f evs with SkOk r' => elems g' r' | x => x end
        end
    end.

Definition skip_mems (f : nat) :=
  fix mems (g : nat) (evs : list event) : skres :=
    match g with
    | O => SkMore
    | S g' =>
        match evs with
        | [] => SkMore
        | EObjEnd :: r' => SkOk r'
        | (EKey _ | EKeyRef _) :: r' => mems g' r'
        | _ => match skip_value f evs with SkOk r' => mems g' r' | x => x end
        end
    end.

Lemma skip_value_O evs : skip_value O evs = SkMore.
Proof. reflexivity. Qed.

Lemma skip_value_S f evs :
  skip_value (S f) evs =
  match evs with
  | [] => SkMore
  | EVal _ :: r | EStrRef _ :: r => SkOk r
  | EArrStart _ _ :: r => skip_elems f f r
  | EObjStart _ _ :: r => skip_mems f f r
  | _ => SkErr evs
  end.
Proof. reflexivity. Qed.

Lemma skip_elems_O f evs : skip_elems f O evs = SkMore.
Proof. reflexivity. Qed.

Lemma skip_elems_S f g evs :
  skip_elems f (S g) evs =
  match evs with
  | [] => SkMore
  | EArrEnd :: r' => SkOk r'
  | _ => match skip_value f evs with SkOk r' => skip_elems f g r' | x => x end
  end.
Proof. reflexivity. Qed.

Lemma skip_mems_O f evs : skip_mems f O evs = SkMore.
Proof. reflexivity. Qed.

Lemma skip_mems_S f g evs :
  skip_mems f (S g) evs =
  match evs with
  | [] => SkMore
  | EObjEnd :: r' => SkOk r'
  | (EKey _ | EKeyRef _) :: r' => skip_mems f g r'
  | _ => match skip_value f evs with SkOk r' => skip_mems f g r' | x => x end
  end.
Proof. reflexivity. Qed.

(* the final value of a slice target *)
Definition slice_final (wasnil : bool) (cur : list gvalue) : gvalue :=
  match cur with [] => if wasnil then GNil else GList [] | _ => GList cur end.

Definition slice_loop (f : nat) (e : gtype) (wasnil reflslice : bool) :=
  fix elems (g : nat) (cur spare : list gvalue) (idx : nat) (evs : list event) : ur :=
    match g with
    | O => UErr evs
    | S g' =>
        match evs with
        | EArrEnd :: r' =>
            UOk (match cur with [] => if wasnil then GNil else GList [] | _ => GList cur end) r'
        | _ =>
            let have := Nat.ltb idx (length cur) in
            let oldel := if have then nth idx cur GNil
                         else if reflslice then hd (zero_of e) spare else zero_of e in
            let spare' := if have then spare else tl spare in
            let put (v : gvalue) := if have then replace_nth idx v cur else cur ++ [v] in
            match evs with
            | EVal SNil :: r' =>
                if reflslice then elems g' (put oldel) spare' (S idx) r'
                else match uf f e oldel evs with
                     | UOk v r'' => elems g' (put v) spare' (S idx) r''
                     | UErr x => UErr x
                     end
            | _ =>
                match uf f e oldel evs with
                | UOk v r'' => elems g' (put v) spare' (S idx) r''
                | UErr x => UErr x
                end
            end
        end
    end.

Definition map_loop (f : nat) (e : gtype) (reflmap : bool) :=
  fix mems (g : nat) (cur : option (list (bytes * gvalue))) (evs : list event) : ur :=
    match g with
    | O => UErr evs
    | S g' =>
        match evs with
        | EObjEnd :: r' => UOk (match cur with Some m => GMap m | None => GNil end) r'
        | (EKey k | EKeyRef k) :: r' =>
            let m := match cur with Some m => m | None => [] end in
            match (match r' with
                   | EVal SNil :: r'' => if reflmap then UOk (zero_of e) r'' else uf f e (zero_of e) r'
                   | _ => uf f e (zero_of e) r'
                   end) with
            | UOk v r'' => mems g' (Some (map_put k v m)) r''
            | UErr x => UErr x
            end
        | _ => UErr evs
        end
    end.

Definition struct_loop (f : nat) (tab : ftable) :=
  fix mems (g : nat) (cur : gvalue) (evs : list event) : ur :=
    match g with
    | O => UErr evs
    | S g' =>
        match evs with
        | EObjEnd :: r' => UOk cur r'
        | (EKey k | EKeyRef k) :: r' =>
            match assoc_key k tab with
            | None =>
                match skip_value (S (length r')) r' with
                | SkOk r'' => mems g' cur r''
                | SkMore => UErr []
                | SkErr x => UErr x
                end
            | Some (path, ft) =>
                match uf f ft (get_path path cur) r' with
                | UOk v r'' => mems g' (set_path path v cur) r''
                | UErr x => UErr x
                end
            end
        | _ => UErr evs
        end
    end.

Definition slice_start (e : gtype) (old : gvalue) (l : Z) : list gvalue * list gvalue * bool :=
  match old with
  | GList xs => if l <? zlen xs then (firstn (Z.to_nat l) xs, skipn (Z.to_nat l) xs, false) else (xs, [], false)
  | _ => (repeat (zero_of e) (Z.to_nat (Z.min l max_initial_len)), [], l =? 0)
  end.

Definition is_refl (e : gtype) : bool := negb (prim_kind e || gtype_eqb e TIface).

Definition map_start (e : gtype) (old : gvalue) : option (list (bytes * gvalue)) :=
  match old with
  | GMap m => Some m
  | _ => if is_refl e then Some [] else None
  end.

Lemma uf_O t old evs : uf O t old evs = UErr evs.
Proof. reflexivity. Qed.

Lemma uf_S f t old evs :
  uf (S f) t old evs =
  match under t with
  | TBool =>
      match evs with
      | EVal (SBool b) :: r => UOk (GBool b) r
      | EVal SNil :: r => UOk (GBool false) r
      | _ => UErr evs
      end
  | TString =>
      match evs with
      | EVal (SStr s) :: r => UOk (GStr s) r
      | EVal SNil :: r => UOk (GStr []) r
      | _ => UErr evs
      end
  | TNum k =>
      match evs with
      | EVal (SNum k' z) :: r => UOk (GNum (conv k' k z)) r
      | EVal SNil :: r => UOk (GNum 0) r
      | _ => UErr evs
      end
  | TIface =>
      match evs with
      | EVal s :: r => UOk (ifc_scalar s) r
      | EArrStart _ bt :: _ =>
          let st := TSlice (ifc_elem bt) in
          match uf f st GNil evs with UOk v r => UOk (GIface st v) r | e => e end
      | EObjStart _ bt :: _ =>
          let mt := TMap (ifc_elem bt) in
          match uf f mt GNil evs with UOk v r => UOk (GIface mt v) r | e => e end
      | _ => UErr evs
      end
  | TPtr u =>
      match evs with
      | EVal SNil :: r => UOk GNil r
      | _ => match uf f u (zero_of u) evs with UOk v r => UOk (GPtr v) r | e => e end
      end
  | TSlice e =>
      match evs with
      | EArrStart l _ :: r =>
          let '(cur, spare, wasnil) := slice_start e old (Z.max l 0) in
          slice_loop f e wasnil (is_refl e) (S (length r)) cur spare O r
      | _ => UErr evs
      end
  | TMap e =>
      match evs with
      | EObjStart _ _ :: r => map_loop f e (is_refl e) (S (length r)) (map_start e old) r
      | _ => UErr evs
      end
  | TStruct fs =>
      match evs with
      | EObjStart _ _ :: r =>
          match field_table (S (ftsize t)) fs O with
          | inl _ => UErr evs
          | inr tab => struct_loop f tab (S (length r)) old r
          end
      | _ => UErr evs
      end
  | _ => UErr evs
  end.
Proof.
  (* the tactic unifier is very slow on this conversion (the loops are applied to
     [S (length r)] and the compiled matches duplicate their default branches); the VM
     checks it in a few seconds *)
  vm_cast_no_check (eq_refl (uf (S f) t old evs)).
Qed.

Arguments uf : simpl never.
Arguments skip_value : simpl never.

Lemma slice_loop_O f e wasnil refl cur spare idx evs :
  slice_loop f e wasnil refl O cur spare idx evs = UErr evs.
Proof. reflexivity. Qed.

Definition sl_have (cur : list gvalue) (idx : nat) : bool := Nat.ltb idx (length cur).
Definition sl_oldel (e : gtype) (refl : bool) (cur spare : list gvalue) (idx : nat) : gvalue :=
  if sl_have cur idx then nth idx cur GNil
  else if refl then hd (zero_of e) spare else zero_of e.
Definition sl_spare (cur spare : list gvalue) (idx : nat) : list gvalue :=
  if sl_have cur idx then spare else tl spare.
Definition sl_put (cur : list gvalue) (idx : nat) (v : gvalue) : list gvalue :=
  if sl_have cur idx then replace_nth idx v cur else cur ++ [v].

Lemma slice_loop_S f e wasnil refl g cur spare idx evs :
  slice_loop f e wasnil refl (S g) cur spare idx evs =
  match evs with
  | EArrEnd :: r' => UOk (slice_final wasnil cur) r'
  | _ =>
      match evs with
      | EVal SNil :: r' =>
          if refl then slice_loop f e wasnil refl g (sl_put cur idx (sl_oldel e refl cur spare idx)) (sl_spare cur spare idx) (S idx) r'
          else match uf f e (sl_oldel e refl cur spare idx) evs with
               | UOk v r'' => slice_loop f e wasnil refl g (sl_put cur idx v) (sl_spare cur spare idx) (S idx) r''
               | UErr x => UErr x
               end
      | _ =>
          match uf f e (sl_oldel e refl cur spare idx) evs with
          | UOk v r'' => slice_loop f e wasnil refl g (sl_put cur idx v) (sl_spare cur spare idx) (S idx) r''
          | UErr x => UErr x
          end
      end
  end.
Proof. reflexivity. Qed.

Lemma map_loop_O f e refl cur evs : map_loop f e refl O cur evs = UErr evs.
Proof. reflexivity. Qed.

Definition opt_map (cur : option (list (bytes * gvalue))) : list (bytes * gvalue) :=
  match cur with Some m => m | None => [] end.
Definition map_final (cur : option (list (bytes * gvalue))) : gvalue :=
  match cur with Some m => GMap m | None => GNil end.

Lemma map_loop_S f e refl g cur evs :
  map_loop f e refl (S g) cur evs =
  match evs with
  | EObjEnd :: r' => UOk (map_final cur) r'
  | (EKey k | EKeyRef k) :: r' =>
      match (match r' with
             | EVal SNil :: r'' => if refl then UOk (zero_of e) r'' else uf f e (zero_of e) r'
             | _ => uf f e (zero_of e) r'
             end) with
      | UOk v r'' => map_loop f e refl g (Some (map_put k v (opt_map cur))) r''
      | UErr x => UErr x
      end
  | _ => UErr evs
  end.
Proof. reflexivity. Qed.

Lemma struct_loop_O f tab cur evs : struct_loop f tab O cur evs = UErr evs.
Proof. reflexivity. Qed.

Lemma struct_loop_S f tab g cur evs :
  struct_loop f tab (S g) cur evs =
  match evs with
  | EObjEnd :: r' => UOk cur r'
  | (EKey k | EKeyRef k) :: r' =>
      match assoc_key k tab with
      | None =>
          match skip_value (S (length r')) r' with
          | SkOk r'' => struct_loop f tab g cur r''
          | SkMore => UErr []
          | SkErr x => UErr x
          end
      | Some (path, ft) =>
          match uf f ft (get_path path cur) r' with
          | UOk v r'' => struct_loop f tab g (set_path path v cur) r''
          | UErr x => UErr x
          end
      end
  | _ => UErr evs
  end.
Proof. reflexivity. Qed.

#[global] Opaque slice_loop map_loop struct_loop skip_elems skip_mems.


(* ---------- unfolding lemmas by target type ---------- *)
Lemma uf_S_bool f t old evs : under t = TBool ->
  uf (S f) t old evs =
  match evs with
  | EVal (SBool b) :: r => UOk (GBool b) r
  | EVal SNil :: r => UOk (GBool false) r
  | _ => UErr evs
  end.
Proof. intro H. rewrite uf_S, H. reflexivity. Qed.

Lemma uf_S_string f t old evs : under t = TString ->
  uf (S f) t old evs =
  match evs with
  | EVal (SStr s) :: r => UOk (GStr s) r
  | EVal SNil :: r => UOk (GStr []) r
  | _ => UErr evs
  end.
Proof. intro H. rewrite uf_S, H. reflexivity. Qed.

Lemma uf_S_num f t k old evs : under t = TNum k ->
  uf (S f) t old evs =
  match evs with
  | EVal (SNum k' z) :: r => UOk (GNum (conv k' k z)) r
  | EVal SNil :: r => UOk (GNum 0) r
  | _ => UErr evs
  end.
Proof. intro H. rewrite uf_S, H. reflexivity. Qed.

Lemma uf_S_iface f t old evs : under t = TIface ->
  uf (S f) t old evs =
  match evs with
  | EVal s :: r => UOk (ifc_scalar s) r
  | EArrStart _ bt :: _ =>
      match uf f (TSlice (ifc_elem bt)) GNil evs with UOk v r => UOk (GIface (TSlice (ifc_elem bt)) v) r | UErr x => UErr x end
  | EObjStart _ bt :: _ =>
      match uf f (TMap (ifc_elem bt)) GNil evs with UOk v r => UOk (GIface (TMap (ifc_elem bt)) v) r | UErr x => UErr x end
  | _ => UErr evs
  end.
Proof. intro H. rewrite uf_S, H. reflexivity. Qed.

Lemma uf_S_ptr f t u old evs : under t = TPtr u ->
  uf (S f) t old evs =
  match evs with
  | EVal SNil :: r => UOk GNil r
  | _ => match uf f u (zero_of u) evs with UOk v r => UOk (GPtr v) r | UErr x => UErr x end
  end.
Proof. intro H. rewrite uf_S, H. reflexivity. Qed.

Lemma uf_S_slice f t e old evs : under t = TSlice e ->
  uf (S f) t old evs =
  match evs with
  | EArrStart l _ :: r =>
      let '(cur, spare, wasnil) := slice_start e old (Z.max l 0) in
      slice_loop f e wasnil (is_refl e) (S (length r)) cur spare O r
  | _ => UErr evs
  end.
Proof. intro H. rewrite uf_S, H. reflexivity. Qed.

Lemma uf_S_map f t e old evs : under t = TMap e ->
  uf (S f) t old evs =
  match evs with
  | EObjStart _ _ :: r => map_loop f e (is_refl e) (S (length r)) (map_start e old) r
  | _ => UErr evs
  end.
Proof. intro H. rewrite uf_S, H. reflexivity. Qed.

Lemma uf_S_struct f t fs old evs : under t = TStruct fs ->
  uf (S f) t old evs =
  match evs with
  | EObjStart _ _ :: r =>
      match field_table (S (ftsize t)) fs O with
      | inl _ => UErr evs
      | inr tab => struct_loop f tab (S (length r)) old r
      end
  | _ => UErr evs
  end.
Proof. intro H. rewrite uf_S, H. reflexivity. Qed.

Definition unsup_type (t : gtype) : bool :=
  match t with TArray _ _ | TMapK _ | TNamed _ | TUnsup => true | _ => false end.

Lemma uf_S_unsup f t old evs : unsup_type (under t) = true -> uf (S f) t old evs = UErr evs.
Proof. intro H. rewrite uf_S. destruct (under t); try discriminate H; reflexivity. Qed.

Lemma unsup_cases t : unsup_type (under t) = true \/
  under t = TBool \/ under t = TString \/ (exists k, under t = TNum k) \/ under t = TIface \/
  (exists u, under t = TPtr u) \/ (exists e, under t = TSlice e) \/ (exists e, under t = TMap e) \/
  (exists fs, under t = TStruct fs).
Proof.
  destruct (under t); cbn [unsup_type]; eauto 12.
Qed.

(* ---------- general step lemmas for the loops ---------- *)
Definition is_nil_ev (h : event) : bool := match h with EVal SNil => true | _ => false end.

Lemma slice_loop_step f e wasnil refl g cur spare idx h p : starts_value h = true ->
  slice_loop f e wasnil refl (S g) cur spare idx (h :: p) =
  if refl && is_nil_ev h
  then slice_loop f e wasnil refl g (sl_put cur idx (sl_oldel e refl cur spare idx)) (sl_spare cur spare idx) (S idx) p
  else match uf f e (sl_oldel e refl cur spare idx) (h :: p) with
       | UOk v r'' => slice_loop f e wasnil refl g (sl_put cur idx v) (sl_spare cur spare idx) (S idx) r''
       | UErr x => UErr x
       end.
Proof.
  intro Hh. rewrite slice_loop_S.
  destruct h as [s| | | | | | | | |]; try discriminate Hh;
    try (destruct refl; cbv beta iota; cbn [andb is_nil_ev]; reflexivity).
  destruct s, refl; cbv beta iota; cbn [andb is_nil_ev]; reflexivity.
Qed.

Lemma map_loop_key f e refl g cur k b r' :
  map_loop f e refl (S g) cur (key_event k b :: r') =
  match (match r' with
         | h :: r'' => if refl && is_nil_ev h then UOk (zero_of e) r'' else uf f e (zero_of e) r'
         | [] => uf f e (zero_of e) r'
         end) with
  | UOk v r'' => map_loop f e refl g (Some (map_put k v (opt_map cur))) r''
  | UErr x => UErr x
  end.
Proof.
  rewrite map_loop_S.
  destruct b; cbn [key_event]; cbv beta iota;
    (destruct r' as [|[s| | | | | | | | |] r'']; [reflexivity|..];
     try (destruct refl; cbn [andb is_nil_ev]; cbv beta iota; reflexivity);
     destruct s, refl; cbn [andb is_nil_ev]; cbv beta iota; reflexivity).
Qed.

Lemma struct_loop_key f tab g cur k b r' :
  struct_loop f tab (S g) cur (key_event k b :: r') =
  match assoc_key k tab with
  | None =>
      match skip_value (S (length r')) r' with
      | SkOk r'' => struct_loop f tab g cur r''
      | SkMore => UErr []
      | SkErr x => UErr x
      end
  | Some (path, ft) =>
      match uf f ft (get_path path cur) r' with
      | UOk v r'' => struct_loop f tab g (set_path path v cur) r''
      | UErr x => UErr x
      end
  end.
Proof. rewrite struct_loop_S. destruct b; reflexivity. Qed.

Lemma flatten_nil_ev x h tl : flatten x = h :: tl -> is_nil_ev h = true -> tl = [].
Proof.
  destruct x as [s r|len bt es|len bt ms|bt es|bt ms].
  - destruct s, r; cbn [flatten]; intros E _; injection E as _ <-; reflexivity.
  - rewrite flatten_arr. intros E H. injection E as <- _. discriminate H.
  - rewrite flatten_obj. intros E H. injection E as <- _. discriminate H.
  - cbn [flatten]. intros E H. injection E as <- _. discriminate H.
  - cbn [flatten]. intros E H. injection E as <- _. discriminate H.
Qed.

(* ====================================================================== *)
(* Part 1: C13 - skipping a value                                          *)
(* ====================================================================== *)

(* trees without extended events (by-reference strings and keys allowed) *)
Fixpoint plain (t : tree) : bool :=
  match t with
  | TVal _ _ => true
  | TArr _ _ es => forallb plain es
  | TObj _ _ ms => forallb (fun m => plain (snd m)) ms
  | _ => false
  end.

(* trees as the unfolder sees them: no extended events, nothing by reference *)
Fixpoint strict (t : tree) : bool :=
  match t with
  | TVal _ r => negb r
  | TArr _ _ es => forallb strict es
  | TObj _ _ ms => forallb (fun m => negb (snd (fst m)) && strict (snd m)) ms
  | _ => false
  end.

Lemma strict_expand : forall t, strict (expand_tree t) = true.
Proof.
  induction t as [s r|len bt es IH|len bt ms IH|bt es|bt ms] using tree_ind'; cbn [expand_tree strict].
  - reflexivity.
  - rewrite forallb_map. apply forallb_forall. rewrite Forall_forall in IH. exact IH.
  - rewrite forallb_map. apply forallb_forall. rewrite Forall_forall in IH. intros m Hm. cbn [fst snd negb andb].
    apply IH. exact Hm.
  - rewrite forallb_map. apply forallb_forall. reflexivity.
  - rewrite forallb_map. apply forallb_forall. reflexivity.
Qed.

Lemma strict_plain : forall t, strict t = true -> plain t = true.
Proof.
  induction t as [s r|len bt es IH|len bt ms IH|bt es|bt ms] using tree_ind'; cbn [strict plain]; intro H;
    try reflexivity; try discriminate H.
  - rewrite forallb_forall in *. rewrite Forall_forall in IH. intros x Hx. apply IH; auto.
  - rewrite forallb_forall in *. rewrite Forall_forall in IH. intros x Hx. apply IH; auto.
    specialize (H x Hx). apply andb_true_iff in H. apply H.
Qed.

Lemma plain_expand t : plain (expand_tree t) = true.
Proof. apply strict_plain, strict_expand. Qed.

Lemma flatten_members_length_ge2 ms : (2 * length ms <= length (flatten_members ms))%nat.
Proof.
  induction ms as [|[[k r] e] ms IH]; [cbn; lia|].
  rewrite flatten_members_cons. cbn [length]. rewrite app_length.
  pose proof (flatten_length_pos e). lia.
Qed.

Lemma skip_elems_step f g e rest :
  skip_elems f (S g) (flatten e ++ rest) =
  match skip_value f (flatten e ++ rest) with SkOk r' => skip_elems f g r' | x => x end.
Proof.
  rewrite skip_elems_S.
  destruct (flatten_head e) as (h & tl & E & Hh). rewrite E. cbn [app].
  destruct h; try discriminate Hh; reflexivity.
Qed.

Lemma skip_mems_step f g e rest :
  skip_mems f (S g) (flatten e ++ rest) =
  match skip_value f (flatten e ++ rest) with SkOk r' => skip_mems f g r' | x => x end.
Proof.
  rewrite skip_mems_S.
  destruct (flatten_head e) as (h & tl & E & Hh). rewrite E. cbn [app].
  destruct h; try discriminate Hh; reflexivity.
Qed.

Lemma skip_mems_key f g k r rest :
  skip_mems f (S g) (key_event k r :: rest) = skip_mems f g rest.
Proof. rewrite skip_mems_S. destruct r; reflexivity. Qed.

Definition skip_at (t : tree) : Prop :=
  forall rest fuel, (length (flatten t) < fuel)%nat -> skip_value fuel (flatten t ++ rest) = SkOk rest.

Lemma skip_elems_flatten f es :
  Forall skip_at es ->
  forall g rest, (length es < g)%nat -> (length (flatten_elems es) < f)%nat ->
    skip_elems f g (flatten_elems es ++ EArrEnd :: rest) = SkOk rest.
Proof.
  induction 1 as [|e es He Hes IH]; intros g rest Hg Hf.
  - destruct g as [|g]; [cbn in Hg; lia|]. rewrite skip_elems_S. reflexivity.
  - destruct g as [|g]; [cbn in Hg; lia|].
    rewrite flatten_elems_cons in *. rewrite app_length in Hf. rewrite <- app_assoc.
    rewrite skip_elems_step. rewrite He by lia. apply IH; cbn [length] in Hg; lia.
Qed.

Lemma skip_mems_flatten f ms :
  Forall (fun m => skip_at (snd m)) ms ->
  forall g rest, (2 * length ms < g)%nat -> (length (flatten_members ms) < f)%nat ->
    skip_mems f g (flatten_members ms ++ EObjEnd :: rest) = SkOk rest.
Proof.
  induction 1 as [|[[k r] e] ms He Hes IH]; intros g rest Hg Hf.
  - destruct g as [|g]; [cbn in Hg; lia|]. rewrite skip_mems_S. reflexivity.
  - cbn [length] in Hg. destruct g as [|[|g]]; try lia.
    rewrite flatten_members_cons in *. cbn [length] in Hf. rewrite app_length in Hf.
    cbn [snd] in He. rewrite <- app_comm_cons, <- app_assoc.
    rewrite skip_mems_key, skip_mems_step. rewrite He by lia. apply IH; lia.
Qed.

Theorem skip_plain : forall t, plain t = true -> skip_at t.
Proof.
  induction t as [s r|len bt es IH|len bt ms IH|bt es|bt ms] using tree_ind';
    intros Hp rest fuel Hfuel; try discriminate Hp.
  - destruct fuel as [|f]; [lia|]. rewrite skip_value_S. destruct s, r; reflexivity.
  - rewrite flatten_arr in *. cbn [length] in Hfuel. rewrite app_length in Hfuel. cbn [length] in Hfuel.
    destruct fuel as [|f]; [lia|]. cbn [app]. rewrite skip_value_S, <- app_assoc. cbn [app].
    pose proof (flatten_elems_length_ge es).
    apply skip_elems_flatten; try lia.
    cbn [plain] in Hp. rewrite forallb_forall in Hp. rewrite Forall_forall in *. intros x Hx. apply IH; auto.
  - rewrite flatten_obj in *. cbn [length] in Hfuel. rewrite app_length in Hfuel. cbn [length] in Hfuel.
    destruct fuel as [|f]; [lia|]. cbn [app]. rewrite skip_value_S, <- app_assoc. cbn [app].
    pose proof (flatten_members_length_ge2 ms).
    apply skip_mems_flatten; try lia.
    cbn [plain] in Hp. rewrite forallb_forall in Hp. rewrite Forall_forall in *. intros x Hx. apply IH; auto.
Qed.

(* C13: an unknown member's value is skipped as a whole, whatever its shape.  The fuel the
   struct unfolder passes is the number of remaining (expanded) events plus one, which is
   always enough. *)
Theorem C13_skip : forall t rest fuel,
  (length (flatten (expand_tree t)) < fuel)%nat ->
  skip_value fuel (flatten (expand_tree t) ++ rest) = SkOk rest.
Proof. intros t rest fuel H. apply skip_plain; [apply plain_expand|exact H]. Qed.
Print Assumptions C13_skip.

Corollary C13_skip_struct_fuel : forall t rest,
  skip_value (S (length (flatten (expand_tree t) ++ rest))) (flatten (expand_tree t) ++ rest) = SkOk rest.
Proof. intros t rest. apply C13_skip. rewrite app_length. lia. Qed.

(* the bound must count the expanded events: an extended event is a single event *)
Example C13_skip_fuel_counts_expanded_events :
  let t := TXArr BInt [SNum KInt 1; SNum KInt 2; SNum KInt 3] in
  (length (flatten t) < 2)%nat /\ skip_value 2 (flatten (expand_tree t) ++ []) = SkMore.
Proof. split; [cbn; lia | reflexivity]. Qed.

(* ---------- a value that is not complete yet: SkMore, never an error ---------- *)
Definition skip_total_at (t : tree) : Prop :=
  forall fuel rest, skip_value fuel (flatten t ++ rest) = SkOk rest \/ skip_value fuel (flatten t ++ rest) = SkMore.
Definition skip_prefix_at (t : tree) : Prop :=
  forall fuel p q, flatten t = p ++ q -> q <> [] -> skip_value fuel p = SkMore.

Section SkipLoop.
  Variable f : nat.
  Variable L : nat -> list event -> skres.
  Hypothesis L_O : forall evs, L O evs = SkMore.
  Hypothesis L_nil : forall g, L g [] = SkMore.
  Hypothesis L_step : forall g h p, starts_value h = true ->
    L (S g) (h :: p) = match skip_value f (h :: p) with SkOk r' => L g r' | x => x end.

  Lemma loop_value_total e R :
    skip_total_at e ->
    (forall g rest, L g (R ++ rest) = SkOk rest \/ L g (R ++ rest) = SkMore) ->
    forall g rest, L g (flatten e ++ R ++ rest) = SkOk rest \/ L g (flatten e ++ R ++ rest) = SkMore.
  Proof.
    intros He HR g rest. destruct g as [|g]; [right; apply L_O|].
    destruct (flatten_head e) as (h & tl & E & Hh).
    pose proof (He f (R ++ rest)) as He'. rewrite E in *. cbn [app] in *.
    rewrite L_step by exact Hh.
    destruct He' as [He'|He']; rewrite He'; [apply HR|right; reflexivity].
  Qed.

  Lemma loop_value_prefix e R :
    skip_total_at e -> skip_prefix_at e ->
    (forall g p q, R = p ++ q -> q <> [] -> L g p = SkMore) ->
    forall g p q, flatten e ++ R = p ++ q -> q <> [] -> L g p = SkMore.
  Proof.
    intros Ht He HR g p q E Hq. destruct g as [|g]; [apply L_O|].
    apply app_eq_app in E. destruct E as (l & [[E1 E2]|[E1 E2]]).
    - (* p is a prefix of flatten e *)
      destruct l as [|x l].
      + rewrite app_nil_r in E1. cbn [app] in E2. subst p q.
        destruct (flatten_head e) as (h & tl & E & Hh). pose proof (Ht f []) as Ht'. rewrite app_nil_r in Ht'.
        rewrite E in *. rewrite L_step by exact Hh.
        destruct Ht' as [Ht'|Ht']; rewrite Ht'; [|reflexivity].
        apply (HR g [] R); [reflexivity|exact Hq].
      + destruct p as [|h p]; [apply L_nil|].
        assert (Hh : starts_value h = true).
        { destruct (flatten_head e) as (h' & tl & E & Hh). rewrite E in E1. cbn [app] in E1. injection E1 as -> _. exact Hh. }
        rewrite L_step by exact Hh.
        rewrite (He f (h :: p) (x :: l) E1) by discriminate. reflexivity.
    - subst p.
      destruct (flatten_head e) as (h & tl & E & Hh).
      pose proof (Ht f l) as Ht'. rewrite E in *. cbn [app] in *. rewrite L_step by exact Hh.
      destruct Ht' as [Ht'|Ht']; rewrite Ht'; [|reflexivity].
      apply (HR g l q); assumption.
  Qed.
End SkipLoop.

Lemma skip_elems_nil f g : skip_elems f g [] = SkMore.
Proof. destruct g; reflexivity. Qed.
Lemma skip_mems_nil f g : skip_mems f g [] = SkMore.
Proof. destruct g; reflexivity. Qed.
Lemma skip_elems_step' f g h p : starts_value h = true ->
  skip_elems f (S g) (h :: p) = match skip_value f (h :: p) with SkOk r' => skip_elems f g r' | x => x end.
Proof. intro Hh. rewrite skip_elems_S. destruct h; try discriminate Hh; reflexivity. Qed.
Lemma skip_mems_step' f g h p : starts_value h = true ->
  skip_mems f (S g) (h :: p) = match skip_value f (h :: p) with SkOk r' => skip_mems f g r' | x => x end.
Proof. intro Hh. rewrite skip_mems_S. destruct h; try discriminate Hh; reflexivity. Qed.

Lemma single_split {A} (x : A) p q : [x] = p ++ q -> q <> [] -> p = [] /\ q = [x].
Proof.
  intros E Hq. destruct p as [|y p]; [split; [reflexivity|symmetry; exact E]|].
  cbn [app] in E. injection E as _ E. destruct p; destruct q; try discriminate E. contradiction.
Qed.

Lemma skip_elems_total f es : Forall skip_total_at es ->
  forall g rest, skip_elems f g ((flatten_elems es ++ [EArrEnd]) ++ rest) = SkOk rest \/
                 skip_elems f g ((flatten_elems es ++ [EArrEnd]) ++ rest) = SkMore.
Proof.
  induction 1 as [|e es He Hes IH]; intros g rest.
  - destruct g as [|g]; [right; reflexivity|left]. rewrite skip_elems_S. reflexivity.
  - rewrite flatten_elems_cons.
    replace (((flatten e ++ flatten_elems es) ++ [EArrEnd]) ++ rest)
      with (flatten e ++ (flatten_elems es ++ [EArrEnd]) ++ rest) by (rewrite <- !app_assoc; reflexivity).
    apply (loop_value_total f (skip_elems f) (skip_elems_O f) (skip_elems_step' f) e _ He IH).
Qed.

Lemma skip_mems_total f ms : Forall (fun m => skip_total_at (snd m)) ms ->
  forall g rest, skip_mems f g ((flatten_members ms ++ [EObjEnd]) ++ rest) = SkOk rest \/
                 skip_mems f g ((flatten_members ms ++ [EObjEnd]) ++ rest) = SkMore.
Proof.
  induction 1 as [|[[k r] e] ms He Hes IH]; intros g rest.
  - destruct g as [|g]; [right; reflexivity|left]. rewrite skip_mems_S. reflexivity.
  - rewrite flatten_members_cons.
    replace (((key_event k r :: flatten e ++ flatten_members ms) ++ [EObjEnd]) ++ rest)
      with (key_event k r :: flatten e ++ (flatten_members ms ++ [EObjEnd]) ++ rest)
      by (cbn [app]; rewrite <- !app_assoc; reflexivity).
    destruct g as [|g]; [right; reflexivity|]. rewrite skip_mems_key.
    apply (loop_value_total f (skip_mems f) (skip_mems_O f) (skip_mems_step' f) e _ He IH).
Qed.

Theorem skip_total : forall t, plain t = true -> skip_total_at t.
Proof.
  induction t as [s r|len bt es IH|len bt ms IH|bt es|bt ms] using tree_ind';
    intros Hp fuel rest; try discriminate Hp.
  - destruct fuel as [|f]; [right; reflexivity|left]. rewrite skip_value_S. destruct s, r; reflexivity.
  - destruct fuel as [|f]; [right; reflexivity|]. rewrite flatten_arr. cbn [app]. rewrite skip_value_S.
    apply skip_elems_total.
    cbn [plain] in Hp. rewrite forallb_forall in Hp. rewrite Forall_forall in *. intros x Hx. apply IH; auto.
  - destruct fuel as [|f]; [right; reflexivity|]. rewrite flatten_obj. cbn [app]. rewrite skip_value_S.
    apply skip_mems_total.
    cbn [plain] in Hp. rewrite forallb_forall in Hp. rewrite Forall_forall in *. intros x Hx. apply IH; auto.
Qed.

Lemma skip_elems_prefix f es : Forall skip_total_at es -> Forall skip_prefix_at es ->
  forall g p q, flatten_elems es ++ [EArrEnd] = p ++ q -> q <> [] -> skip_elems f g p = SkMore.
Proof.
  intros Ht Hp. induction Hp as [|e es He Hes IH]; intros g p q E Hq.
  - apply single_split in E; [|exact Hq]. destruct E as [-> _]. apply skip_elems_nil.
  - inversion Ht as [|? ? Ht1 Ht2]; subst.
    rewrite flatten_elems_cons, <- app_assoc in E.
    exact (loop_value_prefix f (skip_elems f) (skip_elems_O f) (skip_elems_nil f) (skip_elems_step' f) e _ Ht1 He (IH Ht2) g p q E Hq).
Qed.

Lemma skip_mems_prefix f ms : Forall (fun m => skip_total_at (snd m)) ms -> Forall (fun m => skip_prefix_at (snd m)) ms ->
  forall g p q, flatten_members ms ++ [EObjEnd] = p ++ q -> q <> [] -> skip_mems f g p = SkMore.
Proof.
  intros Ht Hp. induction Hp as [|[[k r] e] ms He Hes IH]; intros g p q E Hq.
  - apply single_split in E; [|exact Hq]. destruct E as [-> _]. apply skip_mems_nil.
  - inversion Ht as [|? ? Ht1 Ht2]; subst.
    rewrite flatten_members_cons, <- app_comm_cons, <- app_assoc in E.
    destruct p as [|x p]; [apply skip_mems_nil|].
    cbn [app] in E. injection E as <- E.
    destruct g as [|g]; [reflexivity|]. rewrite skip_mems_key.
    exact (loop_value_prefix f (skip_mems f) (skip_mems_O f) (skip_mems_nil f) (skip_mems_step' f) e _ Ht1 He (IH Ht2) g p q E Hq).
Qed.

Theorem skip_prefix : forall t, plain t = true -> skip_prefix_at t.
Proof.
  induction t as [s r|len bt es IH|len bt ms IH|bt es|bt ms] using tree_ind';
    intros Hp fuel p q E Hq; try discriminate Hp.
  - assert (p = []) as ->.
    { destruct s, r; cbn [flatten] in E; apply single_split in E; tauto. }
    destruct fuel; reflexivity.
  - rewrite flatten_arr in E. destruct p as [|x p]; [destruct fuel; reflexivity|].
    cbn [app] in E. injection E as <- E.
    destruct fuel as [|f]; [reflexivity|]. rewrite skip_value_S.
    cbn [plain] in Hp. rewrite forallb_forall in Hp.
    apply (skip_elems_prefix f es) with (q := q); try assumption.
    + apply Forall_forall. intros y Hy. apply skip_total. auto.
    + rewrite Forall_forall in *. intros y Hy. apply IH; auto.
  - rewrite flatten_obj in E. destruct p as [|x p]; [destruct fuel; reflexivity|].
    cbn [app] in E. injection E as <- E.
    destruct fuel as [|f]; [reflexivity|]. rewrite skip_value_S.
    cbn [plain] in Hp. rewrite forallb_forall in Hp.
    apply (skip_mems_prefix f ms) with (q := q); try assumption.
    + apply Forall_forall. intros y Hy. apply skip_total. auto.
    + rewrite Forall_forall in *. intros y Hy. apply IH; auto.
Qed.

(* C13: while the skipped value is incomplete the ignore unfolder asks for more - with any
   fuel, it never reports an error *)
Theorem C13_skip_prefix : forall t p q fuel,
  flatten (expand_tree t) = p ++ q -> q <> [] -> skip_value fuel p = SkMore.
Proof. intros t p q fuel E Hq. exact (skip_prefix _ (plain_expand t) fuel p q E Hq). Qed.
Print Assumptions C13_skip_prefix.

(* with any fuel a complete value is skipped exactly or not at all *)
Theorem C13_skip_total : forall t rest fuel,
  skip_value fuel (flatten (expand_tree t) ++ rest) = SkOk rest \/
  skip_value fuel (flatten (expand_tree t) ++ rest) = SkMore.
Proof. intros t rest fuel. apply skip_total, plain_expand. Qed.

(* ====================================================================== *)
(* Part 2: C13 - interface{} targets hold the generic value of the stream   *)
(* ====================================================================== *)

Arguments conv : simpl never.

Lemma fl_decode_inf_32 z neg : 0 <= z < 2 ^ 32 -> fl_decode 23 8 z = FInf neg -> fl_inf 23 8 neg = z.
Proof.
  unfold fl_decode, fl_inf. intros Hz.
  change (2 ^ (23 + 8)) with 2147483648. change (2 ^ 23) with 8388608. change (2 ^ 8) with 256.
  change (2 ^ 32) with 4294967296 in Hz.
  destruct (z / 8388608 mod 256 =? 256 - 1) eqn:E1.
  - destruct (z mod 8388608 =? 0) eqn:E2; [|discriminate].
    intro H. injection H as <-.
    destruct (z / 2147483648 mod 2 =? 0) eqn:E3; cbn [negb]; lia.
  - destruct (z / 8388608 mod 256 =? 0); discriminate.
Qed.

Lemma fl_decode_inf_64 z neg : 0 <= z < 2 ^ 64 -> fl_decode 52 11 z = FInf neg -> fl_inf 52 11 neg = z.
Proof.
  unfold fl_decode, fl_inf. intros Hz.
  change (2 ^ (52 + 11)) with 9223372036854775808. change (2 ^ 52) with 4503599627370496. change (2 ^ 11) with 2048.
  change (2 ^ 64) with 18446744073709551616 in Hz.
  destruct (z / 4503599627370496 mod 2048 =? 2048 - 1) eqn:E1.
  - destruct (z mod 4503599627370496 =? 0) eqn:E2; [|discriminate].
    intro H. injection H as <-.
    destruct (z / 9223372036854775808 mod 2 =? 0) eqn:E3; cbn [negb]; lia.
  - destruct (z / 4503599627370496 mod 2048 =? 0); discriminate.
Qed.

(* converting a value to its own kind is the identity (on values of that kind) *)
Lemma conv_same_kind k z : nkind_ok k z = true -> conv k k z = z.
Proof.
  intro H. unfold conv.
  destruct k; cbn [kind_float kind_signed kind_bits nkind_ok fmt_m fmt_e] in *;
    try (apply wraps_small; [lia|]; unfold in_s in H; lia);
    try (apply wrapu_small; [lia|]; unfold in_u in H; lia).
  - unfold in_u in H. destruct (fl_decode 23 8 z) eqn:E; try reflexivity.
    apply fl_decode_inf_32; [lia|exact E].
  - unfold in_u in H. destruct (fl_decode 52 11 z) eqn:E; try reflexivity.
    apply fl_decode_inf_64; [lia|exact E].
Qed.

Lemma conv_byte_uint8 z : in_u 8 z = true -> conv KByte KUint8 z = z.
Proof. intro H. unfold conv. cbn [kind_float kind_signed kind_bits]. apply wrapu_small; [lia|]. unfold in_u in H. lia. Qed.

Lemma gmap_put_eq k v m : gmap_put k v m = map_put k v m.
Proof.
  induction m as [|[k' v'] m IH]; [reflexivity|].
  cbn [gmap_put map_put]. rewrite IH. reflexivity.
Qed.

Lemma ifc_elem_eq bt : ifc_elem bt = gen_elem_type bt.
Proof. destruct bt; reflexivity. Qed.

Lemma is_refl_ifc bt : is_refl (gen_elem_type bt) = false.
Proof. destruct bt; reflexivity. Qed.

Lemma ifc_scalar_eq s : ifc_scalar s = gen_scalar s.
Proof. reflexivity. Qed.

Definition gen_typed_tree (e : tree) : gvalue := match e with TVal s _ => gen_typed s | _ => GNil end.
Definition gen_elem (bt : btype) : tree -> gvalue :=
  match gen_elem_type bt with TIface => generic | _ => gen_typed_tree end.

Lemma generic_arr len bt es :
  generic (TArr len bt es) = gen_list (gen_elem_type bt) (map (gen_elem bt) es).
Proof. destruct bt; reflexivity. Qed.

Lemma generic_obj len bt ms :
  generic (TObj len bt ms) = gen_map (gen_elem_type bt) (map (fun m => (fst (fst m), gen_elem bt (snd m))) ms).
Proof. destruct bt; reflexivity. Qed.

(* ---------- specialised unfolding lemmas ---------- *)
Lemma uf_iface_val f old s r : uf (S f) TIface old (EVal s :: r) = UOk (ifc_scalar s) r.
Proof. rewrite uf_S. reflexivity. Qed.

Lemma uf_iface_arr f old l bt r :
  uf (S f) TIface old (EArrStart l bt :: r) =
  match uf f (TSlice (ifc_elem bt)) GNil (EArrStart l bt :: r) with
  | UOk v r' => UOk (GIface (TSlice (ifc_elem bt)) v) r'
  | UErr x => UErr x
  end.
Proof. rewrite uf_S. reflexivity. Qed.

Lemma uf_iface_obj f old l bt r :
  uf (S f) TIface old (EObjStart l bt :: r) =
  match uf f (TMap (ifc_elem bt)) GNil (EObjStart l bt :: r) with
  | UOk v r' => UOk (GIface (TMap (ifc_elem bt)) v) r'
  | UErr x => UErr x
  end.
Proof. rewrite uf_S. reflexivity. Qed.

Lemma uf_slice f t e old l bt r : under t = TSlice e ->
  uf (S f) t old (EArrStart l bt :: r) =
  let '(cur, spare, wasnil) := slice_start e old (Z.max l 0) in
  slice_loop f e wasnil (is_refl e) (S (length r)) cur spare O r.
Proof. intro H. rewrite uf_S, H. reflexivity. Qed.

Lemma uf_map f t e old l bt r : under t = TMap e ->
  uf (S f) t old (EObjStart l bt :: r) = map_loop f e (is_refl e) (S (length r)) (map_start e old) r.
Proof. intro H. rewrite uf_S, H. reflexivity. Qed.

Lemma flatten_tval s : flatten (TVal s false) = [EVal s].
Proof. destruct s; reflexivity. Qed.

(* ---------- the slice loop on elements that are not handled by reflection ---------- *)
Lemma slice_loop_step_prim f e wasnil g cur spare idx h p : starts_value h = true ->
  slice_loop f e wasnil false (S g) cur spare idx (h :: p) =
  match uf f e (sl_oldel e false cur spare idx) (h :: p) with
  | UOk v r'' => slice_loop f e wasnil false g (sl_put cur idx v) (sl_spare cur spare idx) (S idx) r''
  | UErr x => UErr x
  end.
Proof.
  intro Hh. rewrite slice_loop_step by exact Hh. reflexivity.
Qed.

Lemma replace_nth_app {A} (a : list A) x v b : replace_nth (length a) v (a ++ x :: b) = a ++ v :: b.
Proof. induction a as [|y a IH]; [reflexivity|]. cbn [length app replace_nth]. rewrite IH. reflexivity. Qed.

Lemma sl_put_fill (z : gvalue) done k v :
  sl_put (done ++ repeat z k) (length done) v = (done ++ [v]) ++ repeat z (k - 1).
Proof.
  unfold sl_put, sl_have. rewrite app_length, repeat_length.
  destruct k as [|k].
  - replace (length done <? length done + 0)%nat with false by (symmetry; apply Nat.ltb_ge; lia).
    cbn [repeat Nat.sub]. rewrite !app_nil_r. reflexivity.
  - replace (length done <? length done + S k)%nat with true by (symmetry; apply Nat.ltb_lt; lia).
    cbn [repeat]. rewrite replace_nth_app. replace (S k - 1)%nat with k by lia.
    rewrite <- app_assoc. reflexivity.
Qed.

Lemma sl_spare_nil cur idx : sl_spare cur [] idx = [].
Proof. unfold sl_spare. destruct (sl_have cur idx); reflexivity. Qed.

Lemma slice_loop_fill f e wasnil (val : tree -> gvalue) es :
  Forall (fun x => forall old rest, uf f e old (flatten x ++ rest) = UOk (val x) rest) es ->
  forall g done k rest, (length es < g)%nat ->
    slice_loop f e wasnil false g (done ++ repeat (zero_of e) k) [] (length done)
               (flatten_elems es ++ EArrEnd :: rest)
    = UOk (slice_final wasnil (done ++ map val es ++ repeat (zero_of e) (k - length es))) rest.
Proof.
  induction 1 as [|x es Hx Hes IH]; intros g done k rest Hg.
  - destruct g as [|g]; [cbn in Hg; lia|]. rewrite slice_loop_S.
    cbn [flatten_elems flat_map app map length]. rewrite Nat.sub_0_r. reflexivity.
  - destruct g as [|g]; [cbn in Hg; lia|].
    rewrite flatten_elems_cons, <- app_assoc.
    destruct (flatten_head x) as (h & tl & E & Hh).
    specialize (Hx (sl_oldel e false (done ++ repeat (zero_of e) k) [] (length done)) (flatten_elems es ++ EArrEnd :: rest)).
    rewrite E in *. cbn [app] in *.
    rewrite slice_loop_step_prim by exact Hh. rewrite Hx.
    rewrite sl_put_fill, sl_spare_nil.
    replace (S (length done)) with (length (done ++ [val x])) by (rewrite app_length; cbn [length]; lia).
    rewrite IH by (cbn [length] in Hg; lia).
    cbn [map length app]. rewrite <- app_assoc. cbn [app].
    replace (k - 1 - length es)%nat with (k - S (length es))%nat by lia. reflexivity.
Qed.

(* ---------- the map loop on elements that are not handled by reflection ---------- *)
Lemma map_loop_step_prim f e g cur k b r' :
  map_loop f e false (S g) cur (key_event k b :: r') =
  match uf f e (zero_of e) r' with
  | UOk v r'' => map_loop f e false g (Some (map_put k v (opt_map cur))) r''
  | UErr x => UErr x
  end.
Proof.
  rewrite map_loop_key. destruct r'; reflexivity.
Qed.

Definition put_all (kvs : list (bytes * gvalue)) (m : list (bytes * gvalue)) : list (bytes * gvalue) :=
  fold_left (fun m kv => map_put (fst kv) (snd kv) m) kvs m.
Definition mstep (cur : option (list (bytes * gvalue))) (kvs : list (bytes * gvalue)) :=
  match kvs with [] => cur | _ => Some (put_all kvs (opt_map cur)) end.

Lemma mstep_cons cur k v kvs : mstep cur ((k, v) :: kvs) = mstep (Some (map_put k v (opt_map cur))) kvs.
Proof. destruct kvs; reflexivity. Qed.

Lemma map_loop_fill f e (val : tree -> gvalue) ms :
  Forall (fun m => forall old rest, uf f e old (flatten (snd m) ++ rest) = UOk (val (snd m)) rest) ms ->
  forall g cur rest, (length ms < g)%nat ->
    map_loop f e false g cur (flatten_members ms ++ EObjEnd :: rest)
    = UOk (map_final (mstep cur (map (fun m => (fst (fst m), val (snd m))) ms))) rest.
Proof.
  induction 1 as [|[[k b] x] ms Hx Hms IH]; intros g cur rest Hg.
  - destruct g as [|g]; [cbn in Hg; lia|]. rewrite map_loop_S. reflexivity.
  - destruct g as [|g]; [cbn in Hg; lia|].
    rewrite flatten_members_cons, <- app_comm_cons, <- app_assoc.
    rewrite map_loop_step_prim. cbn [snd] in Hx. rewrite Hx.
    rewrite IH by (cbn [length] in Hg; lia).
    cbn [map fst snd]. rewrite mstep_cons. reflexivity.
Qed.

Lemma gen_map_put_all et kvs :
  gen_map et kvs = GIface (TMap et) (map_final (mstep None kvs)).
Proof.
  unfold gen_map, mstep, put_all. destruct kvs as [|kv kvs]; [reflexivity|].
  reflexivity.
Qed.

(* ---------- elements of typed containers ---------- *)
Definition generic_at (t : tree) : Prop :=
  forall old rest fuel, (length (flatten t) <= fuel)%nat ->
    uf fuel TIface old (flatten t ++ rest) = UOk (generic t) rest.

Lemma elem_generic bt x f :
  tree_matches bt x = true -> wf_tree x = true -> strict x = true -> generic_at x ->
  (length (flatten x) <= f)%nat ->
  forall old rest, uf f (gen_elem_type bt) old (flatten x ++ rest) = UOk (gen_elem bt x) rest.
Proof.
  intros Hm Hwf Hs Hg Hf old rest.
  destruct bt; try (apply Hg; exact Hf);
    (destruct x as [s r| | | |]; try discriminate Hm; cbn [strict] in Hs; destruct r; try discriminate Hs;
     rewrite flatten_tval in *; cbn [length] in Hf; destruct f as [|f]; [lia|];
     cbn [tree_matches] in Hm; cbn [wf_tree] in Hwf;
     rewrite uf_S; cbn [gen_elem_type under app];
     destruct s as [| | |k z]; try discriminate Hm; try reflexivity;
     destruct k; try discriminate Hm; cbn [scalar_ok] in Hwf;
     unfold gen_elem, gen_typed_tree; cbn [gen_elem_type gen_typed];
     first [rewrite conv_same_kind by exact Hwf | rewrite conv_byte_uint8 by exact Hwf]; reflexivity).
Qed.

Lemma flatten_elems_In x es : In x es -> (length (flatten x) <= length (flatten_elems es))%nat.
Proof.
  induction es as [|e es IH]; [contradiction|]. intros [->|H]; rewrite flatten_elems_cons, app_length; [lia|].
  specialize (IH H). lia.
Qed.

Lemma flatten_members_In m ms : In m ms -> (length (flatten (snd m)) <= length (flatten_members ms))%nat.
Proof.
  induction ms as [|[[k r] e] ms IH]; [contradiction|]. intros [<-|H]; rewrite flatten_members_cons; cbn [length snd];
    rewrite app_length; [lia|].
  specialize (IH H). lia.
Qed.

Lemma len_ok_prealloc {A} len (l : list A) : len_ok len l = true ->
  (Z.to_nat (Z.min (Z.max len 0) max_initial_len) - length l)%nat = O.
Proof. unfold len_ok, zlen, max_initial_len. intro H. lia. Qed.

Lemma len_ok_wasnil {A} len (l : list A) : len_ok len l = true -> l = [] -> (Z.max len 0 =? 0) = true.
Proof. unfold len_ok, zlen. intros H ->. cbn [length] in H. lia. Qed.

Theorem generic_strict : forall t, strict t = true -> wf_tree t = true -> generic_at t.
Proof.
  induction t as [s r|len bt es IH|len bt ms IH|bt es|bt ms] using tree_ind';
    intros Hs Hwf old rest fuel Hfuel; try discriminate Hs.
  - cbn [strict] in Hs. destruct r; [discriminate|]. rewrite flatten_tval in *.
    destruct fuel as [|f]; [cbn in Hfuel; lia|]. cbn [app]. rewrite uf_iface_val. reflexivity.
  - rewrite flatten_arr in *. cbn [length] in Hfuel. rewrite app_length in Hfuel. cbn [length] in Hfuel.
    destruct fuel as [|[|f]]; try lia.
    cbn [app]. rewrite uf_iface_arr, ifc_elem_eq.
    rewrite (uf_slice _ _ (gen_elem_type bt)) by reflexivity.
    cbn [slice_start]. rewrite is_refl_ifc. rewrite <- app_assoc. cbn [app].
    rewrite wf_arr in Hwf. apply andb_true_iff in Hwf. destruct Hwf as [Hwf H3].
    apply andb_true_iff in Hwf. destruct Hwf as [H1 H2].
    cbn [strict] in Hs. rewrite forallb_forall in Hs, H2, H3.
    pose proof (slice_loop_fill f (gen_elem_type bt) (Z.max len 0 =? 0) (gen_elem bt) es) as L.
    specialize (L ltac:(apply Forall_forall; intros x Hx; rewrite Forall_forall in IH;
                        apply elem_generic; auto; pose proof (flatten_elems_In x es Hx); lia)).
    specialize (L (S (length (flatten_elems es ++ EArrEnd :: rest))) [] (Z.to_nat (Z.min (Z.max len 0) max_initial_len)) rest).
    cbn [app length] in L. rewrite L.
    2:{ rewrite app_length. pose proof (flatten_elems_length_ge es). lia. }
    rewrite (len_ok_prealloc _ _ H1). cbn [repeat]. rewrite app_nil_r.
    rewrite generic_arr. unfold gen_list, slice_final. f_equal.
    destruct es as [|e0 es]; [|reflexivity].
    cbn [map]. rewrite (len_ok_wasnil _ _ H1 eq_refl). reflexivity.
  - rewrite flatten_obj in *. cbn [length] in Hfuel. rewrite app_length in Hfuel. cbn [length] in Hfuel.
    destruct fuel as [|[|f]]; try lia.
    cbn [app]. rewrite uf_iface_obj, ifc_elem_eq.
    rewrite (uf_map _ _ (gen_elem_type bt)) by reflexivity.
    rewrite is_refl_ifc. cbn [map_start]. rewrite is_refl_ifc. rewrite <- app_assoc. cbn [app].
    rewrite wf_obj in Hwf. apply andb_true_iff in Hwf. destruct Hwf as [Hwf H3].
    apply andb_true_iff in Hwf. destruct Hwf as [H1 H2].
    cbn [strict] in Hs. rewrite forallb_forall in Hs, H2, H3.
    rewrite (map_loop_fill f (gen_elem_type bt) (gen_elem bt) ms).
    + rewrite generic_obj, gen_map_put_all. reflexivity.
    + apply Forall_forall. intros m Hm. rewrite Forall_forall in IH.
      specialize (Hs m Hm). specialize (H3 m Hm). apply andb_true_iff in Hs, H3.
      apply elem_generic; try tauto; auto.
      * apply IH; tauto.
      * pose proof (flatten_members_In m ms Hm). lia.
    + rewrite app_length. pose proof (flatten_members_length_ge ms). cbn [length]. lia.
Qed.

(* ---------- extended events: the generic value of the expansion ---------- *)
Lemma gen_elem_typed bt x : gen_elem_type bt <> TIface -> gen_elem bt x = gen_typed_tree x.
Proof. destruct bt; intro H; try reflexivity; contradiction H; reflexivity. Qed.

Lemma gen_elem_any bt x : gen_elem_type bt = TIface -> gen_elem bt x = generic x.
Proof. destruct bt; intro H; try discriminate H; reflexivity. Qed.

Lemma gen_typed_tree_expand x : gen_typed_tree (expand_tree x) = gen_typed_tree x.
Proof. destruct x; reflexivity. Qed.

Lemma gtype_iface_dec (t : gtype) : t = TIface \/ t <> TIface.
Proof. destruct t; try (right; discriminate); left; reflexivity. Qed.

Lemma xelem_any_nil bt {A} (g : A -> scalar) (l : list A) :
  gen_elem_type bt = TIface -> forallb (fun x => xelem_ok bt (g x)) l = true -> l = [].
Proof.
  intros Hbt H. destruct l as [|x l]; [reflexivity|]. cbn [forallb] in H.
  destruct bt; try discriminate Hbt; discriminate H.
Qed.

Theorem generic_expand : forall t, wf_tree t = true -> generic (expand_tree t) = generic t.
Proof.
  induction t as [s r|len bt es IH|len bt ms IH|bt es|bt ms] using tree_ind'; intro Hwf.
  - reflexivity.
  - cbn [expand_tree]. rewrite !generic_arr. f_equal. rewrite map_map. apply map_ext_in. intros x Hx.
    destruct (gtype_iface_dec (gen_elem_type bt)) as [E|E].
    + rewrite !gen_elem_any by exact E. rewrite Forall_forall in IH. apply IH; [exact Hx|].
      rewrite wf_arr in Hwf. apply andb_true_iff in Hwf. destruct Hwf as [_ H3].
      rewrite forallb_forall in H3. auto.
    + rewrite !gen_elem_typed by exact E. apply gen_typed_tree_expand.
  - cbn [expand_tree]. rewrite !generic_obj. f_equal. rewrite map_map. apply map_ext_in. intros x Hx.
    cbn [fst snd]. f_equal.
    destruct (gtype_iface_dec (gen_elem_type bt)) as [E|E].
    + rewrite !gen_elem_any by exact E. rewrite Forall_forall in IH. apply IH; [exact Hx|].
      rewrite wf_obj in Hwf. apply andb_true_iff in Hwf. destruct Hwf as [_ H3].
      rewrite forallb_forall in H3. specialize (H3 x Hx). apply andb_true_iff in H3. tauto.
    + rewrite !gen_elem_typed by exact E. apply gen_typed_tree_expand.
  - cbn [expand_tree]. rewrite generic_arr. cbn [generic]. f_equal. rewrite map_map.
    destruct (gtype_iface_dec (gen_elem_type bt)) as [E|E].
    + cbn [wf_tree] in Hwf. rewrite (xelem_any_nil bt (fun s => s) es E Hwf). reflexivity.
    + apply map_ext. intro s. rewrite gen_elem_typed by exact E. reflexivity.
  - cbn [expand_tree]. rewrite generic_obj. cbn [generic]. f_equal. rewrite map_map.
    destruct (gtype_iface_dec (gen_elem_type bt)) as [E|E].
    + cbn [wf_tree] in Hwf. apply andb_true_iff in Hwf. destruct Hwf as [_ Hwf].
      assert (ms = []) as ->; [|reflexivity].
      destruct ms as [|m ms]; [reflexivity|]. cbn [forallb] in Hwf.
      destruct bt; try discriminate E; rewrite andb_false_r in Hwf; discriminate Hwf.
    + apply map_ext. intro m. cbn [fst snd]. rewrite gen_elem_typed by exact E. reflexivity.
Qed.

(* C13: an interface{} target receives the stream's value as generic Go data - whatever
   it held before, whatever follows, whether lengths are announced or not (an announced
   length above 4096 only pre-allocates 4096 elements; the rest is appended). *)
Theorem C13_generic : forall t old rest fuel,
  wf_tree t = true -> (length (flatten (expand_tree t)) <= fuel)%nat ->
  uf fuel TIface old (flatten (expand_tree t) ++ rest) = UOk (generic t) rest.
Proof.
  intros t old rest fuel Hwf Hfuel.
  rewrite <- (generic_expand t Hwf).
  apply generic_strict; [apply strict_expand|apply expand_deep_wf; exact Hwf|exact Hfuel].
Qed.
Print Assumptions C13_generic.

Lemma ucc_type_iface : ucc_type TIface = None.
Proof. reflexivity. Qed.

Corollary C13_generic_top : forall t old,
  wf_tree t = true -> unfold_value TIface old (flatten t) = UDone (generic t).
Proof.
  intros t old Hwf. unfold unfold_value. rewrite ucc_type_iface.
  rewrite <- expand_deep_is_flatten.
  rewrite <- (app_nil_r (flatten (expand_tree t))) at 2.
  rewrite C13_generic; [reflexivity|exact Hwf|cbn [ftsize]; lia].
Qed.
Print Assumptions C13_generic_top.

(* ====================================================================== *)
(* Part 3: C10 - extended events and by-reference delivery                 *)
(* ====================================================================== *)

Definition plain_event (e : event) : bool :=
  match e with EXArr _ _ | EXObj _ _ | EStrRef _ | EKeyRef _ => false | _ => true end.

Lemma expand_plain_event e : plain_event e = true -> expand e = [e].
Proof. destruct e; intro H; try discriminate H; reflexivity. Qed.

Lemma flat_map_expand_plain l : forallb plain_event l = true -> flat_map expand l = l.
Proof.
  induction l as [|e l IH]; [reflexivity|]. cbn [forallb flat_map]. intro H.
  apply andb_true_iff in H. destruct H as [H1 H2].
  rewrite (expand_plain_event e H1), (IH H2). reflexivity.
Qed.

Lemma forallb_app' {A} (p : A -> bool) a b : forallb p (a ++ b) = forallb p a && forallb p b.
Proof. induction a as [|x a IH]; [reflexivity|]. cbn [app forallb]. rewrite IH, andb_assoc. reflexivity. Qed.

Lemma expand_is_plain e : forallb plain_event (expand e) = true.
Proof.
  destruct e as [s|b|len bt| |len bt| |k|k|bt es|bt ms]; try reflexivity.
  - cbn [expand forallb plain_event andb]. rewrite forallb_app'. cbn [forallb plain_event andb].
    rewrite andb_true_r. induction es as [|s es IH]; [reflexivity|]. cbn [map forallb plain_event andb]. exact IH.
  - cbn [expand forallb plain_event andb]. rewrite forallb_app'. cbn [forallb plain_event andb].
    rewrite andb_true_r. induction ms as [|m ms IH]; [reflexivity|]. cbn [flat_map app forallb plain_event andb]. exact IH.
Qed.

Lemma flat_map_expand_is_plain evs : forallb plain_event (flat_map expand evs) = true.
Proof.
  induction evs as [|e evs IH]; [reflexivity|]. cbn [flat_map]. rewrite forallb_app', expand_is_plain, IH. reflexivity.
Qed.

Theorem flat_map_expand_idem evs : flat_map expand (flat_map expand evs) = flat_map expand evs.
Proof. apply flat_map_expand_plain, flat_map_expand_is_plain. Qed.

(* C10: the unfolder treats an extended event exactly as its expansion (what the adapter
   would deliver) *)
Theorem C10_unfold_expand : forall t old evs,
  unfold_value t old (flat_map expand evs) = unfold_value t old evs.
Proof. intros t old evs. unfold unfold_value. rewrite flat_map_expand_idem. reflexivity. Qed.
Print Assumptions C10_unfold_expand.

(* by-reference delivery of strings and keys is irrelevant, event by event *)
Inductive ref_equiv : event -> event -> Prop :=
| re_refl e : ref_equiv e e
| re_str s : ref_equiv (EStrRef s) (EVal (SStr s))
| re_str' s : ref_equiv (EVal (SStr s)) (EStrRef s)
| re_key k : ref_equiv (EKeyRef k) (EKey k)
| re_key' k : ref_equiv (EKey k) (EKeyRef k).

Lemma ref_equiv_expand a b : ref_equiv a b -> expand a = expand b.
Proof. destruct 1; reflexivity. Qed.

Theorem C10_unfold_byref : forall t old evs evs',
  Forall2 ref_equiv evs evs' -> unfold_value t old evs = unfold_value t old evs'.
Proof.
  intros t old evs evs' H. unfold unfold_value.
  replace (flat_map expand evs') with (flat_map expand evs); [reflexivity|].
  induction H as [|a b l l' Hab _ IH]; [reflexivity|]. cbn [flat_map]. rewrite (ref_equiv_expand a b Hab), IH. reflexivity.
Qed.
Print Assumptions C10_unfold_byref.

Definition deref_event (e : event) : event :=
  match e with EStrRef s => EVal (SStr s) | EKeyRef k => EKey k | _ => e end.

Corollary C10_unfold_deref : forall t old evs, unfold_value t old (map deref_event evs) = unfold_value t old evs.
Proof.
  intros t old evs. symmetry. apply C10_unfold_byref.
  induction evs as [|e evs IH]; constructor; [|exact IH]. destruct e; constructor.
Qed.

(* a document delivered through the extended interface or through the adapters of C09/C16
   (EnsureExtVisitor around a plain visitor) reaches the unfolder as the same events *)
Corollary C10_unfold_tree : forall t old tr,
  unfold_value t old (flatten tr) = unfold_value t old (flatten (expand_tree tr)).
Proof. intros t old tr. rewrite expand_deep_is_flatten, C10_unfold_expand. reflexivity. Qed.

(* ====================================================================== *)
(* Part 4: C14 - no allocation out of proportion                           *)
(* ====================================================================== *)

(* size of a Go value: number of scalars, elements, members, pointers, interfaces *)
Fixpoint gsize (v : gvalue) : nat :=
  match v with
  | GBool _ | GStr _ | GNum _ | GNil => 1
  | GPtr x => S (gsize x)
  | GList vs => S (list_sum (map gsize vs))
  | GIface _ x => S (gsize x)
  | GMap kvs => S (list_sum (map (fun kv => gsize (snd kv)) kvs))
  | GStruct vs => S (list_sum (map gsize vs))
  end.

Definition gsum (l : list gvalue) : nat := list_sum (map gsize l).
Definition nelems (v : gvalue) : nat := match v with GList l => length l | _ => O end.

Lemma gsize_pos v : (1 <= gsize v)%nat.
Proof. destruct v; cbn [gsize]; lia. Qed.

(* a scalar target consumes exactly one event *)
Lemma uf_prim_one fuel e old evs v r : prim_kind e = true ->
  uf fuel e old evs = UOk v r -> (exists h, evs = h :: r) /\ gsize v = 1%nat.
Proof.
  unfold prim_kind. intros Hp H. destruct fuel as [|f]; [rewrite uf_O in H; discriminate H|].
  destruct (under e) eqn:U; try discriminate Hp.
  - rewrite uf_S_bool in H by exact U.
    destruct evs as [|[s| | | | | | | | |] evs]; try discriminate H; destruct s; try discriminate H;
      injection H as <- <-; split; eauto.
  - rewrite uf_S_string in H by exact U.
    destruct evs as [|[s| | | | | | | | |] evs]; try discriminate H; destruct s; try discriminate H;
      injection H as <- <-; split; eauto.
  - rewrite (uf_S_num _ _ k) in H by exact U.
    destruct evs as [|[s| | | | | | | | |] evs]; try discriminate H; destruct s; try discriminate H;
      injection H as <- <-; split; eauto.
Qed.

Lemma prim_not_refl e : prim_kind e = true -> is_refl e = false.
Proof. unfold is_refl. intros ->. reflexivity. Qed.

Lemma sl_put_length cur idx v : (idx <= length cur)%nat -> length (sl_put cur idx v) = Nat.max (length cur) (S idx).
Proof.
  unfold sl_put, sl_have. intro H. destruct (Nat.ltb idx (length cur)) eqn:E.
  - apply Nat.ltb_lt in E.
    assert (L : forall (l : list gvalue) i, length (replace_nth i v l) = length l).
    { induction l as [|y l IHl]; intros [|i]; cbn [replace_nth length]; auto. }
    rewrite L. lia.
  - apply Nat.ltb_ge in E. rewrite app_length. cbn [length]. lia.
Qed.

Lemma slice_final_nelems wasnil cur : nelems (slice_final wasnil cur) = length cur.
Proof. destruct cur; [destruct wasnil|]; reflexivity. Qed.

Definition is_arr_end (evs : list event) : bool := match evs with EArrEnd :: _ => true | _ => false end.

Lemma slice_loop_prim_step f e wasnil g cur spare idx evs : is_arr_end evs = false ->
  slice_loop f e wasnil false (S g) cur spare idx evs =
  match uf f e (sl_oldel e false cur spare idx) evs with
  | UOk v r'' => slice_loop f e wasnil false g (sl_put cur idx v) (sl_spare cur spare idx) (S idx) r''
  | UErr x => UErr x
  end.
Proof.
  intro H. rewrite slice_loop_S.
  destruct evs as [|[s| | | | | | | | |] p]; try discriminate H; cbv beta iota; try reflexivity.
  destruct s; reflexivity.
Qed.

Lemma slice_loop_prim_len f e wasnil : prim_kind e = true ->
  forall g cur spare idx evs v rest,
    slice_loop f e wasnil false g cur spare idx evs = UOk v rest -> (idx <= length cur)%nat ->
    exists m, length evs = (m + 1 + length rest)%nat /\ nelems v = Nat.max (length cur) (idx + m).
Proof.
  intro Hp. induction g as [|g IH]; intros cur spare idx evs v rest H Hi; [rewrite slice_loop_O in H; discriminate H|].
  destruct (is_arr_end evs) eqn:Ee.
  - destruct evs as [|[] p]; try discriminate Ee. rewrite slice_loop_S in H. injection H as <- <-.
    exists O. cbn [length]. rewrite slice_final_nelems. split; lia.
  - rewrite slice_loop_prim_step in H by exact Ee.
    match type of H with (match ?X with _ => _ end) = _ => destruct X as [v' r'|] eqn:E end; [|discriminate H].
    apply (uf_prim_one _ _ _ _ _ _ Hp) in E. destruct E as [[h' ->] _].
    apply IH in H; [|rewrite sl_put_length by exact Hi; lia].
    destruct H as (m & H1 & H2). exists (S m). cbn [length]. split; [lia|].
    rewrite H2, sl_put_length by exact Hi. lia.
Qed.

(* C14 for slices of scalars: the result has as many elements as the stream delivered, or as
   the target already had, or as were pre-allocated - and never more than 4096 are
   pre-allocated, whatever length the stream announces *)
Theorem C14_slice_of_scalars : forall fuel t e old evs v rest,
  under t = TSlice e -> prim_kind e = true ->
  uf fuel t old evs = UOk v rest ->
  exists n, length evs = (n + 2 + length rest)%nat /\
            (nelems v <= Nat.max (Nat.max (nelems old) (Z.to_nat max_initial_len)) n)%nat.
Proof.
  intros fuel t e old evs v rest U Hp H.
  destruct fuel as [|f]; [rewrite uf_O in H; discriminate H|].
  rewrite (uf_S_slice _ _ e) in H by exact U.
  destruct evs as [|[s|b|l bt| | | | | | |] r]; try discriminate H.
  rewrite (prim_not_refl e Hp) in H.
  destruct (slice_start e old (Z.max l 0)) as [[cur spare] wasnil] eqn:Es.
  apply (slice_loop_prim_len _ _ _ Hp) in H; [|lia].
  destruct H as (m & H1 & H2). exists m. cbn [length]. split; [lia|].
  rewrite H2. cbn [Nat.add].
  assert (length cur <= Nat.max (nelems old) (Z.to_nat max_initial_len))%nat; [|lia].
  unfold slice_start in Es. destruct old; try (injection Es as <- _ _; rewrite repeat_length; lia).
  destruct (Z.max l 0 <? zlen vs); injection Es as <- _ _; cbn [nelems]; [rewrite firstn_length|]; lia.
Qed.
Print Assumptions C14_slice_of_scalars.

(* ---------- the general bound ---------- *)
Definition zs (t : gtype) : nat := gsize (zero_of t).
(* targets whose previous content is ignored *)
Definition fresh (t : gtype) : bool := prim_kind t || match under t with TIface => true | _ => false end.
Definition ob (t : gtype) (old : gvalue) : nat := if fresh t then O else gsize old.
Definition zs' (t : gtype) : nat := if fresh t then O else zs t.

Definition cI : nat := 2049.

(* growth per consumed event: an array start pre-allocates at most 4096 zero elements *)
Fixpoint W (t : gtype) : nat :=
  match t with
  | TBool | TString | TNum _ => 1
  | TIface => cI
  | TPtr u => 1 + zs u + W u
  | TSlice e => 2049 * zs e + W e
  | TMap e => zs e + W e
  | TStruct fs => (fix go (l : list (bytes * bytes * gtype)) : nat :=
                     match l with [] => O | (_, _, ft) :: r => Nat.max (W ft) (go r) end) fs
  | TNamed u => W u
  | TArray _ _ | TMapK _ | TUnsup => O
  end.

Definition Wfields (fs : list (bytes * bytes * gtype)) : nat :=
  (fix go (l : list (bytes * bytes * gtype)) : nat :=
     match l with [] => O | (_, _, ft) :: r => Nat.max (W ft) (go r) end) fs.

Lemma W_struct fs : W (TStruct fs) = Wfields fs.
Proof. reflexivity. Qed.

Lemma Wfields_cons n tg ft fs : Wfields ((n, tg, ft) :: fs) = Nat.max (W ft) (Wfields fs).
Proof. reflexivity. Qed.

Lemma W_under t : W t = W (under t).
Proof. destruct t; reflexivity. Qed.

Lemma zero_under t : zero_of t = zero_of (under t).
Proof. destruct t; reflexivity. Qed.

Lemma fresh_facts t : fresh t = true -> (1 <= W t)%nat /\ zs t = 1%nat.
Proof.
  unfold fresh, prim_kind, zs. rewrite W_under, (zero_under t). intro H.
  destruct (under t); try discriminate H; cbn [W zero_of gsize]; unfold cI; lia.
Qed.

Lemma zs_le e : (zs e <= zs' e + W e)%nat.
Proof.
  unfold zs'. destruct (fresh e) eqn:F; [|lia]. destruct (fresh_facts e F). lia.
Qed.

Lemma zs'_le e : (zs' e <= zs e)%nat.
Proof. unfold zs'. destruct (fresh e); lia. Qed.

(* what the induction carries: how far the input was consumed and how much the value grew *)
Definition size_ok (t : gtype) (old : gvalue) (evs : list event) (v : gvalue) (rest : list event) : Prop :=
  exists n, length evs = (n + length rest)%nat /\ (1 <= n)%nat /\ (gsize v <= ob t old + W t * n)%nat.

Definition size_at (f : nat) : Prop :=
  forall t old evs v rest, uf f t old evs = UOk v rest -> size_ok t old evs v rest.

Lemma gsum_app a b : gsum (a ++ b) = (gsum a + gsum b)%nat.
Proof. unfold gsum. rewrite map_app, list_sum_app. reflexivity. Qed.

Lemma gsum_cons x l : gsum (x :: l) = (gsize x + gsum l)%nat.
Proof. reflexivity. Qed.
Lemma gsum_nil : gsum [] = O.
Proof. reflexivity. Qed.

Lemma gsum_replace_nth v : forall cur idx, (idx < length cur)%nat ->
  (gsum (replace_nth idx v cur) + gsize (nth idx cur GNil) = gsum cur + gsize v)%nat.
Proof.
  induction cur as [|y cur IH]; intros idx H; [cbn in H; lia|].
  destruct idx as [|idx]; cbn [replace_nth nth].
  - rewrite !gsum_cons. lia.
  - cbn [length] in H. specialize (IH idx ltac:(lia)). rewrite !gsum_cons. lia.
Qed.

Lemma gsum_tl l : (gsum (tl l) <= gsum l)%nat.
Proof. destruct l; cbn [tl]; rewrite ?gsum_cons; lia. Qed.

(* one step of the slice loop: the new element against the one it started from *)
Lemma sl_step_size1 e refl cur spare idx v :
  (gsum (sl_put cur idx v) + gsum (sl_spare cur spare idx) + gsize (sl_oldel e refl cur spare idx)
   <= gsum cur + gsum spare + gsize v + zs e)%nat.
Proof.
  unfold sl_put, sl_spare, sl_oldel, sl_have. destruct (Nat.ltb idx (length cur)) eqn:E.
  - apply Nat.ltb_lt in E. pose proof (gsum_replace_nth v cur idx E). lia.
  - rewrite gsum_app, gsum_cons, gsum_nil.
    destruct refl; [destruct spare as [|x sp]|]; cbn [hd tl]; fold (zs e); rewrite ?gsum_cons, ?gsum_nil.
    + lia.
    + lia.
    + pose proof (gsum_tl spare). lia.
Qed.

Lemma sl_step_size2 cur spare idx v :
  (gsum (sl_put cur idx v) + gsum (sl_spare cur spare idx) <= gsum cur + gsum spare + gsize v)%nat.
Proof.
  unfold sl_put, sl_spare, sl_have. destruct (Nat.ltb idx (length cur)) eqn:E.
  - apply Nat.ltb_lt in E. pose proof (gsum_replace_nth v cur idx E). lia.
  - rewrite gsum_app, gsum_cons, gsum_nil. pose proof (gsum_tl spare). lia.
Qed.

Lemma slice_final_size wasnil cur : (gsize (slice_final wasnil cur) <= 1 + gsum cur)%nat.
Proof. destruct cur as [|x cur]; [destruct wasnil; cbn; lia|]. cbn [slice_final gsize]. fold (gsum (x :: cur)). lia. Qed.

Lemma slice_loop_step_gen f e wasnil refl g cur spare idx evs : is_arr_end evs = false ->
  slice_loop f e wasnil refl (S g) cur spare idx evs =
  if refl && match evs with h :: _ => is_nil_ev h | [] => false end
  then slice_loop f e wasnil refl g (sl_put cur idx (sl_oldel e refl cur spare idx)) (sl_spare cur spare idx) (S idx) (tl evs)
  else match uf f e (sl_oldel e refl cur spare idx) evs with
       | UOk v r'' => slice_loop f e wasnil refl g (sl_put cur idx v) (sl_spare cur spare idx) (S idx) r''
       | UErr x => UErr x
       end.
Proof.
  intro H. rewrite slice_loop_S.
  destruct evs as [|[s| | | | | | | | |] p]; try discriminate H; cbv beta iota;
    try (destruct refl; cbn [andb is_nil_ev tl]; reflexivity).
  destruct s, refl; cbn [andb is_nil_ev tl]; reflexivity.
Qed.

Lemma slice_loop_size f e wasnil refl : size_at f ->
  forall g cur spare idx evs v rest,
    slice_loop f e wasnil refl g cur spare idx evs = UOk v rest ->
    exists n, length evs = (n + 1 + length rest)%nat /\
              (gsize v <= 1 + gsum cur + gsum spare + (zs' e + W e) * n)%nat.
Proof.
  intro Hel. induction g as [|g IH]; intros cur spare idx evs v rest H; [rewrite slice_loop_O in H; discriminate H|].
  destruct (is_arr_end evs) eqn:Ee.
  - destruct evs as [|[] p]; try discriminate Ee. rewrite slice_loop_S in H. injection H as <- <-.
    exists O. cbn [length]. pose proof (slice_final_size wasnil cur). split; lia.
  - rewrite slice_loop_step_gen in H by exact Ee.
    destruct (refl && match evs with h :: _ => is_nil_ev h | [] => false end) eqn:En.
    + destruct evs as [|h p]; [rewrite andb_false_r in En; discriminate En|]. cbn [tl] in H.
      apply IH in H. destruct H as (n & H1 & H2). exists (S n). cbn [length]. split; [lia|].
      pose proof (sl_step_size1 e refl cur spare idx (sl_oldel e refl cur spare idx)).
      pose proof (zs_le e). nia.
    + destruct (uf f e (sl_oldel e refl cur spare idx) evs) as [v' r'|] eqn:U; [|discriminate H].
      apply Hel in U. destruct U as (n1 & U1 & U2 & U3).
      apply IH in H. destruct H as (n & H1 & H2). exists (n1 + n)%nat. split; [lia|].
      unfold ob, zs' in *. destruct (fresh e) eqn:F.
      * pose proof (sl_step_size2 cur spare idx v'). nia.
      * pose proof (sl_step_size1 e refl cur spare idx v'). nia.
Qed.

(* ---------- the map loop ---------- *)
Definition gsumkv (m : list (bytes * gvalue)) : nat := list_sum (map (fun kv => gsize (snd kv)) m).

Lemma gsumkv_cons k v m : gsumkv ((k, v) :: m) = (gsize v + gsumkv m)%nat.
Proof. reflexivity. Qed.

Lemma map_put_size k v m : (gsumkv (map_put k v m) <= gsumkv m + gsize v)%nat.
Proof.
  induction m as [|[k' v'] m IH]; cbn [map_put].
  - rewrite gsumkv_cons. unfold gsumkv. cbn. lia.
  - destruct (bytes_eqb k k'); [rewrite !gsumkv_cons; lia|].
    destruct (bytes_ltb k k'); rewrite !gsumkv_cons; lia.
Qed.

Lemma map_final_size cur : gsize (map_final cur) = (1 + gsumkv (opt_map cur))%nat.
Proof. destruct cur; reflexivity. Qed.

Lemma map_loop_size f e refl : size_at f ->
  forall g cur evs v rest,
    map_loop f e refl g cur evs = UOk v rest ->
    exists n, length evs = (n + 1 + length rest)%nat /\
              (gsize v <= 1 + gsumkv (opt_map cur) + (zs' e + W e) * n)%nat.
Proof.
  intro Hel. induction g as [|g IH]; intros cur evs v rest H; [rewrite map_loop_O in H; discriminate H|].
  assert (Hkey : forall k b p, map_loop f e refl (S g) cur (key_event k b :: p) = UOk v rest ->
            exists n, length (key_event k b :: p) = (n + 1 + length rest)%nat /\
                      (gsize v <= 1 + gsumkv (opt_map cur) + (zs' e + W e) * n)%nat).
  { intros k b p Hk. rewrite map_loop_key in Hk.
    assert (Huf : forall v' r', uf f e (zero_of e) p = UOk v' r' ->
              map_loop f e refl g (Some (map_put k v' (opt_map cur))) r' = UOk v rest ->
              exists n, length (key_event k b :: p) = (n + 1 + length rest)%nat /\
                        (gsize v <= 1 + gsumkv (opt_map cur) + (zs' e + W e) * n)%nat).
    { intros v' r' U L. apply Hel in U. destruct U as (n1 & U1 & U2 & U3).
      apply IH in L. destruct L as (n & L1 & L2). exists (1 + n1 + n)%nat. cbn [length]. split; [lia|].
      cbn [opt_map] in L2. pose proof (map_put_size k v' (opt_map cur)).
      unfold ob, zs', zs in *. destruct (fresh e); nia. }
    destruct p as [|h p].
    - destruct (uf f e (zero_of e) []) as [v' r'|] eqn:U; [|discriminate Hk]. eapply Huf; eauto.
    - destruct (refl && is_nil_ev h) eqn:En.
      + apply IH in Hk. destruct Hk as (n & L1 & L2). exists (2 + n)%nat. cbn [length]. split; [lia|].
        cbn [opt_map] in L2. pose proof (map_put_size k (zero_of e) (opt_map cur)).
        pose proof (zs_le e). unfold zs in *. nia.
      + destruct (uf f e (zero_of e) (h :: p)) as [v' r'|] eqn:U; [|discriminate Hk]. eapply Huf; eauto. }
  destruct evs as [|h p]; [rewrite map_loop_S in H; discriminate H|].
  destruct h; try (rewrite map_loop_S in H; discriminate H).
  - rewrite map_loop_S in H. injection H as <- <-. exists O. rewrite map_final_size. cbn [length]. split; lia.
  - apply (Hkey k false p H).
  - apply (Hkey k true p H).
Qed.

(* ---------- skipping consumes at least one event and never runs backwards ---------- *)
Definition skip_len_at (f : nat) : Prop :=
  forall evs r, skip_value f evs = SkOk r -> exists n, length evs = (n + length r)%nat /\ (1 <= n)%nat.

Lemma skip_elems_len f : skip_len_at f ->
  forall g evs r, skip_elems f g evs = SkOk r -> exists n, length evs = (n + length r)%nat /\ (1 <= n)%nat.
Proof.
  intro Hf. induction g as [|g IH]; intros evs r H; [discriminate H|].
  rewrite skip_elems_S in H. destruct evs as [|h p]; [discriminate H|].
  assert (Hv : match skip_value f (h :: p) with SkOk r' => skip_elems f g r' | x => x end = SkOk r ->
               exists n, length (h :: p) = (n + length r)%nat /\ (1 <= n)%nat).
  { intro Hs. destruct (skip_value f (h :: p)) as [r'| |] eqn:E; try discriminate Hs.
    apply Hf in E. destruct E as (n1 & E1 & E2). apply IH in Hs. destruct Hs as (n & H1 & H2).
    exists (n1 + n)%nat. split; lia. }
  destruct h; try (apply Hv; exact H).
  injection H as <-. exists 1%nat. cbn [length]. split; lia.
Qed.

Lemma skip_mems_len f : skip_len_at f ->
  forall g evs r, skip_mems f g evs = SkOk r -> exists n, length evs = (n + length r)%nat /\ (1 <= n)%nat.
Proof.
  intro Hf. induction g as [|g IH]; intros evs r H; [discriminate H|].
  rewrite skip_mems_S in H. destruct evs as [|h p]; [discriminate H|].
  assert (Hv : match skip_value f (h :: p) with SkOk r' => skip_mems f g r' | x => x end = SkOk r ->
               exists n, length (h :: p) = (n + length r)%nat /\ (1 <= n)%nat).
  { intro Hs. destruct (skip_value f (h :: p)) as [r'| |] eqn:E; try discriminate Hs.
    apply Hf in E. destruct E as (n1 & E1 & E2). apply IH in Hs. destruct Hs as (n & H1 & H2).
    exists (n1 + n)%nat. split; lia. }
  destruct h; try (apply Hv; exact H).
  - injection H as <-. exists 1%nat. cbn [length]. split; lia.
  - apply IH in H. destruct H as (n & H1 & H2). exists (S n). cbn [length]. split; lia.
  - apply IH in H. destruct H as (n & H1 & H2). exists (S n). cbn [length]. split; lia.
Qed.

Lemma skip_len : forall f, skip_len_at f.
Proof.
  induction f as [|f IH]; intros evs r H; [discriminate H|].
  rewrite skip_value_S in H. destruct evs as [|h p]; [discriminate H|].
  destruct h; try discriminate H.
  - injection H as <-. exists 1%nat. cbn [length]. split; lia.
  - injection H as <-. exists 1%nat. cbn [length]. split; lia.
  - apply (skip_elems_len f IH) in H. destruct H as (n & H1 & H2). exists (S n). cbn [length]. split; lia.
  - apply (skip_mems_len f IH) in H. destruct H as (n & H1 & H2). exists (S n). cbn [length]. split; lia.
Qed.

(* ---------- struct targets ---------- *)
Lemma replace_nth_beyond {A} (y : A) : forall l i, (length l <= i)%nat -> replace_nth i y l = l.
Proof.
  induction l as [|x l IH]; intros i H; [destruct i; reflexivity|].
  destruct i as [|i]; [cbn in H; lia|]. cbn [replace_nth]. rewrite IH; [reflexivity|cbn [length] in H; lia].
Qed.

Lemma get_path_nil p : get_path p GNil = GNil.
Proof. destruct p; reflexivity. Qed.

Lemma set_path_size : forall p x v, (gsize (set_path p x v) + gsize (get_path p v) <= gsize v + gsize x)%nat.
Proof.
  induction p as [|i p IH]; intros x v; cbn [set_path get_path]; [lia|].
  destruct v; try (cbn [gsize]; pose proof (gsize_pos x); lia).
  destruct (Nat.ltb i (length vs)) eqn:E.
  - apply Nat.ltb_lt in E. specialize (IH x (nth i vs GNil)).
    pose proof (gsum_replace_nth (set_path p x (nth i vs GNil)) vs i E).
    cbn [gsize]. fold (gsum vs). fold (gsum (replace_nth i (set_path p x (nth i vs GNil)) vs)). lia.
  - apply Nat.ltb_ge in E. rewrite replace_nth_beyond by exact E.
    rewrite nth_overflow by exact E. rewrite get_path_nil. pose proof (gsize_pos x). cbn [gsize]. lia.
Qed.

Lemma Wfields_in fs : forall n tg ft, In (n, tg, ft) fs -> (W ft <= Wfields fs)%nat.
Proof.
  induction fs as [|[[n' tg'] ft'] fs IH]; intros n tg ft H; [contradiction|].
  rewrite Wfields_cons. destruct H as [H|H]; [injection H as _ _ ->; lia|]. specialize (IH _ _ _ H). lia.
Qed.

Lemma field_table_W : forall fuel fs idx tab, field_table fuel fs idx = inr tab ->
  forall k path ft, In (k, (path, ft)) tab -> (W ft <= Wfields fs)%nat.
Proof.
  induction fuel as [|f IH]; intros fs idx tab H k path ft Hin; [discriminate H|].
  cbn [field_table] in H. destruct fs as [|[[name tag] ft0] fs]; [injection H as <-; contradiction|].
  rewrite Wfields_cons.
  destruct (field_table f fs (S idx)) as [err|b] eqn:Er.
  - destruct (negb (exported name)); [discriminate H|].
    destruct (parse_tags tag) as [tn o]. destruct (t_omit o); [discriminate H|].
    destruct (t_squash o); [destruct ft0; try discriminate H; destruct (field_table f fs0 0); discriminate H|discriminate H].
  - assert (Hb : forall k path ft, In (k, (path, ft)) b -> (W ft <= Nat.max (W ft0) (Wfields fs))%nat).
    { intros k' p' ft' H'. specialize (IH _ _ _ Er _ _ _ H'). lia. }
    destruct (negb (exported name)); [injection H as <-; eauto|].
    destruct (parse_tags tag) as [tn o]. destruct (t_omit o); [injection H as <-; eauto|].
    destruct (t_squash o).
    + destruct ft0; try discriminate H.
      destruct (field_table f fs0 0) as [err|sub] eqn:Es; [discriminate H|].
      match type of H with (if ?c then _ else _) = _ => destruct c end; [discriminate H|].
      injection H as <-. apply in_app_or in Hin. destruct Hin as [Hin|Hin]; [|eauto].
      apply in_map_iff in Hin. destruct Hin as ([k' [p' ft']] & E & Hin). cbn [fst snd] in E. injection E as _ _ ->.
      specialize (IH _ _ _ Es _ _ _ Hin). rewrite W_struct. lia.
    + match type of H with (if ?c then _ else _) = _ => destruct c end; [discriminate H|].
      injection H as <-. cbn [app] in Hin. destruct Hin as [Hin|Hin]; [|eauto].
      injection Hin as _ _ ->. lia.
Qed.

Lemma assoc_key_in {A} k (l : list (bytes * A)) x : assoc_key k l = Some x -> exists k', In (k', x) l.
Proof.
  unfold assoc_key. destruct (find (fun e => bytes_eqb (fst e) k) l) as [[k' y]|] eqn:E; [|discriminate].
  intro H. injection H as <-. apply find_some in E. exists k'. tauto.
Qed.

Lemma struct_loop_size f tab wmax : size_at f ->
  (forall k path ft, In (k, (path, ft)) tab -> (W ft <= wmax)%nat) ->
  forall g cur evs v rest,
    struct_loop f tab g cur evs = UOk v rest ->
    exists n, length evs = (n + 1 + length rest)%nat /\ (gsize v <= gsize cur + wmax * n)%nat.
Proof.
  intros Hel Hw. induction g as [|g IH]; intros cur evs v rest H; [rewrite struct_loop_O in H; discriminate H|].
  assert (Hkey : forall k b p, struct_loop f tab (S g) cur (key_event k b :: p) = UOk v rest ->
            exists n, length (key_event k b :: p) = (n + 1 + length rest)%nat /\ (gsize v <= gsize cur + wmax * n)%nat).
  { intros k b p Hk. rewrite struct_loop_key in Hk.
    destruct (assoc_key k tab) as [[path ft]|] eqn:Ek.
    - destruct (uf f ft (get_path path cur) p) as [v' r'|] eqn:U; [|discriminate Hk].
      apply Hel in U. destruct U as (n1 & U1 & U2 & U3).
      apply IH in Hk. destruct Hk as (n & L1 & L2). exists (1 + n1 + n)%nat. cbn [length]. split; [lia|].
      apply assoc_key_in in Ek. destruct Ek as [k' Ek]. specialize (Hw _ _ _ Ek).
      pose proof (set_path_size path v' cur).
      assert (ob ft (get_path path cur) <= gsize (get_path path cur))%nat by (unfold ob; destruct (fresh ft); lia).
      nia.
    - destruct (skip_value (S (length p)) p) as [r'| |] eqn:Es; try discriminate Hk.
      apply skip_len in Es. destruct Es as (n1 & E1 & E2).
      apply IH in Hk. destruct Hk as (n & L1 & L2). exists (1 + n1 + n)%nat. cbn [length]. split; [lia|nia]. }
  destruct evs as [|h p]; [rewrite struct_loop_S in H; discriminate H|].
  destruct h; try (rewrite struct_loop_S in H; discriminate H).
  - rewrite struct_loop_S in H. injection H as <- <-. exists O. cbn [length]. split; lia.
  - apply (Hkey k false p H).
  - apply (Hkey k true p H).
Qed.

(* ---------- the main induction ---------- *)
Definition is_nil_head (evs : list event) : bool := match evs with EVal SNil :: _ => true | _ => false end.

Lemma uf_S_ptr_gen f t u old evs : under t = TPtr u ->
  uf (S f) t old evs =
  if is_nil_head evs then UOk GNil (tl evs)
  else match uf f u (zero_of u) evs with UOk v r => UOk (GPtr v) r | UErr x => UErr x end.
Proof.
  intro U. rewrite (uf_S_ptr _ _ u) by exact U.
  destruct evs as [|[s| | | | | | | | |] p]; cbv beta iota; cbn [is_nil_head tl]; try reflexivity.
  destruct s; cbv beta iota; cbn [is_nil_head tl]; reflexivity.
Qed.

Lemma ifc_elem_facts bt :
  fresh (ifc_elem bt) = true /\ (W (ifc_elem bt) <= cI)%nat /\ zs (ifc_elem bt) = 1%nat /\ is_refl (ifc_elem bt) = false.
Proof. destruct bt; cbn; unfold cI; repeat split; lia. Qed.

Lemma gsum_repeat z k : gsum (repeat z k) = (k * gsize z)%nat.
Proof. induction k as [|k IH]; [reflexivity|]. cbn [repeat]. rewrite gsum_cons, IH. lia. Qed.

Lemma slice_start_size e old l cur spare wasnil : slice_start e old l = (cur, spare, wasnil) ->
  (1 + gsum cur + gsum spare <= gsize old + 4096 * zs e)%nat.
Proof.
  unfold slice_start. intro H.
  assert (Hk : forall k : nat, (k <= 4096)%nat -> (1 + gsum (repeat (zero_of e) k) + gsum [] <= 1 + 4096 * zs e)%nat).
  { intros k Hk. rewrite gsum_repeat, gsum_nil. fold (zs e). nia. }
  assert (Hl : (Z.to_nat (Z.min l max_initial_len) <= 4096)%nat) by (unfold max_initial_len; lia).
  destruct old; try (injection H as <- <- _; pose proof (Hk _ Hl); cbn [gsize]; lia).
  destruct (l <? zlen vs); injection H as <- <- _; cbn [gsize]; fold (gsum vs).
  - rewrite <- (firstn_skipn (Z.to_nat l) vs) at 3. rewrite gsum_app. lia.
  - rewrite gsum_nil. lia.
Qed.

Lemma map_start_size e old : (1 + gsumkv (opt_map (map_start e old)) <= gsize old)%nat.
Proof.
  unfold map_start. destruct old; try (destruct (is_refl e); cbn; lia).
  cbn [opt_map gsize]. fold (gsumkv kvs). lia.
Qed.

Theorem size_all : forall fuel, size_at fuel.
Proof.
  induction fuel as [fuel IHlt] using lt_wf_ind. intros t old evs v rest H.
  destruct fuel as [|f]; [rewrite uf_O in H; discriminate H|].
  assert (IHf : size_at f) by (apply IHlt; lia).
  unfold size_ok.
  destruct (unsup_cases t) as [U|[U|[U|[[k U]|[U|[[u U]|[[e U]|[[e U]|[fs U]]]]]]]]].
  - rewrite uf_S_unsup in H by exact U. discriminate H.
  - assert (Hp : prim_kind t = true) by (unfold prim_kind; rewrite U; reflexivity).
    destruct (uf_prim_one _ _ _ _ _ _ Hp H) as [[h ->] Hs]. exists 1%nat. cbn [length].
    rewrite Hs, (W_under t), U. cbn [W]. repeat split; lia.
  - assert (Hp : prim_kind t = true) by (unfold prim_kind; rewrite U; reflexivity).
    destruct (uf_prim_one _ _ _ _ _ _ Hp H) as [[h ->] Hs]. exists 1%nat. cbn [length].
    rewrite Hs, (W_under t), U. cbn [W]. repeat split; lia.
  - assert (Hp : prim_kind t = true) by (unfold prim_kind; rewrite U; reflexivity).
    destruct (uf_prim_one _ _ _ _ _ _ Hp H) as [[h ->] Hs]. exists 1%nat. cbn [length].
    rewrite Hs, (W_under t), U. cbn [W]. repeat split; lia.
  - (* interface{} *)
    rewrite uf_S_iface in H by exact U. rewrite (W_under t), U. cbn [W].
    destruct evs as [|[s|b|l bt| |l bt| | | | |] p]; try discriminate H.
    + injection H as <- <-. exists 1%nat. cbn [length].
      assert (gsize (ifc_scalar s) <= 2)%nat by (destruct s; cbn; lia). unfold cI. repeat split; lia.
    + destruct (ifc_elem_facts bt) as (F1 & F2 & F3 & F4).
      destruct f as [|f']; [rewrite uf_O in H; discriminate H|].
      rewrite (uf_S_slice _ _ (ifc_elem bt)) in H by reflexivity. cbn [slice_start] in H.
      match type of H with (match ?X with _ => _ end) = _ => destruct X as [v' r'|] eqn:L end; [|discriminate H].
      injection H as <- <-.
      apply (slice_loop_size f') in L; [|apply IHlt; lia]. destruct L as (n & L1 & L2).
      exists (n + 2)%nat. cbn [length]. split; [lia|]. split; [lia|].
      rewrite gsum_repeat, gsum_nil in L2. fold (zs (ifc_elem bt)) in L2. rewrite F3 in L2.
      unfold zs' in L2. rewrite F1 in L2.
      assert (Z.to_nat (Z.min (Z.max l 0) max_initial_len) <= 4096)%nat by (unfold max_initial_len; lia).
      cbn [gsize]. unfold cI in *. nia.
    + destruct (ifc_elem_facts bt) as (F1 & F2 & F3 & F4).
      destruct f as [|f']; [rewrite uf_O in H; discriminate H|].
      rewrite (uf_S_map _ _ (ifc_elem bt)) in H by reflexivity.
      match type of H with (match ?X with _ => _ end) = _ => destruct X as [v' r'|] eqn:L end; [|discriminate H].
      injection H as <- <-.
      apply (map_loop_size f') in L; [|apply IHlt; lia]. destruct L as (n & L1 & L2).
      exists (n + 2)%nat. cbn [length]. split; [lia|]. split; [lia|].
      unfold map_start in L2. rewrite F4 in L2. cbn [opt_map] in L2. change (gsumkv []) with O in L2.
      unfold zs' in L2. rewrite F1 in L2.
      cbn [gsize]. unfold cI in *. nia.
  - (* pointer *)
    rewrite (uf_S_ptr_gen _ _ u) in H by exact U. rewrite (W_under t), U. cbn [W].
    assert (Ho : ob t old = gsize old) by (unfold ob, fresh, prim_kind; rewrite U; reflexivity). rewrite Ho.
    pose proof (gsize_pos old).
    destruct (is_nil_head evs) eqn:En.
    + injection H as <- <-. destruct evs as [|h p]; [discriminate En|]. exists 1%nat. cbn [length tl gsize]. repeat split; lia.
    + destruct (uf f u (zero_of u) evs) as [v' r'|] eqn:E; [|discriminate H]. injection H as <- <-.
      apply IHf in E. destruct E as (n & E1 & E2 & E3). exists n. split; [exact E1|]. split; [exact E2|].
      assert (ob u (zero_of u) <= zs u)%nat by (unfold ob, zs; destruct (fresh u); lia).
      cbn [gsize]. nia.
  - (* slice *)
    rewrite (uf_S_slice _ _ e) in H by exact U. rewrite (W_under t), U. cbn [W].
    assert (Ho : ob t old = gsize old) by (unfold ob, fresh, prim_kind; rewrite U; reflexivity). rewrite Ho.
    destruct evs as [|[s|b|l bt| |l bt| | | | |] p]; try discriminate H.
    destruct (slice_start e old (Z.max l 0)) as [[cur spare] wasnil] eqn:Es.
    apply (slice_loop_size f _ _ _ IHf) in H. destruct H as (n & L1 & L2).
    apply slice_start_size in Es. pose proof (zs'_le e).
    exists (n + 2)%nat. cbn [length]. split; [lia|]. split; [lia|]. nia.
  - (* map *)
    rewrite (uf_S_map _ _ e) in H by exact U. rewrite (W_under t), U. cbn [W].
    assert (Ho : ob t old = gsize old) by (unfold ob, fresh, prim_kind; rewrite U; reflexivity). rewrite Ho.
    destruct evs as [|[s|b|l bt| |l bt| | | | |] p]; try discriminate H.
    apply (map_loop_size f _ _ IHf) in H. destruct H as (n & L1 & L2).
    pose proof (map_start_size e old). pose proof (zs'_le e).
    exists (n + 2)%nat. cbn [length]. split; [lia|]. split; [lia|]. nia.
  - (* struct *)
    rewrite (uf_S_struct _ _ fs) in H by exact U. rewrite (W_under t), U, W_struct.
    assert (Ho : ob t old = gsize old) by (unfold ob, fresh, prim_kind; rewrite U; reflexivity). rewrite Ho.
    destruct evs as [|[s|b|l bt| |l bt| | | | |] p]; try discriminate H.
    destruct (field_table (S (ftsize t)) fs 0) as [err|tab] eqn:Et; [discriminate H|].
    apply (struct_loop_size f tab (Wfields fs) IHf (field_table_W _ _ _ _ Et)) in H.
    destruct H as (n & L1 & L2). exists (n + 2)%nat. cbn [length]. split; [lia|]. split; [lia|]. nia.
Qed.

(* C14: what a document adds to the target is proportional to the number of events it
   consists of.  The factor [W t] depends on the target type only: an announced array length
   never enters - an array start makes the unfolder pre-allocate at most [max_initial_len]
   (4096) zero elements, which is what the factor 2049 (per start and end event) pays for. *)
Theorem C14_size_bound : forall fuel t old evs v rest,
  uf fuel t old evs = UOk v rest ->
  (length rest < length evs)%nat /\
  (gsize v <= gsize old + W t * (length evs - length rest))%nat.
Proof.
  intros fuel t old evs v rest H. destruct (size_all fuel _ _ _ _ _ H) as (n & H1 & H2 & H3).
  split; [lia|]. replace (length evs - length rest)%nat with n by lia.
  assert (ob t old <= gsize old)%nat by (unfold ob; destruct (fresh t); lia). lia.
Qed.
Print Assumptions C14_size_bound.

Corollary C14_unfold_value : forall t old evs v,
  unfold_value t old evs = UDone v ->
  (gsize v <= gsize old + W t * length (flat_map expand evs))%nat.
Proof.
  intros t old evs v H. unfold unfold_value in H. destruct (ucc_type t); [discriminate H|].
  match type of H with (match ?X with _ => _ end) = _ => destruct X as [v' [|x r']|[|x r']] eqn:E end; try discriminate H.
  injection H as <-. apply C14_size_bound in E. cbn [length] in E. rewrite Nat.sub_0_r in E. tauto.
Qed.
Print Assumptions C14_unfold_value.

(* interface{} targets (whose previous content is dropped): 2049 per event, whatever the
   announced lengths *)
Corollary C14_iface : forall fuel old evs v rest,
  uf fuel TIface old evs = UOk v rest -> (gsize v <= 2049 * (length evs - length rest))%nat.
Proof.
  intros fuel old evs v rest H. destruct (size_all fuel _ _ _ _ _ H) as (n & H1 & H2 & H3).
  replace (length evs - length rest)%nat with n by lia. exact H3.
Qed.

(* the unfolder always makes progress: a successful step consumes at least one event *)
Corollary C14_progress : forall fuel t old evs v rest,
  uf fuel t old evs = UOk v rest -> (length rest < length evs)%nat.
Proof. intros. eapply C14_size_bound; eauto. Qed.

(* a stream that announces a huge array but delivers one element *)
Example C14_lying_length :
  uf 10 TIface GNil [EArrStart 1000000000000 BAny; EVal (SNum KInt 7); EArrEnd]
  = UOk (GIface (TSlice TIface) (GList (GIface (TNum KInt) (GNum 7) :: repeat GNil 4095))) [].
Proof. vm_compute. reflexivity. Qed.

(* ====================================================================== *)
(* Part 5: C17 - a completed document leaves nothing behind                *)
(* ====================================================================== *)

(* [seq_at tr]: whatever the target, if the unfolder accepts a value whose events are those
   of [tr], it has consumed exactly these events, and it produces the same result with the
   same events followed by anything else (and with more fuel). *)
Definition seq_at (tr : tree) : Prop :=
  forall fuel t old rest1 v r,
    uf fuel t old (flatten tr ++ rest1) = UOk v r ->
    r = rest1 /\
    forall fuel2 rest2, (fuel <= fuel2)%nat -> uf fuel2 t old (flatten tr ++ rest2) = UOk v rest2.

Lemma seq_slice_loop f e wasnil refl es : Forall seq_at es ->
  forall g1 cur spare idx rest1 v r,
    slice_loop f e wasnil refl g1 cur spare idx (flatten_elems es ++ EArrEnd :: rest1) = UOk v r ->
    r = rest1 /\
    forall f2 g2 rest2, (f <= f2)%nat -> (length es < g2)%nat ->
      slice_loop f2 e wasnil refl g2 cur spare idx (flatten_elems es ++ EArrEnd :: rest2) = UOk v rest2.
Proof.
  induction 1 as [|x es Hx Hes IH]; intros g1 cur spare idx rest1 v r H.
  - destruct g1 as [|g1]; [rewrite slice_loop_O in H; discriminate H|].
    cbn [flatten_elems flat_map app] in *. rewrite slice_loop_S in H. injection H as <- <-.
    split; [reflexivity|]. intros f2 g2 rest2 _ Hg. destruct g2 as [|g2]; [lia|]. rewrite slice_loop_S. reflexivity.
  - destruct g1 as [|g1]; [rewrite slice_loop_O in H; discriminate H|].
    rewrite flatten_elems_cons, <- app_assoc in H.
    destruct (flatten_head x) as (h & tl & E & Hh).
    assert (Hstep : forall rest, flatten x ++ flatten_elems es ++ EArrEnd :: rest = h :: tl ++ flatten_elems es ++ EArrEnd :: rest)
      by (intro rest; rewrite E; reflexivity).
    rewrite Hstep, slice_loop_step in H by exact Hh.
    destruct (refl && is_nil_ev h) eqn:Enil.
    + apply andb_true_iff in Enil. destruct Enil as [-> Enil].
      assert (tl = []) as -> by (eapply flatten_nil_ev; eauto). cbn [app] in H.
      destruct (IH _ _ _ _ _ _ _ H) as [-> IH2]. split; [reflexivity|].
      intros f2 g2 rest2 Hf Hg. destruct g2 as [|g2]; [cbn in Hg; lia|].
      rewrite flatten_elems_cons, <- app_assoc, Hstep, slice_loop_step by exact Hh.
      rewrite Enil. cbn [andb app]. apply IH2; [exact Hf|cbn [length] in Hg; lia].
    + rewrite <- Hstep in H.
      destruct (uf f e (sl_oldel e refl cur spare idx) (flatten x ++ flatten_elems es ++ EArrEnd :: rest1)) as [v' r'|] eqn:U;
        [|discriminate H].
      destruct (Hx _ _ _ _ _ _ U) as [-> Hx2].
      destruct (IH _ _ _ _ _ _ _ H) as [-> IH2]. split; [reflexivity|].
      intros f2 g2 rest2 Hf Hg. destruct g2 as [|g2]; [cbn in Hg; lia|].
      rewrite flatten_elems_cons, <- app_assoc, Hstep, slice_loop_step by exact Hh.
      rewrite Enil, <- Hstep. rewrite (Hx2 f2 _ Hf). apply IH2; [exact Hf|cbn [length] in Hg; lia].
Qed.

Lemma seq_map_loop f e refl ms : Forall (fun m => seq_at (snd m)) ms ->
  forall g1 cur rest1 v r,
    map_loop f e refl g1 cur (flatten_members ms ++ EObjEnd :: rest1) = UOk v r ->
    r = rest1 /\
    forall f2 g2 rest2, (f <= f2)%nat -> (length ms < g2)%nat ->
      map_loop f2 e refl g2 cur (flatten_members ms ++ EObjEnd :: rest2) = UOk v rest2.
Proof.
  induction 1 as [|[[k b] x] ms Hx Hms IH]; intros g1 cur rest1 v r H.
  - destruct g1 as [|g1]; [rewrite map_loop_O in H; discriminate H|].
    cbn [flatten_members flat_map app] in *. rewrite map_loop_S in H. injection H as <- <-.
    split; [reflexivity|]. intros f2 g2 rest2 _ Hg. destruct g2 as [|g2]; [lia|]. rewrite map_loop_S. reflexivity.
  - destruct g1 as [|g1]; [rewrite map_loop_O in H; discriminate H|]. cbn [snd] in Hx.
    rewrite flatten_members_cons, <- app_comm_cons, <- app_assoc in H.
    destruct (flatten_head x) as (h & tl & E & Hh).
    assert (Hstep : forall rest, flatten x ++ flatten_members ms ++ EObjEnd :: rest = h :: tl ++ flatten_members ms ++ EObjEnd :: rest)
      by (intro rest; rewrite E; reflexivity).
    rewrite map_loop_key, Hstep in H.
    destruct (refl && is_nil_ev h) eqn:Enil.
    + apply andb_true_iff in Enil. destruct Enil as [-> Enil].
      assert (tl = []) as -> by (eapply flatten_nil_ev; eauto). cbn [app] in H.
      destruct (IH _ _ _ _ _ H) as [-> IH2]. split; [reflexivity|].
      intros f2 g2 rest2 Hf Hg. destruct g2 as [|g2]; [cbn in Hg; lia|].
      rewrite flatten_members_cons, <- app_comm_cons, <- app_assoc, map_loop_key, Hstep.
      rewrite Enil. cbn [andb app]. apply IH2; [exact Hf|cbn [length] in Hg; lia].
    + rewrite <- Hstep in H.
      destruct (uf f e (zero_of e) (flatten x ++ flatten_members ms ++ EObjEnd :: rest1)) as [v' r'|] eqn:U;
        [|discriminate H].
      destruct (Hx _ _ _ _ _ _ U) as [-> Hx2].
      destruct (IH _ _ _ _ _ H) as [-> IH2]. split; [reflexivity|].
      intros f2 g2 rest2 Hf Hg. destruct g2 as [|g2]; [cbn in Hg; lia|].
      rewrite flatten_members_cons, <- app_comm_cons, <- app_assoc, map_loop_key, Hstep.
      rewrite Enil, <- Hstep. rewrite (Hx2 f2 _ Hf). apply IH2; [exact Hf|cbn [length] in Hg; lia].
Qed.

Lemma seq_struct_loop f tab ms : Forall (fun m => seq_at (snd m)) ms -> forallb (fun m => plain (snd m)) ms = true ->
  forall g1 cur rest1 v r,
    struct_loop f tab g1 cur (flatten_members ms ++ EObjEnd :: rest1) = UOk v r ->
    r = rest1 /\
    forall f2 g2 rest2, (f <= f2)%nat -> (length ms < g2)%nat ->
      struct_loop f2 tab g2 cur (flatten_members ms ++ EObjEnd :: rest2) = UOk v rest2.
Proof.
  induction 1 as [|[[k b] x] ms Hx Hms IH]; intros Hp g1 cur rest1 v r H.
  - destruct g1 as [|g1]; [rewrite struct_loop_O in H; discriminate H|].
    cbn [flatten_members flat_map app] in *. rewrite struct_loop_S in H. injection H as <- <-.
    split; [reflexivity|]. intros f2 g2 rest2 _ Hg. destruct g2 as [|g2]; [lia|]. rewrite struct_loop_S. reflexivity.
  - destruct g1 as [|g1]; [rewrite struct_loop_O in H; discriminate H|]. cbn [snd] in Hx.
    cbn [forallb snd] in Hp. apply andb_true_iff in Hp. destruct Hp as [Hpx Hp]. specialize (IH Hp).
    rewrite flatten_members_cons, <- app_comm_cons, <- app_assoc in H.
    rewrite struct_loop_key in H.
    assert (Hskip : forall rest, skip_value (S (length (flatten x ++ flatten_members ms ++ EObjEnd :: rest)))
                                   (flatten x ++ flatten_members ms ++ EObjEnd :: rest)
                                 = SkOk (flatten_members ms ++ EObjEnd :: rest)).
    { intro rest. apply skip_plain; [exact Hpx|]. rewrite app_length. lia. }
    destruct (assoc_key k tab) as [[path ft]|] eqn:Ek.
    + destruct (uf f ft (get_path path cur) (flatten x ++ flatten_members ms ++ EObjEnd :: rest1)) as [v' r'|] eqn:U;
        [|discriminate H].
      destruct (Hx _ _ _ _ _ _ U) as [-> Hx2].
      destruct (IH _ _ _ _ _ H) as [-> IH2]. split; [reflexivity|].
      intros f2 g2 rest2 Hf Hg. destruct g2 as [|g2]; [cbn in Hg; lia|].
      rewrite flatten_members_cons, <- app_comm_cons, <- app_assoc, struct_loop_key, Ek.
      rewrite (Hx2 f2 _ Hf). apply IH2; [exact Hf|cbn [length] in Hg; lia].
    + rewrite Hskip in H.
      destruct (IH _ _ _ _ _ H) as [-> IH2]. split; [reflexivity|].
      intros f2 g2 rest2 Hf Hg. destruct g2 as [|g2]; [cbn in Hg; lia|].
      rewrite flatten_members_cons, <- app_comm_cons, <- app_assoc, struct_loop_key, Ek, Hskip.
      apply IH2; [exact Hf|cbn [length] in Hg; lia].
Qed.

Lemma seq_val s : seq_at (TVal s false).
Proof.
  intros fuel. rewrite flatten_tval. cbn [app].
  induction fuel as [|f IHf]; intros t old rest1 v r H; [rewrite uf_O in H; discriminate H|].
  destruct (unsup_cases t) as [U|[U|[U|[[k U]|[U|[[u U]|[[e U]|[[e U]|[fs U]]]]]]]]].
  - rewrite uf_S_unsup in H by exact U. discriminate H.
  - rewrite uf_S_bool in H by exact U. destruct s; try discriminate H; injection H as <- <-;
      (split; [reflexivity|]; intros [|f2] rest2 Hle; [lia|]; rewrite uf_S_bool by exact U; reflexivity).
  - rewrite uf_S_string in H by exact U. destruct s; try discriminate H; injection H as <- <-;
      (split; [reflexivity|]; intros [|f2] rest2 Hle; [lia|]; rewrite uf_S_string by exact U; reflexivity).
  - rewrite (uf_S_num _ _ k) in H by exact U. destruct s; try discriminate H; injection H as <- <-;
      (split; [reflexivity|]; intros [|f2] rest2 Hle; [lia|]; rewrite (uf_S_num _ _ k) by exact U; reflexivity).
  - rewrite uf_S_iface in H by exact U. injection H as <- <-.
    split; [reflexivity|]; intros [|f2] rest2 Hle; [lia|]; rewrite uf_S_iface by exact U; reflexivity.
  - rewrite (uf_S_ptr _ _ u) in H by exact U.
    destruct s as [|b|x|k z];
      try (injection H as <- <-; split; [reflexivity|]; intros [|f2] rest2 Hle; [lia|];
           rewrite (uf_S_ptr _ _ u) by exact U; reflexivity);
      (match type of H with (match ?X with _ => _ end) = _ => destruct X as [v' r'|] eqn:E end; [|discriminate H];
       injection H as <- <-; destruct (IHf _ _ _ _ _ E) as [-> IH2]; split; [reflexivity|];
       intros [|f2] rest2 Hle; [lia|]; rewrite (uf_S_ptr _ _ u) by exact U; rewrite (IH2 f2 rest2) by lia; reflexivity).
  - rewrite (uf_S_slice _ _ e) in H by exact U. discriminate H.
  - rewrite (uf_S_map _ _ e) in H by exact U. discriminate H.
  - rewrite (uf_S_struct _ _ fs) in H by exact U. discriminate H.
Qed.

Lemma seq_arr len bt es : Forall seq_at es -> seq_at (TArr len bt es).
Proof.
  intros Hes fuel. rewrite flatten_arr.
  assert (Hre : forall rest, (EArrStart len bt :: flatten_elems es ++ [EArrEnd]) ++ rest
                             = EArrStart len bt :: flatten_elems es ++ EArrEnd :: rest).
  { intro rest. cbn [app]. rewrite <- app_assoc. reflexivity. }
  induction fuel as [|f IHf]; intros t old rest1 v r H; [rewrite uf_O in H; discriminate H|].
  rewrite Hre in H.
  destruct (unsup_cases t) as [U|[U|[U|[[k U]|[U|[[u U]|[[e U]|[[e U]|[fs U]]]]]]]]].
  - rewrite uf_S_unsup in H by exact U. discriminate H.
  - rewrite uf_S_bool in H by exact U. discriminate H.
  - rewrite uf_S_string in H by exact U. discriminate H.
  - rewrite (uf_S_num _ _ k) in H by exact U. discriminate H.
  - rewrite uf_S_iface in H by exact U. rewrite <- Hre in H.
    match type of H with (match ?X with _ => _ end) = _ => destruct X as [v' r'|] eqn:E end; [|discriminate H].
    injection H as <- <-. destruct (IHf _ _ _ _ _ E) as [-> IH2]. split; [reflexivity|].
    intros [|f2] rest2 Hle; [lia|]. rewrite Hre, uf_S_iface by exact U. rewrite <- Hre.
    rewrite (IH2 f2 rest2) by lia. reflexivity.
  - rewrite (uf_S_ptr _ _ u) in H by exact U. rewrite <- Hre in H.
    match type of H with (match ?X with _ => _ end) = _ => destruct X as [v' r'|] eqn:E end; [|discriminate H].
    injection H as <- <-. destruct (IHf _ _ _ _ _ E) as [-> IH2]. split; [reflexivity|].
    intros [|f2] rest2 Hle; [lia|]. rewrite Hre, (uf_S_ptr _ _ u) by exact U. rewrite <- Hre.
    rewrite (IH2 f2 rest2) by lia. reflexivity.
  - rewrite (uf_S_slice _ _ e) in H by exact U.
    destruct (slice_start e old (Z.max len 0)) as [[cur spare] wasnil] eqn:Est.
    destruct (seq_slice_loop _ _ _ _ _ Hes _ _ _ _ _ _ _ H) as [-> L2]. split; [reflexivity|].
    intros [|f2] rest2 Hle; [lia|]. rewrite Hre, (uf_S_slice _ _ e) by exact U. rewrite Est.
    apply L2; [lia|]. rewrite app_length. cbn [length]. pose proof (flatten_elems_length_ge es). lia.
  - rewrite (uf_S_map _ _ e) in H by exact U. discriminate H.
  - rewrite (uf_S_struct _ _ fs) in H by exact U. discriminate H.
Qed.

Lemma seq_obj len bt ms : Forall (fun m => seq_at (snd m)) ms -> forallb (fun m => plain (snd m)) ms = true ->
  seq_at (TObj len bt ms).
Proof.
  intros Hms Hp fuel. rewrite flatten_obj.
  assert (Hre : forall rest, (EObjStart len bt :: flatten_members ms ++ [EObjEnd]) ++ rest
                             = EObjStart len bt :: flatten_members ms ++ EObjEnd :: rest).
  { intro rest. cbn [app]. rewrite <- app_assoc. reflexivity. }
  assert (Hg : forall rest, (length ms < S (length (flatten_members ms ++ EObjEnd :: rest)))%nat).
  { intro rest. rewrite app_length. cbn [length]. pose proof (flatten_members_length_ge ms). lia. }
  induction fuel as [|f IHf]; intros t old rest1 v r H; [rewrite uf_O in H; discriminate H|].
  rewrite Hre in H.
  destruct (unsup_cases t) as [U|[U|[U|[[k U]|[U|[[u U]|[[e U]|[[e U]|[fs U]]]]]]]]].
  - rewrite uf_S_unsup in H by exact U. discriminate H.
  - rewrite uf_S_bool in H by exact U. discriminate H.
  - rewrite uf_S_string in H by exact U. discriminate H.
  - rewrite (uf_S_num _ _ k) in H by exact U. discriminate H.
  - rewrite uf_S_iface in H by exact U. rewrite <- Hre in H.
    match type of H with (match ?X with _ => _ end) = _ => destruct X as [v' r'|] eqn:E end; [|discriminate H].
    injection H as <- <-. destruct (IHf _ _ _ _ _ E) as [-> IH2]. split; [reflexivity|].
    intros [|f2] rest2 Hle; [lia|]. rewrite Hre, uf_S_iface by exact U. rewrite <- Hre.
    rewrite (IH2 f2 rest2) by lia. reflexivity.
  - rewrite (uf_S_ptr _ _ u) in H by exact U. rewrite <- Hre in H.
    match type of H with (match ?X with _ => _ end) = _ => destruct X as [v' r'|] eqn:E end; [|discriminate H].
    injection H as <- <-. destruct (IHf _ _ _ _ _ E) as [-> IH2]. split; [reflexivity|].
    intros [|f2] rest2 Hle; [lia|]. rewrite Hre, (uf_S_ptr _ _ u) by exact U. rewrite <- Hre.
    rewrite (IH2 f2 rest2) by lia. reflexivity.
  - rewrite (uf_S_slice _ _ e) in H by exact U. discriminate H.
  - rewrite (uf_S_map _ _ e) in H by exact U.
    destruct (seq_map_loop _ _ _ _ Hms _ _ _ _ _ H) as [-> L2]. split; [reflexivity|].
    intros [|f2] rest2 Hle; [lia|]. rewrite Hre, (uf_S_map _ _ e) by exact U.
    apply L2; [lia|apply Hg].
  - rewrite (uf_S_struct _ _ fs) in H by exact U.
    destruct (field_table (S (ftsize t)) fs 0) as [err|tab] eqn:Et; [discriminate H|].
    destruct (seq_struct_loop _ _ _ Hms Hp _ _ _ _ _ H) as [-> L2]. split; [reflexivity|].
    intros [|f2] rest2 Hle; [lia|]. rewrite Hre, (uf_S_struct _ _ fs) by exact U. rewrite Et.
    apply L2; [lia|apply Hg].
Qed.

Theorem seq_strict : forall tr, strict tr = true -> seq_at tr.
Proof.
  induction tr as [s r|len bt es IH|len bt ms IH|bt es|bt ms] using tree_ind'; intro Hs; try discriminate Hs.
  - cbn [strict] in Hs. destruct r; [discriminate Hs|]. apply seq_val.
  - apply seq_arr. cbn [strict] in Hs. rewrite forallb_forall in Hs. rewrite Forall_forall in *. auto.
  - cbn [strict] in Hs. rewrite forallb_forall in Hs. apply seq_obj.
    + rewrite Forall_forall in *. intros m Hm. apply IH; [exact Hm|]. specialize (Hs m Hm).
      apply andb_true_iff in Hs. tauto.
    + apply forallb_forall. intros m Hm. apply strict_plain. specialize (Hs m Hm). apply andb_true_iff in Hs. tauto.
Qed.

(* C17: if the unfolder accepts a document it has consumed exactly the document: the events
   of the next document are untouched ... *)
Theorem C17_exact : forall tr fuel t old rest v r,
  uf fuel t old (flatten (expand_tree tr) ++ rest) = UOk v r -> r = rest.
Proof. intros tr fuel t old rest v r H. exact (proj1 (seq_strict _ (strict_expand tr) _ _ _ _ _ _ H)). Qed.
Print Assumptions C17_exact.

(* ... and the result does not depend on what follows (nor on spare fuel) *)
Theorem C17_rest_independent : forall tr fuel t old rest1 v r,
  uf fuel t old (flatten (expand_tree tr) ++ rest1) = UOk v r ->
  forall fuel2 rest2, (fuel <= fuel2)%nat ->
    uf fuel2 t old (flatten (expand_tree tr) ++ rest2) = UOk v rest2.
Proof. intros tr fuel t old rest1 v r H. exact (proj2 (seq_strict _ (strict_expand tr) _ _ _ _ _ _ H)). Qed.
Print Assumptions C17_rest_independent.

(* Two documents in sequence: if the first document alone completes with [v], then in the
   concatenated stream the unfolder stops after the first document with the same [v] and the
   second document is what remains. *)
Theorem C17_sequence : forall tr t old v,
  unfold_value t old (flatten tr) = UDone v ->
  forall evs2 fuel2, (S (S (2 * length (flat_map expand (flatten tr)))) + ftsize t <= fuel2)%nat ->
    uf fuel2 t old (flat_map expand (flatten tr ++ evs2)) = UOk v (flat_map expand evs2).
Proof.
  intros tr t old v H evs2 fuel2 Hf. unfold unfold_value in H.
  destruct (ucc_type t); [discriminate H|].
  rewrite <- expand_deep_is_flatten in H, Hf.
  match type of H with (match uf ?F _ _ _ with _ => _ end) = _ => set (fuel := F) in * end.
  destruct (uf fuel t old (flatten (expand_tree tr))) as [v' [|x r']|[|x r']] eqn:E; try discriminate H.
  injection H as ->.
  rewrite <- (app_nil_r (flatten (expand_tree tr))) in E.
  rewrite flat_map_app, <- expand_deep_is_flatten.
  apply (C17_rest_independent _ _ _ _ _ _ _ E). exact Hf.
Qed.
Print Assumptions C17_sequence.

(* ... so events delivered after a completed document are refused at the first of them:
   nothing of the finished document is pending *)
Corollary C17_after_done : forall tr t old v e evs2,
  unfold_value t old (flatten tr) = UDone v ->
  unfold_value t old (flatten tr ++ e :: evs2) = UFail (length (flat_map expand (flatten tr))).
Proof.
  intros tr t old v e evs2 H. pose proof (C17_sequence tr t old v H (e :: evs2)) as S2.
  unfold unfold_value in *. destruct (ucc_type t); [discriminate H|].
  rewrite S2 by (rewrite flat_map_app, app_length; lia).
  cbn [flat_map]. pose proof (expand_length_pos e) as Hpos.
  destruct (expand e ++ flat_map expand evs2) as [|x l] eqn:El.
  - apply (f_equal (@length event)) in El. rewrite app_length in El. cbn [length] in El. lia.
  - f_equal. rewrite <- El, flat_map_app. cbn [flat_map]. rewrite !app_length. lia.
Qed.
Print Assumptions C17_after_done.

(* ====================================================================== *)
(* Part 6: C11 (direct route) for types without structs and interfaces     *)
(* ====================================================================== *)
From SF Require Import Gotype.Fold Gotype.FoldProofs.

(* bool, string, numbers, and pointers / slices / string-keyed maps of these, also as
   defined (named) types where Go allows it *)
Fixpoint simple (t : gtype) : bool :=
  match t with
  | TBool | TString | TNum _ => true
  | TPtr u | TSlice u | TMap u => simple u
  | TNamed u => match u with
                | TBool | TString | TNum _ => true
                | TSlice e | TMap e => simple e
                | _ => false
                end
  | _ => false
  end.

(* keys strictly increasing: each key is smaller than all later ones *)
Fixpoint ssorted (l : list bytes) : bool :=
  match l with [] => true | a :: r => forallb (bytes_ltb a) r && ssorted r end.

(* well-typed values of these types: numbers in the range of their kind, maps listed
   sorted by key (as Types.v says) *)
Fixpoint wt (t : gtype) (v : gvalue) {struct v} : bool :=
  match under t, v with
  | TBool, GBool _ => true
  | TString, GStr _ => true
  | TNum k, GNum z => nkind_ok k z
  | TPtr _, GNil => true
  | TPtr u, GPtr x => wt u x
  | TSlice _, GNil => true
  | TSlice u, GList l => forallb (wt u) l
  | TMap _, GNil => true
  | TMap u, GMap kvs => forallb (fun kv => wt u (snd kv)) kvs && ssorted (map fst kvs)
  | _, _ => false
  end.

Definition pscalar (t : gtype) (v : gvalue) : scalar :=
  match prim_scalar false t v with Some s => s | None => SNil end.
Definition typed_bt (top : bool) (e : gtype) : btype :=
  if top && gtype_eqb e (TNum KUint8) then BByte else prim_bt e.
Definition typed_sc (top : bool) (e : gtype) (x : gvalue) : scalar :=
  match typed_bt top e, xscalar e x with BByte, SNum _ z => SNum KByte z | _, s => s end.

Definition typed_arr (top : bool) (e : gtype) (l : list gvalue) : list event :=
  EArrStart (zlen l) (typed_bt top e) :: map (fun x => EVal (typed_sc top e x)) l ++ [EArrEnd].
Definition typed_obj (e : gtype) (kvs : list (bytes * gvalue)) : list event :=
  EObjStart (zlen kvs) (prim_bt e) :: flat_map (fun kv => [EKey (fst kv); EVal (xscalar e (snd kv))]) kvs ++ [EObjEnd].

(* the (expanded) events Fold sends for a value of such a type; [top]: folded by the
   top-level type switch *)
Fixpoint xev (top : bool) (t : gtype) (v : gvalue) {struct t} : list event :=
  match t with
  | TBool | TString | TNum _ => [EVal (pscalar t v)]
  | TPtr u => match v with GPtr x => xev false u x | _ => [EVal SNil] end
  | TSlice e =>
      if is_prim e then typed_arr top e (glist v)
      else EArrStart (zlen (glist v)) BAny :: flat_map (xev false e) (glist v) ++ [EArrEnd]
  | TMap e =>
      if is_prim e then typed_obj e (gmap v)
      else EObjStart (zlen (gmap v)) BAny ::
           flat_map (fun kv => EKey (fst kv) ::
                       (if is_prim e then [EVal (xscalar e (snd kv))] else xev false e (snd kv))) (gmap v) ++ [EObjEnd]
  | TNamed u =>
      match u with
      | TBool | TString | TNum _ => [EVal (pscalar u v)]
      | TSlice e =>
          if top && is_prim e then typed_arr top e (glist v)
          else EArrStart (zlen (glist v)) BAny :: flat_map (xev false e) (glist v) ++ [EArrEnd]
      | TMap e =>
          if top && is_prim e then typed_obj e (gmap v)
          else EObjStart (zlen (gmap v)) BAny ::
           flat_map (fun kv => EKey (fst kv) ::
                       (if is_prim e then [EVal (xscalar e (snd kv))] else xev false e (snd kv))) (gmap v) ++ [EObjEnd]
      | _ => []
      end
  | _ => []
  end.

(* the value of a member of a generic object: the map-key folder sends scalars with the kind
   of their Go type *)
Definition mev (e : gtype) (x : gvalue) : list event :=
  if is_prim e then [EVal (xscalar e x)] else xev false e x.

(* what unfolding these events into a zero target of the same type yields *)
Fixpoint nv (t : gtype) (v : gvalue) {struct t} : gvalue :=
  match t with
  | TPtr u => match v with
              | GPtr x => if is_nil_head (xev false u x) then GNil else GPtr (nv u x)
              | _ => GNil
              end
  | TSlice e => match glist v with [] => GNil | l => GList (map (nv e) l) end
  | TMap e => match gmap v with
              | [] => if is_refl e then GMap [] else GNil
              | kvs => GMap (map (fun kv => (fst kv, nv e (snd kv))) kvs)
              end
  | TNamed u =>
      match u with
      | TSlice e => match glist v with [] => GNil | l => GList (map (nv e) l) end
      | TMap e => match gmap v with
                  | [] => if is_refl e then GMap [] else GNil
                  | kvs => GMap (map (fun kv => (fst kv, nv e (snd kv))) kvs)
                  end
      | _ => v
      end
  | _ => v
  end.

(* the definitions above were tested against the models with [vm_compute] on pointers to
   pointers, nil and empty slices and maps, named slices, []byte at the top and nested *)

(* ---------- scalars ---------- *)
Lemma conv_evkind k z : nkind_ok k z = true -> conv (num_event_kind k) k z = z.
Proof.
  intro H. destruct k; try (apply conv_same_kind; exact H).
  unfold conv. cbn [num_event_kind kind_float kind_signed kind_bits]. apply wraps_small; [lia|].
  cbn [nkind_ok] in H. unfold in_s in H. lia.
Qed.

(* [s] is a scalar event that makes a target of type [e] hold [x] *)
Definition scal_ok (e : gtype) (x : gvalue) (s : scalar) : Prop :=
  forall f old rest, uf (S f) e old (EVal s :: rest) = UOk x rest.

Lemma scal_ok_pscalar e x : is_prim (under e) = true -> wt e x = true -> scal_ok e x (pscalar (under e) x).
Proof.
  intros Hp Hw f old rest. unfold wt in Hw. destruct e; cbn [under is_prim] in *; try discriminate Hp;
    try (destruct x; try discriminate Hw; rewrite uf_S; reflexivity).
  - destruct x; try discriminate Hw. rewrite uf_S. cbn [under pscalar prim_scalar]. rewrite conv_evkind by exact Hw. reflexivity.
  - destruct e; try discriminate Hp; destruct x; try discriminate Hw; rewrite uf_S; cbn [under pscalar prim_scalar];
      rewrite ?conv_evkind by exact Hw; reflexivity.
Qed.

Lemma scal_ok_xscalar e x : is_prim e = true -> wt e x = true -> scal_ok e x (xscalar e x).
Proof.
  intros Hp Hw f old rest. unfold wt in Hw. destruct e; cbn [under is_prim] in *; try discriminate Hp;
    destruct x; try discriminate Hw; rewrite uf_S; cbn [under xscalar]; rewrite ?conv_same_kind by exact Hw; reflexivity.
Qed.

Lemma scal_ok_typed top e x : is_prim e = true -> wt e x = true -> scal_ok e x (typed_sc top e x).
Proof.
  intros Hp Hw f old rest. unfold wt in Hw. destruct e; cbn [under is_prim] in *; try discriminate Hp;
    destruct x; try discriminate Hw; unfold typed_sc, typed_bt.
  - rewrite andb_false_r. rewrite uf_S. reflexivity.
  - rewrite andb_false_r. rewrite uf_S. reflexivity.
  - destruct top, k; cbn [andb gtype_eqb nkind_eqb nkind_code Z.eqb Pos.eqb prim_bt bt_of_kind xscalar];
      rewrite uf_S; cbn [under];
      first [rewrite conv_same_kind by exact Hw | rewrite conv_byte_uint8 by exact Hw]; reflexivity.
Qed.

Lemma nv_prim e x : is_prim (under e) = true -> nv e x = x.
Proof. destruct e; try discriminate; try reflexivity. cbn [under]. destruct e; try discriminate; reflexivity. Qed.

Lemma zero_prim e : is_prim (under e) = true -> is_refl e = false.
Proof. unfold is_refl, prim_kind. destruct (under e); try discriminate; reflexivity. Qed.

(* ---------- heads of the event lists ---------- *)
Lemma is_nil_head_cons h tl : is_nil_head (h :: tl) = is_nil_ev h.
Proof. reflexivity. Qed.

Lemma wt_under_eq t t' v : under t = under t' -> wt t v = wt t' v.
Proof. intro H. destruct v; cbn [wt]; rewrite H; reflexivity. Qed.

Lemma wt_named u v : under u = u -> wt (TNamed u) v = wt u v.
Proof. intro H. apply wt_under_eq. cbn [under]. symmetry. exact H. Qed.

Lemma wt_prim_scalar e x : is_prim e = true -> wt e x = true ->
  exists s, prim_scalar false e x = Some s /\ s <> SNil.
Proof.
  intros Hp Hw. unfold wt in Hw. destruct e; try discriminate Hp; destruct x; try discriminate Hw;
    cbn [prim_scalar]; eexists; split; try reflexivity; discriminate.
Qed.

Lemma xev_head : forall t v top, simple t = true -> wt t v = true ->
  exists h tl, xev top t v = h :: tl /\ starts_value h = true.
Proof.
  induction t; intros v top Hs Hw; try discriminate Hs; cbn [xev].
  - eexists; eexists; split; reflexivity.
  - eexists; eexists; split; reflexivity.
  - eexists; eexists; split; reflexivity.
  - unfold wt in Hw. cbn [under] in Hw. destruct v; try discriminate Hw.
    + eexists; eexists; split; reflexivity.
    + apply IHt; [exact Hs|exact Hw].
  - destruct (is_prim t); eexists; eexists; split; reflexivity.
  - destruct (is_prim t); eexists; eexists; split; reflexivity.
  - cbn [simple] in Hs. destruct t; try discriminate Hs;
      try (eexists; eexists; split; reflexivity);
      destruct (top && is_prim t); eexists; eexists; split; reflexivity.
Qed.

(* a value whose events start with null is a nil pointer (possibly behind pointers) *)
Lemma nil_xev_nv : forall t v top, simple t = true -> wt t v = true ->
  is_nil_head (xev top t v) = true -> xev top t v = [EVal SNil] /\ nv t v = zero_of t.
Proof.
  induction t; intros v top Hs Hw Hn; try discriminate Hs; cbn [xev] in *.
  - destruct (wt_prim_scalar TBool v eq_refl Hw) as (s & E & Hne). unfold pscalar in Hn. rewrite E in Hn.
    destruct s; try discriminate Hn; contradiction.
  - destruct (wt_prim_scalar TString v eq_refl Hw) as (s & E & Hne). unfold pscalar in Hn. rewrite E in Hn.
    destruct s; try discriminate Hn; contradiction.
  - destruct (wt_prim_scalar (TNum k) v eq_refl Hw) as (s & E & Hne). unfold pscalar in Hn. rewrite E in Hn.
    destruct s; try discriminate Hn; contradiction.
  - unfold wt in Hw. cbn [under] in Hw. destruct v; try discriminate Hw.
    + split; reflexivity.
    + fold (wt t v) in Hw. destruct (IHt v false Hs Hw Hn) as [E1 E2]. split; [exact E1|].
      cbn [nv zero_of]. rewrite Hn. reflexivity.
  - destruct (is_prim t); discriminate Hn.
  - destruct (is_prim t); discriminate Hn.
  - cbn [simple] in Hs. destruct t; try discriminate Hs;
      rewrite wt_named in Hw by reflexivity.
    + destruct (wt_prim_scalar TBool v eq_refl Hw) as (s & E & Hne). unfold pscalar in Hn. rewrite E in Hn.
      destruct s; try discriminate Hn; contradiction.
    + destruct (wt_prim_scalar TString v eq_refl Hw) as (s & E & Hne). unfold pscalar in Hn. rewrite E in Hn.
      destruct s; try discriminate Hn; contradiction.
    + destruct (wt_prim_scalar (TNum k) v eq_refl Hw) as (s & E & Hne). unfold pscalar in Hn. rewrite E in Hn.
      destruct s; try discriminate Hn; contradiction.
    + destruct (top && is_prim t); discriminate Hn.
    + destruct (top && is_prim t); discriminate Hn.
Qed.

(* ---------- the loops on the events of a list of values, into a zero target ---------- *)
Lemma sl_oldel_fill e refl done k :
  sl_oldel e refl (done ++ repeat (zero_of e) k) [] (length done) = zero_of e.
Proof.
  unfold sl_oldel, sl_have. rewrite app_length, repeat_length.
  destruct k as [|k].
  - replace (length done <? length done + 0)%nat with false by (symmetry; apply Nat.ltb_ge; lia).
    destruct refl; reflexivity.
  - replace (length done <? length done + S k)%nat with true by (symmetry; apply Nat.ltb_lt; lia).
    rewrite app_nth2 by lia. rewrite Nat.sub_diag. reflexivity.
Qed.

(* what the events [ev x] of an element must satisfy *)
Definition elem_ok (f : nat) (e : gtype) (refl : bool) (ev : gvalue -> list event) (x : gvalue) : Prop :=
  (exists h tl, ev x = h :: tl /\ starts_value h = true) /\
  (forall rest, uf f e (zero_of e) (ev x ++ rest) = UOk (nv e x) rest) /\
  (refl = true -> is_nil_head (ev x) = true -> ev x = [EVal SNil] /\ nv e x = zero_of e).

Lemma slice_loop_fill2 f e wasnil refl (ev : gvalue -> list event) l :
  Forall (elem_ok f e refl ev) l ->
  forall g done k rest, (length l < g)%nat ->
    slice_loop f e wasnil refl g (done ++ repeat (zero_of e) k) [] (length done)
               (flat_map ev l ++ EArrEnd :: rest)
    = UOk (slice_final wasnil (done ++ map (nv e) l ++ repeat (zero_of e) (k - length l))) rest.
Proof.
  induction 1 as [|x l Hx Hl IH]; intros g done k rest Hg.
  - destruct g as [|g]; [cbn in Hg; lia|]. rewrite slice_loop_S.
    cbn [flat_map app map length]. rewrite Nat.sub_0_r. reflexivity.
  - destruct g as [|g]; [cbn in Hg; lia|].
    cbn [flat_map]. rewrite <- app_assoc.
    destruct Hx as ((h & tl & E & Hh) & Hu & Hn).
    specialize (Hu (flat_map ev l ++ EArrEnd :: rest)).
    assert (Hcont : slice_loop f e wasnil refl g (sl_put (done ++ repeat (zero_of e) k) (length done) (nv e x))
                      (sl_spare (done ++ repeat (zero_of e) k) [] (length done)) (S (length done))
                      (flat_map ev l ++ EArrEnd :: rest)
                    = UOk (slice_final wasnil (done ++ map (nv e) (x :: l) ++ repeat (zero_of e) (k - length (x :: l)))) rest).
    { rewrite sl_put_fill, sl_spare_nil.
      replace (S (length done)) with (length (done ++ [nv e x])) by (rewrite app_length; cbn [length]; lia).
      rewrite IH by (cbn [length] in Hg; lia).
      cbn [map length app]. rewrite <- app_assoc. cbn [app].
      replace (k - 1 - length l)%nat with (k - S (length l))%nat by lia. reflexivity. }
    rewrite E in *. cbn [app] in *.
    rewrite slice_loop_step by exact Hh. rewrite sl_oldel_fill.
    destruct (refl && is_nil_ev h) eqn:En.
    + apply andb_true_iff in En. destruct En as [-> En].
      destruct (Hn eq_refl En) as [E2 E3]. injection E2 as -> ->. cbn [app].
      rewrite E3 in Hcont. exact Hcont.
    + rewrite Hu. exact Hcont.
Qed.

Lemma map_loop_fill2 f e refl (ev : gvalue -> list event) kvs :
  Forall (fun kv => elem_ok f e refl ev (snd kv)) kvs ->
  forall g cur rest, (length kvs < g)%nat ->
    map_loop f e refl g cur (flat_map (fun kv => EKey (fst kv) :: ev (snd kv)) kvs ++ EObjEnd :: rest)
    = UOk (map_final (mstep cur (map (fun kv => (fst kv, nv e (snd kv))) kvs))) rest.
Proof.
  induction 1 as [|[k x] kvs Hx Hl IH]; intros g cur rest Hg.
  - destruct g as [|g]; [cbn in Hg; lia|]. rewrite map_loop_S. reflexivity.
  - destruct g as [|g]; [cbn in Hg; lia|].
    cbn [flat_map fst snd]. rewrite <- !app_comm_cons, <- app_assoc.
    change (EKey k) with (key_event k false). rewrite map_loop_key.
    cbn [snd] in Hx. destruct Hx as ((h & tl & E & Hh) & Hu & Hn).
    specialize (Hu (flat_map (fun kv => EKey (fst kv) :: ev (snd kv)) kvs ++ EObjEnd :: rest)).
    cbn [map fst snd]. rewrite mstep_cons.
    rewrite E in *. cbn [app] in *.
    destruct (refl && is_nil_ev h) eqn:En.
    + apply andb_true_iff in En. destruct En as [-> En].
      destruct (Hn eq_refl En) as [E2 E3]. injection E2 as -> ->. cbn [app].
      rewrite E3. apply IH. cbn [length] in Hg; lia.
    + rewrite Hu. apply IH. cbn [length] in Hg; lia.
Qed.

(* ---------- inserting strictly increasing keys ---------- *)
Lemma bytes_ltb_asym : forall a b, bytes_ltb a b = true -> bytes_eqb b a = false /\ bytes_ltb b a = false.
Proof.
  induction a as [|x a IH]; intros [|y b] H; cbn [bytes_ltb] in *; try discriminate H; try (split; reflexivity).
  unfold bytes_eqb. cbn [list_eqb].
  destruct (x <? y) eqn:E1.
  - replace (y <? x) with false by lia. replace (y =? x) with false by lia. split; reflexivity.
  - destruct (y <? x) eqn:E2; [discriminate H|].
    destruct (IH b H) as [H1 H2]. replace (y =? x) with true by lia. cbn [andb]. split; [exact H1|exact H2].
Qed.

Lemma map_put_last k v m : forallb (fun kv => bytes_ltb (fst kv) k) m = true -> map_put k v m = m ++ [(k, v)].
Proof.
  induction m as [|[k' v'] m IH]; intro H; [reflexivity|].
  cbn [forallb fst] in H. apply andb_true_iff in H. destruct H as [H1 H2].
  destruct (bytes_ltb_asym _ _ H1) as [E1 E2].
  cbn [map_put]. rewrite E1, E2, (IH H2). reflexivity.
Qed.

Lemma put_all_sorted : forall kvs m,
  ssorted (map fst kvs) = true ->
  forallb (fun kv' => forallb (fun kv => bytes_ltb (fst kv') (fst kv)) kvs) m = true ->
  put_all kvs m = m ++ kvs.
Proof.
  induction kvs as [|[k v] kvs IH]; intros m Hs Hm; [cbn; rewrite app_nil_r; reflexivity|].
  cbn [map fst ssorted] in Hs. apply andb_true_iff in Hs. destruct Hs as [Hk Hs].
  unfold put_all. cbn [fold_left fst snd]. fold (put_all kvs (map_put k v m)).
  rewrite map_put_last.
  - rewrite IH; [rewrite <- app_assoc; reflexivity|exact Hs|].
    rewrite forallb_app'. apply andb_true_iff. split.
    + rewrite forallb_forall in *. intros kv' Hin. specialize (Hm kv' Hin).
      cbn [forallb] in Hm. apply andb_true_iff in Hm. tauto.
    + cbn [forallb fst]. rewrite andb_true_r. rewrite forallb_map in Hk. exact Hk.
  - rewrite forallb_forall in *. intros kv' Hin. specialize (Hm kv' Hin).
    cbn [forallb fst] in Hm. apply andb_true_iff in Hm. tauto.
Qed.

Lemma put_all_sorted_nil kvs : ssorted (map fst kvs) = true -> put_all kvs [] = kvs.
Proof. intro H. apply (put_all_sorted kvs [] H). reflexivity. Qed.

(* ---------- slices and maps into a nil target ---------- *)
Lemma ftsize_pos t : (1 <= ftsize t)%nat.
Proof. destruct t; cbn [ftsize]; lia. Qed.

Lemma flat_map_length_ge {A} (ev : A -> list event) l :
  Forall (fun x => exists h tl, ev x = h :: tl /\ starts_value h = true) l ->
  (length l <= length (flat_map ev l))%nat.
Proof.
  induction 1 as [|x l (h & tl & E & _) _ IH]; [cbn; lia|].
  cbn [flat_map length]. rewrite app_length, E. cbn [length]. lia.
Qed.

Lemma uf_slice_zero f t e bt ev l rest :
  under t = TSlice e -> Forall (elem_ok f e (is_refl e) ev) l ->
  uf (S f) t GNil (EArrStart (zlen l) bt :: flat_map ev l ++ EArrEnd :: rest)
  = UOk (match l with [] => GNil | _ => GList (map (nv e) l) end) rest.
Proof.
  intros U Hl. rewrite (uf_slice _ _ e) by exact U. cbn [slice_start].
  pose proof (slice_loop_fill2 f e (Z.max (zlen l) 0 =? 0) (is_refl e) ev l Hl
                (S (length (flat_map ev l ++ EArrEnd :: rest))) []
                (Z.to_nat (Z.min (Z.max (zlen l) 0) max_initial_len)) rest) as L.
  cbn [app length] in L. rewrite L.
  - replace (Z.to_nat (Z.min (Z.max (zlen l) 0) max_initial_len) - length l)%nat with O
      by (unfold zlen, max_initial_len; lia).
    cbn [repeat]. rewrite app_nil_r. destruct l as [|x l]; reflexivity.
  - rewrite app_length. cbn [length].
    assert (length l <= length (flat_map ev l))%nat; [|lia].
    apply flat_map_length_ge. eapply Forall_impl; [|exact Hl]. intros x Hx. apply Hx.
Qed.

Lemma uf_map_zero f t e n bt ev kvs rest :
  under t = TMap e -> Forall (fun kv => elem_ok f e (is_refl e) ev (snd kv)) kvs ->
  ssorted (map fst kvs) = true ->
  uf (S f) t GNil (EObjStart n bt :: flat_map (fun kv => EKey (fst kv) :: ev (snd kv)) kvs ++ EObjEnd :: rest)
  = UOk (match kvs with
         | [] => if is_refl e then GMap [] else GNil
         | _ => GMap (map (fun kv => (fst kv, nv e (snd kv))) kvs)
         end) rest.
Proof.
  intros U Hl Hs. rewrite (uf_map _ _ e) by exact U.
  rewrite (map_loop_fill2 f e (is_refl e) ev kvs Hl).
  - unfold map_start. destruct kvs as [|kv kvs]; [destruct (is_refl e); reflexivity|].
    unfold mstep. cbn [map]. f_equal. cbn [map_final]. f_equal.
    replace (opt_map (if is_refl e then Some [] else None)) with (@nil (bytes * gvalue)) by (destruct (is_refl e); reflexivity).
    apply (put_all_sorted_nil (map (fun kv0 => (fst kv0, nv e (snd kv0))) (kv :: kvs))).
    rewrite map_map. cbn [fst]. exact Hs.
  - rewrite app_length. cbn [length].
    assert (length kvs <= length (flat_map (fun kv => EKey (fst kv) :: ev (snd kv)) kvs))%nat; [|lia].
    clear. induction kvs as [|kv kvs IH]; [cbn; lia|]. cbn [flat_map]. rewrite app_length. cbn [length]. lia.
Qed.

Lemma flat_map_single {A} (g : A -> event) l : flat_map (fun x => [g x]) l = map g l.
Proof. induction l as [|x l IH]; [reflexivity|]. cbn [flat_map map app]. rewrite IH. reflexivity. Qed.

Lemma elem_ok_scalar f e (sc : gvalue -> scalar) x :
  is_prim e = true -> scal_ok e x (sc x) -> elem_ok (S f) e (is_refl e) (fun y => [EVal (sc y)]) x.
Proof.
  intros Hp Hs. split; [|split].
  - eexists; eexists; split; reflexivity.
  - intro rest. cbn [app]. rewrite nv_prim by (destruct e; try discriminate Hp; exact Hp). apply Hs.
  - rewrite zero_prim by (destruct e; try discriminate Hp; exact Hp). discriminate.
Qed.

(* the unfolder on the events of a value, into the zero value of the value's type *)
Definition unfold_at (F : nat) : Prop :=
  forall t v top rest, simple t = true -> wt t v = true -> (ftsize t <= F)%nat ->
    uf F t (zero_of t) (xev top t v ++ rest) = UOk (nv t v) rest.

Lemma elem_ok_xev f e x : unfold_at f -> simple e = true -> wt e x = true -> (ftsize e <= f)%nat ->
  elem_ok f e (is_refl e) (xev false e) x.
Proof.
  intros IH Hs Hw Hf. split; [|split].
  - apply xev_head; assumption.
  - intro rest. apply IH; assumption.
  - intros _ Hn. apply (nil_xev_nv e x false Hs Hw Hn).
Qed.

Lemma wt_slice t e v : under t = TSlice e -> wt t v = true ->
  forallb (wt e) (glist v) = true /\ (v = GNil \/ v = GList (glist v)).
Proof.
  intros U H. destruct v; cbn [wt] in H; rewrite U in H; try discriminate H; cbn [glist]; auto.
Qed.

Lemma wt_map t e v : under t = TMap e -> wt t v = true ->
  forallb (fun kv => wt e (snd kv)) (gmap v) = true /\ ssorted (map fst (gmap v)) = true /\
  (v = GNil \/ v = GMap (gmap v)).
Proof.
  intros U H. destruct v; cbn [wt] in H; rewrite U in H; try discriminate H; cbn [gmap]; auto.
  apply andb_true_iff in H. tauto.
Qed.

Lemma uf_typed_arr f t e top v rest :
  under t = TSlice e -> is_prim e = true -> wt t v = true ->
  uf (S (S f)) t GNil (typed_arr top e (glist v) ++ rest)
  = UOk (match glist v with [] => GNil | l => GList (map (nv e) l) end) rest.
Proof.
  intros U Hp Hw. destruct (wt_slice _ _ _ U Hw) as [Hl _].
  unfold typed_arr. cbn [app]. rewrite <- app_assoc. cbn [app].
  rewrite <- (flat_map_single (fun x => EVal (typed_sc top e x))).
  etransitivity; [apply (uf_slice_zero (S f) t e); [exact U|]|destruct (glist v); reflexivity].
  apply Forall_forall. intros x Hx. rewrite forallb_forall in Hl.
  apply (elem_ok_scalar f e (typed_sc top e)); [exact Hp|]. apply scal_ok_typed; auto.
Qed.

Lemma uf_typed_obj f t e v rest :
  under t = TMap e -> is_prim e = true -> wt t v = true ->
  uf (S (S f)) t GNil (typed_obj e (gmap v) ++ rest)
  = UOk (match gmap v with
         | [] => if is_refl e then GMap [] else GNil
         | kvs => GMap (map (fun kv => (fst kv, nv e (snd kv))) kvs)
         end) rest.
Proof.
  intros U Hp Hw. destruct (wt_map _ _ _ U Hw) as (Hl & Hs & _).
  unfold typed_obj. cbn [app]. rewrite <- app_assoc. cbn [app].
  etransitivity; [apply (uf_map_zero (S f) t e _ _ (fun y => [EVal (xscalar e y)])); [exact U| |exact Hs]
                 |destruct (gmap v); reflexivity].
  apply Forall_forall. intros x Hx. rewrite forallb_forall in Hl.
  apply (elem_ok_scalar f e (xscalar e)); [exact Hp|]. apply scal_ok_xscalar; auto.
Qed.

Lemma uf_generic_arr f t e v rest :
  unfold_at f -> under t = TSlice e -> simple e = true -> (ftsize e <= f)%nat -> wt t v = true ->
  uf (S f) t GNil ((EArrStart (zlen (glist v)) BAny :: flat_map (xev false e) (glist v) ++ [EArrEnd]) ++ rest)
  = UOk (match glist v with [] => GNil | l => GList (map (nv e) l) end) rest.
Proof.
  intros IH U Hs Hf Hw. destruct (wt_slice _ _ _ U Hw) as [Hl _].
  cbn [app]. rewrite <- app_assoc. cbn [app].
  etransitivity; [apply (uf_slice_zero f t e); [exact U|]|destruct (glist v); reflexivity].
  apply Forall_forall. intros x Hx. rewrite forallb_forall in Hl. apply elem_ok_xev; auto.
Qed.

Lemma elem_ok_mev f e x : unfold_at f -> simple e = true -> wt e x = true -> (ftsize e <= f)%nat ->
  elem_ok f e (is_refl e) (mev e) x.
Proof.
  intros IH Hs Hw Hf. unfold mev. destruct (is_prim e) eqn:Hp.
  - destruct f as [|f]; [pose proof (ftsize_pos e); lia|].
    apply (elem_ok_scalar f e (xscalar e)); [exact Hp|]. apply scal_ok_xscalar; assumption.
  - apply (elem_ok_xev f e x); assumption.
Qed.

Lemma uf_generic_obj f t e v rest :
  unfold_at f -> under t = TMap e -> simple e = true -> (ftsize e <= f)%nat -> wt t v = true ->
  uf (S f) t GNil ((EObjStart (zlen (gmap v)) BAny ::
                     flat_map (fun kv => EKey (fst kv) ::
                                 (if is_prim e then [EVal (xscalar e (snd kv))] else xev false e (snd kv))) (gmap v)
                     ++ [EObjEnd]) ++ rest)
  = UOk (match gmap v with
         | [] => if is_refl e then GMap [] else GNil
         | kvs => GMap (map (fun kv => (fst kv, nv e (snd kv))) kvs)
         end) rest.
Proof.
  intros IH U Hs Hf Hw. destruct (wt_map _ _ _ U Hw) as (Hl & Hk & _).
  cbn [app]. rewrite <- app_assoc. cbn [app].
  etransitivity; [apply (uf_map_zero f t e _ _ (mev e)); [exact U| |exact Hk]|destruct (gmap v); reflexivity].
  apply Forall_forall. intros x Hx. rewrite forallb_forall in Hl. apply elem_ok_mev; auto.
Qed.


Theorem unfold_all : forall F, unfold_at F.
Proof.
  induction F as [|f IH]; intros t v top rest Hs Hw Hf; [pose proof (ftsize_pos t); lia|].
  destruct t; try discriminate Hs.
  - cbn [xev zero_of nv app]. apply (scal_ok_pscalar TBool v eq_refl Hw).
  - cbn [xev zero_of nv app]. apply (scal_ok_pscalar TString v eq_refl Hw).
  - cbn [xev zero_of nv app]. apply (scal_ok_pscalar (TNum k) v eq_refl Hw).
  - (* pointer *)
    cbn [simple] in Hs. cbn [ftsize] in Hf.
    assert (Hv : v = GNil \/ exists x, v = GPtr x /\ wt t x = true).
    { destruct v; cbn [wt under] in Hw; try discriminate Hw; eauto. }
    destruct Hv as [->|(x & -> & Hx)]; cbn [xev zero_of nv].
    + cbn [app]. rewrite (uf_S_ptr_gen _ _ t) by reflexivity. reflexivity.
    + rewrite (uf_S_ptr_gen _ _ t) by reflexivity.
      destruct (xev_head t x false Hs Hx) as (h & tl & E & Hh).
      assert (En : is_nil_head (xev false t x ++ rest) = is_nil_head (xev false t x)) by (rewrite E; reflexivity).
      rewrite En. destruct (is_nil_head (xev false t x)) eqn:Hn.
      * destruct (nil_xev_nv t x false Hs Hx Hn) as [E1 _]. rewrite E1. reflexivity.
      * rewrite (IH t x false rest Hs Hx) by lia. reflexivity.
  - (* slice *)
    cbn [simple] in Hs. cbn [ftsize] in Hf. cbn [xev zero_of nv].
    destruct (is_prim t) eqn:Hp.
    + destruct f as [|f]; [pose proof (ftsize_pos t); lia|]. apply uf_typed_arr; auto.
    + apply uf_generic_arr; auto. lia.
  - (* map *)
    cbn [simple] in Hs. cbn [ftsize] in Hf. cbn [xev zero_of nv].
    destruct (is_prim t) eqn:Hp.
    + destruct f as [|f]; [pose proof (ftsize_pos t); lia|]. apply uf_typed_obj; auto.
    + pose proof (uf_generic_obj f (TMap t) t v rest IH eq_refl Hs ltac:(lia) Hw) as L.
      rewrite Hp in L. exact L.
  - (* named types *)
    cbn [simple] in Hs. cbn [ftsize] in Hf. destruct t; try discriminate Hs.
    + cbn [xev zero_of nv app]. apply (scal_ok_pscalar (TNamed TBool) v eq_refl Hw).
    + cbn [xev zero_of nv app]. apply (scal_ok_pscalar (TNamed TString) v eq_refl Hw).
    + cbn [xev zero_of nv app]. apply (scal_ok_pscalar (TNamed (TNum k)) v eq_refl Hw).
    + cbn [ftsize] in Hf. cbn [xev zero_of nv].
      destruct (top && is_prim t) eqn:Hp.
      * apply andb_true_iff in Hp. destruct Hp as [_ Hp].
        destruct f as [|f]; [lia|]. apply uf_typed_arr; auto.
      * apply uf_generic_arr; auto. lia.
    + cbn [ftsize] in Hf. cbn [xev zero_of nv].
      destruct (top && is_prim t) eqn:Hp.
      * apply andb_true_iff in Hp. destruct Hp as [_ Hp].
        destruct f as [|f]; [lia|]. apply uf_typed_obj; auto.
      * apply uf_generic_obj; auto. lia.
Qed.

(* ---------- the result is deeply equal to the value ---------- *)
Definition deq_list (f : nat) (u : gtype) :=
  fix go (l1 l2 : list gvalue) : bool :=
    match l1, l2 with
    | [], [] => true
    | x :: r1, y :: r2 => deep_eq f u x y && go r1 r2
    | _, _ => false
    end.
Definition deq_map (f : nat) (u : gtype) :=
  fix go (l1 l2 : list (bytes * gvalue)) : bool :=
    match l1, l2 with
    | [], [] => true
    | (k1, x) :: r1, (k2, y) :: r2 => bytes_eqb k1 k2 && deep_eq f u x y && go r1 r2
    | _, _ => false
    end.
Definition deq_fields (f : nat) :=
  fix go (fs : list (bytes * bytes * gtype)) (l1 l2 : list gvalue) : bool :=
    match fs, l1, l2 with
    | [], [], [] => true
    | (_, _, ft) :: fr, x :: r1, y :: r2 => deep_eq f ft x y && go fr r1 r2
    | _, _, _ => false
    end.

Lemma deep_eq_S f t a b :
  deep_eq (S f) t a b =
  match under t, a, b with
  | TBool, GBool x, GBool y => Bool.eqb x y
  | TString, GStr x, GStr y => bytes_eqb x y
  | TNum _, GNum x, GNum y => x =? y
  | TPtr _, GNil, GNil => true
  | TPtr u, GPtr x, GPtr y => deep_eq f u x y
  | TPtr u, GPtr x, GNil | TPtr u, GNil, GPtr x => opt_cv_eqb (spec_fold (S f) u x) (Some CNil)
  | TIface, GNil, GNil => true
  | TIface, GIface t1 v1, GNil | TIface, GNil, GIface t1 v1 => opt_cv_eqb (spec_fold (S f) t1 v1) (Some CNil)
  | (TMapK _ | TUnsup), _, _ => true
  | TIface, GIface t1 v1, GIface t2 v2 => opt_cv_eqb (spec_fold (S f) t1 v1) (spec_fold (S f) t2 v2)
  | (TSlice _ | TMap _), GNil, GNil => true
  | TSlice _, GNil, GList [] | TSlice _, GList [], GNil => true
  | TMap _, GNil, GMap [] | TMap _, GMap [], GNil => true
  | (TSlice u | TArray _ u), GList l1, GList l2 => deq_list f u l1 l2
  | TMap u, GMap m1, GMap m2 => deq_map f u m1 m2
  | TStruct fs, GStruct v1, GStruct v2 => deq_fields f fs v1 v2
  | _, _, _ => false
  end.
Proof. reflexivity. Qed.

Lemma spec_fold_ptr_nil f u : spec_fold (S f) (TPtr u) GNil = Some CNil.
Proof. reflexivity. Qed.
Lemma spec_fold_ptr_S f u x : spec_fold (S f) (TPtr u) (GPtr x) = spec_fold f u x.
Proof. reflexivity. Qed.

(* a value whose events start with null folds to null *)
Lemma spec_null : forall t v top F, simple t = true -> wt t v = true ->
  is_nil_head (xev top t v) = true -> (ftsize t <= F)%nat -> spec_fold F t v = Some CNil.
Proof.
  induction t; intros v top F Hs Hw Hn Hf; try discriminate Hs; cbn [xev] in *.
  - destruct (wt_prim_scalar TBool v eq_refl Hw) as (s & E & Hne). unfold pscalar in Hn. rewrite E in Hn.
    destruct s; try discriminate Hn; contradiction.
  - destruct (wt_prim_scalar TString v eq_refl Hw) as (s & E & Hne). unfold pscalar in Hn. rewrite E in Hn.
    destruct s; try discriminate Hn; contradiction.
  - destruct (wt_prim_scalar (TNum k) v eq_refl Hw) as (s & E & Hne). unfold pscalar in Hn. rewrite E in Hn.
    destruct s; try discriminate Hn; contradiction.
  - cbn [ftsize] in Hf. destruct F as [|f]; [lia|].
    unfold wt in Hw. cbn [under] in Hw. destruct v; try discriminate Hw.
    + apply spec_fold_ptr_nil.
    + fold (wt t v) in Hw. rewrite spec_fold_ptr_S. apply (IHt v false f Hs Hw Hn). lia.
  - destruct (is_prim t); discriminate Hn.
  - destruct (is_prim t); discriminate Hn.
  - cbn [simple] in Hs. destruct t; try discriminate Hs; rewrite wt_named in Hw by reflexivity.
    + destruct (wt_prim_scalar TBool v eq_refl Hw) as (s & E & Hne). unfold pscalar in Hn. rewrite E in Hn.
      destruct s; try discriminate Hn; contradiction.
    + destruct (wt_prim_scalar TString v eq_refl Hw) as (s & E & Hne). unfold pscalar in Hn. rewrite E in Hn.
      destruct s; try discriminate Hn; contradiction.
    + destruct (wt_prim_scalar (TNum k) v eq_refl Hw) as (s & E & Hne). unfold pscalar in Hn. rewrite E in Hn.
      destruct s; try discriminate Hn; contradiction.
    + destruct (top && is_prim t); discriminate Hn.
    + destruct (top && is_prim t); discriminate Hn.
Qed.

(* the shapes of simple types *)
Inductive simple_shape : gtype -> Prop :=
| ss_prim t : is_prim (under t) = true -> simple_shape t
| ss_ptr u : simple u = true -> simple_shape (TPtr u)
| ss_slice t e : under t = TSlice e -> simple e = true -> (ftsize e < ftsize t)%nat -> simple_shape t
| ss_map t e : under t = TMap e -> simple e = true -> (ftsize e < ftsize t)%nat -> simple_shape t.

Lemma simple_cases t : simple t = true -> simple_shape t.
Proof.
  destruct t; intro H; try discriminate H; cbn [simple] in H.
  - apply ss_prim; reflexivity.
  - apply ss_prim; reflexivity.
  - apply ss_prim; reflexivity.
  - apply ss_ptr; exact H.
  - apply (ss_slice _ t); [reflexivity|exact H|cbn [ftsize]; lia].
  - apply (ss_map _ t); [reflexivity|exact H|cbn [ftsize]; lia].
  - destruct t; try discriminate H.
    + apply ss_prim; reflexivity.
    + apply ss_prim; reflexivity.
    + apply ss_prim; reflexivity.
    + apply (ss_slice _ t); [reflexivity|exact H|cbn [ftsize]; lia].
    + apply (ss_map _ t); [reflexivity|exact H|cbn [ftsize]; lia].
Qed.

Lemma nv_slice t e v : simple t = true -> under t = TSlice e ->
  nv t v = match glist v with [] => GNil | l => GList (map (nv e) l) end.
Proof.
  intros Hs U. destruct t; try discriminate U; cbn [under] in U.
  - injection U as ->. reflexivity.
  - subst t. reflexivity.
Qed.

Lemma nv_map t e v : simple t = true -> under t = TMap e ->
  nv t v = match gmap v with
           | [] => if is_refl e then GMap [] else GNil
           | kvs => GMap (map (fun kv => (fst kv, nv e (snd kv))) kvs)
           end.
Proof.
  intros Hs U. destruct t; try discriminate U; cbn [under] in U.
  - injection U as ->. reflexivity.
  - subst t. reflexivity.
Qed.

(* Fold drops nothing from values of these types *)
Lemma omit_view_simple : forall F t v, simple t = true -> omit_view F t v = v.
Proof.
  induction F as [|f IH]; intros t v Hs; [reflexivity|].
  destruct (simple_cases t Hs) as [t Hp|u Hu|t e U He _|t e U He _]; cbn [omit_view].
  - destruct (under t); try discriminate Hp; destruct v; reflexivity.
  - cbn [under]. destruct v; try reflexivity. rewrite IH by exact Hu. reflexivity.
  - rewrite U. destruct v; try reflexivity. f_equal.
    rewrite <- (map_id vs) at 2. apply map_ext. intro x. apply IH. exact He.
  - rewrite U. destruct v; try reflexivity. f_equal.
    rewrite <- (map_id kvs) at 2. apply map_ext. intros [k x]. cbn [fst snd]. rewrite IH by exact He. reflexivity.
Qed.

Lemma deq_list_nv f e l :
  (forall x, In x l -> deep_eq f e x (nv e x) = true) -> deq_list f e l (map (nv e) l) = true.
Proof.
  induction l as [|x l IH]; intro H; [reflexivity|].
  cbn [map deq_list]. rewrite H by (left; reflexivity). cbn [andb]. apply IH. intros y Hy. apply H. right. exact Hy.
Qed.

Lemma deq_map_nv f e kvs :
  (forall kv, In kv kvs -> deep_eq f e (snd kv) (nv e (snd kv)) = true) ->
  deq_map f e kvs (map (fun kv => (fst kv, nv e (snd kv))) kvs) = true.
Proof.
  induction kvs as [|[k x] l IH]; intro H; [reflexivity|].
  cbn [map deq_map fst snd]. rewrite bytes_eqb_refl.
  pose proof (H (k, x) (or_introl eq_refl)) as Hx. cbn [snd] in Hx. rewrite Hx.
  cbn [andb]. apply IH. intros y Hy. apply H. right. exact Hy.
Qed.

Theorem deep_eq_nv : forall F t v, simple t = true -> wt t v = true -> (ftsize t < F)%nat ->
  deep_eq F t v (nv t v) = true.
Proof.
  induction F as [|f IH]; intros t v Hs Hw Hf; [lia|].
  rewrite deep_eq_S.
  destruct (simple_cases t Hs) as [t Hp|u Hu|t e U He Hlt|t e U He Hlt].
  - rewrite nv_prim by exact Hp. destruct v; cbn [wt] in Hw; revert Hp Hw;
      destruct (under t); intros Hp Hw; try discriminate Hp; try discriminate Hw.
    + apply eqb_reflx.
    + apply bytes_eqb_refl.
    + apply Z.eqb_refl.
  - cbn [under]. cbn [ftsize] in Hf.
    assert (Hv : v = GNil \/ exists x, v = GPtr x /\ wt u x = true).
    { destruct v; cbn [wt under] in Hw; try discriminate Hw; eauto. }
    destruct Hv as [->|(x & -> & Hx)]; cbn [nv]; [reflexivity|].
    destruct (is_nil_head (xev false u x)) eqn:Hn.
    + rewrite (spec_null u x false (S f) Hu Hx Hn) by lia. reflexivity.
    + apply IH; [exact Hu|exact Hx|lia].
  - rewrite (nv_slice t e v Hs U), U. destruct (wt_slice _ _ _ U Hw) as [Hl [->| ->]]; cbn [glist] in *.
    + reflexivity.
    + destruct (glist v) as [|x l] eqn:El; [reflexivity|].
      apply deq_list_nv. intros y Hy. rewrite forallb_forall in Hl. apply IH; [exact He|auto|lia].
  - rewrite (nv_map t e v Hs U), U. destruct (wt_map _ _ _ U Hw) as (Hl & _ & [->| ->]); cbn [gmap] in *.
    + destruct (is_refl e); reflexivity.
    + destruct (gmap v) as [|x l] eqn:El; [destruct (is_refl e); reflexivity|].
      apply deq_map_nv. intros y Hy. rewrite forallb_forall in Hl. apply IH; [exact He|auto|lia].
Qed.

(* ---------- what Fold sends ---------- *)
Lemma simple_not_iface e : simple e = true -> gtype_eqb e TIface = false.
Proof. destruct e; try discriminate; reflexivity. Qed.

Lemma glen_slice t e v : under t = TSlice e -> wt t v = true -> Fold.glen v = zlen (glist v).
Proof. intros U H. destruct (wt_slice _ _ _ U H) as [_ [->| ->]]; reflexivity. Qed.

Lemma glen_map t e v : under t = TMap e -> wt t v = true -> Fold.glen v = zlen (gmap v).
Proof. intros U H. destruct (wt_map _ _ _ U H) as (_ & _ & [->| ->]); reflexivity. Qed.

Lemma expand_typed_arr top e l :
  flat_map expand [EXArr (typed_bt top e) (map (typed_sc top e) l)] = typed_arr top e l.
Proof.
  cbn [flat_map expand]. rewrite app_nil_r. unfold typed_arr. rewrite zlen_map, map_map. reflexivity.
Qed.

Lemma expand_typed_obj e kvs :
  flat_map expand [EXObj (prim_bt e) (map (fun kv => (fst kv, xscalar e (snd kv))) kvs)] = typed_obj e kvs.
Proof.
  cbn [flat_map expand]. rewrite app_nil_r. unfold typed_obj. rewrite zlen_map. f_equal. f_equal.
  induction kvs as [|kv kvs IH]; [reflexivity|]. cbn [map flat_map fst snd app]. rewrite IH. reflexivity.
Qed.

Lemma prim_fold_slice top e v : is_prim e = true ->
  prim_fold top (TSlice e) v = Some [EXArr (typed_bt top e) (map (typed_sc top e) (glist v))].
Proof. intro H. cbn [prim_fold]. rewrite H. reflexivity. Qed.

Lemma prim_fold_map top e v : is_prim e = true ->
  prim_fold top (TMap e) v = Some [EXObj (prim_bt e) (map (fun kv => (fst kv, xscalar e (snd kv))) (gmap v))].
Proof. intro H. cbn [prim_fold]. rewrite H. reflexivity. Qed.

Lemma prim_fold_prim top t v : is_prim t = true -> wt t v = true ->
  prim_fold top t v = Some [EVal (pscalar t v)].
Proof.
  intros Hp Hw. destruct (wt_prim_scalar t v Hp Hw) as (s & E & _). unfold pscalar. 
  destruct t; try discriminate Hp; cbn [prim_fold]; rewrite E; reflexivity.
Qed.

(* pointer chains *)
Lemma base_simple t : simple t = true -> simple (snd (base_type t)) = true.
Proof.
  induction t; intro Hs; try discriminate Hs; try exact Hs.
  cbn [simple] in Hs. cbn [base_type]. destruct (base_type t) as [n bt]. cbn [snd] in *. auto.
Qed.

Lemma ptr_chain : forall t v, simple t = true -> wt t v = true ->
  (Fold.deref (fst (base_type t)) v = None -> xev false t v = [EVal SNil]) /\
  (forall bv, Fold.deref (fst (base_type t)) v = Some bv ->
     wt (snd (base_type t)) bv = true /\ xev false t v = xev false (snd (base_type t)) bv).
Proof.
  induction t; intros v Hs Hw; try discriminate Hs;
    try (cbn [base_type fst snd Fold.deref]; split; [discriminate|];
         intros bv E; injection E as <-; split; [exact Hw|reflexivity]).
  cbn [simple] in Hs. cbn [base_type]. destruct (base_type t) as [n bt] eqn:Eb. cbn [fst snd] in *.
  assert (Hv : v = GNil \/ exists x, v = GPtr x /\ wt t x = true).
  { destruct v; cbn [wt under] in Hw; try discriminate Hw; eauto. }
  destruct Hv as [->|(x & -> & Hx)]; cbn [Fold.deref xev].
  - split; [reflexivity|discriminate].
  - apply IHt; assumption.
Qed.

Definition fold_at (f : nat) : Prop :=
  forall t v evs, simple t = true -> wt t v = true -> rf f false t v = (evs, None) ->
    flat_map expand evs = xev false t v.

Lemma Elems_xev f e l : fold_at f -> simple e = true -> forallb (wt e) l = true ->
  forall evs, Elems f e l = (evs, None) -> flat_map expand evs = flat_map (xev false e) l.
Proof.
  intros IH He. induction l as [|x l IHl]; intros Hl evs H.
  - cbn in H. injection H as <-. reflexivity.
  - cbn [forallb] in Hl. apply andb_true_iff in Hl. destruct Hl as [Hx Hl].
    change (Elems f e (x :: l)) with (rf f false e x ;; Elems f e l) in H.
    apply fseq_ok in H. destruct H as (e1 & e2 & H1 & H2 & ->).
    rewrite flat_map_app. cbn [flat_map]. rewrite (IH _ _ _ He Hx H1), (IHl Hl _ H2). reflexivity.
Qed.

Lemma prim_scalar_true e x : is_prim e = true -> wt e x = true -> prim_scalar true e x = Some (xscalar e x).
Proof.
  intros Hp Hw. unfold wt in Hw. destruct e; try discriminate Hp; destruct x; try discriminate Hw; reflexivity.
Qed.

Lemma Mapkeys_xev f e kvs : fold_at f -> simple e = true ->
  forallb (fun kv => wt e (snd kv)) kvs = true ->
  forall evs, Mapkeys f e kvs = (evs, None) ->
    flat_map expand evs =
    flat_map (fun kv => EKey (fst kv) :: (if is_prim e then [EVal (xscalar e (snd kv))] else xev false e (snd kv))) kvs.
Proof.
  intros IH He. induction kvs as [|[k x] l IHl]; intros Hl evs H.
  - cbn in H. injection H as <-. reflexivity.
  - cbn [forallb snd] in Hl. apply andb_true_iff in Hl. destruct Hl as [Hx Hl].
    change (Mapkeys f e ((k, x) :: l)) with (fok [EKey k] ;; Mapval f e x ;; Mapkeys f e l) in H.
    apply fseq_fok_l in H. destruct H as (e2 & H & ->).
    apply fseq_ok in H. destruct H as (e1 & e3 & H1 & H2 & ->).
    unfold Mapval in H1.
    cbn [flat_map app fst snd expand]. rewrite flat_map_app. rewrite (IHl Hl _ H2).
    destruct (is_prim e) eqn:Hp.
    + rewrite (prim_scalar_true e x Hp Hx) in H1. injection H1 as <-.
      cbn [flat_map app]. destruct (xscalar e x); reflexivity.
    + rewrite (simple_not_iface e He) in H1. rewrite (IH _ _ _ He Hx H1). reflexivity.
Qed.

Lemma is_prim_under t : is_prim t = true -> under t = t.
Proof. destruct t; try discriminate; reflexivity. Qed.

Theorem fold_all : forall f, fold_at f.
Proof.
  induction f as [|f IH]; intros t v evs Hs Hw H; [rewrite rf_O in H; discriminate H|].
  rewrite rf_S in H.
  destruct t; try discriminate Hs.
  - rewrite (prim_fold_prim false TBool v eq_refl Hw) in H. injection H as <-. reflexivity.
  - rewrite (prim_fold_prim false TString v eq_refl Hw) in H. injection H as <-.
    cbn [xev flat_map app]. destruct (pscalar TString v); reflexivity.
  - rewrite (prim_fold_prim false (TNum k) v eq_refl Hw) in H. injection H as <-. reflexivity.
  - (* pointer *)
    cbn [prim_fold] in H. destruct (ptr_chain (TPtr t) v Hs Hw) as [P1 P2].
    pose proof (base_simple (TPtr t) Hs) as Hb.
    destruct (base_type (TPtr t)) as [n bt]. cbn [fst snd] in *.
    destruct (Fold.deref n v) as [bv|].
    + destruct (P2 bv eq_refl) as [Hwb ->]. apply (IH _ _ _ Hb Hwb H).
    + injection H as <-. rewrite P1 by reflexivity. reflexivity.
  - (* slice *)
    cbn [simple] in Hs. destruct (is_prim t) eqn:Hp.
    + rewrite prim_fold_slice in H by exact Hp. injection H as <-.
      rewrite expand_typed_arr. cbn [xev]. rewrite Hp. reflexivity.
    + cbn [prim_fold] in H. rewrite Hp in H.
      apply fseq_fok_l in H. destruct H as (e2 & H & ->).
      apply fseq_fok_r in H. destruct H as (e1 & H & ->).
      destruct (wt_slice (TSlice t) t v eq_refl Hw) as [Hl _].
      rewrite (glen_slice (TSlice t) t v eq_refl Hw).
      cbn [xev]. rewrite Hp. cbn [app flat_map expand]. rewrite flat_map_app.
      rewrite (Elems_xev f t _ IH Hs Hl _ H). reflexivity.
  - (* map *)
    cbn [simple] in Hs. destruct (is_prim t) eqn:Hp.
    + rewrite prim_fold_map in H by exact Hp. injection H as <-.
      rewrite expand_typed_obj. cbn [xev]. rewrite Hp. reflexivity.
    + cbn [prim_fold] in H. rewrite Hp in H.
      apply fseq_fok_l in H. destruct H as (e2 & H & ->).
      apply fseq_fok_r in H. destruct H as (e1 & H & ->).
      destruct (wt_map (TMap t) t v eq_refl Hw) as (Hl & _ & _).
      rewrite (glen_map (TMap t) t v eq_refl Hw).
      cbn [xev]. rewrite Hp. cbn [app flat_map expand]. rewrite flat_map_app.
      rewrite (Mapkeys_xev f t _ IH Hs Hl _ H). rewrite Hp. reflexivity.
  - (* named *)
    cbn [simple] in Hs. cbn [prim_fold] in H. destruct t; try discriminate Hs.
    + rewrite wt_named in Hw by reflexivity. destruct (wt_prim_scalar TBool v eq_refl Hw) as (s & E & _).
      rewrite E in H. injection H as <-. cbn [xev]. unfold pscalar. rewrite E. reflexivity.
    + rewrite wt_named in Hw by reflexivity. destruct (wt_prim_scalar TString v eq_refl Hw) as (s & E & _).
      rewrite E in H. injection H as <-. cbn [xev]. unfold pscalar. rewrite E.
      cbn [flat_map app]. destruct s; reflexivity.
    + rewrite wt_named in Hw by reflexivity. destruct (wt_prim_scalar (TNum k) v eq_refl Hw) as (s & E & _).
      rewrite E in H. injection H as <-. cbn [xev]. unfold pscalar. rewrite E. reflexivity.
    + apply fseq_fok_l in H. destruct H as (e2 & H & ->).
      apply fseq_fok_r in H. destruct H as (e1 & H & ->).
      destruct (wt_slice (TNamed (TSlice t)) t v eq_refl Hw) as [Hl _].
      rewrite (glen_slice (TNamed (TSlice t)) t v eq_refl Hw).
      cbn [xev andb]. cbn [app flat_map expand]. rewrite flat_map_app.
      rewrite (Elems_xev f t _ IH Hs Hl _ H). reflexivity.
    + apply fseq_fok_l in H. destruct H as (e2 & H & ->).
      apply fseq_fok_r in H. destruct H as (e1 & H & ->).
      destruct (wt_map (TNamed (TMap t)) t v eq_refl Hw) as (Hl & _ & _).
      rewrite (glen_map (TNamed (TMap t)) t v eq_refl Hw).
      cbn [xev andb]. cbn [app flat_map expand]. rewrite flat_map_app.
      rewrite (Mapkeys_xev f t _ IH Hs Hl _ H). reflexivity.
Qed.

Lemma Fast_none f v e : simple e = true -> is_prim e = false ->
  Fast f v (TSlice e) = None /\ Fast f v (TMap e) = None.
Proof.
  intros Hs Hp. unfold Fast. cbn [prim_fold]. rewrite Hp.
  destruct e; try discriminate Hs; try discriminate Hp; split; reflexivity.
Qed.

Lemma Anyr_rf_ok f t v evs : Anyr f t v = (evs, None) -> rf f false t v = (evs, None).
Proof. unfold Anyr. destruct (cc_type t); [intro H; discriminate H|auto]. Qed.

Theorem ftop_xev : forall f t v evs, simple t = true -> wt t v = true ->
  ftop f t v = (evs, None) -> flat_map expand evs = xev true t v.
Proof.
  intros [|f] t v evs Hs Hw H; [rewrite ftop_O in H; discriminate H|].
  rewrite ftop_S in H.
  destruct t; try discriminate Hs.
  - unfold Fast in H. rewrite (prim_fold_prim true TBool v eq_refl Hw) in H. injection H as <-. reflexivity.
  - unfold Fast in H. rewrite (prim_fold_prim true TString v eq_refl Hw) in H. injection H as <-.
    cbn [xev flat_map app]. destruct (pscalar TString v); reflexivity.
  - unfold Fast in H. rewrite (prim_fold_prim true (TNum k) v eq_refl Hw) in H. injection H as <-. reflexivity.
  - unfold Fast in H. cbn [prim_fold] in H. apply Anyr_rf_ok in H.
    apply (fold_all f _ _ _ Hs Hw H).
  - pose proof Hs as Hs'. cbn [simple] in Hs. destruct (is_prim t) eqn:Hp.
    + unfold Fast in H. rewrite prim_fold_slice in H by exact Hp. injection H as <-.
      rewrite expand_typed_arr. cbn [xev]. rewrite Hp. reflexivity.
    + rewrite (proj1 (Fast_none f v t Hs Hp)) in H. apply Anyr_rf_ok in H.
      rewrite (fold_all f _ _ _ Hs' Hw H). cbn [xev]. rewrite Hp. reflexivity.
  - pose proof Hs as Hs'. cbn [simple] in Hs. destruct (is_prim t) eqn:Hp.
    + unfold Fast in H. rewrite prim_fold_map in H by exact Hp. injection H as <-.
      rewrite expand_typed_obj. cbn [xev]. rewrite Hp. reflexivity.
    + rewrite (proj2 (Fast_none f v t Hs Hp)) in H. apply Anyr_rf_ok in H.
      rewrite (fold_all f _ _ _ Hs' Hw H). cbn [xev]. rewrite Hp. reflexivity.
  - assert (HF : Fast f v (TNamed t) = None) by reflexivity. rewrite HF in H.
    pose proof Hs as Hs'. cbn [simple] in Hs. destruct t; try discriminate Hs.
    + apply Anyr_rf_ok in H. apply (fold_all f _ _ _ Hs' Hw H).
    + apply Anyr_rf_ok in H. apply (fold_all f _ _ _ Hs' Hw H).
    + apply Anyr_rf_ok in H. apply (fold_all f _ _ _ Hs' Hw H).
    + destruct (is_prim t) eqn:Hp.
      * unfold Fast in H. rewrite prim_fold_slice in H by exact Hp. injection H as <-.
        rewrite expand_typed_arr. cbn [xev andb]. rewrite Hp. reflexivity.
      * rewrite (proj1 (Fast_none f v t Hs Hp)) in H. apply Anyr_rf_ok in H.
        rewrite (fold_all f _ _ _ Hs' Hw H). cbn [xev andb]. rewrite Hp. reflexivity.
    + destruct (is_prim t) eqn:Hp.
      * unfold Fast in H. rewrite prim_fold_map in H by exact Hp. injection H as <-.
        rewrite expand_typed_obj. cbn [xev andb]. rewrite Hp. reflexivity.
      * rewrite (proj2 (Fast_none f v t Hs Hp)) in H. apply Anyr_rf_ok in H.
        rewrite (fold_all f _ _ _ Hs' Hw H). cbn [xev andb]. rewrite Hp. reflexivity.
Qed.

Lemma fold_value_ftop t v : simple t = true ->
  fold_value t v = ftop (4 * (tsize t + vsize v) + 8) t v.
Proof. intro Hs. unfold fold_value. destruct v; try reflexivity. destruct t; try discriminate Hs; reflexivity. Qed.

(* C11 (direct route), the struct- and interface-free fragment: if Fold accepts a well-typed
   value of such a type, unfolding the events into a zero target of the same type completes
   and yields a value deeply equal to the original (nil and empty containers identified, a
   pointer to a nil pointer identified with nil). *)
Theorem C11_direct_partial : forall T v evs,
  simple T = true -> wt T v = true ->
  fold_value T v = (evs, None) -> ucc_type T = None ->
  exists v', unfold_value T (zero_of T) evs = UDone v' /\
             forall F, (ftsize T < F)%nat -> deep_eq F T (omit_view F T v) v' = true.
Proof.
  intros T v evs Hs Hw Hf Hu. exists (nv T v). split.
  - rewrite fold_value_ftop in Hf by exact Hs.
    pose proof (ftop_xev _ _ _ _ Hs Hw Hf) as Hx.
    unfold unfold_value. rewrite Hu, Hx.
    rewrite <- (app_nil_r (xev true T v)) at 2.
    rewrite (unfold_all _ T v true [] Hs Hw); [reflexivity|lia].
  - intros F HF. rewrite omit_view_simple by exact Hs. apply deep_eq_nv; assumption.
Qed.
Print Assumptions C11_direct_partial.

(* the setup check accepts every type of the fragment *)
Lemma ucc_simple : forall F t, simple t = true -> (ftsize t <= F)%nat -> ucc F t = None.
Proof.
  induction F as [|f IH]; intros t Hs Hf; [pose proof (ftsize_pos t); lia|].
  destruct (simple_cases t Hs) as [t Hp|u Hu|t e U He Hlt|t e U He Hlt]; cbn [ucc].
  - destruct (under t); try discriminate Hp; reflexivity.
  - cbn [under]. apply IH; [exact Hu|cbn [ftsize] in Hf; lia].
  - rewrite U. destruct (prim_kind e || gtype_eqb e TIface); [reflexivity|]. apply IH; [exact He|lia].
  - rewrite U. destruct (prim_kind e || gtype_eqb e TIface); [reflexivity|]. apply IH; [exact He|lia].
Qed.

Corollary C11_direct_partial' : forall T v evs,
  simple T = true -> wt T v = true -> fold_value T v = (evs, None) ->
  exists v', unfold_value T (zero_of T) evs = UDone v' /\
             forall F, (ftsize T < F)%nat -> deep_eq F T (omit_view F T v) v' = true.
Proof.
  intros T v evs Hs Hw Hf. apply C11_direct_partial; try assumption.
  unfold ucc_type. apply ucc_simple; [exact Hs|lia].
Qed.
Print Assumptions C11_direct_partial'.

(* the listing order of maps: adjacent keys increasing is the same as [ssorted] *)
Fixpoint asorted (l : list bytes) : bool :=
  match l with
  | a :: ((b :: _) as r) => bytes_ltb a b && asorted r
  | _ => true
  end.

Lemma bytes_ltb_trans : forall a b c, bytes_ltb a b = true -> bytes_ltb b c = true -> bytes_ltb a c = true.
Proof.
  induction a as [|x a IH]; intros [|y b] [|z c] H1 H2; cbn [bytes_ltb] in *; try discriminate; try reflexivity.
  destruct (x <? y) eqn:E1.
  - destruct (y <? z) eqn:E2; [replace (x <? z) with true by lia; reflexivity|].
    destruct (z <? y) eqn:E3; [discriminate H2|]. replace (x <? z) with true by lia. reflexivity.
  - destruct (y <? x) eqn:E1'; [discriminate H1|].
    destruct (y <? z) eqn:E2; [replace (x <? z) with true by lia; reflexivity|].
    destruct (z <? y) eqn:E3; [discriminate H2|].
    replace (x <? z) with false by lia. replace (z <? x) with false by lia. eapply IH; eauto.
Qed.

Lemma asorted_ssorted l : asorted l = true -> ssorted l = true.
Proof.
  induction l as [|a l IH]; intro H; [reflexivity|].
  cbn [ssorted]. destruct l as [|b l]; [reflexivity|].
  cbn [asorted] in H. apply andb_true_iff in H. destruct H as [Hab H].
  specialize (IH H). rewrite IH, andb_true_r.
  cbn [ssorted] in IH. apply andb_true_iff in IH. destruct IH as [Hb _].
  cbn [forallb]. rewrite Hab. cbn [andb].
  rewrite forallb_forall in *. intros c Hc. eapply bytes_ltb_trans; [exact Hab|auto].
Qed.

(* ====================================================================== *)
(* Part 7: C11 (direct route) for flat structs: the fields have types of   *)
(* Part 6; names, "-", omit, omitempty and unexported fields; no inlining   *)
(* ====================================================================== *)

Definition emittable (name tag : bytes) : bool := exported name && negb (t_omit (snd (parse_tags tag))).
Definition fkey (name tag : bytes) : bytes := field_name name (fst (parse_tags tag)).
(* empty in the sense of omitempty, as the resolver chain of Fold decides it *)
Definition emptyv (ft : gtype) (fv : gvalue) : bool :=
  match resolve 1 ft fv with None => true | Some _ => false end.
Definition emitted (name tag : bytes) (ft : gtype) (fv : gvalue) : bool :=
  emittable name tag && negb (t_omitempty (snd (parse_tags tag)) && emptyv ft fv).

Fixpoint nodupb (l : list bytes) : bool :=
  match l with [] => true | k :: r => negb (existsb (bytes_eqb k) r) && nodupb r end.

Fixpoint skeys (fs : list (bytes * bytes * gtype)) : list bytes :=
  match fs with
  | [] => []
  | (name, tag, _) :: r => if emittable name tag then fkey name tag :: skeys r else skeys r
  end.

Definition flat_field (fd : bytes * bytes * gtype) : bool :=
  match fd with (name, tag, ft) =>
    simple ft && (negb (emittable name tag) || negb (t_squash (snd (parse_tags tag)))) end.
Definition flat_fields (fs : list (bytes * bytes * gtype)) : bool :=
  forallb flat_field fs && nodupb (skeys fs).

Fixpoint wt_fields (fs : list (bytes * bytes * gtype)) (vs : list gvalue) : bool :=
  match fs, vs with
  | [], [] => true
  | (_, _, ft) :: fr, fv :: vr => wt ft fv && wt_fields fr vr
  | _, _ => false
  end.

Fixpoint fields_ev (fs : list (bytes * bytes * gtype)) (vs : list gvalue) : list event :=
  match fs, vs with
  | (name, tag, ft) :: fr, fv :: vr =>
      (if emitted name tag ft fv then EKey (fkey name tag) :: xev false ft fv else []) ++ fields_ev fr vr
  | _, _ => []
  end.

Fixpoint fields_nv (fs : list (bytes * bytes * gtype)) (vs : list gvalue) : list gvalue :=
  match fs, vs with
  | (name, tag, ft) :: fr, fv :: vr =>
      (if emitted name tag ft fv then nv ft fv else zero_of ft) :: fields_nv fr vr
  | _, _ => []
  end.

Definition zeros (fs : list (bytes * bytes * gtype)) : list gvalue := map (fun fd => zero_of (snd fd)) fs.

Lemma zero_struct fs : zero_of (TStruct fs) = GStruct (zeros fs).
Proof.
  cbn [zero_of]. f_equal. induction fs as [|[[n tg] ft] fs IH]; [reflexivity|].
  cbn [zeros map snd]. f_equal. exact IH.
Qed.

(* ---------- the field table of a flat struct ---------- *)
Fixpoint table (fs : list (bytes * bytes * gtype)) (idx : nat) : ftable :=
  match fs with
  | [] => []
  | (name, tag, ft) :: r =>
      if emittable name tag then (fkey name tag, ([idx], ft)) :: table r (S idx) else table r (S idx)
  end.

Lemma table_keys fs : forall idx, map fst (table fs idx) = skeys fs.
Proof.
  induction fs as [|[[n tg] ft] fs IH]; intro idx; [reflexivity|].
  cbn [table skeys]. destruct (emittable n tg); [cbn [map fst]; rewrite IH; reflexivity|apply IH].
Qed.

Lemma existsb_map {A B} (p : B -> bool) (g : A -> B) l : existsb p (map g l) = existsb (fun x => p (g x)) l.
Proof. induction l as [|x l IH]; [reflexivity|]. cbn [map existsb]. rewrite IH. reflexivity. Qed.

Lemma field_table_flat : forall fs fuel idx,
  forallb flat_field fs = true -> nodupb (skeys fs) = true -> (length fs < fuel)%nat ->
  field_table fuel fs idx = inr (table fs idx).
Proof.
  induction fs as [|[[name tag] ft] fs IH]; intros fuel idx Hf Hn Hl.
  - destruct fuel; [cbn in Hl; lia|reflexivity].
  - destruct fuel as [|fuel]; [cbn in Hl; lia|]. cbn [length] in Hl.
    cbn [forallb flat_field] in Hf. apply andb_true_iff in Hf. destruct Hf as [Hf1 Hf].
    apply andb_true_iff in Hf1. destruct Hf1 as [_ Hsq].
    cbn [field_table table skeys] in *. unfold emittable, fkey in *.
    destruct (exported name); cbn [negb andb] in *.
    + destruct (parse_tags tag) as [tn o]. cbn [fst snd] in *.
      destruct (t_omit o); cbn [negb orb] in *.
      * rewrite IH by (auto; lia). reflexivity.
      * destruct (t_squash o); [discriminate Hsq|].
        cbn [nodupb] in Hn. apply andb_true_iff in Hn. destruct Hn as [Hn1 Hn].
        rewrite IH by (auto; lia).
        cbn [existsb fst]. rewrite orb_false_r.
        rewrite <- (table_keys fs (S idx)) in Hn1. rewrite existsb_map in Hn1.
        apply negb_true_iff in Hn1. rewrite Hn1. reflexivity.
    + rewrite IH by (auto; lia). reflexivity.
Qed.

Lemma skeys_app a b : skeys (a ++ b) = skeys a ++ skeys b.
Proof.
  induction a as [|[[n tg] ft] a IH]; [reflexivity|]. cbn [app skeys].
  destruct (emittable n tg); [cbn [app]; rewrite IH; reflexivity|exact IH].
Qed.

Lemma existsb_false_in {A} (p : A -> bool) l x : existsb p l = false -> In x l -> p x = false.
Proof.
  intros H Hin. destruct (p x) eqn:E; [|reflexivity].
  assert (existsb p l = true) by (apply existsb_exists; eauto). congruence.
Qed.

Lemma assoc_table : forall pre name tag ft post idx,
  nodupb (skeys (pre ++ (name, tag, ft) :: post)) = true -> emittable name tag = true ->
  assoc_key (fkey name tag) (table (pre ++ (name, tag, ft) :: post) idx) = Some ([idx + length pre]%nat, ft).
Proof.
  induction pre as [|[[n' tg'] ft'] pre IH]; intros name tag ft post idx Hn He.
  - cbn [app table length]. rewrite He. unfold assoc_key. cbn [find fst]. rewrite bytes_eqb_refl.
    cbn [snd]. rewrite Nat.add_0_r. reflexivity.
  - cbn [app table skeys length] in *. destruct (emittable n' tg') eqn:E'.
    + cbn [nodupb] in Hn. apply andb_true_iff in Hn. destruct Hn as [Hn1 Hn].
      apply negb_true_iff in Hn1.
      assert (Hne : bytes_eqb (fkey n' tg') (fkey name tag) = false).
      { apply (existsb_false_in _ _ _ Hn1). rewrite skeys_app. apply in_or_app. right.
        cbn [skeys]. rewrite He. left. reflexivity. }
      unfold assoc_key. cbn [find fst]. rewrite Hne.
      fold (assoc_key (fkey name tag) (table (pre ++ (name, tag, ft) :: post) (S idx))).
      rewrite IH by assumption. f_equal. f_equal. f_equal. lia.
    + rewrite IH by assumption. f_equal. f_equal. f_equal. lia.
Qed.

(* ---------- the struct loop over the fields, into a zero struct ---------- *)
Lemma nth_app_here {A} (a : list A) x b d : nth (length a) (a ++ x :: b) d = x.
Proof. rewrite app_nth2 by lia. rewrite Nat.sub_diag. reflexivity. Qed.

Lemma fields_ev_cons name tag ft fr fv vr :
  fields_ev ((name, tag, ft) :: fr) (fv :: vr) =
  (if emitted name tag ft fv then EKey (fkey name tag) :: xev false ft fv else []) ++ fields_ev fr vr.
Proof. reflexivity. Qed.

Lemma struct_loop_fields f tab : forall fs vs done g rest,
  wt_fields fs vs = true ->
  forallb (fun fd => simple (snd fd) && Nat.leb (ftsize (snd fd)) f) fs = true ->
  (forall pre name tag ft post, fs = pre ++ (name, tag, ft) :: post -> emittable name tag = true ->
     assoc_key (fkey name tag) tab = Some ([length done + length pre]%nat, ft)) ->
  (length (fields_ev fs vs) < g)%nat ->
  struct_loop f tab g (GStruct (done ++ zeros fs)) (fields_ev fs vs ++ EObjEnd :: rest)
  = UOk (GStruct (done ++ fields_nv fs vs)) rest.
Proof.
  induction fs as [|[[name tag] ft] fs IH]; intros vs done g rest Hw Hs Hk Hg.
  - destruct vs; [|discriminate Hw]. destruct g as [|g]; [cbn in Hg; lia|].
    cbn [fields_ev fields_nv zeros map app]. rewrite struct_loop_S. reflexivity.
  - destruct vs as [|fv vs]; [discriminate Hw|].
    cbn [wt_fields] in Hw. apply andb_true_iff in Hw. destruct Hw as [Hwf Hw].
    cbn [forallb snd] in Hs. apply andb_true_iff in Hs. destruct Hs as [Hs1 Hs].
    apply andb_true_iff in Hs1. destruct Hs1 as [Hsf Hff]. apply Nat.leb_le in Hff.
    assert (Hk' : forall pre name0 tag0 ft0 post, fs = pre ++ (name0, tag0, ft0) :: post ->
              emittable name0 tag0 = true ->
              assoc_key (fkey name0 tag0) tab = Some ([length (done ++ [if emitted name tag ft fv then nv ft fv else zero_of ft]) + length pre]%nat, ft0)).
    { intros pre n0 t0 f0 post E He. rewrite app_length. cbn [length].
      rewrite (Hk ((name, tag, ft) :: pre) n0 t0 f0 post (f_equal (cons (name, tag, ft)) E) He).
      cbn [length]. f_equal. f_equal. f_equal. lia. }
    rewrite fields_ev_cons in *. cbn [fields_nv].
    change (zeros ((name, tag, ft) :: fs)) with (zero_of ft :: zeros fs).
    destruct (emitted name tag ft fv) eqn:Em.
    + destruct g as [|g]; [cbn in Hg; lia|].
      cbn [app]. rewrite <- app_assoc.
      change (EKey (fkey name tag)) with (key_event (fkey name tag) false). rewrite struct_loop_key.
      assert (He : emittable name tag = true) by (unfold emitted in Em; apply andb_true_iff in Em; tauto).
      rewrite (Hk [] name tag ft fs eq_refl He). cbn [length]. rewrite Nat.add_0_r.
      cbn [get_path]. rewrite nth_app_here. cbn [get_path].
      rewrite (unfold_all f ft fv false _ Hsf Hwf Hff).
      cbn [set_path]. rewrite replace_nth_app.
      change (done ++ nv ft fv :: zeros fs) with (done ++ [nv ft fv] ++ zeros fs). rewrite app_assoc.
      rewrite (IH vs (done ++ [nv ft fv]) g rest Hw Hs Hk').
      * rewrite <- app_assoc. reflexivity.
      * cbn [app length] in Hg. rewrite app_length in Hg. lia.
    + cbn [app]. change (done ++ zero_of ft :: zeros fs) with (done ++ [zero_of ft] ++ zeros fs). rewrite app_assoc.
      rewrite (IH vs (done ++ [zero_of ft]) g rest Hw Hs Hk').
      * rewrite <- app_assoc. reflexivity.
      * cbn [app] in Hg. exact Hg.
Qed.

Definition fsum (fs : list (bytes * bytes * gtype)) : nat :=
  (fix go (l : list (bytes * bytes * gtype)) : nat :=
     match l with [] => O | (_, _, ft) :: r => S (ftsize ft + go r) end) fs.

Lemma ftsize_struct fs : ftsize (TStruct fs) = S (fsum fs).
Proof. reflexivity. Qed.

Lemma fsum_cons n tg ft fs : fsum ((n, tg, ft) :: fs) = S (ftsize ft + fsum fs).
Proof. reflexivity. Qed.

Lemma fsum_bounds fs : (length fs <= fsum fs)%nat /\ forall fd, In fd fs -> (ftsize (snd fd) <= fsum fs)%nat.
Proof.
  induction fs as [|[[n tg] ft] fs [IH1 IH2]]; [split; [cbn; lia|contradiction]|].
  rewrite fsum_cons. cbn [length]. split; [lia|]. intros fd [<-|H]; cbn [snd]; [lia|]. specialize (IH2 fd H). lia.
Qed.

Lemma uf_flat_struct fs vs F n bt rest :
  flat_fields fs = true -> wt_fields fs vs = true -> (ftsize (TStruct fs) <= F)%nat ->
  uf F (TStruct fs) (zero_of (TStruct fs)) (EObjStart n bt :: fields_ev fs vs ++ EObjEnd :: rest)
  = UOk (GStruct (fields_nv fs vs)) rest.
Proof.
  intros Hf Hw HF. unfold flat_fields in Hf. apply andb_true_iff in Hf. destruct Hf as [Hff Hnd].
  rewrite ftsize_struct in HF. destruct F as [|f]; [lia|].
  destruct (fsum_bounds fs) as [Hlen Hin].
  rewrite (uf_S_struct _ _ fs) by reflexivity.
  rewrite field_table_flat by (auto; rewrite ftsize_struct; lia).
  rewrite zero_struct.
  apply (struct_loop_fields f (table fs 0) fs vs [] _ rest Hw).
  - apply forallb_forall. intros [[n0 t0] ft0] Hfd. cbn [snd].
    rewrite forallb_forall in Hff. specialize (Hff _ Hfd). cbn [flat_field] in Hff.
    apply andb_true_iff in Hff. destruct Hff as [Hs _]. rewrite Hs. cbn [andb].
    apply Nat.leb_le. specialize (Hin _ Hfd). cbn [snd] in Hin. lia.
  - intros pre name tag ft post E He. subst fs. rewrite (assoc_table pre name tag ft post 0 Hnd He). reflexivity.
  - rewrite app_length. cbn [length]. lia.
Qed.

(* ---------- omitempty on fields of these types ---------- *)
Lemma simple_base_not_iface t : simple t = true -> under (snd (base_type t)) <> TIface.
Proof.
  intro Hs. pose proof (base_simple t Hs) as Hb. destruct (snd (base_type t)); try discriminate Hb; try discriminate.
  cbn [simple] in Hb. cbn [under]. destruct g; try discriminate Hb; discriminate.
Qed.

Lemma resolve_simple f ft fv : simple ft = true ->
  resolve (S f) ft fv = resolve 1 ft fv /\
  (forall t' v', resolve 1 ft fv = Some (t', v') ->
     t' = snd (base_type ft) /\ Fold.deref (fst (base_type ft)) fv = Some v').
Proof.
  intro Hs. pose proof (simple_base_not_iface ft Hs) as Hni. cbn [resolve].
  destruct (base_type ft) as [n bt]. cbn [fst snd] in *.
  destruct (Fold.deref n fv) as [bv|]; [|split; [reflexivity|discriminate]].
  destruct (under bt); try contradiction; (split; [reflexivity|]); intros t' v' H;
    try (injection H as <- <-; split; reflexivity);
    (destruct (Fold.glen bv >? 0); [injection H as <- <-; split; reflexivity|discriminate H]).
Qed.

Lemma emptyv_ptr u x : emptyv (TPtr u) (GPtr x) = emptyv u x.
Proof. unfold emptyv. cbn [resolve base_type]. destruct (base_type u) as [n bt]. reflexivity. Qed.

Lemma empty_spec : forall ft fv g, simple ft = true -> wt ft fv = true -> (ftsize ft <= g)%nat ->
  spec_empty g ft fv = emptyv ft fv.
Proof.
  induction ft; intros fv g Hs Hw Hg; try discriminate Hs;
    (destruct g as [|g]; [pose proof (ftsize_pos ft) as Hp || idtac; cbn [ftsize] in Hg; lia|]);
    rewrite spec_empty_S.
  - destruct fv; try discriminate Hw; reflexivity.
  - destruct fv; try discriminate Hw. cbn [under]. unfold emptyv. cbn. unfold zlen. destruct (length s); reflexivity.
  - destruct fv; try discriminate Hw; reflexivity.
  - cbn [under]. cbn [simple] in Hs. cbn [ftsize] in Hg.
    destruct fv; cbn [wt under] in Hw; try discriminate Hw.
    + unfold emptyv. cbn [resolve base_type]. destruct (base_type ft) as [n bt]. reflexivity.
    + rewrite emptyv_ptr. apply IHft; [exact Hs|exact Hw|lia].
  - cbn [under]. destruct fv; cbn [wt under] in Hw; try discriminate Hw.
    + reflexivity.
    + unfold emptyv. cbn. unfold zlen. destruct (length vs); reflexivity.
  - cbn [under]. destruct fv; cbn [wt under] in Hw; try discriminate Hw.
    + reflexivity.
    + unfold emptyv. cbn. unfold zlen. destruct (length kvs); reflexivity.
  - cbn [simple] in Hs. cbn [under]. destruct ft; try discriminate Hs; rewrite wt_named in Hw by reflexivity.
    + destruct fv; try discriminate Hw; reflexivity.
    + destruct fv; try discriminate Hw. unfold emptyv. cbn. unfold zlen. destruct (length s); reflexivity.
    + destruct fv; try discriminate Hw; reflexivity.
    + destruct fv; cbn [wt under] in Hw; try discriminate Hw.
      * reflexivity.
      * unfold emptyv. cbn. unfold zlen. destruct (length vs); reflexivity.
    + destruct fv; cbn [wt under] in Hw; try discriminate Hw.
      * reflexivity.
      * unfold emptyv. cbn. unfold zlen. destruct (length kvs); reflexivity.
Qed.

(* ---------- what Fold sends for the fields ---------- *)
Lemma Fields_ev f : forall fs vs evs,
  forallb flat_field fs = true -> wt_fields fs vs = true ->
  Fields (S f) fs vs = (evs, None) -> flat_map expand evs = fields_ev fs vs.
Proof.
  induction fs as [|[[name tag] ft] fs IH]; intros vs evs Hf Hw H.
  - rewrite Fields_nil_l in H. injection H as <-. destruct vs; reflexivity.
  - destruct vs as [|fv vs]; [discriminate Hw|].
    cbn [wt_fields] in Hw. apply andb_true_iff in Hw. destruct Hw as [Hwf Hw].
    cbn [forallb flat_field] in Hf. apply andb_true_iff in Hf. destruct Hf as [Hf1 Hf].
    apply andb_true_iff in Hf1. destruct Hf1 as [Hs Hsq].
    rewrite Fields_cons in H. apply fseq_ok in H. destruct H as (e1 & e2 & H1 & H2 & ->).
    rewrite flat_map_app, (IH vs e2 Hf Hw H2). rewrite fields_ev_cons. f_equal.
    unfold Field1 in H1. unfold emitted, emittable, fkey in *.
    destruct (exported name); cbn [negb andb] in *; [|injection H1 as <-; reflexivity].
    destruct (parse_tags tag) as [tn o]. cbn [fst snd] in *.
    destruct (t_omit o); cbn [negb orb andb] in *; [injection H1 as <-; reflexivity|].
    destruct (t_squash o); [discriminate Hsq|].
    unfold Member in H1. destruct (t_omitempty o); cbn [andb].
    + destruct (resolve_simple f ft fv Hs) as [R1 R2]. rewrite R1 in H1. unfold emptyv.
      destruct (resolve 1 ft fv) as [[t' v']|] eqn:Er; cbn [negb]; [|injection H1 as <-; reflexivity].
      destruct (R2 t' v' eq_refl) as [-> Hd].
      apply fseq_fok_l in H1. destruct H1 as (e3 & H1 & ->).
      destruct (ptr_chain ft fv Hs Hwf) as [_ P2]. destruct (P2 v' Hd) as [Hwb Hx].
      pose proof (base_simple ft Hs) as Hb.
      assert (HR : rf (S f) false (snd (base_type ft)) v' = (e3, None)).
      { unfold Resolved in H1. destruct (snd (base_type ft)); try discriminate Hb; apply Anyr_rf_ok in H1; exact H1. }
      cbn [flat_map app expand]. rewrite (fold_all _ _ _ _ Hb Hwb HR), Hx. reflexivity.
    + apply fseq_fok_l in H1. destruct H1 as (e3 & H1 & ->).
      cbn [flat_map app expand negb]. rewrite (fold_all _ _ _ _ Hs Hwf H1). reflexivity.
Qed.

(* ---------- deep equality of the fields ---------- *)
Lemma deep_eq_zero : forall F t, simple t = true -> (1 <= F)%nat -> deep_eq F t (zero_of t) (zero_of t) = true.
Proof.
  intros [|f] t Hs HF; [lia|]. rewrite deep_eq_S.
  destruct (simple_cases t Hs) as [t Hp|u Hu|t e U He _|t e U He _].
  - rewrite (zero_under t). destruct (under t); try discriminate Hp; reflexivity.
  - reflexivity.
  - rewrite (zero_under t), U. reflexivity.
  - rewrite (zero_under t), U. reflexivity.
Qed.

Definition ov_fields (f : nat) :=
  fix go (fs : list (bytes * bytes * gtype)) (vs : list gvalue) : list gvalue :=
    match fs, vs with
    | (name, tag, ft) :: fr, fv :: vr =>
        let o := snd (parse_tags tag) in
        (if negb (exported name) || t_omit o || (t_omitempty o && spec_empty (S f) ft fv)
         then zero_of ft else omit_view f ft fv) :: go fr vr
    | _, _ => []
    end.

Lemma omit_view_struct f fs vs :
  omit_view (S f) (TStruct fs) (GStruct vs) = GStruct (ov_fields f fs vs).
Proof. reflexivity. Qed.

Lemma ov_fields_cons f name tag ft fr fv vr :
  ov_fields f ((name, tag, ft) :: fr) (fv :: vr) =
  (if negb (exported name) || t_omit (snd (parse_tags tag)) || (t_omitempty (snd (parse_tags tag)) && spec_empty (S f) ft fv)
   then zero_of ft else omit_view f ft fv) :: ov_fields f fr vr.
Proof. reflexivity. Qed.

Lemma deq_fields_flat f : forall fs vs,
  forallb flat_field fs = true -> wt_fields fs vs = true ->
  forallb (fun fd => Nat.ltb (ftsize (snd fd)) f) fs = true ->
  deq_fields f fs (ov_fields f fs vs) (fields_nv fs vs) = true.
Proof.
  induction fs as [|[[name tag] ft] fs IH]; intros vs Hf Hw Hsz.
  - destruct vs; [reflexivity|discriminate Hw].
  - destruct vs as [|fv vs]; [discriminate Hw|].
    cbn [wt_fields] in Hw. apply andb_true_iff in Hw. destruct Hw as [Hwf Hw].
    cbn [forallb flat_field] in Hf. apply andb_true_iff in Hf. destruct Hf as [Hf1 Hf].
    apply andb_true_iff in Hf1. destruct Hf1 as [Hs _].
    cbn [forallb snd] in Hsz. apply andb_true_iff in Hsz. destruct Hsz as [Hlt Hsz]. apply Nat.ltb_lt in Hlt.
    rewrite ov_fields_cons. cbn [fields_nv deq_fields]. rewrite (IH vs Hf Hw Hsz), andb_true_r.
    rewrite (empty_spec ft fv (S f) Hs Hwf) by lia.
    unfold emitted, emittable.
    destruct (exported name); cbn [negb orb andb]; [|apply deep_eq_zero; [exact Hs|lia]].
    destruct (t_omit (snd (parse_tags tag))); cbn [negb orb andb]; [apply deep_eq_zero; [exact Hs|lia]|].
    destruct (t_omitempty (snd (parse_tags tag)) && emptyv ft fv); cbn [negb]; [apply deep_eq_zero; [exact Hs|lia]|].
    rewrite omit_view_simple by exact Hs. apply deep_eq_nv; [exact Hs|exact Hwf|exact Hlt].
Qed.

(* C11 (direct route) for flat structs *)
Theorem C11_direct_struct_partial : forall fs vs evs,
  flat_fields fs = true -> wt_fields fs vs = true ->
  fold_value (TStruct fs) (GStruct vs) = (evs, None) -> ucc_type (TStruct fs) = None ->
  exists v', unfold_value (TStruct fs) (zero_of (TStruct fs)) evs = UDone v' /\
             forall F, (ftsize (TStruct fs) < F)%nat ->
               deep_eq F (TStruct fs) (omit_view F (TStruct fs) (GStruct vs)) v' = true.
Proof.
  intros fs vs evs Hf Hw H Hu. exists (GStruct (fields_nv fs vs)). split.
  - unfold fold_value in H.
    remember (4 * (tsize (TStruct fs) + vsize (GStruct vs)) + 8)%nat as fuel eqn:Ef.
    destruct fuel as [|[|[|f]]]; try lia.
    rewrite ftop_S in H.
    change (Fast (S (S f)) (GStruct vs) (TStruct fs)) with (@None fr) in H.
    apply Anyr_rf_ok in H. rewrite rf_S in H. cbn [prim_fold] in H.
    apply fseq_fok_l in H. destruct H as (e2 & H & ->).
    apply fseq_fok_r in H. destruct H as (e1 & H & ->).
    unfold flat_fields in Hf. pose proof Hf as Hf'. apply andb_true_iff in Hf'. destruct Hf' as [Hff _].
    pose proof (Fields_ev f fs vs e1 Hff Hw H) as Hx.
    unfold unfold_value. rewrite Hu. cbn [app flat_map expand]. rewrite flat_map_app, Hx. cbn [flat_map expand app].
    rewrite (uf_flat_struct fs vs _ _ _ [] Hf Hw); [reflexivity|lia].
  - intros F HF. destruct F as [|f]; [lia|]. rewrite deep_eq_S, omit_view_struct. cbn [under].
    unfold flat_fields in Hf. apply andb_true_iff in Hf. destruct Hf as [Hff _].
    apply deq_fields_flat; [exact Hff|exact Hw|].
    apply forallb_forall. intros fd Hfd. apply Nat.ltb_lt.
    rewrite ftsize_struct in HF. destruct (fsum_bounds fs) as [_ Hin]. specialize (Hin fd Hfd). lia.
Qed.
Print Assumptions C11_direct_struct_partial.

(* the setup check accepts flat structs *)
Lemma table_types fs : forall idx k path ft, In (k, (path, ft)) (table fs idx) -> exists n tg, In (n, tg, ft) fs.
Proof.
  induction fs as [|[[n tg] ft0] fs IH]; intros idx k path ft H; [contradiction|].
  cbn [table] in H. destruct (emittable n tg).
  - destruct H as [H|H]; [injection H as _ _ <-; exists n, tg; left; reflexivity|].
    destruct (IH _ _ _ _ H) as (n' & tg' & Hin). exists n', tg'. right. exact Hin.
  - destruct (IH _ _ _ _ H) as (n' & tg' & Hin). exists n', tg'. right. exact Hin.
Qed.

Lemma ucc_flat fs : flat_fields fs = true -> ucc_type (TStruct fs) = None.
Proof.
  intro Hf. unfold flat_fields in Hf. apply andb_true_iff in Hf. destruct Hf as [Hff Hnd].
  unfold ucc_type. cbn [ucc under]. destruct (fsum_bounds fs) as [Hlen Hin].
  rewrite field_table_flat by (auto; rewrite ftsize_struct; lia).
  assert (H : forall e, In e (table fs 0) -> ucc (ftsize (TStruct fs)) (snd (snd e)) = None).
  { intros [k [path ft]] He. cbn [snd]. destruct (table_types _ _ _ _ _ He) as (n & tg & Hfd).
    rewrite forallb_forall in Hff. specialize (Hff _ Hfd). cbn [flat_field] in Hff.
    apply andb_true_iff in Hff. destruct Hff as [Hs _].
    apply ucc_simple; [exact Hs|]. specialize (Hin _ Hfd). cbn [snd] in Hin. rewrite ftsize_struct. lia. }
  induction (table fs 0) as [|e l IH]; [reflexivity|].
  cbn [fold_right]. rewrite (H e) by (left; reflexivity). apply IH. intros e' He'. apply H. right. exact He'.
Qed.

Corollary C11_direct_struct_partial' : forall fs vs evs,
  flat_fields fs = true -> wt_fields fs vs = true ->
  fold_value (TStruct fs) (GStruct vs) = (evs, None) ->
  exists v', unfold_value (TStruct fs) (zero_of (TStruct fs)) evs = UDone v' /\
             forall F, (ftsize (TStruct fs) < F)%nat ->
               deep_eq F (TStruct fs) (omit_view F (TStruct fs) (GStruct vs)) v' = true.
Proof. intros fs vs evs Hf Hw H. apply C11_direct_struct_partial; try assumption. apply ucc_flat. exact Hf. Qed.
Print Assumptions C11_direct_struct_partial'.

(* an instance: names, omitempty (empty and not), "-", unexported, pointers, slices, maps *)
Definition ex_fs : list (bytes * bytes * gtype) :=
  [([65], [], TNum KInt);                                   (* A int *)
   ([66], [110; 44] ++ s_omitempty, TPtr TString);           (* B *string `struct:"n,omitempty"` *)
   ([67], [44] ++ s_omitempty, TSlice (TNum KUint8));        (* C []byte `struct:",omitempty"` *)
   ([68], [45], TBool);                                      (* D bool `struct:"-"` *)
   ([101], [], TNum KFloat64);                               (* e float64, unexported *)
   ([70], [44] ++ s_omitempty, TMap (TPtr (TNum KInt8)))].   (* F map[string]*int8 `struct:",omitempty"` *)
Definition ex_vs : list gvalue :=
  [GNum (-7); GPtr (GStr [104; 105]); GList []; GBool true; GNum 99; GMap [([120], GNil); ([121], GPtr (GNum 3))]].
Example C11_struct_example :
  flat_fields ex_fs = true /\ wt_fields ex_fs ex_vs = true /\
  fold_value (TStruct ex_fs) (GStruct ex_vs) =
    ([EObjStart (-1) BAny; EKey [97]; EVal (SNum KInt64 (-7)); EKey [110]; EVal (SStr [104; 105]);
      EKey [102]; EObjStart 2 BAny; EKey [120]; EVal SNil; EKey [121]; EVal (SNum KInt8 3); EObjEnd; EObjEnd], None) /\
  unfold_value (TStruct ex_fs) (zero_of (TStruct ex_fs)) (fst (fold_value (TStruct ex_fs) (GStruct ex_vs))) =
    UDone (GStruct [GNum (-7); GPtr (GStr [104; 105]); GNil; GBool false; GNum 0;
                    GMap [([120], GNil); ([121], GPtr (GNum 3))]]).
Proof. vm_compute. repeat split; reflexivity. Qed.
