(* More proofs about the unfolder model (Gotype/Unfold.v), continuing Gotype/UnfoldProofs.v:
     Part A  the three loops of uf as instances of one generic loop; locality of a loop
     Part B  locality of uf (loc_plain): on the events of a complete value followed by anything,
             the outcome is the outcome on the value alone with the rest appended
     Part C  the fuel of unfold_value is enough on complete values (stable_plain, uf_fuel_enough)
     Part D  C13  struct targets on arbitrary object streams: struct_spec (C13_struct_spec,
             C13_struct_unfold_value) and its corollaries (C13_unmentioned_untouched,
             C13_unknown_member_irrelevant, C13_matching_*_assigned,
             C13_member_order_irrelevant_partial), each also for whole documents (_doc)
     Part E  C14  error path: complete streams are decided (C14_complete_stream_decided), proper
             prefixes are never done (C14_prefix_not_done)
     Part F  C11  direct route Fold -> Unfold beyond flat structs (C11_direct_nested_partial):
             structs nested in structs, behind pointers, in slices and maps; inlined structs *)
From Coq Require Import List NArith ZArith Bool Lia.
From Coq Require Import ZifyBool ZifyNat ZifyN.
From SF Require Import Base.Prelude Base.PreludeProofs Core.Events Core.EventsProofs Core.AdapterProofs.
From SF Require Import Gotype.Types Gotype.Conv Gotype.FoldSpec Gotype.Unfold Gotype.UnfoldSpec.
From SF Require Import Gotype.Fold Gotype.FoldProofs Gotype.UnfoldProofs.
Import ListNotations.
Open Scope Z_scope.

Ltac Zify.zify_post_hook ::= Z.div_mod_to_equations.

(* ====================================================================== *)
(* Part A: one generic loop                                                *)
(* ====================================================================== *)

Definition ur_map (g : gvalue -> gvalue) (u : ur) : ur :=
  match u with UOk v r => UOk (g v) r | UErr x => UErr x end.
Definition ur_app (u : ur) (rest : list event) : ur :=
  match u with UOk v r => UOk v (r ++ rest) | UErr x => UErr (x ++ rest) end.
(* the outcome on exactly one complete value: everything consumed, or an error at an event
   of the value *)
Definition ur_shape (u : ur) : Prop :=
  match u with UOk _ r => r = [] | UErr x => x <> [] end.
Definition ur_val (u : ur) : option gvalue :=
  match u with UOk v _ => Some v | UErr _ => None end.

Lemma ur_app_nil u : ur_app u [] = u.
Proof. destruct u; cbn [ur_app]; rewrite app_nil_r; reflexivity. Qed.
Lemma ur_app_map g u rest : ur_app (ur_map g u) rest = ur_map g (ur_app u rest).
Proof. destruct u; reflexivity. Qed.
Lemma ur_shape_map g u : ur_shape u -> ur_shape (ur_map g u).
Proof. destruct u; exact (fun H => H). Qed.
Lemma ur_val_app u rest : ur_val (ur_app u rest) = ur_val u.
Proof. destruct u; reflexivity. Qed.

(* one step of a loop: the next state and the remaining events, or an error *)
Inductive sres (St : Type) : Type :=
| SNext (st : St) (r : list event)
| SFail (x : list event).
Arguments SNext {St}.
Arguments SFail {St}.
Definition sres_app {St} (s : sres St) (rest : list event) : sres St :=
  match s with SNext st r => SNext st (r ++ rest) | SFail x => SFail (x ++ rest) end.
Definition sres_shape {St} (s : sres St) : Prop :=
  match s with SNext _ r => r = [] | SFail x => x <> [] end.

Section GLoop.
  Context {St Item : Type}.
  Variable is_end : list event -> bool.
  Variable endev : event.
  Variable fin : St -> gvalue.
  Variable iev : Item -> list event.
  Hypothesis end_true : forall r, is_end (endev :: r) = true.

  Definition loop_eqs (L : nat -> St -> list event -> ur) (step : St -> list event -> sres St) : Prop :=
    (forall st evs, L O st evs = UErr evs) /\
    (forall g st evs, L (S g) st evs =
       if is_end evs then UOk (fin st) (tl evs)
       else match step st evs with SNext st' r => L g st' r | SFail x => UErr x end).

  Definition item_local (step : St -> list event -> sres St) (it : Item) : Prop :=
    (forall rest, is_end (iev it ++ rest) = false) /\
    forall st, sres_shape (step st (iev it)) /\
               forall rest, step st (iev it ++ rest) = sres_app (step st (iev it)) rest.

  (* the loop on the events of the items alone *)
  Fixpoint grun (step : St -> list event -> sres St) (st : St) (its : list Item) : ur :=
    match its with
    | [] => UOk (fin st) []
    | it :: r =>
        match step st (iev it) with
        | SNext st' _ => grun step st' r
        | SFail x => UErr (x ++ flat_map iev r ++ [endev])
        end
    end.

  Lemma grun_shape step its : Forall (item_local step) its -> forall st, ur_shape (grun step st its).
  Proof.
    induction 1 as [|it its [_ Hit] _ IH]; intro st; cbn [grun]; [reflexivity|].
    destruct (Hit st) as [Hs _]. destruct (step st (iev it)) as [st' r|x]; [apply IH|].
    cbn [ur_shape sres_shape] in *. destruct x; [contradiction|discriminate].
  Qed.

  Lemma gloop_local L step its : loop_eqs L step -> Forall (item_local step) its ->
    forall st g rest, (length its < g)%nat ->
      L g st (flat_map iev its ++ endev :: rest) = ur_app (grun step st its) rest.
  Proof.
    intros [L_O L_S]. induction 1 as [|it its [Hend Hit] _ IH]; intros st g rest Hg.
    - destruct g as [|g]; [cbn in Hg; lia|]. cbn [flat_map app grun ur_app].
      rewrite L_S, end_true. reflexivity.
    - destruct g as [|g]; [cbn in Hg; lia|]. cbn [flat_map grun]. rewrite <- app_assoc.
      rewrite L_S, Hend. destruct (Hit st) as [Hs Hl]. rewrite Hl.
      destruct (step st (iev it)) as [st' r|x]; cbn [sres_app sres_shape] in *.
      + subst r. cbn [app]. apply IH. cbn [length] in Hg. lia.
      + cbn [ur_app]. rewrite <- !app_assoc. reflexivity.
  Qed.

  Lemma grun_ext step1 step2 its :
    Forall (fun it => forall st, step2 st (iev it) = step1 st (iev it)) its ->
    forall st, grun step2 st its = grun step1 st its.
  Proof.
    induction 1 as [|it its Hit _ IH]; intro st; cbn [grun]; [reflexivity|].
    rewrite Hit. destruct (step1 st (iev it)); [apply IH|reflexivity].
  Qed.
End GLoop.

(* ---------- the slice loop ---------- *)
Definition slice_st : Type := list gvalue * list gvalue * nat.
Definition slice_L f e wasnil refl (g : nat) (st : slice_st) (evs : list event) : ur :=
  slice_loop f e wasnil refl g (fst (fst st)) (snd (fst st)) (snd st) evs.
Definition slice_step f e refl (st : slice_st) (evs : list event) : sres slice_st :=
  let cur := fst (fst st) in let spare := snd (fst st) in let idx := snd st in
  if refl && is_nil_head evs
  then SNext (sl_put cur idx (sl_oldel e refl cur spare idx), sl_spare cur spare idx, S idx) (tl evs)
  else match uf f e (sl_oldel e refl cur spare idx) evs with
       | UOk v r => SNext (sl_put cur idx v, sl_spare cur spare idx, S idx) r
       | UErr x => SFail x
       end.
Definition slice_fin (wasnil : bool) (st : slice_st) : gvalue := slice_final wasnil (fst (fst st)).

Lemma is_nil_head_alt evs : match evs with h :: _ => is_nil_ev h | [] => false end = is_nil_head evs.
Proof. destruct evs as [|[s| | | | | | | | |] p]; reflexivity. Qed.

Lemma slice_loop_eqs f e wasnil refl :
  loop_eqs is_arr_end (slice_fin wasnil) (slice_L f e wasnil refl) (slice_step f e refl).
Proof.
  split.
  - intros st evs. apply slice_loop_O.
  - intros g [[cur spare] idx] evs. unfold slice_L, slice_step, slice_fin. cbn [fst snd].
    destruct (is_arr_end evs) eqn:Ee.
    + destruct evs as [|[] p]; try discriminate Ee. rewrite slice_loop_S. reflexivity.
    + rewrite slice_loop_step_gen by exact Ee. rewrite is_nil_head_alt.
      destruct (refl && is_nil_head evs); [reflexivity|].
      destruct (uf f e (sl_oldel e refl cur spare idx) evs); reflexivity.
Qed.

(* ---------- the map loop ---------- *)
Definition is_obj_end (evs : list event) : bool := match evs with EObjEnd :: _ => true | _ => false end.
Definition map_st : Type := option (list (bytes * gvalue)).
Definition map_val f e (refl : bool) (r' : list event) : ur :=
  if refl && is_nil_head r' then UOk (zero_of e) (tl r') else uf f e (zero_of e) r'.
Definition map_step f e refl (cur : map_st) (evs : list event) : sres map_st :=
  match evs with
  | EKey k :: r' | EKeyRef k :: r' =>
      match map_val f e refl r' with
      | UOk v r'' => SNext (Some (map_put k v (opt_map cur))) r''
      | UErr x => SFail x
      end
  | _ => SFail evs
  end.

Lemma map_val_alt f e (refl : bool) r' :
  match r' with
  | EVal SNil :: r'' => if refl then UOk (zero_of e) r'' else uf f e (zero_of e) r'
  | _ => uf f e (zero_of e) r'
  end = map_val f e refl r'.
Proof.
  unfold map_val. destruct r' as [|[s| | | | | | | | |] p]; cbn [is_nil_head tl]; rewrite ?andb_false_r; try reflexivity.
  destruct s; cbn [is_nil_head tl]; rewrite ?andb_false_r, ?andb_true_r; reflexivity.
Qed.

Lemma map_loop_eqs f e refl :
  loop_eqs is_obj_end map_final (map_loop f e refl) (map_step f e refl).
Proof.
  split.
  - intros st evs. apply map_loop_O.
  - intros g cur evs. rewrite map_loop_S.
    destruct evs as [|h p]; [reflexivity|].
    destruct h; try reflexivity; cbn [is_obj_end map_step]; rewrite map_val_alt;
      destruct (map_val f e refl p); reflexivity.
Qed.

(* ---------- the struct loop ---------- *)
Definition struct_step f (tab : ftable) (cur : gvalue) (evs : list event) : sres gvalue :=
  match evs with
  | EKey k :: r' | EKeyRef k :: r' =>
      match assoc_key k tab with
      | None =>
          match skip_value (S (length r')) r' with
          | SkOk r'' => SNext cur r''
          | SkMore => SFail []
          | SkErr x => SFail x
          end
      | Some (path, ft) =>
          match uf f ft (get_path path cur) r' with
          | UOk v r'' => SNext (set_path path v cur) r''
          | UErr x => SFail x
          end
      end
  | _ => SFail evs
  end.

Lemma struct_loop_eqs f tab :
  loop_eqs is_obj_end (fun cur => cur) (struct_loop f tab) (struct_step f tab).
Proof.
  split.
  - intros st evs. apply struct_loop_O.
  - intros g cur evs. rewrite struct_loop_S.
    destruct evs as [|h p]; [reflexivity|].
    destruct h; try reflexivity; cbn [is_obj_end struct_step];
      (destruct (assoc_key k tab) as [[path ft]|];
       [destruct (uf f ft (get_path path cur) p); reflexivity
       |destruct (skip_value (S (length p)) p); reflexivity]).
Qed.

(* items: elements of an array, members of an object *)
Definition member : Type := bytes * bool * tree.
Definition miev (m : member) : list event := key_event (fst (fst m)) (snd (fst m)) :: flatten (snd m).

Lemma flatten_members_miev ms : flatten_members ms = flat_map miev ms.
Proof.
  unfold flatten_members. induction ms as [|[[k r] e] ms IH]; [reflexivity|].
  cbn [flat_map]. rewrite IH. reflexivity.
Qed.

Lemma flatten_not_arr_end x rest : is_arr_end (flatten x ++ rest) = false.
Proof. destruct (flatten_head x) as (h & tl & E & Hh). rewrite E. destruct h; try discriminate Hh; reflexivity. Qed.
Lemma miev_not_obj_end m rest : is_obj_end (miev m ++ rest) = false.
Proof. destruct m as [[k b] x]. destruct b; reflexivity. Qed.

(* ====================================================================== *)
(* Part B: locality of uf on a complete value                              *)
(* ====================================================================== *)

(* ---------- uf by the first event ---------- *)
Definition is_leaf (h : event) : bool := match h with EVal _ | EStrRef _ => true | _ => false end.

Definition leaf_val (ut : gtype) (h : event) : option gvalue :=
  match ut, h with
  | TBool, EVal (SBool b) => Some (GBool b)
  | TBool, EVal SNil => Some (GBool false)
  | TString, EVal (SStr s) => Some (GStr s)
  | TString, EVal SNil => Some (GStr [])
  | TNum k, EVal (SNum k' z) => Some (GNum (conv k' k z))
  | TNum k, EVal SNil => Some (GNum 0)
  | TIface, EVal s => Some (ifc_scalar s)
  | _, _ => None
  end.

Lemma uf_leaf f t old h r : is_leaf h = true ->
  uf (S f) t old (h :: r) =
  match under t with
  | TPtr u => if is_nil_ev h then UOk GNil r else ur_map GPtr (uf f u (zero_of u) (h :: r))
  | ut => match leaf_val ut h with Some v => UOk v r | None => UErr (h :: r) end
  end.
Proof.
  intro Hh. rewrite uf_S.
  destruct (under t); destruct h as [s| | | | | | | | |]; try discriminate Hh; try reflexivity;
    destruct s; reflexivity.
Qed.

Lemma uf_arrstart f t old l bt r :
  uf (S f) t old (EArrStart l bt :: r) =
  match under t with
  | TPtr u => ur_map GPtr (uf f u (zero_of u) (EArrStart l bt :: r))
  | TIface => ur_map (GIface (TSlice (ifc_elem bt))) (uf f (TSlice (ifc_elem bt)) GNil (EArrStart l bt :: r))
  | TSlice e =>
      let ss := slice_start e old (Z.max l 0) in
      slice_L f e (snd ss) (is_refl e) (S (length r)) (fst ss, O) r
  | _ => UErr (EArrStart l bt :: r)
  end.
Proof.
  rewrite uf_S. destruct (under t); try reflexivity.
  cbv zeta. destruct (slice_start g old (Z.max l 0)) as [[cur spare] wasnil]. reflexivity.
Qed.

Lemma uf_objstart f t old l bt r :
  uf (S f) t old (EObjStart l bt :: r) =
  match under t with
  | TPtr u => ur_map GPtr (uf f u (zero_of u) (EObjStart l bt :: r))
  | TIface => ur_map (GIface (TMap (ifc_elem bt))) (uf f (TMap (ifc_elem bt)) GNil (EObjStart l bt :: r))
  | TMap e => map_loop f e (is_refl e) (S (length r)) (map_start e old) r
  | TStruct fs =>
      match field_table (S (ftsize t)) fs O with
      | inl _ => UErr (EObjStart l bt :: r)
      | inr tab => struct_loop f tab (S (length r)) old r
      end
  | _ => UErr (EObjStart l bt :: r)
  end.
Proof. rewrite uf_S. destruct (under t); reflexivity. Qed.

(* ---------- locality ---------- *)
Definition loc_at (tr : tree) : Prop :=
  forall fuel t old,
    ur_shape (uf fuel t old (flatten tr)) /\
    forall rest, uf fuel t old (flatten tr ++ rest) = ur_app (uf fuel t old (flatten tr)) rest.

Lemma loc_leaf h : is_leaf h = true ->
  forall fuel t old, ur_shape (uf fuel t old [h]) /\
                     forall rest, uf fuel t old (h :: rest) = ur_app (uf fuel t old [h]) rest.
Proof.
  intro Hh. induction fuel as [|f IH]; intros t old.
  - rewrite uf_O. split; [discriminate|]. intro rest. rewrite uf_O. reflexivity.
  - rewrite uf_leaf by exact Hh.
    assert (Hgen : forall ut,
      ur_shape (match leaf_val ut h with Some v => UOk v [] | None => UErr [h] end) /\
      forall rest, match leaf_val ut h with Some v => UOk v rest | None => UErr (h :: rest) end =
                   ur_app (match leaf_val ut h with Some v => UOk v [] | None => UErr [h] end) rest).
    { intro ut. destruct (leaf_val ut h); cbn [ur_shape ur_app app]; split; try reflexivity; try discriminate. }
    destruct (under t) eqn:U; try (split; [apply Hgen|intro rest; rewrite uf_leaf, U by exact Hh; apply Hgen]).
    destruct (is_nil_ev h) eqn:En.
    + split; [reflexivity|]. intro rest. rewrite uf_leaf, U, En by exact Hh. reflexivity.
    + destruct (IH g (zero_of g)) as [I1 I2]. split; [apply ur_shape_map; exact I1|].
      intro rest. rewrite uf_leaf, U, En by exact Hh. rewrite I2, ur_app_map. reflexivity.
Qed.

Lemma flatten_tval_leaf s r : exists h, flatten (TVal s r) = [h] /\ is_leaf h = true.
Proof. destruct s, r; cbn [flatten]; eexists; split; reflexivity. Qed.

Lemma loc_val s r : loc_at (TVal s r).
Proof.
  destruct (flatten_tval_leaf s r) as (h & E & Hh). intros fuel t old. rewrite E. cbn [app].
  apply loc_leaf. exact Hh.
Qed.

Lemma is_nil_head_flatten x rest : is_nil_head (flatten x ++ rest) = is_nil_head (flatten x).
Proof. destruct (flatten_head x) as (h & tl & E & _). rewrite E. reflexivity. Qed.

Lemma nil_head_flatten x : is_nil_head (flatten x) = true -> flatten x = [EVal SNil].
Proof.
  destruct (flatten_head x) as (h & tl & E & _). rewrite E. rewrite is_nil_head_cons. intro H.
  rewrite (flatten_nil_ev x h tl E H). destruct h as [s| | | | | | | | |]; try discriminate H. destruct s; try discriminate H. reflexivity.
Qed.

Lemma loc_slice_items f e refl es : Forall loc_at es ->
  Forall (item_local is_arr_end flatten (slice_step f e refl)) es.
Proof.
  intro H. eapply Forall_impl; [|exact H]. intros x Hx. split; [apply flatten_not_arr_end|].
  intros [[cur spare] idx]. unfold slice_step. cbn [fst snd].
  destruct (refl && is_nil_head (flatten x)) eqn:En.
  - apply andb_true_iff in En. destruct En as [-> En]. pose proof (nil_head_flatten x En) as E. rewrite E.
    split; [reflexivity|]. intro rest. reflexivity.
  - destruct (Hx f e (sl_oldel e refl cur spare idx)) as [H1 H2]. split.
    + destruct (uf f e (sl_oldel e refl cur spare idx) (flatten x)); exact H1.
    + intro rest. rewrite is_nil_head_flatten, En, H2.
      destruct (uf f e (sl_oldel e refl cur spare idx) (flatten x)); reflexivity.
Qed.

Lemma map_val_local f e refl x : loc_at x ->
  ur_shape (map_val f e refl (flatten x)) /\
  forall rest, map_val f e refl (flatten x ++ rest) = ur_app (map_val f e refl (flatten x)) rest.
Proof.
  intro Hx. unfold map_val. destruct (refl && is_nil_head (flatten x)) eqn:En.
  - apply andb_true_iff in En. destruct En as [-> En]. rewrite (nil_head_flatten x En).
    split; [reflexivity|]. intro rest. reflexivity.
  - destruct (Hx f e (zero_of e)) as [H1 H2]. split; [exact H1|].
    intro rest. rewrite is_nil_head_flatten, En. apply H2.
Qed.

Lemma miev_app m rest : miev m ++ rest = key_event (fst (fst m)) (snd (fst m)) :: flatten (snd m) ++ rest.
Proof. reflexivity. Qed.

Lemma map_step_key f e refl cur k b r' :
  map_step f e refl cur (key_event k b :: r') =
  match map_val f e refl r' with
  | UOk v r'' => SNext (Some (map_put k v (opt_map cur))) r''
  | UErr x => SFail x
  end.
Proof. destruct b; reflexivity. Qed.

Lemma loc_map_items f e refl (ms : list member) : Forall (fun m => loc_at (snd m)) ms ->
  Forall (item_local is_obj_end miev (map_step f e refl)) ms.
Proof.
  intro H. eapply Forall_impl; [|exact H]. intros [[k b] x] Hx. cbn [snd] in Hx.
  split; [apply miev_not_obj_end|]. intro cur.
  destruct (map_val_local f e refl x Hx) as [H1 H2].
  unfold miev. cbn [fst snd]. rewrite map_step_key. split.
  - destruct (map_val f e refl (flatten x)); exact H1.
  - intro rest. rewrite <- app_comm_cons, map_step_key, H2.
    destruct (map_val f e refl (flatten x)); reflexivity.
Qed.

Lemma struct_step_key f tab cur k b r' :
  struct_step f tab cur (key_event k b :: r') =
  match assoc_key k tab with
  | None =>
      match skip_value (S (length r')) r' with
      | SkOk r'' => SNext cur r''
      | SkMore => SFail []
      | SkErr x => SFail x
      end
  | Some (path, ft) =>
      match uf f ft (get_path path cur) r' with
      | UOk v r'' => SNext (set_path path v cur) r''
      | UErr x => SFail x
      end
  end.
Proof. destruct b; reflexivity. Qed.

Lemma skip_plain_fuel x rest : plain x = true ->
  skip_value (S (length (flatten x ++ rest))) (flatten x ++ rest) = SkOk rest.
Proof. intro Hp. apply skip_plain; [exact Hp|]. rewrite app_length. lia. Qed.

Lemma loc_struct_items f tab (ms : list member) :
  Forall (fun m => loc_at (snd m)) ms -> forallb (fun m => plain (snd m)) ms = true ->
  Forall (item_local is_obj_end miev (struct_step f tab)) ms.
Proof.
  intros H Hp. rewrite forallb_forall in Hp. rewrite Forall_forall in *. intros [[k b] x] Hin.
  pose proof (H _ Hin) as Hx. pose proof (Hp _ Hin) as Hpx. cbn [snd] in Hx, Hpx.
  split; [apply miev_not_obj_end|]. intro cur.
  unfold miev. cbn [fst snd]. rewrite struct_step_key.
  destruct (assoc_key k tab) as [[path ft]|] eqn:Ek.
  - destruct (Hx f ft (get_path path cur)) as [H1 H2]. split.
    + destruct (uf f ft (get_path path cur) (flatten x)); exact H1.
    + intro rest. rewrite <- app_comm_cons, struct_step_key, Ek, H2.
      destruct (uf f ft (get_path path cur) (flatten x)); reflexivity.
  - pose proof (skip_plain_fuel x [] Hpx) as S0. rewrite app_nil_r in S0. rewrite S0.
    split; [reflexivity|]. intro rest. rewrite <- app_comm_cons, struct_step_key, Ek, skip_plain_fuel by exact Hpx.
    reflexivity.
Qed.

Lemma arr_events len bt es rest :
  flatten (TArr len bt es) ++ rest = EArrStart len bt :: flat_map flatten es ++ EArrEnd :: rest.
Proof. rewrite flatten_arr. cbn [app]. rewrite <- app_assoc. reflexivity. Qed.
Lemma obj_events len bt ms rest :
  flatten (TObj len bt ms) ++ rest = EObjStart len bt :: flat_map miev ms ++ EObjEnd :: rest.
Proof. rewrite flatten_obj, flatten_members_miev. cbn [app]. rewrite <- app_assoc. reflexivity. Qed.

Lemma flat_map_flatten_len es : (length es <= length (flat_map flatten es))%nat.
Proof. exact (flatten_elems_length_ge es). Qed.
Lemma flat_map_miev_len (ms : list member) : (length ms <= length (flat_map miev ms))%nat.
Proof. rewrite <- flatten_members_miev. apply flatten_members_length_ge. Qed.

Lemma loop_fuel_ok {A} (l : list A) (evs : list event) e rest :
  (length l <= length evs)%nat -> (length l < S (length (evs ++ e :: rest)))%nat.
Proof. intro H. rewrite app_length. cbn [length]. lia. Qed.

Lemma is_arr_end_true r : is_arr_end (EArrEnd :: r) = true. Proof. reflexivity. Qed.
Lemma is_obj_end_true r : is_obj_end (EObjEnd :: r) = true. Proof. reflexivity. Qed.

Lemma loc_intro tr fuel t old :
  (exists u, ur_shape u /\ forall rest, uf fuel t old (flatten tr ++ rest) = ur_app u rest) ->
  ur_shape (uf fuel t old (flatten tr)) /\
  forall rest, uf fuel t old (flatten tr ++ rest) = ur_app (uf fuel t old (flatten tr)) rest.
Proof.
  intros (u & Hs & H). pose proof (H []) as H0. rewrite app_nil_r, ur_app_nil in H0. rewrite H0.
  split; assumption.
Qed.

Lemma flatten_ne tr : flatten tr <> [].
Proof. destruct (flatten_head tr) as (h & tl & E & _). rewrite E. discriminate. Qed.

Lemma loc_fail tr fuel t old :
  (forall rest, uf fuel t old (flatten tr ++ rest) = UErr (flatten tr ++ rest)) ->
  ur_shape (uf fuel t old (flatten tr)) /\
  forall rest, uf fuel t old (flatten tr ++ rest) = ur_app (uf fuel t old (flatten tr)) rest.
Proof.
  intro H. apply loc_intro. exists (UErr (flatten tr)). split; [apply flatten_ne|]. exact H.
Qed.

Lemma loc_wrap tr f t old g t' old' :
  (forall rest, uf (S f) t old (flatten tr ++ rest) = ur_map g (uf f t' old' (flatten tr ++ rest))) ->
  (ur_shape (uf f t' old' (flatten tr)) /\
   forall rest, uf f t' old' (flatten tr ++ rest) = ur_app (uf f t' old' (flatten tr)) rest) ->
  ur_shape (uf (S f) t old (flatten tr)) /\
  forall rest, uf (S f) t old (flatten tr ++ rest) = ur_app (uf (S f) t old (flatten tr)) rest.
Proof.
  intros H [I1 I2]. apply loc_intro. exists (ur_map g (uf f t' old' (flatten tr))).
  split; [apply ur_shape_map; exact I1|]. intro rest. rewrite H, I2, ur_app_map. reflexivity.
Qed.

Lemma loc_arr len bt es : Forall loc_at es -> loc_at (TArr len bt es).
Proof.
  intros Hes fuel.
  induction fuel as [|f IH]; intros t old.
  - apply loc_fail. intro rest. apply uf_O.
  - destruct (under t) eqn:U;
      try (apply loc_fail; intro rest; rewrite arr_events, uf_arrstart, U; reflexivity).
    + (* interface *)
      apply (loc_wrap _ f t old (GIface (TSlice (ifc_elem bt))) (TSlice (ifc_elem bt)) GNil); [|apply IH].
      intro rest. rewrite arr_events, uf_arrstart, U. reflexivity.
    + (* pointer *)
      apply (loc_wrap _ f t old GPtr g (zero_of g)); [|apply IH].
      intro rest. rewrite arr_events, uf_arrstart, U. reflexivity.
    + (* slice *)
      set (ss := slice_start g old (Z.max len 0)).
      pose proof (loc_slice_items f g (is_refl g) es Hes) as Hit.
      pose proof (gloop_local is_arr_end EArrEnd (slice_fin (snd ss)) flatten is_arr_end_true _ _ es
                    (slice_loop_eqs f g (snd ss) (is_refl g)) Hit (fst ss, O)) as HL.
      apply loc_intro. exists (grun EArrEnd (slice_fin (snd ss)) flatten (slice_step f g (is_refl g)) (fst ss, O) es).
      split; [apply (grun_shape is_arr_end EArrEnd _ flatten _ es Hit)|].
      intro rest. rewrite arr_events, uf_arrstart, U. cbv zeta. fold ss.
      apply HL. apply loop_fuel_ok, flat_map_flatten_len.
Qed.

Lemma loc_obj len bt (ms : list member) :
  Forall (fun m => loc_at (snd m)) ms -> forallb (fun m => plain (snd m)) ms = true ->
  loc_at (TObj len bt ms).
Proof.
  intros Hms Hp fuel.
  induction fuel as [|f IH]; intros t old.
  - apply loc_fail. intro rest. apply uf_O.
  - destruct (under t) eqn:U;
      try (apply loc_fail; intro rest; rewrite obj_events, uf_objstart, U; reflexivity).
    + (* interface *)
      apply (loc_wrap _ f t old (GIface (TMap (ifc_elem bt))) (TMap (ifc_elem bt)) GNil); [|apply IH].
      intro rest. rewrite obj_events, uf_objstart, U. reflexivity.
    + (* pointer *)
      apply (loc_wrap _ f t old GPtr g (zero_of g)); [|apply IH].
      intro rest. rewrite obj_events, uf_objstart, U. reflexivity.
    + (* map *)
      pose proof (loc_map_items f g (is_refl g) ms Hms) as Hit.
      pose proof (gloop_local is_obj_end EObjEnd map_final miev is_obj_end_true _ _ ms
                    (map_loop_eqs f g (is_refl g)) Hit (map_start g old)) as HL.
      apply loc_intro. exists (grun EObjEnd map_final miev (map_step f g (is_refl g)) (map_start g old) ms).
      split; [apply (grun_shape is_obj_end EObjEnd _ miev _ ms Hit)|].
      intro rest. rewrite obj_events, uf_objstart, U.
      apply HL. apply loop_fuel_ok, flat_map_miev_len.
    + (* struct *)
      destruct (field_table (S (ftsize t)) fs 0) as [err|tab] eqn:Et.
      * apply loc_fail. intro rest. rewrite obj_events, uf_objstart, U, Et. reflexivity.
      * pose proof (loc_struct_items f tab ms Hms Hp) as Hit.
        pose proof (gloop_local is_obj_end EObjEnd (fun cur => cur) miev is_obj_end_true _ _ ms
                      (struct_loop_eqs f tab) Hit old) as HL.
        apply loc_intro. exists (grun EObjEnd (fun cur => cur) miev (struct_step f tab) old ms).
        split; [apply (grun_shape is_obj_end EObjEnd _ miev _ ms Hit)|].
        intro rest. rewrite obj_events, uf_objstart, U, Et.
        apply HL. apply loop_fuel_ok, flat_map_miev_len.
Qed.

(* uf on the events of a complete value (no extended events: these are expanded before they
   reach the unfolder) followed by anything: the outcome is the one on the value alone; what
   follows is left untouched, also when the value is refused *)
Theorem loc_plain : forall tr, plain tr = true -> loc_at tr.
Proof.
  induction tr as [s r|len bt es IH|len bt ms IH|bt es|bt ms] using tree_ind'; intro Hp; try discriminate Hp.
  - apply loc_val.
  - apply loc_arr. cbn [plain] in Hp. rewrite forallb_forall in Hp. rewrite Forall_forall in *. auto.
  - cbn [plain] in Hp. apply loc_obj; [|exact Hp].
    rewrite forallb_forall in Hp. rewrite Forall_forall in *. auto.
Qed.

Corollary uf_local : forall tr fuel t old rest, plain tr = true ->
  uf fuel t old (flatten tr ++ rest) = ur_app (uf fuel t old (flatten tr)) rest.
Proof. intros tr fuel t old rest Hp. apply (loc_plain tr Hp). Qed.

Corollary uf_complete_shape : forall tr fuel t old, plain tr = true ->
  ur_shape (uf fuel t old (flatten tr)).
Proof. intros tr fuel t old Hp. apply (loc_plain tr Hp). Qed.
Print Assumptions loc_plain.

(* ====================================================================== *)
(* Part C: enough fuel - on a complete value more fuel changes nothing     *)
(* ====================================================================== *)

Fixpoint depth (tr : tree) : nat :=
  match tr with
  | TArr _ _ es => S (list_max (map depth es))
  | TObj _ _ ms => S (list_max (map (fun m => depth (snd m)) ms))
  | _ => O
  end.

Definition stable_at (tr : tree) : Prop :=
  forall fuel t old k rest, (ftsize t + 2 * depth tr <= fuel)%nat ->
    uf (fuel + k) t old (flatten tr ++ rest) = uf fuel t old (flatten tr ++ rest).

Lemma ftsize_under t : (ftsize (under t) <= ftsize t)%nat.
Proof. destruct t; cbn [under]; try lia. cbn [ftsize]. lia. Qed.

Lemma list_max_in {A} (f : A -> nat) l x : In x l -> (f x <= list_max (map f l))%nat.
Proof.
  unfold list_max. induction l as [|y l IH]; [contradiction|]. intros [->|H]; cbn [map fold_right]; [lia|].
  specialize (IH H). lia.
Qed.

Lemma field_table_ftsize : forall fuel fs idx tab, field_table fuel fs idx = inr tab ->
  forall k path ft, In (k, (path, ft)) tab -> (ftsize ft <= fsum fs)%nat.
Proof.
  induction fuel as [|f IH]; intros fs idx tab H k path ft Hin; [discriminate H|].
  cbn [field_table] in H. destruct fs as [|[[name tag] ft0] fs]; [injection H as <-; contradiction|].
  rewrite fsum_cons.
  destruct (field_table f fs (S idx)) as [err|b] eqn:Er.
  - destruct (negb (exported name)); [discriminate H|].
    destruct (parse_tags tag) as [tn o]. destruct (t_omit o); [discriminate H|].
    destruct (t_squash o); [destruct ft0; try discriminate H; destruct (field_table f fs0 0); discriminate H|discriminate H].
  - assert (Hb : forall k path ft, In (k, (path, ft)) b -> (ftsize ft <= S (ftsize ft0 + fsum fs))%nat).
    { intros k' p' ft' H'. specialize (IH _ _ _ Er _ _ _ H'). lia. }
    destruct (negb (exported name)); [injection H as <-; eauto|].
    destruct (parse_tags tag) as [tn o]. destruct (t_omit o); [injection H as <-; eauto|].
    destruct (t_squash o).
    + destruct ft0; try discriminate H.
      destruct (field_table f fs0 0) as [err|sub] eqn:Es; [discriminate H|].
      match type of H with (if ?c then _ else _) = _ => destruct c end; [discriminate H|].
      injection H as <-. apply in_app_or in Hin. destruct Hin as [Hin|Hin]; [|eauto].
      apply in_map_iff in Hin. destruct Hin as ([k' [p' ft']] & E & Hin). cbn [fst snd] in E. injection E as _ _ ->.
      specialize (IH _ _ _ Es _ _ _ Hin). rewrite ftsize_struct. lia.
    + match type of H with (if ?c then _ else _) = _ => destruct c end; [discriminate H|].
      injection H as <-. cbn [app] in Hin. destruct Hin as [Hin|Hin]; [|eauto].
      injection Hin as _ _ ->. lia.
Qed.

Lemma stable_leaf h : is_leaf h = true ->
  forall fuel t old k rest, (ftsize t <= fuel)%nat -> uf (fuel + k) t old (h :: rest) = uf fuel t old (h :: rest).
Proof.
  intro Hh. induction fuel as [|f IH]; intros t old k rest Hf; [pose proof (ftsize_pos t); lia|].
  cbn [Nat.add]. rewrite !uf_leaf by exact Hh.
  pose proof (ftsize_under t) as Hu.
  destruct (under t) eqn:U; try reflexivity.
  destruct (is_nil_ev h); [reflexivity|]. rewrite IH; [reflexivity|]. cbn [ftsize] in Hu. lia.
Qed.

Lemma stable_val s r : stable_at (TVal s r).
Proof.
  destruct (flatten_tval_leaf s r) as (h & E & Hh). intros fuel t old k rest Hf. rewrite E. cbn [app].
  apply stable_leaf; [exact Hh|lia].
Qed.

Lemma stable_slice_loop f k e wasnil refl es : Forall loc_at es ->
  Forall (fun x => forall old, uf (f + k) e old (flatten x) = uf f e old (flatten x)) es ->
  forall g st rest, (length es < g)%nat ->
    slice_L (f + k) e wasnil refl g st (flat_map flatten es ++ EArrEnd :: rest) =
    slice_L f e wasnil refl g st (flat_map flatten es ++ EArrEnd :: rest).
Proof.
  intros Hl Hs g st rest Hg.
  rewrite (gloop_local is_arr_end EArrEnd (slice_fin wasnil) flatten is_arr_end_true _ _ es
             (slice_loop_eqs (f + k) e wasnil refl) (loc_slice_items _ _ _ es Hl) st g rest Hg).
  rewrite (gloop_local is_arr_end EArrEnd (slice_fin wasnil) flatten is_arr_end_true _ _ es
             (slice_loop_eqs f e wasnil refl) (loc_slice_items _ _ _ es Hl) st g rest Hg).
  f_equal. apply grun_ext. eapply Forall_impl; [|exact Hs]. intros x Hx [[cur spare] idx].
  unfold slice_step. cbn [fst snd]. rewrite Hx. reflexivity.
Qed.

Lemma stable_map_loop f k e refl (ms : list member) : Forall (fun m => loc_at (snd m)) ms ->
  Forall (fun m => forall old, uf (f + k) e old (flatten (snd m)) = uf f e old (flatten (snd m))) ms ->
  forall g st rest, (length ms < g)%nat ->
    map_loop (f + k) e refl g st (flat_map miev ms ++ EObjEnd :: rest) =
    map_loop f e refl g st (flat_map miev ms ++ EObjEnd :: rest).
Proof.
  intros Hl Hs g st rest Hg.
  rewrite (gloop_local is_obj_end EObjEnd map_final miev is_obj_end_true _ _ ms
             (map_loop_eqs (f + k) e refl) (loc_map_items _ _ _ ms Hl) st g rest Hg).
  rewrite (gloop_local is_obj_end EObjEnd map_final miev is_obj_end_true _ _ ms
             (map_loop_eqs f e refl) (loc_map_items _ _ _ ms Hl) st g rest Hg).
  f_equal. apply grun_ext. eapply Forall_impl; [|exact Hs]. intros [[kk b] x] Hx cur. cbn [snd] in Hx.
  unfold miev. cbn [fst snd]. rewrite !map_step_key. unfold map_val. rewrite Hx. reflexivity.
Qed.

Lemma stable_struct_loop f k tab (ms : list member) :
  Forall (fun m => loc_at (snd m)) ms -> forallb (fun m => plain (snd m)) ms = true ->
  Forall (fun m => forall kk path ft old, In (kk, (path, ft)) tab ->
                     uf (f + k) ft old (flatten (snd m)) = uf f ft old (flatten (snd m))) ms ->
  forall g st rest, (length ms < g)%nat ->
    struct_loop (f + k) tab g st (flat_map miev ms ++ EObjEnd :: rest) =
    struct_loop f tab g st (flat_map miev ms ++ EObjEnd :: rest).
Proof.
  intros Hl Hp Hs g st rest Hg.
  rewrite (gloop_local is_obj_end EObjEnd (fun cur => cur) miev is_obj_end_true _ _ ms
             (struct_loop_eqs (f + k) tab) (loc_struct_items _ _ ms Hl Hp) st g rest Hg).
  rewrite (gloop_local is_obj_end EObjEnd (fun cur => cur) miev is_obj_end_true _ _ ms
             (struct_loop_eqs f tab) (loc_struct_items _ _ ms Hl Hp) st g rest Hg).
  f_equal. apply grun_ext. eapply Forall_impl; [|exact Hs]. intros [[kk b] x] Hx cur. cbn [snd] in Hx.
  unfold miev. cbn [fst snd]. rewrite !struct_step_key.
  destruct (assoc_key kk tab) as [[path ft]|] eqn:Ek; [|reflexivity].
  destruct (assoc_key_in _ _ _ Ek) as [k' Hin]. rewrite (Hx _ _ _ _ Hin). reflexivity.
Qed.

Lemma stable_arr len bt es : Forall loc_at es -> Forall stable_at es -> stable_at (TArr len bt es).
Proof.
  intros Hl Hes fuel.
  assert (Hd : forall x, In x es -> (S (depth x) <= depth (TArr len bt es))%nat).
  { intros x Hx. cbn [depth]. pose proof (list_max_in depth es x Hx). lia. }
  assert (Hel : forall f k e, (forall x, In x es -> (ftsize e + 2 * depth x <= f)%nat) ->
            Forall (fun x => forall old, uf (f + k) e old (flatten x) = uf f e old (flatten x)) es).
  { intros f k e Hb. rewrite Forall_forall in *. intros x Hx old.
    pose proof (Hes x Hx f e old k [] (Hb x Hx)) as Hst. rewrite !app_nil_r in Hst. exact Hst. }
  induction fuel as [|f IH]; intros t old k rest Hf; [pose proof (ftsize_pos t); lia|].
  cbn [Nat.add]. rewrite arr_events, !uf_arrstart.
  pose proof (ftsize_under t) as Hu.
  destruct (under t) eqn:U; try reflexivity.
  - (* interface *)
    destruct f as [|f']; [cbn [depth] in Hf; lia|]. cbn [Nat.add]. rewrite !uf_arrstart. cbn [under]. cbv zeta.
    f_equal. apply stable_slice_loop; [exact Hl| |apply loop_fuel_ok, flat_map_flatten_len].
    apply Hel. intros x Hx. specialize (Hd x Hx).
    assert (ftsize (ifc_elem bt) = 1%nat) by (destruct bt; reflexivity). cbn [ftsize] in Hu. lia.
  - (* pointer *)
    rewrite <- arr_events, IH; [reflexivity|]. cbn [ftsize] in Hu. lia.
  - (* slice *)
    cbv zeta. apply stable_slice_loop; [exact Hl| |apply loop_fuel_ok, flat_map_flatten_len].
    apply Hel. intros x Hx. specialize (Hd x Hx). cbn [ftsize] in Hu. lia.
Qed.

Lemma stable_obj len bt (ms : list member) :
  Forall (fun m => loc_at (snd m)) ms -> forallb (fun m => plain (snd m)) ms = true ->
  Forall (fun m => stable_at (snd m)) ms -> stable_at (TObj len bt ms).
Proof.
  intros Hl Hp Hms fuel.
  assert (Hd : forall m, In m ms -> (S (depth (snd m)) <= depth (TObj len bt ms))%nat).
  { intros m Hm. cbn [depth]. pose proof (list_max_in (fun m => depth (snd m)) ms m Hm). cbn beta in H. lia. }
  assert (Hel : forall f k e old m, In m ms -> (ftsize e + 2 * depth (snd m) <= f)%nat ->
            uf (f + k) e old (flatten (snd m)) = uf f e old (flatten (snd m))).
  { intros f k e old m Hm Hb. rewrite Forall_forall in Hms.
    pose proof (Hms m Hm f e old k [] Hb) as Hst. rewrite !app_nil_r in Hst. exact Hst. }
  induction fuel as [|f IH]; intros t old k rest Hf; [pose proof (ftsize_pos t); lia|].
  cbn [Nat.add]. rewrite obj_events, !uf_objstart.
  pose proof (ftsize_under t) as Hu.
  destruct (under t) eqn:U; try reflexivity.
  - (* interface *)
    destruct f as [|f']; [cbn [depth] in Hf; lia|]. cbn [Nat.add]. rewrite !uf_objstart. cbn [under].
    f_equal. apply stable_map_loop; [exact Hl| |apply loop_fuel_ok, flat_map_miev_len].
    apply Forall_forall. intros m Hm old'. apply Hel; [exact Hm|]. specialize (Hd m Hm).
    assert (ftsize (ifc_elem bt) = 1%nat) by (destruct bt; reflexivity). cbn [ftsize] in Hu. lia.
  - (* pointer *)
    rewrite <- obj_events, IH; [reflexivity|]. cbn [ftsize] in Hu. lia.
  - (* map *)
    apply stable_map_loop; [exact Hl| |apply loop_fuel_ok, flat_map_miev_len].
    apply Forall_forall. intros m Hm old'. apply Hel; [exact Hm|]. specialize (Hd m Hm). cbn [ftsize] in Hu. lia.
  - (* struct *)
    destruct (field_table (S (ftsize t)) fs 0) as [err|tab] eqn:Et; [reflexivity|].
    apply stable_struct_loop; [exact Hl|exact Hp| |apply loop_fuel_ok, flat_map_miev_len].
    apply Forall_forall. intros m Hm kk path ft old' Hin. apply Hel; [exact Hm|]. specialize (Hd m Hm).
    pose proof (field_table_ftsize _ _ _ _ Et _ _ _ Hin). rewrite ftsize_struct in Hu. lia.
Qed.

(* with [ftsize t + 2 * depth tr] units of fuel the outcome on a complete value is final *)
Theorem stable_plain : forall tr, plain tr = true -> stable_at tr.
Proof.
  induction tr as [s r|len bt es IH|len bt ms IH|bt es|bt ms] using tree_ind'; intro Hp; try discriminate Hp.
  - apply stable_val.
  - cbn [plain] in Hp. rewrite forallb_forall in Hp. apply stable_arr.
    + apply Forall_forall. intros x Hx. apply loc_plain. auto.
    + rewrite Forall_forall in *. auto.
  - cbn [plain] in Hp. apply stable_obj; [|exact Hp|].
    + rewrite forallb_forall in Hp. apply Forall_forall. intros x Hx. apply loc_plain. auto.
    + rewrite forallb_forall in Hp. rewrite Forall_forall in *. auto.
Qed.
Print Assumptions stable_plain.

Lemma depth_le_length : forall tr, (2 * depth tr <= length (flatten tr))%nat.
Proof.
  induction tr as [s r|len bt es IH|len bt ms IH|bt es|bt ms] using tree_ind'; try (cbn [depth]; lia).
  - rewrite flatten_arr. cbn [depth length]. rewrite app_length. cbn [length].
    assert (2 * list_max (map depth es) <= length (flatten_elems es))%nat; [|lia].
    induction IH as [|x es Hx _ IHes]; [cbn; lia|].
    rewrite flatten_elems_cons, app_length. unfold list_max in *. cbn [map fold_right]. lia.
  - rewrite flatten_obj. cbn [depth length]. rewrite app_length. cbn [length].
    assert (2 * list_max (map (fun m => depth (snd m)) ms) <= length (flatten_members ms))%nat; [|lia].
    induction IH as [|[[k b] x] ms Hx _ IHms]; [cbn; lia|].
    rewrite flatten_members_cons. cbn [length]. rewrite app_length. unfold list_max in *. cbn [map fold_right snd] in *. lia.
Qed.

(* the fuel of [unfold_value] is enough on the events of a complete value *)
Corollary uf_fuel_enough : forall tr t old fuel, plain tr = true ->
  (length (flatten tr) + ftsize t <= fuel)%nat ->
  uf fuel t old (flatten tr) = uf (length (flatten tr) + ftsize t) t old (flatten tr).
Proof.
  intros tr t old fuel Hp Hf.
  pose proof (stable_plain tr Hp (length (flatten tr) + ftsize t)%nat t old (fuel - (length (flatten tr) + ftsize t))%nat []) as H.
  rewrite !app_nil_r in H. rewrite <- H by (pose proof (depth_le_length tr); lia).
  f_equal. lia.
Qed.

(* ====================================================================== *)
(* Part D: C13 - struct targets on arbitrary object streams                *)
(* ====================================================================== *)

(* What a struct target does with the members of an object, left to right.  [tab] is the
   field table of the struct type (key -> path of field indices, field type), [cur] the
   current value of the target.  A member whose key is not in the table changes nothing
   whatever its value is; a member whose key is in the table updates that field with what
   the field's unfolder makes of the member's value, starting from the field's current
   value; the first member that is refused ends the unfold with an error (at the refused
   event: what is left of the stream is reported). *)
Fixpoint struct_spec (f : nat) (tab : ftable) (cur : gvalue) (ms : list member) : ur :=
  match ms with
  | [] => UOk cur []
  | (k, _, x) :: r =>
      match assoc_key k tab with
      | None => struct_spec f tab cur r
      | Some (path, ft) =>
          match uf f ft (get_path path cur) (flatten x) with
          | UOk v _ => struct_spec f tab (set_path path v cur) r
          | UErr e => UErr (e ++ flatten_members r ++ [EObjEnd])
          end
      end
  end.

Lemma struct_spec_grun f tab (ms : list member) : forallb (fun m => plain (snd m)) ms = true ->
  forall cur, struct_spec f tab cur ms = grun EObjEnd (fun cur => cur) miev (struct_step f tab) cur ms.
Proof.
  induction ms as [|[[k b] x] ms IH]; intros Hp cur; [reflexivity|].
  cbn [forallb snd] in Hp. apply andb_true_iff in Hp. destruct Hp as [Hpx Hp].
  cbn [struct_spec grun]. unfold miev at 1. cbn [fst snd]. rewrite struct_step_key.
  destruct (assoc_key k tab) as [[path ft]|].
  - destruct (uf f ft (get_path path cur) (flatten x)); [apply IH; exact Hp|].
    rewrite flatten_members_miev. reflexivity.
  - pose proof (skip_plain_fuel x [] Hpx) as S0. rewrite app_nil_r in S0. rewrite S0. apply IH. exact Hp.
Qed.

Definition plain_members (ms : list member) : bool := forallb (fun m => plain (snd m)) ms.

Lemma loc_members (ms : list member) : plain_members ms = true -> Forall (fun m => loc_at (snd m)) ms.
Proof.
  unfold plain_members. rewrite forallb_forall. intro H. apply Forall_forall. intros m Hm. apply loc_plain. auto.
Qed.

Lemma struct_spec_shape f tab ms cur : plain_members ms = true -> ur_shape (struct_spec f tab cur ms).
Proof.
  intro Hp. rewrite struct_spec_grun by exact Hp.
  apply (grun_shape is_obj_end EObjEnd _ miev _ ms (loc_struct_items f tab ms (loc_members ms Hp) Hp)).
Qed.

Lemma struct_loop_spec f tab ms : plain_members ms = true ->
  forall cur g rest, (length ms < g)%nat ->
    struct_loop f tab g cur (flatten_members ms ++ EObjEnd :: rest) = ur_app (struct_spec f tab cur ms) rest.
Proof.
  intros Hp cur g rest Hg. rewrite struct_spec_grun, flatten_members_miev by exact Hp.
  apply (gloop_local is_obj_end EObjEnd (fun cur => cur) miev is_obj_end_true _ _ ms
           (struct_loop_eqs f tab) (loc_struct_items f tab ms (loc_members ms Hp) Hp)). exact Hg.
Qed.

(* C13, typed targets: uf on a struct target, for an arbitrary object stream.  The members
   are any keys (delivered by value or by reference) with any values (no extended events:
   these are expanded before they reach the unfolder; see C13_struct_unfold_value below for
   streams with extended events).  Any struct type: any field types, inlined structs (the
   paths of [tab] then have several indices). *)
Theorem C13_struct_spec : forall f t fs tab old n bt (ms : list member) rest,
  under t = TStruct fs -> field_table (S (ftsize t)) fs O = inr tab ->
  plain_members ms = true ->
  uf (S f) t old (EObjStart n bt :: flatten_members ms ++ EObjEnd :: rest) =
  ur_app (struct_spec f tab old ms) rest.
Proof.
  intros f t fs tab old n bt ms rest U Et Hp. rewrite uf_objstart, U, Et.
  apply struct_loop_spec; [exact Hp|]. apply loop_fuel_ok, flatten_members_length_ge.
Qed.
Print Assumptions C13_struct_spec.

(* a struct type whose field table cannot be built refuses the object at its first event *)
Theorem C13_struct_bad_table : forall f t fs e old n bt r,
  under t = TStruct fs -> field_table (S (ftsize t)) fs O = inl e ->
  uf (S f) t old (EObjStart n bt :: r) = UErr (EObjStart n bt :: r).
Proof. intros f t fs e old n bt r U Et. rewrite uf_objstart, U, Et. reflexivity. Qed.

(* flat structs (Part 7 of UnfoldProofs): the table is [table fs 0], one entry per emittable field *)
Corollary C13_struct_spec_flat : forall f fs old n bt (ms : list member) rest,
  flat_fields fs = true -> plain_members ms = true ->
  uf (S f) (TStruct fs) old (EObjStart n bt :: flatten_members ms ++ EObjEnd :: rest) =
  ur_app (struct_spec f (table fs 0) old ms) rest.
Proof.
  intros f fs old n bt ms rest Hf Hp. unfold flat_fields in Hf. apply andb_true_iff in Hf. destruct Hf as [Hff Hnd].
  apply (C13_struct_spec f (TStruct fs) fs); [reflexivity| |exact Hp].
  apply field_table_flat; [exact Hff|exact Hnd|]. rewrite ftsize_struct. destruct (fsum_bounds fs). lia.
Qed.

(* ---------- the whole document, extended events and by-reference strings included ---------- *)
Definition xmember (m : member) : member := (fst (fst m), false, expand_tree (snd m)).

Lemma plain_xmembers ms : plain_members (map xmember ms) = true.
Proof.
  unfold plain_members. rewrite forallb_map. apply forallb_forall. intros m _. apply plain_expand.
Qed.

Lemma expand_obj_events n bt (ms : list member) :
  flat_map expand (flatten (TObj n bt ms)) = EObjStart n bt :: flatten_members (map xmember ms) ++ [EObjEnd].
Proof. rewrite <- expand_deep_is_flatten. cbn [expand_tree]. rewrite flatten_obj. reflexivity. Qed.

Definition doc_len (tr : tree) : nat := length (flat_map expand (flatten tr)).

Lemma unfold_value_plain t old tr F : ucc_type t = None -> (doc_len tr + ftsize t <= F)%nat ->
  unfold_value t old (flatten tr) =
  match uf F t old (flatten (expand_tree tr)) with
  | UOk v _ => UDone v
  | UErr x => UFail (doc_len tr - length x)
  end.
Proof.
  intros Hu HF. unfold unfold_value, doc_len in *. rewrite Hu. rewrite <- expand_deep_is_flatten in *.
  pose proof (plain_expand tr) as Hp.
  rewrite (uf_fuel_enough _ t old F Hp HF).
  rewrite (uf_fuel_enough _ t old (S (S (2 * length (flatten (expand_tree tr)))) + ftsize t) Hp) by lia.
  pose proof (uf_complete_shape (expand_tree tr) (length (flatten (expand_tree tr)) + ftsize t) t old Hp) as Hs.
  destruct (uf (length (flatten (expand_tree tr)) + ftsize t) t old (flatten (expand_tree tr))) as [v r|x];
    cbn [ur_shape] in Hs.
  - subst r. reflexivity.
  - destruct x; [contradiction|reflexivity].
Qed.

Theorem C13_struct_unfold_value : forall t fs tab old n bt (ms : list member) F,
  under t = TStruct fs -> field_table (S (ftsize t)) fs O = inr tab -> ucc_type t = None ->
  (doc_len (TObj n bt ms) + ftsize t <= S F)%nat ->
  unfold_value t old (flatten (TObj n bt ms)) =
  match struct_spec F tab old (map xmember ms) with
  | UOk v _ => UDone v
  | UErr x => UFail (doc_len (TObj n bt ms) - length x)
  end.
Proof.
  intros t fs tab old n bt ms F U Et Hu HF.
  rewrite (unfold_value_plain t old _ (S F) Hu HF).
  rewrite expand_deep_is_flatten, expand_obj_events.
  rewrite (C13_struct_spec F t fs tab old n bt (map xmember ms) [] U Et (plain_xmembers ms)), ur_app_nil.
  reflexivity.
Qed.
Print Assumptions C13_struct_unfold_value.

(* ---------- fields and paths ---------- *)
Lemma replace_nth_length {A} (x : A) : forall l i, length (replace_nth i x l) = length l.
Proof. induction l as [|y l IH]; intros [|i]; cbn [replace_nth length]; auto. Qed.

Lemma nth_replace_nth_same {A} (x d : A) : forall l i, (i < length l)%nat -> nth i (replace_nth i x l) d = x.
Proof.
  induction l as [|y l IH]; intros i H; [cbn in H; lia|].
  destruct i as [|i]; [reflexivity|]. cbn [replace_nth nth]. apply IH. cbn [length] in H. lia.
Qed.

Lemma nth_replace_nth_other {A} (x d : A) : forall l i j, i <> j -> nth i (replace_nth j x l) d = nth i l d.
Proof.
  induction l as [|y l IH]; intros i j H; [destruct j; reflexivity|].
  destruct j as [|j]; destruct i as [|i]; cbn [replace_nth nth]; try reflexivity; [lia|].
  apply IH. lia.
Qed.

Lemma replace_nth_comm {A} (x y : A) : forall l i j, i <> j ->
  replace_nth i x (replace_nth j y l) = replace_nth j y (replace_nth i x l).
Proof.
  induction l as [|z l IH]; intros i j H; [destruct i, j; reflexivity|].
  destruct i as [|i]; destruct j as [|j]; cbn [replace_nth]; try reflexivity; [lia|].
  f_equal. apply IH. lia.
Qed.

(* field i of a struct value *)
Definition gfield (i : nat) (v : gvalue) : gvalue := get_path [i] v.

Lemma gfield_struct i vs : gfield i (GStruct vs) = nth i vs GNil.
Proof. reflexivity. Qed.

Definition path_head_is (i : nat) (p : list nat) : bool :=
  match p with j :: _ => Nat.eqb j i | [] => true end.
(* does the member key [k] lead to (or into) field [i]? *)
Definition touches (tab : ftable) (i : nat) (k : bytes) : bool :=
  match assoc_key k tab with Some (p, _) => path_head_is i p | None => false end.
Definition mkey (m : member) : bytes := fst (fst m).

Lemma gfield_set_other i p x cur : path_head_is i p = false -> gfield i (set_path p x cur) = gfield i cur.
Proof.
  destruct p as [|j p]; [discriminate|]. cbn [path_head_is]. intro H. apply Nat.eqb_neq in H.
  unfold gfield. cbn [set_path]. destruct cur; try reflexivity.
  cbn [get_path]. rewrite nth_replace_nth_other by lia. reflexivity.
Qed.

Lemma get_set_other_path i p j q x cur : i <> j ->
  get_path (i :: p) (set_path (j :: q) x cur) = get_path (i :: p) cur.
Proof.
  intro H. cbn [set_path]. destruct cur; try reflexivity.
  cbn [get_path]. rewrite nth_replace_nth_other by lia. reflexivity.
Qed.

Lemma set_path_comm i p j q x y cur : i <> j ->
  set_path (i :: p) x (set_path (j :: q) y cur) = set_path (j :: q) y (set_path (i :: p) x cur).
Proof.
  intro H. cbn [set_path]. destruct cur; try reflexivity.
  rewrite !nth_replace_nth_other by lia. f_equal. apply replace_nth_comm. exact H.
Qed.

(* the paths of a field table are not empty *)
Definition tab_ok (tab : ftable) : bool :=
  forallb (fun e => match fst (snd e) with [] => false | _ => true end) tab.

Lemma field_table_ok : forall fuel fs idx tab, field_table fuel fs idx = inr tab -> tab_ok tab = true.
Proof.
  unfold tab_ok.
  induction fuel as [|f IH]; intros fs idx tab H; [discriminate H|].
  cbn [field_table] in H. destruct fs as [|[[name tag] ft0] fs]; [injection H as <-; reflexivity|].
  destruct (field_table f fs (S idx)) as [err|b] eqn:Er.
  - destruct (negb (exported name)); [discriminate H|].
    destruct (parse_tags tag) as [tn o]. destruct (t_omit o); [discriminate H|].
    destruct (t_squash o); [destruct ft0; try discriminate H; destruct (field_table f fs0 0); discriminate H|discriminate H].
  - pose proof (IH _ _ _ Er) as Hb.
    destruct (negb (exported name)); [injection H as <-; exact Hb|].
    destruct (parse_tags tag) as [tn o]. destruct (t_omit o); [injection H as <-; exact Hb|].
    destruct (t_squash o).
    + destruct ft0; try discriminate H.
      destruct (field_table f fs0 0) as [err|sub] eqn:Es; [discriminate H|].
      match type of H with (if ?c then _ else _) = _ => destruct c end; [discriminate H|].
      injection H as <-. rewrite forallb_app', Hb, andb_true_r. rewrite forallb_map.
      apply forallb_forall. reflexivity.
    + match type of H with (if ?c then _ else _) = _ => destruct c end; [discriminate H|].
      injection H as <-. cbn [app forallb fst snd]. exact Hb.
Qed.

Lemma tab_ok_assoc tab k p ft : tab_ok tab = true -> assoc_key k tab = Some (p, ft) -> p <> [].
Proof.
  unfold tab_ok. intros Ht Ha. destruct (assoc_key_in _ _ _ Ha) as [k' Hin].
  rewrite forallb_forall in Ht. specialize (Ht _ Hin). cbn [fst snd] in Ht. destruct p; [discriminate Ht|discriminate].
Qed.

Lemma set_path_struct p x vs : p <> [] -> exists vs', set_path p x (GStruct vs) = GStruct vs' /\ length vs' = length vs.
Proof.
  destruct p as [|i p]; [contradiction|]. intros _. cbn [set_path]. eexists. split; [reflexivity|].
  apply replace_nth_length.
Qed.

(* ---------- the spec, step by step ---------- *)
Lemma struct_spec_cons f tab cur k b x r :
  struct_spec f tab cur ((k, b, x) :: r) =
  match assoc_key k tab with
  | None => struct_spec f tab cur r
  | Some (path, ft) =>
      match uf f ft (get_path path cur) (flatten x) with
      | UOk v _ => struct_spec f tab (set_path path v cur) r
      | UErr e => UErr (e ++ flatten_members r ++ [EObjEnd])
      end
  end.
Proof. reflexivity. Qed.

Lemma struct_spec_app_ok f tab : forall ms1 cur ms2 v r,
  struct_spec f tab cur (ms1 ++ ms2) = UOk v r ->
  exists c r1, struct_spec f tab cur ms1 = UOk c r1 /\ struct_spec f tab c ms2 = UOk v r.
Proof.
  induction ms1 as [|[[k b] x] ms1 IH]; intros cur ms2 v r H.
  - exists cur, []. split; [reflexivity|exact H].
  - cbn [app] in H. rewrite struct_spec_cons in *.
    destruct (assoc_key k tab) as [[path ft]|]; [|apply IH; exact H].
    destruct (uf f ft (get_path path cur) (flatten x)); [apply IH; exact H|discriminate H].
Qed.

Lemma struct_spec_struct f tab : tab_ok tab = true -> forall ms olds v r,
  struct_spec f tab (GStruct olds) ms = UOk v r ->
  exists vs, v = GStruct vs /\ length vs = length olds.
Proof.
  intro Ht. induction ms as [|[[k b] x] ms IH]; intros olds v r H.
  - injection H as <- _. eauto.
  - rewrite struct_spec_cons in H. destruct (assoc_key k tab) as [[path ft]|] eqn:Ek; [|apply (IH _ _ _ H)].
    destruct (uf f ft (get_path path (GStruct olds)) (flatten x)) as [v' r'|]; [|discriminate H].
    destruct (set_path_struct path v' olds (tab_ok_assoc _ _ _ _ Ht Ek)) as (vs' & E & L). rewrite E in H.
    destruct (IH _ _ _ H) as (vs & -> & L2). exists vs. split; [reflexivity|lia].
Qed.

Definition untouched (tab : ftable) (i : nat) (ms : list member) : bool :=
  forallb (fun m => negb (touches tab i (mkey m))) ms.

Lemma struct_spec_untouched f tab i : forall ms cur v r,
  struct_spec f tab cur ms = UOk v r -> untouched tab i ms = true -> gfield i v = gfield i cur.
Proof.
  induction ms as [|[[k b] x] ms IH]; intros cur v r H Hu.
  - injection H as <- _. reflexivity.
  - cbn [untouched forallb mkey fst] in Hu. apply andb_true_iff in Hu. destruct Hu as [Hk Hu].
    rewrite struct_spec_cons in H. unfold touches in Hk.
    destruct (assoc_key k tab) as [[path ft]|]; [|apply (IH _ _ _ H Hu)].
    destruct (uf f ft (get_path path cur) (flatten x)) as [v' r'|]; [|discriminate H].
    rewrite (IH _ _ _ H Hu). apply gfield_set_other. apply negb_true_iff. exact Hk.
Qed.

(* C13: a field that no member of the stream names keeps its old value *)
Theorem C13_unmentioned_untouched : forall f tab olds (ms : list member) v r i,
  tab_ok tab = true ->
  struct_spec f tab (GStruct olds) ms = UOk v r -> untouched tab i ms = true ->
  exists vs, v = GStruct vs /\ length vs = length olds /\ nth i vs GNil = nth i olds GNil.
Proof.
  intros f tab olds ms v r i Ht H Hu.
  destruct (struct_spec_struct f tab Ht _ _ _ _ H) as (vs & -> & L). exists vs. split; [reflexivity|]. split; [exact L|].
  exact (struct_spec_untouched f tab i _ _ _ _ H Hu).
Qed.
Print Assumptions C13_unmentioned_untouched.

Lemma ucc_struct_table t fs : under t = TStruct fs -> ucc_type t = None ->
  exists tab, field_table (S (ftsize t)) fs O = inr tab.
Proof.
  intros U H. unfold ucc_type in H. cbn [ucc] in H. rewrite U in H.
  destruct (field_table (S (ftsize t)) fs 0) as [e|tab]; [discriminate H|]. eauto.
Qed.

Lemma untouched_xmembers tab i ms : untouched tab i (map xmember ms) = untouched tab i ms.
Proof. unfold untouched. rewrite forallb_map. reflexivity. Qed.

(* ... for whole documents, whatever the members hold (extended events, by-reference
   strings and keys) *)
Theorem C13_unmentioned_untouched_doc : forall t fs tab olds n bt (ms : list member) v i,
  under t = TStruct fs -> field_table (S (ftsize t)) fs O = inr tab ->
  unfold_value t (GStruct olds) (flatten (TObj n bt ms)) = UDone v ->
  untouched tab i ms = true ->
  exists vs, v = GStruct vs /\ length vs = length olds /\ nth i vs GNil = nth i olds GNil.
Proof.
  intros t fs tab olds n bt ms v i U Et H Hu.
  assert (Hucc : ucc_type t = None).
  { unfold unfold_value in H. destruct (ucc_type t); [discriminate H|reflexivity]. }
  rewrite (C13_struct_unfold_value t fs tab _ n bt ms (doc_len (TObj n bt ms) + ftsize t) U Et Hucc) in H by lia.
  destruct (struct_spec _ tab (GStruct olds) (map xmember ms)) as [v' r'|] eqn:E; [|discriminate H].
  injection H as ->.
  apply (C13_unmentioned_untouched _ tab olds _ v r' i (field_table_ok _ _ _ _ Et) E).
  rewrite untouched_xmembers. exact Hu.
Qed.
Print Assumptions C13_unmentioned_untouched_doc.

(* ---------- unknown members ---------- *)
Lemma struct_spec_unknown f tab k b x : assoc_key k tab = None ->
  forall ms1 cur ms2,
    ur_val (struct_spec f tab cur (ms1 ++ (k, b, x) :: ms2)) = ur_val (struct_spec f tab cur (ms1 ++ ms2)).
Proof.
  intro Hk. induction ms1 as [|[[k1 b1] x1] ms1 IH]; intros cur ms2.
  - cbn [app]. rewrite struct_spec_cons, Hk. reflexivity.
  - cbn [app]. rewrite !struct_spec_cons.
    destruct (assoc_key k1 tab) as [[path ft]|]; [|apply IH].
    destruct (uf f ft (get_path path cur) (flatten x1)); [apply IH|reflexivity].
Qed.

Lemma plain_members_app a b : plain_members (a ++ b) = plain_members a && plain_members b.
Proof. apply forallb_app'. Qed.

(* C13: a member whose key is not a field of the struct is skipped together with its whole
   value: with or without it (wherever it stands among the members, whatever the announced
   size of the object) the unfold succeeds with the same value or fails *)
Theorem C13_unknown_member_irrelevant : forall f t fs tab old n n' bt bt' (ms1 ms2 : list member) k b x rest,
  under t = TStruct fs -> field_table (S (ftsize t)) fs O = inr tab ->
  assoc_key k tab = None ->
  plain_members ms1 = true -> plain_members ms2 = true -> plain x = true ->
  ur_val (uf (S f) t old (EObjStart n bt :: flatten_members (ms1 ++ (k, b, x) :: ms2) ++ EObjEnd :: rest)) =
  ur_val (uf (S f) t old (EObjStart n' bt' :: flatten_members (ms1 ++ ms2) ++ EObjEnd :: rest)).
Proof.
  intros f t fs tab old n n' bt bt' ms1 ms2 k b x rest U Et Hk H1 H2 Hx.
  rewrite (C13_struct_spec f t fs tab old n bt _ rest U Et).
  - rewrite (C13_struct_spec f t fs tab old n' bt' _ rest U Et).
    + rewrite !ur_val_app. apply struct_spec_unknown. exact Hk.
    + rewrite plain_members_app, H1, H2. reflexivity.
  - rewrite plain_members_app, H1. unfold plain_members in *. cbn [forallb snd]. rewrite Hx, H2. reflexivity.
Qed.
Print Assumptions C13_unknown_member_irrelevant.

(* the same for whole documents: any tree as the value of the unknown member *)
Definition uresult_same (a b : uresult) : Prop :=
  match a, b with
  | UDone v, UDone v' => v = v'
  | UFail _, UFail _ => True
  | USetupErr e, USetupErr e' => e = e'
  | UMore, UMore => True
  | _, _ => False
  end.

Theorem C13_unknown_member_irrelevant_doc : forall t fs tab old n n' bt bt' (ms1 ms2 : list member) k b x,
  under t = TStruct fs -> field_table (S (ftsize t)) fs O = inr tab ->
  assoc_key k tab = None ->
  uresult_same (unfold_value t old (flatten (TObj n bt (ms1 ++ (k, b, x) :: ms2))))
               (unfold_value t old (flatten (TObj n' bt' (ms1 ++ ms2)))).
Proof.
  intros t fs tab old n n' bt bt' ms1 ms2 k b x U Et Hk.
  destruct (ucc_type t) as [e|] eqn:Hucc.
  - unfold unfold_value. rewrite Hucc. reflexivity.
  - set (d1 := doc_len (TObj n bt (ms1 ++ (k, b, x) :: ms2))). set (d2 := doc_len (TObj n' bt' (ms1 ++ ms2))).
    rewrite (C13_struct_unfold_value t fs tab old n bt _ (d1 + d2 + ftsize t) U Et Hucc) by (fold d1; lia).
    rewrite (C13_struct_unfold_value t fs tab old n' bt' _ (d1 + d2 + ftsize t) U Et Hucc) by (fold d2; lia).
    rewrite !map_app. cbn [map].
    match goal with |- uresult_same (match ?A with _ => _ end) (match ?B with _ => _ end) =>
      assert (H : ur_val A = ur_val B)
        by exact (struct_spec_unknown (d1 + d2 + ftsize t) tab k false (expand_tree x) Hk
                    (map xmember ms1) old (map xmember ms2));
      destruct A, B; cbn [ur_val] in H; try discriminate H; cbn [uresult_same];
        [injection H as ->; reflexivity|exact I]
    end.
Qed.
Print Assumptions C13_unknown_member_irrelevant_doc.

(* ---------- matching scalar members ---------- *)
Lemma uf_leaf_val f ft old s lv rest : leaf_val (under ft) (EVal s) = Some lv ->
  uf (S f) ft old (EVal s :: rest) = UOk lv rest.
Proof.
  intro H. rewrite uf_leaf by reflexivity. destruct (under ft); try discriminate H; rewrite H; reflexivity.
Qed.

(* [leaf_val ut (EVal s)] is what a target of underlying type [ut] (bool, string, a number
   kind, interface{}) holds after the scalar event [s]; it does not depend on the old value,
   and in the model no number is refused: every numeric event kind converts to every numeric
   field kind with the Go conversion [conv] ([conv_defined] only tells where Go defines it). *)
Theorem C13_matching_leaf_assigned : forall f tab olds (ms1 ms2 : list member) k b s i ft lv v r,
  tab_ok tab = true -> assoc_key k tab = Some ([i], ft) -> (i < length olds)%nat ->
  leaf_val (under ft) (EVal s) = Some lv ->
  untouched tab i ms2 = true ->
  struct_spec (S f) tab (GStruct olds) (ms1 ++ (k, b, TVal s false) :: ms2) = UOk v r ->
  exists vs, v = GStruct vs /\ length vs = length olds /\ nth i vs GNil = lv.
Proof.
  intros f tab olds ms1 ms2 k b s i ft lv v r Ht Hk Hi Hl Hu H.
  destruct (struct_spec_struct _ tab Ht _ _ _ _ H) as (vs & -> & L). exists vs. split; [reflexivity|]. split; [exact L|].
  destruct (struct_spec_app_ok _ tab _ _ _ _ _ H) as (c & r1 & H1 & H2).
  destruct (struct_spec_struct _ tab Ht _ _ _ _ H1) as (cs & -> & Lc).
  rewrite struct_spec_cons, Hk, flatten_tval, (uf_leaf_val f ft _ s lv [] Hl) in H2.
  pose proof (struct_spec_untouched _ tab i _ _ _ _ H2 Hu) as E.
  rewrite gfield_struct in E. rewrite E. cbn [set_path]. rewrite gfield_struct.
  apply nth_replace_nth_same. lia.
Qed.
Print Assumptions C13_matching_leaf_assigned.

(* numbers: a member with a number of kind k1 for a field of numeric kind k2, the last
   member for that field, leaves conv k1 k2 z there - no side condition on k1, k2, z *)
Corollary C13_matching_scalar_assigned : forall f tab olds (ms1 ms2 : list member) k b k1 z i ft k2 v r,
  tab_ok tab = true -> assoc_key k tab = Some ([i], ft) -> (i < length olds)%nat ->
  under ft = TNum k2 ->
  untouched tab i ms2 = true ->
  struct_spec (S f) tab (GStruct olds) (ms1 ++ (k, b, TVal (SNum k1 z) false) :: ms2) = UOk v r ->
  exists vs, v = GStruct vs /\ length vs = length olds /\ nth i vs GNil = GNum (conv k1 k2 z).
Proof.
  intros f tab olds ms1 ms2 k b k1 z i ft k2 v r Ht Hk Hi U. apply C13_matching_leaf_assigned with (ft := ft); try assumption.
  rewrite U. reflexivity.
Qed.

Corollary C13_matching_bool_assigned : forall f tab olds (ms1 ms2 : list member) k b bv i ft v r,
  tab_ok tab = true -> assoc_key k tab = Some ([i], ft) -> (i < length olds)%nat ->
  under ft = TBool ->
  untouched tab i ms2 = true ->
  struct_spec (S f) tab (GStruct olds) (ms1 ++ (k, b, TVal (SBool bv) false) :: ms2) = UOk v r ->
  exists vs, v = GStruct vs /\ length vs = length olds /\ nth i vs GNil = GBool bv.
Proof.
  intros f tab olds ms1 ms2 k b bv i ft v r Ht Hk Hi U. apply C13_matching_leaf_assigned with (ft := ft); try assumption.
  rewrite U. reflexivity.
Qed.

Corollary C13_matching_string_assigned : forall f tab olds (ms1 ms2 : list member) k b sv i ft v r,
  tab_ok tab = true -> assoc_key k tab = Some ([i], ft) -> (i < length olds)%nat ->
  under ft = TString ->
  untouched tab i ms2 = true ->
  struct_spec (S f) tab (GStruct olds) (ms1 ++ (k, b, TVal (SStr sv) false) :: ms2) = UOk v r ->
  exists vs, v = GStruct vs /\ length vs = length olds /\ nth i vs GNil = GStr sv.
Proof.
  intros f tab olds ms1 ms2 k b sv i ft v r Ht Hk Hi U. apply C13_matching_leaf_assigned with (ft := ft); try assumption.
  rewrite U. reflexivity.
Qed.

(* null resets a scalar field to its zero value *)
Corollary C13_matching_null_zeroes : forall f tab olds (ms1 ms2 : list member) k b i ft v r,
  tab_ok tab = true -> assoc_key k tab = Some ([i], ft) -> (i < length olds)%nat ->
  prim_kind ft = true ->
  untouched tab i ms2 = true ->
  struct_spec (S f) tab (GStruct olds) (ms1 ++ (k, b, TVal SNil false) :: ms2) = UOk v r ->
  exists vs, v = GStruct vs /\ length vs = length olds /\ nth i vs GNil = zero_of ft.
Proof.
  intros f tab olds ms1 ms2 k b i ft v r Ht Hk Hi U. apply C13_matching_leaf_assigned with (ft := ft); try assumption.
  unfold prim_kind in U. rewrite (zero_under ft). destruct (under ft); try discriminate U; reflexivity.
Qed.

(* a mismatching scalar (say a string for a number field) makes the whole unfold fail *)
Theorem C13_mismatching_scalar_fails : forall f tab cur (ms1 ms2 : list member) k b s path ft,
  assoc_key k tab = Some (path, ft) ->
  prim_kind ft = true -> leaf_val (under ft) (EVal s) = None ->
  ur_val (struct_spec (S f) tab cur (ms1 ++ (k, b, TVal s false) :: ms2)) = None.
Proof.
  intros f tab cur ms1 ms2 k b s path ft Hk Hp Hl. revert cur.
  induction ms1 as [|[[k1 b1] x1] ms1 IH]; intro cur; cbn [app]; rewrite struct_spec_cons.
  - rewrite Hk, flatten_tval, uf_leaf by reflexivity. unfold prim_kind in Hp.
    destruct (under ft); try discriminate Hp; rewrite Hl; reflexivity.
  - destruct (assoc_key k1 tab) as [[p1 ft1]|]; [|apply IH].
    destruct (uf (S f) ft1 (get_path p1 cur) (flatten x1)); [apply IH|reflexivity].
Qed.

(* whole documents: the scalar may be delivered by reference *)
Theorem C13_matching_leaf_assigned_doc : forall t fs tab olds n bt (ms1 ms2 : list member) k b s byref i ft lv v,
  under t = TStruct fs -> field_table (S (ftsize t)) fs O = inr tab ->
  assoc_key k tab = Some ([i], ft) -> (i < length olds)%nat ->
  leaf_val (under ft) (EVal s) = Some lv ->
  untouched tab i ms2 = true ->
  unfold_value t (GStruct olds) (flatten (TObj n bt (ms1 ++ (k, b, TVal s byref) :: ms2))) = UDone v ->
  exists vs, v = GStruct vs /\ length vs = length olds /\ nth i vs GNil = lv.
Proof.
  intros t fs tab olds n bt ms1 ms2 k b s byref i ft lv v U Et Hk Hi Hl Hu H.
  assert (Hucc : ucc_type t = None).
  { unfold unfold_value in H. destruct (ucc_type t); [discriminate H|reflexivity]. }
  set (ms := ms1 ++ (k, b, TVal s byref) :: ms2) in *.
  rewrite (C13_struct_unfold_value t fs tab _ n bt ms (S (doc_len (TObj n bt ms) + ftsize t)) U Et Hucc) in H by lia.
  destruct (struct_spec (S (doc_len (TObj n bt ms) + ftsize t)) tab (GStruct olds) (map xmember ms)) as [v' r'|] eqn:E;
    [|discriminate H].
  injection H as ->. unfold ms in E. rewrite map_app in E. cbn [map] in E.
  eapply (C13_matching_leaf_assigned _ tab olds (map xmember ms1) (map xmember ms2) k false s i ft lv v r'
           (field_table_ok _ _ _ _ Et) Hk Hi Hl); [rewrite untouched_xmembers; exact Hu|exact E].
Qed.
Print Assumptions C13_matching_leaf_assigned_doc.

(* ---------- the order of members for different fields ---------- *)
From Coq Require Import Permutation.

(* two keys that cannot interfere: one of them is unknown, or they lead to different fields
   of the struct (through different fields, for keys of inlined structs) *)
Definition indep (tab : ftable) (k1 k2 : bytes) : bool :=
  match assoc_key k1 tab, assoc_key k2 tab with
  | Some (i :: _, _), Some (j :: _, _) => negb (Nat.eqb i j)
  | None, _ | _, None => true
  | _, _ => false
  end.

Lemma struct_spec_swap f tab (m1 m2 : member) r cur : indep tab (mkey m1) (mkey m2) = true ->
  ur_val (struct_spec f tab cur (m1 :: m2 :: r)) = ur_val (struct_spec f tab cur (m2 :: m1 :: r)).
Proof.
  destruct m1 as [[k1 b1] x1], m2 as [[k2 b2] x2]. unfold indep, mkey. cbn [fst]. intro H.
  destruct (assoc_key k1 tab) as [[[|i p1] ft1]|] eqn:E1; destruct (assoc_key k2 tab) as [[[|j p2] ft2]|] eqn:E2;
    try discriminate H.
  -
    repeat (rewrite struct_spec_cons; rewrite ?E1, ?E2);
      repeat (match goal with |- context [match uf f ?a ?b ?c with _ => _ end] => destruct (uf f a b c) end;
              repeat (rewrite struct_spec_cons; rewrite ?E1, ?E2));
      reflexivity.
  - (* two fields *)
    apply negb_true_iff, Nat.eqb_neq in H.
    rewrite (struct_spec_cons f tab cur k1), E1, (struct_spec_cons f tab cur k2), E2.
    destruct (uf f ft1 (get_path (i :: p1) cur) (flatten x1)) as [v1 r1|e1] eqn:U1;
      destruct (uf f ft2 (get_path (j :: p2) cur) (flatten x2)) as [v2 r2|e2] eqn:U2;
      repeat (rewrite struct_spec_cons; rewrite ?E1, ?E2;
              rewrite ?(get_set_other_path j p2 i p1) by lia; rewrite ?(get_set_other_path i p1 j p2) by lia;
              rewrite ?U1, ?U2);
      try reflexivity.
    rewrite (set_path_comm j p2 i p1) by lia. reflexivity.
  -
    repeat (rewrite struct_spec_cons; rewrite ?E1, ?E2);
      repeat (match goal with |- context [match uf f ?a ?b ?c with _ => _ end] => destruct (uf f a b c) end;
              repeat (rewrite struct_spec_cons; rewrite ?E1, ?E2));
      reflexivity.
  -
    repeat (rewrite struct_spec_cons; rewrite ?E1, ?E2);
      repeat (match goal with |- context [match uf f ?a ?b ?c with _ => _ end] => destruct (uf f a b c) end;
              repeat (rewrite struct_spec_cons; rewrite ?E1, ?E2));
      reflexivity.
  -
    repeat (rewrite struct_spec_cons; rewrite ?E1, ?E2);
      repeat (match goal with |- context [match uf f ?a ?b ?c with _ => _ end] => destruct (uf f a b c) end;
              repeat (rewrite struct_spec_cons; rewrite ?E1, ?E2));
      reflexivity.
  -
    repeat (rewrite struct_spec_cons; rewrite ?E1, ?E2);
      repeat (match goal with |- context [match uf f ?a ?b ?c with _ => _ end] => destruct (uf f a b c) end;
              repeat (rewrite struct_spec_cons; rewrite ?E1, ?E2));
      reflexivity.
Qed.

Lemma struct_spec_head f tab (m : member) l l' :
  (forall cur, ur_val (struct_spec f tab cur l) = ur_val (struct_spec f tab cur l')) ->
  forall cur, ur_val (struct_spec f tab cur (m :: l)) = ur_val (struct_spec f tab cur (m :: l')).
Proof.
  intros H cur. destruct m as [[k b] x]. rewrite !struct_spec_cons.
  destruct (assoc_key k tab) as [[p ft]|]; [|apply H].
  destruct (uf f ft (get_path p cur) (flatten x)); [apply H|reflexivity].
Qed.

Definition pairwise_indep (tab : ftable) (ms : list member) : Prop :=
  forall m1 m2, In m1 ms -> In m2 ms -> m1 = m2 \/ indep tab (mkey m1) (mkey m2) = true.

(* C13: members that lead to different fields may come in any order (partial: members for
   the same field do not commute - the last one wins -, nor do a member for an inlined
   struct's field and ... another field of the same inlined struct, which this statement
   does not cover although they do commute) *)
Theorem C13_member_order_irrelevant_partial : forall f tab (ms ms' : list member),
  Permutation ms ms' -> pairwise_indep tab ms ->
  forall cur, ur_val (struct_spec f tab cur ms) = ur_val (struct_spec f tab cur ms').
Proof.
  intros f tab ms ms' P. induction P as [|m l l' P IH|m1 m2 l|l l' l'' P1 IH1 P2 IH2]; intros Hpw cur.
  - reflexivity.
  - apply struct_spec_head. intro c. apply IH. intros a b Ha Hb. apply Hpw; right; assumption.
  - destruct (Hpw m2 m1) as [->|Hi]; [left; reflexivity|right; left; reflexivity|reflexivity|].
    apply struct_spec_swap. exact Hi.
  - rewrite IH1 by exact Hpw. apply IH2.
    intros a b Ha Hb. apply Hpw; eapply Permutation_in; try eassumption; apply Permutation_sym; exact P1.
Qed.
Print Assumptions C13_member_order_irrelevant_partial.

Theorem C13_member_order_irrelevant_doc_partial : forall t fs tab old n n' bt bt' (ms ms' : list member),
  under t = TStruct fs -> field_table (S (ftsize t)) fs O = inr tab ->
  Permutation ms ms' -> pairwise_indep tab ms ->
  uresult_same (unfold_value t old (flatten (TObj n bt ms))) (unfold_value t old (flatten (TObj n' bt' ms'))).
Proof.
  intros t fs tab old n n' bt bt' ms ms' U Et P Hpw.
  destruct (ucc_type t) as [e|] eqn:Hucc.
  - unfold unfold_value. rewrite Hucc. reflexivity.
  - set (d1 := doc_len (TObj n bt ms)). set (d2 := doc_len (TObj n' bt' ms')).
    rewrite (C13_struct_unfold_value t fs tab old n bt _ (d1 + d2 + ftsize t) U Et Hucc) by (fold d1; lia).
    rewrite (C13_struct_unfold_value t fs tab old n' bt' _ (d1 + d2 + ftsize t) U Et Hucc) by (fold d2; lia).
    assert (Hpw' : pairwise_indep tab (map xmember ms)).
    { intros a b Ha Hb. apply in_map_iff in Ha, Hb. destruct Ha as (a0 & <- & Ha), Hb as (b0 & <- & Hb).
      destruct (Hpw a0 b0 Ha Hb) as [->|Hi]; [left; reflexivity|right; exact Hi]. }
    pose proof (C13_member_order_irrelevant_partial (d1 + d2 + ftsize t) tab _ _ (Permutation_map xmember P) Hpw' old) as H.
    destruct (struct_spec (d1 + d2 + ftsize t) tab old (map xmember ms));
      destruct (struct_spec (d1 + d2 + ftsize t) tab old (map xmember ms'));
      cbn [ur_val] in H; try discriminate H; cbn [uresult_same]; [injection H as ->; reflexivity|exact I].
Qed.
Print Assumptions C13_member_order_irrelevant_doc_partial.

(* ---------- instances ---------- *)
(* the struct of [ex_fs] (UnfoldProofs Part 7): A int; B *string `n,omitempty`; C []byte
   `,omitempty`; D bool `-`; e float64; F map[string]*int8 `,omitempty`, holding old values;
   the document {"a": 5.0 (a float64), "z": <unknown>, "n": "hi" (by reference)} where the
   unknown member holds a nested object with by-reference keys, extended events, a
   by-reference string and keys that are field names of the outer struct *)
Definition c13_tab : ftable :=
  [([97], ([0%nat], TNum KInt)); ([110], ([1%nat], TPtr TString));
   ([99], ([2%nat], TSlice (TNum KUint8))); ([102], ([5%nat], TMap (TPtr (TNum KInt8))))].
Definition c13_olds : list gvalue :=
  [GNum 1; GPtr (GStr [111]); GList [GNum 9]; GBool true; GNum 77; GMap [([113], GNil)]].
Definition c13_unknown : tree :=
  TObj 3 BAny [([107], true, TXArr BInt [SNum KInt 1; SNum KInt 2]);
               ([108], true, TVal (SStr [120]) true);
               ([97], true, TObj (-1) BAny [([97], true, TXObj BBool [([98], SBool true)]);
                                            ([110], false, TArr 0 BAny [])])].
Definition c13_m_a : member := ([97], false, TVal (SNum KFloat64 4617315517961601024) false).   (* 5.0 *)
Definition c13_m_z : member := ([122], true, c13_unknown).
Definition c13_m_n : member := ([110], true, TVal (SStr [104; 105]) true).
Definition c13_doc (ms : list member) : list event := flatten (TObj (-1) BAny ms).

Example C13_example_table : field_table (S (ftsize (TStruct ex_fs))) ex_fs 0 = inr c13_tab.
Proof. vm_compute. reflexivity. Qed.

Example C13_example_result :
  unfold_value (TStruct ex_fs) (GStruct c13_olds) (c13_doc [c13_m_a; c13_m_z; c13_m_n]) =
  UDone (GStruct [GNum 5; GPtr (GStr [104; 105]); GList [GNum 9]; GBool true; GNum 77; GMap [([113], GNil)]]).
Proof. vm_compute. reflexivity. Qed.

(* C13_unmentioned_untouched: fields C (2), D (3), e (4), F (5) keep their old values *)
Example C13_example_untouched : forall v,
  unfold_value (TStruct ex_fs) (GStruct c13_olds) (c13_doc [c13_m_a; c13_m_z; c13_m_n]) = UDone v ->
  exists vs, v = GStruct vs /\ length vs = 6%nat /\
             nth 2 vs GNil = GList [GNum 9] /\ nth 3 vs GNil = GBool true /\
             nth 4 vs GNil = GNum 77 /\ nth 5 vs GNil = GMap [([113], GNil)].
Proof.
  intros v H.
  pose proof (fun i => C13_unmentioned_untouched_doc (TStruct ex_fs) ex_fs c13_tab c13_olds (-1) BAny [c13_m_a; c13_m_z; c13_m_n] v i
                         eq_refl C13_example_table H) as T.
  destruct (T 2%nat eq_refl) as (vs & -> & L & F2). exists vs. split; [reflexivity|]. split; [exact L|].
  destruct (T 3%nat eq_refl) as (vs3 & E3 & _ & F3). injection E3 as <-.
  destruct (T 4%nat eq_refl) as (vs4 & E4 & _ & F4). injection E4 as <-.
  destruct (T 5%nat eq_refl) as (vs5 & E5 & _ & F5). injection E5 as <-.
  repeat split; assumption.
Qed.

(* C13_unknown_member_irrelevant: the member "z" may stand anywhere or be absent *)
Example C13_example_unknown :
  uresult_same (unfold_value (TStruct ex_fs) (GStruct c13_olds) (c13_doc [c13_m_a; c13_m_z; c13_m_n]))
               (unfold_value (TStruct ex_fs) (GStruct c13_olds) (c13_doc [c13_m_a; c13_m_n])) /\
  uresult_same (unfold_value (TStruct ex_fs) (GStruct c13_olds) (c13_doc [c13_m_z; c13_m_a; c13_m_n]))
               (unfold_value (TStruct ex_fs) (GStruct c13_olds) (c13_doc [c13_m_a; c13_m_n])) /\
  uresult_same (unfold_value (TStruct ex_fs) (GStruct c13_olds) (c13_doc [c13_m_a; c13_m_n; c13_m_z]))
               (unfold_value (TStruct ex_fs) (GStruct c13_olds) (c13_doc [c13_m_a; c13_m_n])).
Proof.
  pose proof (fun ms1 ms2 => C13_unknown_member_irrelevant_doc (TStruct ex_fs) ex_fs c13_tab (GStruct c13_olds)
                (-1) (-1) BAny BAny ms1 ms2 [122] true c13_unknown eq_refl C13_example_table eq_refl) as T.
  split; [exact (T [c13_m_a] [c13_m_n])|]. split; [exact (T [] [c13_m_a; c13_m_n])|exact (T [c13_m_a; c13_m_n] [])].
Qed.

(* C13_matching_scalar_assigned: "a": 5.0 leaves int(5.0) = conv KFloat64 KInt in field A;
   "n": "hi" leaves a pointer - not a scalar field -, but a string field would hold "hi" *)
Example C13_example_scalar : forall v,
  unfold_value (TStruct ex_fs) (GStruct c13_olds) (c13_doc [c13_m_a; c13_m_z; c13_m_n]) = UDone v ->
  exists vs, v = GStruct vs /\ length vs = 6%nat /\ nth 0 vs GNil = GNum (conv KFloat64 KInt 4617315517961601024).
Proof.
  intros v H.
  exact (C13_matching_leaf_assigned_doc (TStruct ex_fs) ex_fs c13_tab c13_olds (-1) BAny [] [c13_m_z; c13_m_n]
           [97] false (SNum KFloat64 4617315517961601024) false 0%nat (TNum KInt)
           (GNum (conv KFloat64 KInt 4617315517961601024)) v eq_refl C13_example_table eq_refl (Nat.lt_0_succ _) eq_refl eq_refl H).
Qed.

Example C13_example_conv : conv KFloat64 KInt 4617315517961601024 = 5.
Proof. vm_compute. reflexivity. Qed.

(* C13_member_order_irrelevant_partial: "a", "z", "n" in another order *)
Example C13_example_order :
  uresult_same (unfold_value (TStruct ex_fs) (GStruct c13_olds) (c13_doc [c13_m_a; c13_m_z; c13_m_n]))
               (unfold_value (TStruct ex_fs) (GStruct c13_olds) (c13_doc [c13_m_n; c13_m_z; c13_m_a])).
Proof.
  apply (C13_member_order_irrelevant_doc_partial (TStruct ex_fs) ex_fs c13_tab (GStruct c13_olds) (-1) (-1) BAny BAny
           [c13_m_a; c13_m_z; c13_m_n] [c13_m_n; c13_m_z; c13_m_a] eq_refl C13_example_table).
  - apply perm_trans with [c13_m_n; c13_m_a; c13_m_z].
    + change [c13_m_n; c13_m_a; c13_m_z] with ([c13_m_n] ++ [c13_m_a; c13_m_z]).
      change [c13_m_a; c13_m_z; c13_m_n] with ([c13_m_a; c13_m_z] ++ [c13_m_n]). apply Permutation_app_comm.
    + apply perm_skip. apply perm_swap.
  - intros m1 m2 H1 H2. cbn [In] in H1, H2.
    destruct H1 as [<-|[<-|[<-|[]]]]; destruct H2 as [<-|[<-|[<-|[]]]]; first [left; reflexivity|right; reflexivity].
Qed.

(* a member for a field whose value does not fit makes the whole unfold fail, at that event *)
Example C13_example_mismatch :
  unfold_value (TStruct ex_fs) (GStruct c13_olds)
    (c13_doc [c13_m_z; ([97], true, TVal (SStr [53]) false); c13_m_n]) = UFail 23.
Proof. vm_compute. reflexivity. Qed.

(* ====================================================================== *)
(* Part E: C14 - the error path: decided on complete streams, never done   *)
(* on a proper prefix                                                      *)
(* ====================================================================== *)

Lemma uf_nil : forall fuel t old, uf fuel t old [] = UErr [].
Proof.
  induction fuel as [|f IH]; intros t old; [reflexivity|].
  rewrite uf_S. destruct (under t); try reflexivity. rewrite IH. reflexivity.
Qed.

Section GPrefix.
  Context {St Item : Type}.
  Variable is_end : list event -> bool.
  Variable endev : event.
  Variable fin : St -> gvalue.
  Variable iev : Item -> list event.
  Variable L : nat -> St -> list event -> ur.
  Variable step : St -> list event -> sres St.
  Hypothesis HL : loop_eqs is_end fin L step.
  Hypothesis end_nil : is_end [] = false.
  Hypothesis step_nil : forall st, exists x, step st [] = SFail x.

  (* a proper, non-empty prefix of the events of an item is refused or waits for more *)
  Definition item_pre (it : Item) : Prop :=
    forall st p q, iev it = p ++ q -> q <> [] -> p <> [] ->
      is_end p = false /\ exists x, step st p = SFail x.

  Lemma gloop_nil g st : exists x, L g st [] = UErr x.
  Proof.
    destruct HL as [L_O L_S]. destruct g as [|g]; [rewrite L_O; eauto|].
    rewrite L_S, end_nil. destruct (step_nil st) as [x ->]. eauto.
  Qed.

  Lemma gloop_prefix its : Forall (fun it => item_local is_end iev step it /\ item_pre it) its ->
    forall st g p q, flat_map iev its ++ [endev] = p ++ q -> q <> [] -> exists x, L g st p = UErr x.
  Proof.
    destruct HL as [L_O L_S].
    induction 1 as [|it its [[Hend Hloc] Hpre] _ IH]; intros st g p q E Hq.
    - cbn [flat_map app] in E. apply single_split in E; [|exact Hq]. destruct E as [-> _]. apply gloop_nil.
    - cbn [flat_map] in E. rewrite <- app_assoc in E. apply app_eq_app in E.
      destruct E as (l & [[E1 E2]|[E1 E2]]).
      + (* p ends inside the first item *)
        destruct p as [|h p]; [apply gloop_nil|].
        destruct g as [|g]; [rewrite L_O; eauto|]. rewrite L_S.
        destruct l as [|y l].
        * rewrite app_nil_r in E1. rewrite <- E1. pose proof (Hend []) as He. rewrite app_nil_r in He. rewrite He.
          destruct (Hloc st) as [Hs _]. destruct (step st (iev it)) as [st' r|x]; [|eauto].
          cbn [sres_shape] in Hs. subst r. apply gloop_nil.
        * destruct (Hpre st (h :: p) (y :: l) E1) as [He (x & Hx)]; try discriminate.
          rewrite He, Hx. eauto.
      + (* p goes beyond the first item *)
        subst p. destruct g as [|g]; [rewrite L_O; eauto|]. rewrite L_S, Hend.
        destruct (Hloc st) as [Hs Hl]. rewrite Hl.
        destruct (step st (iev it)) as [st' r|x]; cbn [sres_app]; [|eauto].
        cbn [sres_shape] in Hs. subst r. cbn [app]. apply (IH st' g l q); assumption.
  Qed.
End GPrefix.

Definition pre_at (tr : tree) : Prop :=
  forall fuel t old p q, flatten tr = p ++ q -> q <> [] -> exists x, uf fuel t old p = UErr x.

Lemma pre_val s r : pre_at (TVal s r).
Proof.
  destruct (flatten_tval_leaf s r) as (h & E & _). intros fuel t old p q Ep Hq. rewrite E in Ep.
  apply single_split in Ep; [|exact Hq]. destruct Ep as [-> _]. rewrite uf_nil. eauto.
Qed.

Lemma prefix_head x p q : flatten x = p ++ q -> p <> [] ->
  exists h p', p = h :: p' /\ starts_value h = true.
Proof.
  intros E Hp. destruct p as [|h p]; [contradiction|]. exists h, p. split; [reflexivity|].
  destruct (flatten_head x) as (h' & tl & E' & Hh). rewrite E' in E. cbn [app] in E. injection E as -> _. exact Hh.
Qed.

Lemma prefix_not_nil_head x p q : flatten x = p ++ q -> q <> [] -> is_nil_head p = false.
Proof.
  intros E Hq. destruct (is_nil_head p) eqn:En; [|reflexivity].
  destruct p as [|h p]; [discriminate En|].
  assert (Hx : is_nil_head (flatten x) = true) by (rewrite E; exact En).
  apply nil_head_flatten in Hx. rewrite Hx in E. cbn [app] in E. injection E as _ E.
  destruct p; [|discriminate E]. cbn [app] in E. subst q. contradiction.
Qed.

Lemma pre_slice_items f e refl es : Forall pre_at es ->
  Forall (item_pre is_arr_end flatten (slice_step f e refl)) es.
Proof.
  intro H. eapply Forall_impl; [|exact H]. intros x Hx [[cur spare] idx] p q E Hq Hp.
  destruct (prefix_head x p q E Hp) as (h & p' & -> & Hh). split; [destruct h; try discriminate Hh; reflexivity|].
  unfold slice_step. cbn [fst snd]. rewrite (prefix_not_nil_head x _ q E Hq), andb_false_r.
  destruct (Hx f e (sl_oldel e refl cur spare idx) _ _ E Hq) as [y ->]. eauto.
Qed.

Lemma slice_step_nil f e refl st : exists x, slice_step f e refl st [] = SFail x.
Proof. unfold slice_step. cbn [is_nil_head]. rewrite andb_false_r, uf_nil. eauto. Qed.

Lemma map_val_prefix f e refl x p q : pre_at x -> flatten x = p ++ q -> q <> [] ->
  exists y, map_val f e refl p = UErr y.
Proof.
  intros Hx E Hq. unfold map_val. rewrite (prefix_not_nil_head x p q E Hq), andb_false_r.
  apply (Hx f e (zero_of e) p q E Hq).
Qed.

Lemma member_prefix (m : member) p q : miev m = p ++ q -> p <> [] ->
  exists p', p = key_event (fst (fst m)) (snd (fst m)) :: p' /\ flatten (snd m) = p' ++ q.
Proof.
  intros E Hp. destruct p as [|h p]; [contradiction|]. unfold miev in E. cbn [app] in E. injection E as <- E.
  exists p. split; [reflexivity|exact E].
Qed.

Lemma pre_map_items f e refl (ms : list member) : Forall (fun m => pre_at (snd m)) ms ->
  Forall (item_pre is_obj_end miev (map_step f e refl)) ms.
Proof.
  intro H. eapply Forall_impl; [|exact H]. intros m Hx cur p q E Hq Hp.
  destruct (member_prefix m p q E Hp) as (p' & -> & E').
  split; [destruct (snd (fst m)); reflexivity|]. rewrite map_step_key.
  destruct (map_val_prefix f e refl _ p' q Hx E' Hq) as [y ->]. eauto.
Qed.

Lemma pre_struct_items f tab (ms : list member) :
  Forall (fun m => pre_at (snd m)) ms -> forallb (fun m => plain (snd m)) ms = true ->
  Forall (item_pre is_obj_end miev (struct_step f tab)) ms.
Proof.
  intros H Hpl. rewrite forallb_forall in Hpl. rewrite Forall_forall in *. intros m Hin cur p q E Hq Hp.
  destruct (member_prefix m p q E Hp) as (p' & -> & E').
  split; [destruct (snd (fst m)); reflexivity|]. rewrite struct_step_key.
  destruct (assoc_key (fst (fst m)) tab) as [[path ft]|].
  - destruct (H m Hin f ft (get_path path cur) p' q E' Hq) as [y ->]. eauto.
  - rewrite (skip_prefix (snd m) (Hpl m Hin) _ p' q E' Hq). eauto.
Qed.

Lemma pre_wrap f t old g t' old' p :
  uf (S f) t old p = ur_map g (uf f t' old' p) ->
  (exists x, uf f t' old' p = UErr x) -> exists x, uf (S f) t old p = UErr x.
Proof. intros H [x Hx]. rewrite H, Hx. cbn [ur_map]. eauto. Qed.

Lemma pre_arr len bt es : Forall loc_at es -> Forall pre_at es -> pre_at (TArr len bt es).
Proof.
  intros Hl Hes fuel t old p q E Hq.
  destruct p as [|h p]; [rewrite uf_nil; eauto|].
  rewrite <- (app_nil_r (flatten _)), arr_events in E. cbn [app] in E. injection E as <- E.
  revert t old. induction fuel as [|f IH]; intros t old; [rewrite uf_O; eauto|].
  destruct (under t) eqn:U; try (rewrite uf_arrstart, U; eauto; fail).
  - apply (pre_wrap f t old (GIface (TSlice (ifc_elem bt))) (TSlice (ifc_elem bt)) GNil); [|apply IH].
    rewrite uf_arrstart, U. reflexivity.
  - apply (pre_wrap f t old GPtr g (zero_of g)); [|apply IH].
    rewrite uf_arrstart, U. reflexivity.
  - rewrite uf_arrstart, U. cbv zeta.
    apply (gloop_prefix is_arr_end EArrEnd _ flatten _ _ (slice_loop_eqs f g _ (is_refl g)) eq_refl
             (slice_step_nil f g (is_refl g)) es) with (q := q); [|exact E|exact Hq].
    pose proof (loc_slice_items f g (is_refl g) es Hl) as H1.
    pose proof (pre_slice_items f g (is_refl g) es Hes) as H2.
    rewrite Forall_forall in *. intros x Hx. split; auto.
Qed.

Lemma map_step_nil f e refl st : exists x, map_step f e refl st [] = SFail x.
Proof. cbn [map_step]. eauto. Qed.
Lemma struct_step_nil f tab st : exists x, struct_step f tab st [] = SFail x.
Proof. cbn [struct_step]. eauto. Qed.

Lemma pre_obj len bt (ms : list member) :
  Forall (fun m => loc_at (snd m)) ms -> forallb (fun m => plain (snd m)) ms = true ->
  Forall (fun m => pre_at (snd m)) ms -> pre_at (TObj len bt ms).
Proof.
  intros Hl Hpl Hms fuel t old p q E Hq.
  destruct p as [|h p]; [rewrite uf_nil; eauto|].
  rewrite <- (app_nil_r (flatten _)), obj_events in E. cbn [app] in E. injection E as <- E.
  revert t old. induction fuel as [|f IH]; intros t old; [rewrite uf_O; eauto|].
  destruct (under t) eqn:U; try (rewrite uf_objstart, U; eauto; fail).
  - apply (pre_wrap f t old (GIface (TMap (ifc_elem bt))) (TMap (ifc_elem bt)) GNil); [|apply IH].
    rewrite uf_objstart, U. reflexivity.
  - apply (pre_wrap f t old GPtr g (zero_of g)); [|apply IH].
    rewrite uf_objstart, U. reflexivity.
  - rewrite uf_objstart, U.
    apply (gloop_prefix is_obj_end EObjEnd _ miev _ _ (map_loop_eqs f g (is_refl g)) eq_refl
             (map_step_nil f g (is_refl g)) ms) with (q := q); [|exact E|exact Hq].
    pose proof (loc_map_items f g (is_refl g) ms Hl) as H1.
    pose proof (pre_map_items f g (is_refl g) ms Hms) as H2.
    rewrite Forall_forall in *. intros x Hx. split; auto.
  - rewrite uf_objstart, U. destruct (field_table (S (ftsize t)) fs 0) as [err|tab]; [eauto|].
    apply (gloop_prefix is_obj_end EObjEnd _ miev _ _ (struct_loop_eqs f tab) eq_refl
             (struct_step_nil f tab) ms) with (q := q); [|exact E|exact Hq].
    pose proof (loc_struct_items f tab ms Hl Hpl) as H1.
    pose proof (pre_struct_items f tab ms Hms Hpl) as H2.
    rewrite Forall_forall in *. intros x Hx. split; auto.
Qed.

(* on a proper prefix of the events of a value uf never completes, whatever the fuel *)
Theorem pre_plain : forall tr, plain tr = true -> pre_at tr.
Proof.
  induction tr as [s r|len bt es IH|len bt ms IH|bt es|bt ms] using tree_ind'; intro Hp; try discriminate Hp.
  - apply pre_val.
  - cbn [plain] in Hp. rewrite forallb_forall in Hp. apply pre_arr.
    + apply Forall_forall. intros x Hx. apply loc_plain. auto.
    + rewrite Forall_forall in *. auto.
  - cbn [plain] in Hp. apply pre_obj; [|exact Hp|].
    + rewrite forallb_forall in Hp. apply Forall_forall. intros x Hx. apply loc_plain. auto.
    + rewrite forallb_forall in Hp. rewrite Forall_forall in *. auto.
Qed.
Print Assumptions pre_plain.

(* C14: on the events of a complete document - any tree, well-formed or not, extended events
   included - Unfold decides: it completes or returns an error (at an event of the
   document), it never asks for more; and the verdict is the one uf reaches with any
   larger fuel: the fuel of unfold_value is adequate on complete documents *)
Theorem C14_complete_stream_decided : forall t old tr,
  (exists e, unfold_value t old (flatten tr) = USetupErr e) \/
  (exists v, unfold_value t old (flatten tr) = UDone v) \/
  (exists i, unfold_value t old (flatten tr) = UFail i /\ (i < doc_len tr)%nat).
Proof.
  intros t old tr. destruct (ucc_type t) as [e|] eqn:Hucc.
  - left. exists e. unfold unfold_value. rewrite Hucc. reflexivity.
  - right. rewrite (unfold_value_plain t old tr (doc_len tr + ftsize t) Hucc) by lia.
    pose proof (uf_complete_shape (expand_tree tr) (doc_len tr + ftsize t) t old (plain_expand tr)) as Hs.
    destruct (uf (doc_len tr + ftsize t) t old (flatten (expand_tree tr))) as [v r|x]; [left; eauto|].
    right. eexists. split; [reflexivity|]. cbn [ur_shape] in Hs.
    assert (1 <= length x)%nat by (destruct x; [contradiction|cbn [length]; lia]).
    assert (1 <= doc_len tr)%nat.
    { unfold doc_len. rewrite <- expand_deep_is_flatten. apply flatten_length_pos. }
    lia.
Qed.
Print Assumptions C14_complete_stream_decided.

Corollary C14_complete_stream_not_more : forall t old tr, wf_tree tr = true ->
  unfold_value t old (flatten tr) <> UMore.
Proof.
  intros t old tr _ H. destruct (C14_complete_stream_decided t old tr) as [[e E]|[[v E]|[i [E _]]]];
    rewrite E in H; discriminate H.
Qed.

(* C14: on a proper prefix of a document Unfold is never done: it asks for more or returns
   an error *)
Theorem C14_prefix_not_done : forall t old tr p q,
  flatten tr = p ++ q -> q <> [] -> forall v, unfold_value t old p <> UDone v.
Proof.
  intros t old tr p q E Hq v H. unfold unfold_value in H.
  destruct (ucc_type t); [discriminate H|].
  assert (E' : flatten (expand_tree tr) = flat_map expand p ++ flat_map expand q).
  { rewrite expand_deep_is_flatten, E, flat_map_app. reflexivity. }
  assert (Hq' : flat_map expand q <> []).
  { destruct q as [|e q]; [contradiction|]. cbn [flat_map]. pose proof (expand_length_pos e).
    destruct (expand e); [cbn in H0; lia|discriminate]. }
  destruct (pre_plain _ (plain_expand tr) (S (S (2 * length (flat_map expand p))) + ftsize t)%nat t old _ _ E' Hq') as [x Hx].
  rewrite Hx in H. destruct x; discriminate H.
Qed.
Print Assumptions C14_prefix_not_done.

(* the fuel of unfold_value (two units per event) is also adequate on deeply nested prefixes:
   an interface{} target uses two units of fuel per open container *)
Example C14_prefix_deep_waits :
  unfold_value TIface GNil (repeat (EArrStart (-1) BAny) 3) = UMore /\
  unfold_value TIface GNil (repeat (EArrStart (-1) BAny) 4) = UMore /\
  unfold_value TIface GNil (repeat (EArrStart (-1) BAny) 40) = UMore.
Proof. vm_compute. repeat split; reflexivity. Qed.

(* ====================================================================== *)
(* Part F: C11 (direct route) beyond flat structs: structs nested in        *)
(* structs, behind pointers, in slices and in maps; inlined structs         *)
(* ====================================================================== *)

(* ---------- the fragment ---------- *)
(* an inlined (squash) field: exported, not "-"/omit, tagged inline or squash *)
Definition inl_field (name tag : bytes) : bool := emittable name tag && t_squash (snd (parse_tags tag)).
(* what is inlined is a struct (not a pointer, map or interface: Unfold refuses these), and
   not omitempty (Fold refuses that) *)
Definition fld_ok (name tag : bytes) (ft : gtype) : bool :=
  negb (inl_field name tag) ||
  (match ft with TStruct _ => true | _ => false end && negb (t_omitempty (snd (parse_tags tag)))).
(* the member names are distinct, those of inlined structs included: the field table exists *)
Definition ftab_okb (fs : list (bytes * bytes * gtype)) : bool :=
  match field_table (S (ftsize (TStruct fs))) fs O with inr _ => true | inl _ => false end.

(* the types of Part 6 (simple), structs of such types with distinct member names, and
   pointers to / slices of / string-keyed maps of these *)
Fixpoint nest (t : gtype) : bool :=
  match t with
  | TBool | TString | TNum _ => true
  | TPtr u | TSlice u | TMap u => nest u
  | TStruct fs =>
      (fix go (l : list (bytes * bytes * gtype)) : bool :=
         match l with [] => true | (name, tag, ft) :: r => nest ft && fld_ok name tag ft && go r end) fs
      && ftab_okb fs
  | TNamed u => simple (TNamed u)
  | _ => false
  end.

Fixpoint nest_fields (l : list (bytes * bytes * gtype)) : bool :=
  match l with [] => true | (name, tag, ft) :: r => nest ft && fld_ok name tag ft && nest_fields r end.

Lemma nest_struct fs : nest (TStruct fs) = nest_fields fs && ftab_okb fs.
Proof. reflexivity. Qed.

(* well-typed values *)
Fixpoint wt2 (t : gtype) (v : gvalue) {struct t} : bool :=
  match t with
  | TPtr u => match v with GNil => true | GPtr x => wt2 u x | _ => false end
  | TSlice e => match v with GNil => true | GList l => forallb (wt2 e) l | _ => false end
  | TMap e => match v with
              | GNil => true
              | GMap kvs => forallb (fun kv => wt2 e (snd kv)) kvs && ssorted (map fst kvs)
              | _ => false
              end
  | TStruct fs =>
      match v with
      | GStruct vs =>
          (fix go (l : list (bytes * bytes * gtype)) (vs : list gvalue) : bool :=
             match l, vs with
             | [], [] => true
             | (_, _, ft) :: r, fv :: vr => wt2 ft fv && go r vr
             | _, _ => false
             end) fs vs
      | _ => false
      end
  | _ => wt t v
  end.

Fixpoint wt2_fields (l : list (bytes * bytes * gtype)) (vs : list gvalue) : bool :=
  match l, vs with
  | [], [] => true
  | (_, _, ft) :: r, fv :: vr => wt2 ft fv && wt2_fields r vr
  | _, _ => false
  end.

Lemma wt2_struct fs vs : wt2 (TStruct fs) (GStruct vs) = wt2_fields fs vs.
Proof. reflexivity. Qed.

(* the (expanded) events Fold sends for a value, as the folder of a field / element; an
   inlined struct contributes its members: its events without the object start and end *)
Fixpoint xev2 (t : gtype) (v : gvalue) {struct t} : list event :=
  match t with
  | TPtr u => match v with GPtr x => xev2 u x | _ => [EVal SNil] end
  | TSlice e =>
      if is_prim e then typed_arr false e (glist v)
      else EArrStart (zlen (glist v)) BAny :: flat_map (xev2 e) (glist v) ++ [EArrEnd]
  | TMap e =>
      if is_prim e then typed_obj e (gmap v)
      else EObjStart (zlen (gmap v)) BAny :: flat_map (fun kv => EKey (fst kv) :: xev2 e (snd kv)) (gmap v) ++ [EObjEnd]
  | TStruct fs =>
      match v with
      | GStruct vs =>
          EObjStart (count_fields fs) BAny ::
          (fix go (l : list (bytes * bytes * gtype)) (vs : list gvalue) : list event :=
             match l, vs with
             | (name, tag, ft) :: r, fv :: vr =>
                 (if inl_field name tag then removelast (tl (xev2 ft fv))
                  else if emitted name tag ft fv then EKey (fkey name tag) :: xev2 ft fv else []) ++ go r vr
             | _, _ => []
             end) fs vs ++ [EObjEnd]
      | _ => []
      end
  | _ => xev false t v
  end.

Fixpoint fields_ev2 (l : list (bytes * bytes * gtype)) (vs : list gvalue) : list event :=
  match l, vs with
  | (name, tag, ft) :: r, fv :: vr =>
      (if inl_field name tag then removelast (tl (xev2 ft fv))
       else if emitted name tag ft fv then EKey (fkey name tag) :: xev2 ft fv else []) ++ fields_ev2 r vr
  | _, _ => []
  end.

Lemma xev2_struct fs vs :
  xev2 (TStruct fs) (GStruct vs) = EObjStart (count_fields fs) BAny :: fields_ev2 fs vs ++ [EObjEnd].
Proof. reflexivity. Qed.

Lemma xev2_members fs vs : removelast (tl (xev2 (TStruct fs) (GStruct vs))) = fields_ev2 fs vs.
Proof. rewrite xev2_struct. cbn [tl]. apply removelast_last. Qed.

(* what unfolding these events into a zero target yields *)
Fixpoint nv2 (t : gtype) (v : gvalue) {struct t} : gvalue :=
  match t with
  | TPtr u => match v with
              | GPtr x => if is_nil_head (xev2 u x) then GNil else GPtr (nv2 u x)
              | _ => GNil
              end
  | TSlice e => match glist v with [] => GNil | l => GList (map (nv2 e) l) end
  | TMap e => match gmap v with
              | [] => if is_refl e then GMap [] else GNil
              | kvs => GMap (map (fun kv => (fst kv, nv2 e (snd kv))) kvs)
              end
  | TStruct fs =>
      match v with
      | GStruct vs =>
          GStruct ((fix go (l : list (bytes * bytes * gtype)) (vs : list gvalue) : list gvalue :=
             match l, vs with
             | (name, tag, ft) :: r, fv :: vr =>
                 (if emitted name tag ft fv then nv2 ft fv else zero_of ft) :: go r vr
             | _, _ => []
             end) fs vs)
      | _ => v
      end
  | _ => nv t v
  end.

Fixpoint fields_nv2 (l : list (bytes * bytes * gtype)) (vs : list gvalue) : list gvalue :=
  match l, vs with
  | (name, tag, ft) :: r, fv :: vr =>
      (if emitted name tag ft fv then nv2 ft fv else zero_of ft) :: fields_nv2 r vr
  | _, _ => []
  end.

Lemma nv2_struct fs vs : nv2 (TStruct fs) (GStruct vs) = GStruct (fields_nv2 fs vs).
Proof. reflexivity. Qed.

(* on the types of Part 6 these are the definitions of Part 6 *)
Lemma simple_nest : forall t, simple t = true -> nest t = true.
Proof. induction t; intro H; try discriminate H; cbn [nest simple] in *; auto. Qed.

Lemma xev2_simple : forall t v, simple t = true -> xev2 t v = xev false t v.
Proof.
  induction t; intros v Hs; try discriminate Hs; try reflexivity; cbn [simple] in Hs; cbn [xev2 xev].
  - destruct v; try reflexivity. apply IHt. exact Hs.
  - destruct (is_prim t); [reflexivity|]. f_equal. f_equal. apply flat_map_ext. intro x. apply IHt. exact Hs.
  - destruct (is_prim t) eqn:Hp; [reflexivity|]. f_equal. f_equal. apply flat_map_ext. intros [k x]. cbn [fst snd].
    rewrite IHt by exact Hs. reflexivity.
Qed.

Lemma nv2_simple : forall t v, simple t = true -> nv2 t v = nv t v.
Proof.
  induction t; intros v Hs; try discriminate Hs; try reflexivity; cbn [simple] in Hs; cbn [nv2 nv].
  - destruct v; try reflexivity. rewrite xev2_simple, IHt by exact Hs. reflexivity.
  - destruct (glist v); [reflexivity|]. f_equal. apply map_ext. intro x. apply IHt. exact Hs.
  - destruct (gmap v); [reflexivity|]. f_equal. apply map_ext. intros [k x]. cbn [fst snd]. rewrite IHt by exact Hs. reflexivity.
Qed.

Lemma forallb_ext' {A} (f g : A -> bool) l : (forall x, f x = g x) -> forallb f l = forallb g l.
Proof. intro H. induction l as [|x l IH]; [reflexivity|]. cbn [forallb]. rewrite H, IH. reflexivity. Qed.

Lemma wt2_simple : forall t v, simple t = true -> wt2 t v = wt t v.
Proof.
  induction t; intros v Hs; try discriminate Hs; try reflexivity; cbn [simple] in Hs; cbn [wt2].
  - destruct v; try reflexivity. cbn [wt under]. apply IHt. exact Hs.
  - destruct v; try reflexivity. cbn [wt under]. apply forallb_ext'. intro x. apply IHt. exact Hs.
  - destruct v; try reflexivity. cbn [wt under]. f_equal. apply forallb_ext'. intros [k x]. apply IHt. exact Hs.
Qed.

(* ---------- the loops on the events of a list of values, into a zero target ---------- *)
(* (slice_loop_fill2 / map_loop_fill2 / struct_loop_fields of UnfoldProofs, with the events
   and the result of an element as parameters) *)
Definition elem_okN (f : nat) (e : gtype) (refl : bool) (ev : gvalue -> list event) (nvf : gvalue -> gvalue)
    (x : gvalue) : Prop :=
  (exists h tl, ev x = h :: tl /\ starts_value h = true) /\
  (forall rest, uf f e (zero_of e) (ev x ++ rest) = UOk (nvf x) rest) /\
  (refl = true -> is_nil_head (ev x) = true -> ev x = [EVal SNil] /\ nvf x = zero_of e).

Lemma slice_loop_fillN f e wasnil refl (ev : gvalue -> list event) nvf l :
  Forall (elem_okN f e refl ev nvf) l ->
  forall g done k rest, (length l < g)%nat ->
    slice_loop f e wasnil refl g (done ++ repeat (zero_of e) k) [] (length done)
               (flat_map ev l ++ EArrEnd :: rest)
    = UOk (slice_final wasnil (done ++ map nvf l ++ repeat (zero_of e) (k - length l))) rest.
Proof.
  induction 1 as [|x l Hx Hl IH]; intros g done k rest Hg.
  - destruct g as [|g]; [cbn in Hg; lia|]. rewrite slice_loop_S.
    cbn [flat_map app map length]. rewrite Nat.sub_0_r. reflexivity.
  - destruct g as [|g]; [cbn in Hg; lia|].
    cbn [flat_map]. rewrite <- app_assoc.
    destruct Hx as ((h & tl & E & Hh) & Hu & Hn).
    specialize (Hu (flat_map ev l ++ EArrEnd :: rest)).
    assert (Hcont : slice_loop f e wasnil refl g (sl_put (done ++ repeat (zero_of e) k) (length done) (nvf x))
                      (sl_spare (done ++ repeat (zero_of e) k) [] (length done)) (S (length done))
                      (flat_map ev l ++ EArrEnd :: rest)
                    = UOk (slice_final wasnil (done ++ map nvf (x :: l) ++ repeat (zero_of e) (k - length (x :: l)))) rest).
    { rewrite sl_put_fill, sl_spare_nil.
      replace (S (length done)) with (length (done ++ [nvf x])) by (rewrite app_length; cbn [length]; lia).
      rewrite IH by (cbn [length] in Hg; lia).
      cbn [map length app]. rewrite <- app_assoc. cbn [app].
      replace (k - 1 - length l)%nat with (k - S (length l))%nat by lia. reflexivity. }
    rewrite E in *. cbn [app] in *.
    rewrite slice_loop_step by exact Hh. rewrite sl_oldel_fill.
    destruct (refl && is_nil_ev h) eqn:En.
    + apply andb_true_iff in En. destruct En as [-> En].
      destruct (Hn eq_refl En) as [E2 E3]. injection E2 as -> ->. cbn [app].
      rewrite E3 in Hcont. exact Hcont.
    + rewrite Hu. exact Hcont.
Qed.

Lemma map_loop_fillN f e refl (ev : gvalue -> list event) nvf kvs :
  Forall (fun kv => elem_okN f e refl ev nvf (snd kv)) kvs ->
  forall g cur rest, (length kvs < g)%nat ->
    map_loop f e refl g cur (flat_map (fun kv => EKey (fst kv) :: ev (snd kv)) kvs ++ EObjEnd :: rest)
    = UOk (map_final (mstep cur (map (fun kv => (fst kv, nvf (snd kv))) kvs))) rest.
Proof.
  induction 1 as [|[k x] kvs Hx Hl IH]; intros g cur rest Hg.
  - destruct g as [|g]; [cbn in Hg; lia|]. rewrite map_loop_S. reflexivity.
  - destruct g as [|g]; [cbn in Hg; lia|].
    cbn [flat_map fst snd]. rewrite <- !app_comm_cons, <- app_assoc.
    change (EKey k) with (key_event k false). rewrite map_loop_key.
    cbn [snd] in Hx. destruct Hx as ((h & tl & E & Hh) & Hu & Hn).
    specialize (Hu (flat_map (fun kv => EKey (fst kv) :: ev (snd kv)) kvs ++ EObjEnd :: rest)).
    cbn [map fst snd]. rewrite mstep_cons.
    rewrite E in *. cbn [app] in *.
    destruct (refl && is_nil_ev h) eqn:En.
    + apply andb_true_iff in En. destruct En as [-> En].
      destruct (Hn eq_refl En) as [E2 E3]. injection E2 as -> ->. cbn [app].
      rewrite E3. apply IH. cbn [length] in Hg; lia.
    + rewrite Hu. apply IH. cbn [length] in Hg; lia.
Qed.

Lemma uf_slice_zeroN f t e bt ev nvf l rest :
  under t = TSlice e -> Forall (elem_okN f e (is_refl e) ev nvf) l ->
  uf (S f) t GNil (EArrStart (zlen l) bt :: flat_map ev l ++ EArrEnd :: rest)
  = UOk (match l with [] => GNil | _ => GList (map nvf l) end) rest.
Proof.
  intros U Hl. rewrite (uf_slice _ _ e) by exact U. cbn [slice_start].
  pose proof (slice_loop_fillN f e (Z.max (zlen l) 0 =? 0) (is_refl e) ev nvf l Hl
                (S (length (flat_map ev l ++ EArrEnd :: rest))) []
                (Z.to_nat (Z.min (Z.max (zlen l) 0) max_initial_len)) rest) as L.
  cbn [app length] in L. rewrite L.
  - replace (Z.to_nat (Z.min (Z.max (zlen l) 0) max_initial_len) - length l)%nat with O
      by (unfold zlen, max_initial_len; lia).
    cbn [repeat]. rewrite app_nil_r. destruct l as [|x l]; reflexivity.
  - rewrite app_length. cbn [length].
    assert (length l <= length (flat_map ev l))%nat; [|lia].
    apply flat_map_length_ge. eapply Forall_impl; [|exact Hl]. intros x Hx. apply Hx.
Qed.

Lemma uf_map_zeroN f t e n bt ev nvf kvs rest :
  under t = TMap e -> Forall (fun kv => elem_okN f e (is_refl e) ev nvf (snd kv)) kvs ->
  ssorted (map fst kvs) = true ->
  uf (S f) t GNil (EObjStart n bt :: flat_map (fun kv => EKey (fst kv) :: ev (snd kv)) kvs ++ EObjEnd :: rest)
  = UOk (match kvs with
         | [] => if is_refl e then GMap [] else GNil
         | _ => GMap (map (fun kv => (fst kv, nvf (snd kv))) kvs)
         end) rest.
Proof.
  intros U Hl Hs. rewrite (uf_map _ _ e) by exact U.
  rewrite (map_loop_fillN f e (is_refl e) ev nvf kvs Hl).
  - unfold map_start. destruct kvs as [|kv kvs]; [destruct (is_refl e); reflexivity|].
    unfold mstep. cbn [map]. f_equal. cbn [map_final]. f_equal.
    replace (opt_map (if is_refl e then Some [] else None)) with (@nil (bytes * gvalue)) by (destruct (is_refl e); reflexivity).
    apply (put_all_sorted_nil (map (fun kv0 => (fst kv0, nvf (snd kv0))) (kv :: kvs))).
    rewrite map_map. cbn [fst]. exact Hs.
  - rewrite app_length. cbn [length].
    assert (length kvs <= length (flat_map (fun kv => EKey (fst kv) :: ev (snd kv)) kvs))%nat; [|lia].
    clear. induction kvs as [|kv kvs IH]; [cbn; lia|]. cbn [flat_map]. rewrite app_length. cbn [length]. lia.
Qed.

(* ---------- the field table of a struct with inlined structs ---------- *)
(* [tabfor tab pp idx fs]: in [tab] the members of the fields [fs] (the fields from index
   [idx] on of the struct found at path [pp]) lead to these fields *)
Inductive tabfor (tab : ftable) : list nat -> nat -> list (bytes * bytes * gtype) -> Prop :=
| tf_nil pp idx : tabfor tab pp idx []
| tf_skip pp idx name tag ft r :
    emittable name tag = false -> tabfor tab pp (S idx) r -> tabfor tab pp idx ((name, tag, ft) :: r)
| tf_plain pp idx name tag ft r :
    emittable name tag = true -> t_squash (snd (parse_tags tag)) = false ->
    assoc_key (fkey name tag) tab = Some (pp ++ [idx], ft) ->
    tabfor tab pp (S idx) r -> tabfor tab pp idx ((name, tag, ft) :: r)
| tf_inl pp idx name tag ifs r :
    emittable name tag = true -> t_squash (snd (parse_tags tag)) = true ->
    tabfor tab (pp ++ [idx]) O ifs ->
    tabfor tab pp (S idx) r -> tabfor tab pp idx ((name, tag, TStruct ifs) :: r).

Lemma assoc_app_l {A} k (a b : list (bytes * A)) x : assoc_key k a = Some x -> assoc_key k (a ++ b) = Some x.
Proof.
  unfold assoc_key. induction a as [|e a IH]; [discriminate|]. cbn [app find].
  destruct (bytes_eqb (fst e) k); [exact (fun H => H)|exact IH].
Qed.

Lemma assoc_app_r {A} k (a b : list (bytes * A)) x :
  existsb (fun x => existsb (fun y => bytes_eqb (fst x) (fst y)) b) a = false ->
  assoc_key k b = Some x -> assoc_key k (a ++ b) = Some x.
Proof.
  intros Hd Hb. induction a as [|e a IH]; [exact Hb|].
  cbn [existsb] in Hd. apply orb_false_iff in Hd. destruct Hd as [He Hd].
  unfold assoc_key. cbn [app find]. destruct (bytes_eqb (fst e) k) eqn:Ek.
  - exfalso. unfold assoc_key in Hb. destruct (find (fun e0 => bytes_eqb (fst e0) k) b) as [y|] eqn:Ef; [|discriminate Hb].
    apply find_some in Ef. destruct Ef as [Hin Hy].
    apply bytes_eqb_spec in Ek, Hy. pose proof (existsb_false_in _ _ y He Hin) as Hne. cbn beta in Hne.
    rewrite Ek, Hy, bytes_eqb_refl in Hne. discriminate Hne.
  - apply IH. exact Hd.
Qed.

Lemma assoc_map_prefix k idx (sub : ftable) p ft : assoc_key k sub = Some (p, ft) ->
  assoc_key k (map (fun e => (fst e, (idx :: fst (snd e), snd (snd e)))) sub) = Some (idx :: p, ft).
Proof.
  unfold assoc_key. induction sub as [|[k' [p' ft']] sub IH]; [discriminate|]. cbn [map find fst snd].
  destruct (bytes_eqb k' k); [intro H; injection H as <- <-; reflexivity|exact IH].
Qed.

Lemma assoc_head {A} k (x : A) l : assoc_key k ((k, x) :: l) = Some x.
Proof. unfold assoc_key. cbn [find fst]. rewrite bytes_eqb_refl. reflexivity. Qed.

Lemma field_table_tabfor : forall fuel fs idx t0, field_table fuel fs idx = inr t0 ->
  forall tab pp, (forall k p ft, assoc_key k t0 = Some (p, ft) -> assoc_key k tab = Some (pp ++ p, ft)) ->
  tabfor tab pp idx fs.
Proof.
  induction fuel as [|f IH]; intros fs idx t0 H tab pp Hemb; [discriminate H|].
  cbn [field_table] in H. destruct fs as [|[[name tag] ft0] fs]; [constructor|].
  destruct (field_table f fs (S idx)) as [err|b] eqn:Er.
  - destruct (negb (exported name)); [discriminate H|].
    destruct (parse_tags tag) as [tn o]. destruct (t_omit o); [discriminate H|].
    destruct (t_squash o); [destruct ft0; try discriminate H; destruct (field_table f fs0 0); discriminate H|discriminate H].
  - unfold emittable in *.
    destruct (exported name) eqn:Ex; cbn [negb] in H;
      [|injection H as <-; apply tf_skip; [unfold emittable; rewrite Ex; reflexivity|apply (IH _ _ _ Er); exact Hemb]].
    destruct (parse_tags tag) as [tn o] eqn:Ep.
    destruct (t_omit o) eqn:Eo;
      [injection H as <-; apply tf_skip; [unfold emittable; rewrite Ex, Ep; cbn [snd]; rewrite Eo; reflexivity|apply (IH _ _ _ Er); exact Hemb]|].
    assert (Hem : emittable name tag = true) by (unfold emittable; rewrite Ex, Ep; cbn [snd]; rewrite Eo; reflexivity).
    destruct (t_squash o) eqn:Es.
    + destruct ft0; try discriminate H.
      destruct (field_table f fs0 0) as [err|sub] eqn:Esub; [discriminate H|].
      match type of H with (if ?c then _ else _) = _ => destruct c eqn:Ed end; [discriminate H|].
      injection H as <-. apply tf_inl; [exact Hem|rewrite Ep; exact Es| |].
      * apply (IH _ _ _ Esub). intros k p ft Hk. rewrite <- app_assoc. cbn [app]. apply Hemb.
        apply assoc_app_l. apply assoc_map_prefix. exact Hk.
      * apply (IH _ _ _ Er). intros k p ft Hk. apply Hemb. apply assoc_app_r; [exact Ed|exact Hk].
    + match type of H with (if ?c then _ else _) = _ => destruct c eqn:Ed end; [discriminate H|].
      injection H as <-. apply tf_plain; [exact Hem|rewrite Ep; exact Es| |].
      * apply Hemb. unfold fkey. rewrite Ep. cbn [fst app]. apply assoc_head.
      * apply (IH _ _ _ Er). intros k p ft Hk. apply Hemb.
        exact (assoc_app_r k [(field_name name tn, ([idx], ft0))] b _ Ed Hk).
Qed.

(* ---------- paths into nested structs ---------- *)
Lemma get_path_app : forall pp q cur, get_path (pp ++ q) cur = get_path q (get_path pp cur).
Proof.
  induction pp as [|i pp IH]; intros q cur; [reflexivity|]. cbn [app get_path].
  destruct cur; try (rewrite get_path_nil; reflexivity). apply IH.
Qed.

Lemma replace_nth_nth {A} (d : A) : forall l i, replace_nth i (nth i l d) l = l.
Proof.
  induction l as [|x l IH]; intros [|i]; try reflexivity. cbn [nth replace_nth]. rewrite IH. reflexivity.
Qed.

Lemma replace_nth_twice {A} (x y : A) : forall l i, replace_nth i y (replace_nth i x l) = replace_nth i y l.
Proof.
  induction l as [|z l IH]; intros [|i]; try reflexivity. cbn [replace_nth]. rewrite IH. reflexivity.
Qed.

Lemma set_get_path : forall pp cur, set_path pp (get_path pp cur) cur = cur.
Proof.
  induction pp as [|i pp IH]; intro cur; [reflexivity|]. cbn [set_path get_path].
  destruct cur; try reflexivity. rewrite IH, replace_nth_nth. reflexivity.
Qed.

Lemma get_struct_valid i pp vs ws : get_path (i :: pp) (GStruct ws) = GStruct vs -> (i < length ws)%nat.
Proof.
  cbn [get_path]. intro H. destruct (Nat.ltb i (length ws)) eqn:E; [apply Nat.ltb_lt; exact E|].
  apply Nat.ltb_ge in E. rewrite nth_overflow in H by exact E. rewrite get_path_nil in H. discriminate H.
Qed.

Lemma get_struct_is_struct i pp cur vs : get_path (i :: pp) cur = GStruct vs -> exists ws, cur = GStruct ws.
Proof. destruct cur; cbn [get_path]; try discriminate. eauto. Qed.

Lemma set_path_snoc : forall pp cur vs i x, get_path pp cur = GStruct vs ->
  set_path (pp ++ [i]) x cur = set_path pp (GStruct (replace_nth i x vs)) cur.
Proof.
  induction pp as [|j pp IH]; intros cur vs i x H.
  - cbn [get_path] in H. subst cur. reflexivity.
  - destruct (get_struct_is_struct _ _ _ _ H) as [ws ->]. cbn [app set_path]. cbn [get_path] in H.
    rewrite (IH _ _ i x H). reflexivity.
Qed.

Lemma get_set_path : forall pp cur vs x, get_path pp cur = GStruct vs -> get_path pp (set_path pp x cur) = x.
Proof.
  induction pp as [|j pp IH]; intros cur vs x H; [reflexivity|].
  destruct (get_struct_is_struct _ _ _ _ H) as [ws ->]. pose proof (get_struct_valid _ _ _ _ H) as Hj.
  cbn [set_path get_path]. rewrite nth_replace_nth_same by exact Hj. cbn [get_path] in H. apply (IH _ _ x H).
Qed.

Lemma set_set_path : forall pp cur vs x y, get_path pp cur = GStruct vs ->
  set_path pp y (set_path pp x cur) = set_path pp y cur.
Proof.
  induction pp as [|j pp IH]; intros cur vs x y H; [reflexivity|].
  destruct (get_struct_is_struct _ _ _ _ H) as [ws ->]. pose proof (get_struct_valid _ _ _ _ H) as Hj.
  cbn [set_path]. rewrite nth_replace_nth_same by exact Hj. cbn [get_path] in H.
  rewrite (IH _ _ x y H), replace_nth_twice. reflexivity.
Qed.

(* ---------- the struct loop over the fields, into a zero struct ---------- *)
(* one field: its events into a zero field leave [nv2] *)
Definition field_unf (f : nat) (ft : gtype) (fv : gvalue) : Prop :=
  forall rest, uf f ft (zero_of ft) (xev2 ft fv ++ rest) = UOk (nv2 ft fv) rest.

Inductive funf (f : nat) (tab : ftable) : list nat -> nat -> list (bytes * bytes * gtype) -> list gvalue -> Prop :=
| fu_nil pp idx : funf f tab pp idx [] []
| fu_skip pp idx name tag ft r fv vr :
    emittable name tag = false -> funf f tab pp (S idx) r vr ->
    funf f tab pp idx ((name, tag, ft) :: r) (fv :: vr)
| fu_plain pp idx name tag ft r fv vr :
    emittable name tag = true -> t_squash (snd (parse_tags tag)) = false ->
    assoc_key (fkey name tag) tab = Some (pp ++ [idx], ft) -> field_unf f ft fv ->
    funf f tab pp (S idx) r vr -> funf f tab pp idx ((name, tag, ft) :: r) (fv :: vr)
| fu_inl pp idx name tag ifs r ivs vr :
    emittable name tag = true -> t_squash (snd (parse_tags tag)) = true ->
    t_omitempty (snd (parse_tags tag)) = false ->
    funf f tab (pp ++ [idx]) O ifs ivs ->
    funf f tab pp (S idx) r vr -> funf f tab pp idx ((name, tag, TStruct ifs) :: r) (GStruct ivs :: vr).

Lemma zeros_cons n tg ft fs : zeros ((n, tg, ft) :: fs) = zero_of ft :: zeros fs.
Proof. reflexivity. Qed.

Lemma app_cons_assoc {A} (a : list A) x b : a ++ x :: b = (a ++ [x]) ++ b.
Proof. rewrite <- app_assoc. reflexivity. Qed.

Lemma struct_loop_funf f tab : forall pp idx fs vs, funf f tab pp idx fs vs ->
  exists c, (c <= length (fields_ev2 fs vs))%nat /\
  forall done cur g R, length done = idx -> get_path pp cur = GStruct (done ++ zeros fs) -> (c <= g)%nat ->
    struct_loop f tab g cur (fields_ev2 fs vs ++ R) =
    struct_loop f tab (g - c) (set_path pp (GStruct (done ++ fields_nv2 fs vs)) cur) R.
Proof.
  induction 1 as [pp idx|pp idx name tag ft r fv vr He _ IH|pp idx name tag ft r fv vr He Hs Hk Hf _ IH
                 |pp idx name tag ifs r ivs vr He Hs Ho _ IHin _ IH].
  - exists O. split; [cbn; lia|]. intros done cur g R _ Hg _.
    cbn [fields_ev2 fields_nv2 app]. unfold zeros in Hg. cbn [map] in Hg.
    rewrite Nat.sub_0_r, <- Hg, set_get_path. reflexivity.
  - destruct IH as (c & Hc & IH). exists c.
    assert (E1 : inl_field name tag = false) by (unfold inl_field; rewrite He; reflexivity).
    assert (E2 : emitted name tag ft fv = false) by (unfold emitted; rewrite He; reflexivity).
    cbn [fields_ev2 fields_nv2]. rewrite E1, E2. cbn [app]. split; [exact Hc|].
    intros done cur g R Hd Hg Hcg. rewrite zeros_cons, app_cons_assoc in Hg.
    rewrite (IH (done ++ [zero_of ft]) cur g R) by (try rewrite app_length; cbn [length]; try lia; exact Hg || exact Hcg).
    rewrite <- app_cons_assoc. reflexivity.
  - destruct IH as (c & Hc & IH).
    assert (E1 : inl_field name tag = false) by (unfold inl_field; rewrite He, Hs; reflexivity).
    cbn [fields_ev2 fields_nv2]. rewrite E1.
    destruct (emitted name tag ft fv) eqn:Em.
    + exists (S c). split; [cbn [app length]; rewrite app_length; lia|].
      intros done cur g R Hd Hg Hcg. destruct g as [|g]; [lia|].
      cbn [app]. rewrite <- app_assoc.
      change (EKey (fkey name tag)) with (key_event (fkey name tag) false). rewrite struct_loop_key, Hk.
      rewrite get_path_app, Hg. cbn [get_path]. rewrite zeros_cons, <- Hd, nth_app_here. cbn [get_path].
      rewrite (Hf _).
      rewrite (set_path_snoc pp cur _ (length done) (nv2 ft fv) Hg), zeros_cons, replace_nth_app.
      set (cur1 := set_path pp (GStruct (done ++ nv2 ft fv :: zeros r)) cur).
      assert (Hg1 : get_path pp cur1 = GStruct ((done ++ [nv2 ft fv]) ++ zeros r)).
      { unfold cur1. rewrite (get_set_path pp cur _ _ Hg), app_cons_assoc. reflexivity. }
      rewrite (IH (done ++ [nv2 ft fv]) cur1 g R) by (try rewrite app_length; cbn [length]; try lia; exact Hg1).
      unfold cur1. rewrite (set_set_path pp cur _ _ _ Hg), <- app_cons_assoc. reflexivity.
    + exists c. cbn [app]. split; [exact Hc|].
      intros done cur g R Hd Hg Hcg. rewrite zeros_cons, app_cons_assoc in Hg.
      rewrite (IH (done ++ [zero_of ft]) cur g R) by (try rewrite app_length; cbn [length]; try lia; exact Hg || exact Hcg).
      rewrite <- app_cons_assoc. reflexivity.
  - destruct IHin as (c1 & Hc1 & IHin). destruct IH as (c2 & Hc2 & IH).
    assert (E1 : inl_field name tag = true) by (unfold inl_field; rewrite He, Hs; reflexivity).
    assert (E2 : emitted name tag (TStruct ifs) (GStruct ivs) = true) by (unfold emitted; rewrite He, Ho; reflexivity).
    cbn [fields_ev2 fields_nv2]. rewrite E1, E2, xev2_members, nv2_struct.
    exists (c1 + c2)%nat. split; [rewrite app_length; lia|].
    intros done cur g R Hd Hg Hcg. rewrite <- app_assoc.
    assert (Hgi : get_path (pp ++ [idx]) cur = GStruct ([] ++ zeros ifs)).
    { rewrite get_path_app, Hg. cbn [get_path]. rewrite zeros_cons, <- Hd, nth_app_here. cbn [get_path app].
      apply zero_struct. }
    rewrite (IHin [] cur g _ eq_refl Hgi) by lia. cbn [app].
    rewrite (set_path_snoc pp cur _ idx _ Hg), zeros_cons, <- Hd, replace_nth_app.
    set (N := GStruct (fields_nv2 ifs ivs)).
    set (cur1 := set_path pp (GStruct (done ++ N :: zeros r)) cur).
    assert (Hg1 : get_path pp cur1 = GStruct ((done ++ [N]) ++ zeros r)).
    { unfold cur1. rewrite (get_set_path pp cur _ _ Hg), app_cons_assoc. reflexivity. }
    rewrite (IH (done ++ [N]) cur1 (g - c1)%nat R) by (try rewrite app_length; cbn [length]; try lia; exact Hg1).
    unfold cur1. rewrite (set_set_path pp cur _ _ _ Hg), <- app_cons_assoc.
    replace (g - c1 - c2)%nat with (g - (c1 + c2))%nat by lia. reflexivity.
Qed.

Lemma uf_nested_struct fs vs tab f n bt rest :
  field_table (S (ftsize (TStruct fs))) fs O = inr tab -> funf f tab [] O fs vs ->
  uf (S f) (TStruct fs) (zero_of (TStruct fs)) (EObjStart n bt :: fields_ev2 fs vs ++ EObjEnd :: rest)
  = UOk (GStruct (fields_nv2 fs vs)) rest.
Proof.
  intros Et Hu. rewrite (uf_S_struct _ _ fs) by reflexivity. rewrite Et, zero_struct.
  destruct (struct_loop_funf f tab [] O fs vs Hu) as (c & Hc & HL).
  rewrite (HL [] (GStruct (zeros fs)) _ (EObjEnd :: rest) eq_refl eq_refl)
    by (rewrite app_length; cbn [length]; lia).
  cbn [set_path app].
  destruct (S (length (fields_ev2 fs vs ++ EObjEnd :: rest)) - c)%nat as [|g'] eqn:Eg;
    [rewrite app_length in Eg; cbn [length] in Eg; lia|].
  rewrite struct_loop_S. reflexivity.
Qed.

(* ---------- what is needed of a (type, value) pair ---------- *)
#[local] Opaque rf ftop.

Record good (t : gtype) (v : gvalue) (E : list event) (N : gvalue) : Prop := {
  g_fold : forall f evs, (msz t v <= f)%nat -> rf f false t v = (evs, None) -> flat_map expand evs = E;
  g_unf : forall F rest, (ftsize t <= F)%nat -> uf F t (zero_of t) (E ++ rest) = UOk N rest;
  g_head : exists h tl, E = h :: tl /\ starts_value h = true;
  g_nil : is_nil_head E = true ->
          E = [EVal SNil] /\ N = zero_of t /\
          forall F F', (ftsize t <= F)%nat -> spec_fold F t (omit_view F' t v) = Some CNil;
  g_deq : forall F, (ftsize t < F)%nat -> deep_eq F t (omit_view F t v) N = true;
  g_empty : forall g, (ftsize t <= g)%nat -> spec_empty g t v = emptyv t v
}.

Lemma good_simple t v : simple t = true -> wt t v = true -> good t v (xev false t v) (nv t v).
Proof.
  intros Hs Hw. constructor.
  - intros f evs _ H. apply (fold_all f t v evs Hs Hw H).
  - intros F rest HF. apply (unfold_all F t v false rest Hs Hw HF).
  - apply xev_head; assumption.
  - intro Hn. destruct (nil_xev_nv t v false Hs Hw Hn) as [E1 E2]. split; [exact E1|]. split; [exact E2|].
    intros F F' HF. rewrite omit_view_simple by exact Hs. apply (spec_null t v false F Hs Hw Hn HF).
  - intros F HF. rewrite omit_view_simple by exact Hs. apply deep_eq_nv; assumption.
  - intros g Hg. apply empty_spec; assumption.
Qed.

(* pointers *)
Lemma base_type_cases u n bt : base_type u = (n, bt) -> (n = O /\ bt = u) \/ exists u0, u = TPtr u0.
Proof. destruct u; cbn [base_type]; intro H; try (injection H as <- <-; left; split; reflexivity). right. eauto. Qed.

Lemma rf_ptr_some f u x evs : rf (S f) false (TPtr u) (GPtr x) = (evs, None) ->
  exists f', (f <= f')%nat /\ rf f' false u x = (evs, None).
Proof.
  intro H. rewrite rf_S in H. cbn [prim_fold base_type] in H.
  destruct (base_type u) as [n bt] eqn:Eb. cbn [deref] in H.
  destruct (base_type_cases u n bt Eb) as [[-> ->]|[u0 ->]].
  - cbn [deref] in H. exists f. split; [lia|exact H].
  - exists (S f). split; [lia|]. rewrite rf_S. cbn [prim_fold]. rewrite Eb. exact H.
Qed.

Lemma rf_ptr_nil f u evs : rf f false (TPtr u) GNil = (evs, None) -> evs = [EVal SNil].
Proof.
  destruct f as [|f]; [rewrite rf_O; discriminate|]. intro H. rewrite rf_S in H. cbn [prim_fold base_type] in H.
  destruct (base_type u) as [n bt]. cbn [deref] in H. injection H as <-. reflexivity.
Qed.

Lemma omit_view_ptr F u x : exists F', omit_view F (TPtr u) (GPtr x) = GPtr (omit_view F' u x).
Proof. destruct F as [|f]; [exists O|exists f]; reflexivity. Qed.

Lemma emptyv_ptr_nil u : emptyv (TPtr u) GNil = true.
Proof. unfold emptyv. cbn [resolve base_type]. destruct (base_type u) as [n bt]. reflexivity. Qed.

Lemma good_ptr_nil u : good (TPtr u) GNil [EVal SNil] GNil.
Proof.
  constructor.
  - intros f evs _ H. rewrite (rf_ptr_nil f u evs H). reflexivity.
  - intros F rest HF. destruct F as [|f]; [cbn [ftsize] in HF; lia|].
    rewrite (uf_S_ptr_gen _ _ u) by reflexivity. reflexivity.
  - eexists; eexists; split; reflexivity.
  - intros _. split; [reflexivity|]. split; [reflexivity|]. intros F F' HF.
    destruct F as [|f]; [cbn [ftsize] in HF; lia|]. destruct F'; reflexivity.
  - intros F HF. destruct F as [|f]; [lia|]. reflexivity.
  - intros g Hg. destruct g as [|g]; [cbn [ftsize] in Hg; lia|]. rewrite emptyv_ptr_nil. reflexivity.
Qed.

Lemma is_nil_head_app E rest : (exists h tl, E = h :: tl /\ starts_value h = true) ->
  is_nil_head (E ++ rest) = is_nil_head E.
Proof. intros (h & tl & -> & _). reflexivity. Qed.

Lemma good_ptr u x E N : good u x E N ->
  good (TPtr u) (GPtr x) E (if is_nil_head E then GNil else GPtr N).
Proof.
  intros [Gf Gu Gh Gn Gd Ge]. constructor.
  - intros f evs Hm H. destruct f as [|f]; [rewrite rf_O in H; discriminate H|].
    destruct (rf_ptr_some f u x evs H) as (f' & Hle & H'). apply (Gf f' evs); [|exact H'].
    unfold msz in *. cbn [tsize vsize] in Hm. lia.
  - intros F rest HF. destruct F as [|f]; [cbn [ftsize] in HF; lia|]. cbn [ftsize] in HF.
    rewrite (uf_S_ptr_gen _ _ u) by reflexivity. rewrite (is_nil_head_app E rest Gh).
    destruct (is_nil_head E) eqn:Hn.
    + destruct (Gn eq_refl) as [-> _]. reflexivity.
    + rewrite Gu by lia. reflexivity.
  - exact Gh.
  - intro Hn. destruct (Gn Hn) as (E1 & _ & Hsp). split; [exact E1|]. rewrite Hn. split; [reflexivity|].
    intros F F' HF. destruct F as [|f]; [cbn [ftsize] in HF; lia|]. cbn [ftsize] in HF.
    destruct (omit_view_ptr F' u x) as [F'' ->]. rewrite spec_fold_ptr_S. apply Hsp. lia.
  - intros F HF. destruct F as [|f]; [lia|]. cbn [ftsize] in HF.
    change (omit_view (S f) (TPtr u) (GPtr x)) with (GPtr (omit_view f u x)).
    rewrite deep_eq_S. cbn [under].
    destruct (is_nil_head E) eqn:Hn.
    + destruct (Gn eq_refl) as (_ & _ & Hsp). rewrite (Hsp (S f) f) by lia. reflexivity.
    + apply Gd. lia.
  - intros g Hg. destruct g as [|g]; [cbn [ftsize] in Hg; lia|]. cbn [ftsize] in Hg.
    rewrite emptyv_ptr. change (spec_empty (S g) (TPtr u) (GPtr x)) with (spec_empty g u x). apply Ge. lia.
Qed.

(* slices *)
Lemma Elems_gen f e (Ee : gvalue -> list event) l :
  (forall x, In x l -> forall evs, rf f false e x = (evs, None) -> flat_map expand evs = Ee x) ->
  forall evs, Elems f e l = (evs, None) -> flat_map expand evs = flat_map Ee l.
Proof.
  induction l as [|x l IHl]; intros Hx evs H.
  - cbn in H. injection H as <-. reflexivity.
  - change (Elems f e (x :: l)) with (rf f false e x ;; Elems f e l) in H.
    apply fseq_ok in H. destruct H as (e1 & e2 & H1 & H2 & ->).
    rewrite flat_map_app. cbn [flat_map]. rewrite (Hx x (or_introl eq_refl) _ H1).
    rewrite (IHl (fun y Hy => Hx y (or_intror Hy)) _ H2). reflexivity.
Qed.

Lemma deq_list_map f e (g1 g2 : gvalue -> gvalue) l :
  (forall x, In x l -> deep_eq f e (g1 x) (g2 x) = true) -> deq_list f e (map g1 l) (map g2 l) = true.
Proof.
  induction l as [|x l IH]; intro H; [reflexivity|].
  cbn [map deq_list]. rewrite H by (left; reflexivity). cbn [andb]. apply IH. intros y Hy. apply H. right. exact Hy.
Qed.

Lemma emptyv_slice e v : v = GNil \/ v = GList (glist v) -> emptyv (TSlice e) v = (zlen (glist v) =? 0).
Proof.
  intros [->| ->]; unfold emptyv; cbn; [reflexivity|]. unfold zlen. destruct (length (glist v)); reflexivity.
Qed.

Lemma emptyv_map e v : v = GNil \/ v = GMap (gmap v) -> emptyv (TMap e) v = (zlen (gmap v) =? 0).
Proof.
  intros [->| ->]; unfold emptyv; cbn; [reflexivity|]. unfold zlen. destruct (length (gmap v)); reflexivity.
Qed.

Lemma good_slice e v (Ee : gvalue -> list event) (Ne : gvalue -> gvalue) :
  is_prim e = false -> (v = GNil \/ v = GList (glist v)) ->
  (forall x, In x (glist v) -> good e x (Ee x) (Ne x)) ->
  good (TSlice e) v (EArrStart (zlen (glist v)) BAny :: flat_map Ee (glist v) ++ [EArrEnd])
       (match glist v with [] => GNil | l => GList (map Ne l) end).
Proof.
  intros Hp Hv Hel. constructor.
  - intros f evs Hm H. destruct f as [|f]; [rewrite rf_O in H; discriminate H|].
    rewrite rf_S in H. cbn [prim_fold] in H. rewrite Hp in H.
    apply fseq_fok_l in H. destruct H as (e2 & H & ->).
    apply fseq_fok_r in H. destruct H as (e1 & H & ->).
    assert (Hg : glen v = zlen (glist v)) by (destruct Hv as [->| ->]; reflexivity). rewrite Hg.
    cbn [app flat_map expand]. rewrite flat_map_app. cbn [flat_map expand app]. f_equal. f_equal.
    apply (Elems_gen f e Ee (glist v)); [|exact H].
    intros x Hx evs Hr. apply (g_fold _ _ _ _ (Hel x Hx) f evs); [|exact Hr].
    destruct Hv as [Hv|Hv]; [rewrite Hv in Hx; contradiction|].
    unfold msz in *. rewrite Hv in Hm. cbn [tsize] in Hm. rewrite vsize_list in Hm.
    pose proof (vsum_in x _ Hx). lia.
  - intros F rest HF. destruct F as [|f]; [cbn [ftsize] in HF; lia|]. cbn [ftsize] in HF.
    cbn [app]. rewrite <- app_assoc. cbn [app zero_of].
    etransitivity; [apply (uf_slice_zeroN f (TSlice e) e BAny Ee Ne); [reflexivity|]|destruct (glist v); reflexivity].
    apply Forall_forall. intros x Hx. destruct (Hel x Hx) as [_ Gu Gh Gn _ _]. split; [exact Gh|]. split.
    + intro r. apply Gu. lia.
    + intros _ Hn. destruct (Gn Hn) as (E1 & E2 & _). split; assumption.
  - eexists; eexists; split; reflexivity.
  - intro Hn. discriminate Hn.
  - intros F HF. destruct F as [|f]; [lia|]. cbn [ftsize] in HF. rewrite deep_eq_S. cbn [under].
    destruct Hv as [Hv|Hv]; rewrite Hv; [reflexivity|].
    change (omit_view (S f) (TSlice e) (GList (glist v))) with (GList (map (omit_view f e) (glist v))).
    cbn [glist]. destruct (glist v) as [|x l] eqn:El; [reflexivity|].
    rewrite <- El in *. destruct (map (omit_view f e) (glist v)) eqn:Em; [rewrite El in Em; discriminate Em|].
    rewrite <- Em. rewrite El at 2. rewrite <- El.
    assert (Hd : deq_list f e (map (omit_view f e) (glist v)) (map Ne (glist v)) = true).
    { apply deq_list_map. intros y Hy. apply (g_deq _ _ _ _ (Hel y Hy)). lia. }
    rewrite El in Hd |- *. exact Hd.
  - intros g Hg. destruct g as [|g]; [cbn [ftsize] in Hg; lia|]. rewrite (emptyv_slice e v Hv).
    destruct Hv as [Hv|Hv]; rewrite Hv; reflexivity.
Qed.

(* maps *)
Lemma Mapkeys_gen f e (Ee : gvalue -> list event) kvs :
  is_prim e = false -> gtype_eqb e TIface = false ->
  (forall kv, In kv kvs -> forall evs, rf f false e (snd kv) = (evs, None) -> flat_map expand evs = Ee (snd kv)) ->
  forall evs, Mapkeys f e kvs = (evs, None) ->
    flat_map expand evs = flat_map (fun kv => EKey (fst kv) :: Ee (snd kv)) kvs.
Proof.
  intros Hp Hi. induction kvs as [|[k x] l IHl]; intros Hx evs H.
  - cbn in H. injection H as <-. reflexivity.
  - change (Mapkeys f e ((k, x) :: l)) with (fok [EKey k] ;; Mapval f e x ;; Mapkeys f e l) in H.
    apply fseq_fok_l in H. destruct H as (e2 & H & ->).
    apply fseq_ok in H. destruct H as (e1 & e3 & H1 & H2 & ->).
    unfold Mapval in H1. rewrite Hp, Hi in H1.
    cbn [flat_map app fst snd expand]. rewrite flat_map_app.
    rewrite (IHl (fun y Hy => Hx y (or_intror Hy)) _ H2).
    pose proof (Hx (k, x) (or_introl eq_refl) _ H1) as E1. cbn [snd] in E1. rewrite E1. reflexivity.
Qed.

Lemma deq_map_map f e (g1 g2 : gvalue -> gvalue) (kvs : list (bytes * gvalue)) :
  (forall kv, In kv kvs -> deep_eq f e (g1 (snd kv)) (g2 (snd kv)) = true) ->
  deq_map f e (map (fun kv => (fst kv, g1 (snd kv))) kvs) (map (fun kv => (fst kv, g2 (snd kv))) kvs) = true.
Proof.
  induction kvs as [|[k x] l IH]; intro H; [reflexivity|].
  cbn [map deq_map fst snd]. rewrite bytes_eqb_refl.
  pose proof (H (k, x) (or_introl eq_refl)) as Hx. cbn [snd] in Hx. rewrite Hx.
  cbn [andb]. apply IH. intros y Hy. apply H. right. exact Hy.
Qed.

Lemma good_map e v (Ee : gvalue -> list event) (Ne : gvalue -> gvalue) :
  is_prim e = false -> gtype_eqb e TIface = false ->
  (v = GNil \/ v = GMap (gmap v)) -> ssorted (map fst (gmap v)) = true ->
  (forall kv, In kv (gmap v) -> good e (snd kv) (Ee (snd kv)) (Ne (snd kv))) ->
  good (TMap e) v
       (EObjStart (zlen (gmap v)) BAny :: flat_map (fun kv => EKey (fst kv) :: Ee (snd kv)) (gmap v) ++ [EObjEnd])
       (match gmap v with
        | [] => if is_refl e then GMap [] else GNil
        | kvs => GMap (map (fun kv => (fst kv, Ne (snd kv))) kvs)
        end).
Proof.
  intros Hp Hi Hv Hs Hel. constructor.
  - intros f evs Hm H. destruct f as [|f]; [rewrite rf_O in H; discriminate H|].
    rewrite rf_S in H. cbn [prim_fold] in H. rewrite Hp in H.
    apply fseq_fok_l in H. destruct H as (e2 & H & ->).
    apply fseq_fok_r in H. destruct H as (e1 & H & ->).
    assert (Hg : glen v = zlen (gmap v)) by (destruct Hv as [->| ->]; reflexivity). rewrite Hg.
    cbn [app flat_map expand]. rewrite flat_map_app. cbn [flat_map expand app]. f_equal. f_equal.
    apply (Mapkeys_gen f e Ee (gmap v) Hp Hi); [|exact H].
    intros kv Hx evs Hr. apply (g_fold _ _ _ _ (Hel kv Hx) f evs); [|exact Hr].
    destruct Hv as [Hv|Hv]; [rewrite Hv in Hx; contradiction|].
    unfold msz in *. rewrite Hv in Hm. cbn [tsize] in Hm. rewrite vsize_map in Hm.
    pose proof (vsum_kv_in kv _ Hx). lia.
  - intros F rest HF. destruct F as [|f]; [cbn [ftsize] in HF; lia|]. cbn [ftsize] in HF.
    cbn [app]. rewrite <- app_assoc. cbn [app zero_of].
    etransitivity; [apply (uf_map_zeroN f (TMap e) e _ BAny Ee Ne); [reflexivity| |exact Hs]|destruct (gmap v); reflexivity].
    apply Forall_forall. intros kv Hx. destruct (Hel kv Hx) as [_ Gu Gh Gn _ _]. split; [exact Gh|]. split.
    + intro r. apply Gu. lia.
    + intros _ Hn. destruct (Gn Hn) as (E1 & E2 & _). split; assumption.
  - eexists; eexists; split; reflexivity.
  - intro Hn. discriminate Hn.
  - intros F HF. destruct F as [|f]; [lia|]. cbn [ftsize] in HF. rewrite deep_eq_S. cbn [under].
    destruct Hv as [Hv|Hv]; rewrite Hv; [cbn [gmap]; destruct (is_refl e); reflexivity|].
    change (omit_view (S f) (TMap e) (GMap (gmap v))) with (GMap (map (fun kv => (fst kv, omit_view f e (snd kv))) (gmap v))).
    cbn [gmap]. destruct (gmap v) as [|x l] eqn:El; [destruct (is_refl e); reflexivity|].
    rewrite <- El in *.
    assert (Hd : deq_map f e (map (fun kv => (fst kv, omit_view f e (snd kv))) (gmap v))
                   (map (fun kv => (fst kv, Ne (snd kv))) (gmap v)) = true).
    { apply deq_map_map. intros y Hy. apply (g_deq _ _ _ _ (Hel y Hy)). lia. }
    set (m := map (fun kv => (fst kv, omit_view f e (snd kv))) (gmap v)) at 1. destruct m; exact Hd.
  - intros g Hg. destruct g as [|g]; [cbn [ftsize] in Hg; lia|]. rewrite (emptyv_map e v Hv).
    destruct Hv as [Hv|Hv]; rewrite Hv; reflexivity.
Qed.

(* ---------- facts about the types of the fragment ---------- *)
Lemma nest_fields_in fs : nest_fields fs = true -> forall n tg ft, In (n, tg, ft) fs -> nest ft = true.
Proof.
  induction fs as [|[[n0 tg0] ft0] fs IH]; intros H n tg ft Hin; [contradiction|].
  cbn [nest_fields] in H. apply andb_true_iff in H. destruct H as [H H3]. apply andb_true_iff in H. destruct H as [H1 _].
  destruct Hin as [E|Hin]; [injection E as _ _ <-; exact H1|eauto].
Qed.

Lemma nest_not_iface t : nest t = true -> gtype_eqb t TIface = false.
Proof. destruct t; try discriminate; reflexivity. Qed.

Lemma nest_base_not_iface : forall t, nest t = true -> under (snd (base_type t)) <> TIface.
Proof.
  induction t; intro H; try discriminate H; cbn [base_type snd under]; try discriminate.
  - cbn [nest] in H. destruct (base_type t) as [n bt]. cbn [snd] in *. auto.
  - cbn [nest simple] in H. destruct t; try discriminate H; discriminate.
Qed.

Lemma deq_fields_zero f : forall fs,
  (forall n tg ft, In (n, tg, ft) fs -> deep_eq f ft (zero_of ft) (zero_of ft) = true) ->
  deq_fields f fs (zeros fs) (zeros fs) = true.
Proof.
  induction fs as [|[[n tg] ft] fs IH]; intro H; [reflexivity|].
  change (zeros ((n, tg, ft) :: fs)) with (zero_of ft :: zeros fs). cbn [deq_fields].
  rewrite (H n tg ft) by (left; reflexivity). cbn [andb]. apply IH. intros n' tg' ft' Hin. apply (H n' tg' ft'). right. exact Hin.
Qed.

Lemma tz_all : forall F t, nest t = true -> (ftsize t < F)%nat -> deep_eq F t (zero_of t) (zero_of t) = true.
Proof.
  induction F as [|f IH]; intros t Hn HF; [lia|].
  destruct t; try discriminate Hn; try (apply deep_eq_zero; [exact Hn || reflexivity|lia]); try reflexivity.
  rewrite nest_struct in Hn. apply andb_true_iff in Hn. destruct Hn as [Hnf _].
  rewrite zero_struct, deep_eq_S. cbn [under]. apply deq_fields_zero.
  intros n tg ft Hin. apply IH; [apply (nest_fields_in fs Hnf n tg ft Hin)|].
  rewrite ftsize_struct in HF. destruct (fsum_bounds fs) as [_ Hb]. specialize (Hb _ Hin). cbn [snd] in Hb. lia.
Qed.

Lemma ftab_ok_inv fs : ftab_okb fs = true -> exists tab, field_table (S (ftsize (TStruct fs))) fs O = inr tab.
Proof. unfold ftab_okb. destruct (field_table (S (ftsize (TStruct fs))) fs 0) as [e|tab]; [discriminate|eauto]. Qed.

(* the types in the field table are types of the fragment *)
Lemma field_table_nest : forall fuel fs idx tab, field_table fuel fs idx = inr tab -> nest_fields fs = true ->
  forall k path ft, In (k, (path, ft)) tab -> nest ft = true.
Proof.
  induction fuel as [|f IH]; intros fs idx tab H Hn k path ft Hin; [discriminate H|].
  cbn [field_table] in H. destruct fs as [|[[name tag] ft0] fs]; [injection H as <-; contradiction|].
  cbn [nest_fields] in Hn. apply andb_true_iff in Hn. destruct Hn as [Hn Hn3].
  apply andb_true_iff in Hn. destruct Hn as [Hnf _].
  destruct (field_table f fs (S idx)) as [err|b] eqn:Er.
  - destruct (negb (exported name)); [discriminate H|].
    destruct (parse_tags tag) as [tn o]. destruct (t_omit o); [discriminate H|].
    destruct (t_squash o); [destruct ft0; try discriminate H; destruct (field_table f fs0 0); discriminate H|discriminate H].
  - pose proof (IH _ _ _ Er Hn3) as Hb.
    destruct (negb (exported name)); [injection H as <-; eauto|].
    destruct (parse_tags tag) as [tn o]. destruct (t_omit o); [injection H as <-; eauto|].
    destruct (t_squash o).
    + destruct ft0; try discriminate H.
      destruct (field_table f fs0 0) as [err|sub] eqn:Es; [discriminate H|].
      match type of H with (if ?c then _ else _) = _ => destruct c end; [discriminate H|].
      injection H as <-. apply in_app_or in Hin. destruct Hin as [Hin|Hin]; [|eauto].
      apply in_map_iff in Hin. destruct Hin as ([k' [p' ft']] & E & Hin). cbn [fst snd] in E. injection E as _ _ ->.
      rewrite nest_struct in Hnf. apply andb_true_iff in Hnf. destruct Hnf as [Hnf' _].
      apply (IH _ _ _ Es Hnf' _ _ _ Hin).
    + match type of H with (if ?c then _ else _) = _ => destruct c end; [discriminate H|].
      injection H as <-. cbn [app] in Hin. destruct Hin as [Hin|Hin]; [|eauto].
      injection Hin as _ _ ->. exact Hnf.
Qed.

Lemma ucc_nest : forall F t, nest t = true -> (ftsize t <= F)%nat -> ucc F t = None.
Proof.
  induction F as [|f IH]; intros t Hn HF; [pose proof (ftsize_pos t); lia|].
  destruct t; try discriminate Hn; try reflexivity.
  - cbn [ucc under]. apply IH; [exact Hn|cbn [ftsize] in HF; lia].
  - cbn [ucc under]. destruct (prim_kind t || gtype_eqb t TIface); [reflexivity|].
    apply IH; [exact Hn|cbn [ftsize] in HF; lia].
  - cbn [ucc under]. destruct (prim_kind t || gtype_eqb t TIface); [reflexivity|].
    apply IH; [exact Hn|cbn [ftsize] in HF; lia].
  - rewrite nest_struct in Hn. apply andb_true_iff in Hn. destruct Hn as [Hnf Hok].
    destruct (ftab_ok_inv fs Hok) as [tab Et]. cbn [ucc under]. rewrite Et.
    assert (H : forall e, In e tab -> ucc f (snd (snd e)) = None).
    { intros [k [path ft]] He. cbn [snd]. apply IH; [apply (field_table_nest _ _ _ _ Et Hnf _ _ _ He)|].
      pose proof (field_table_ftsize _ _ _ _ Et _ _ _ He). rewrite ftsize_struct in HF. lia. }
    clear Et. induction tab as [|e l IHl]; [reflexivity|].
    cbn [fold_right]. rewrite (H e) by (left; reflexivity). apply IHl. intros e' He'. apply H. right. exact He'.
  - apply ucc_simple; [exact Hn|exact HF].
Qed.

(* ---------- the fields of a struct ---------- *)
Lemma resolve_noif f ft fv : under (snd (base_type ft)) <> TIface ->
  resolve (S f) ft fv = resolve 1 ft fv /\
  (forall t' v', resolve 1 ft fv = Some (t', v') ->
     t' = snd (base_type ft) /\ Fold.deref (fst (base_type ft)) fv = Some v').
Proof.
  intro Hni. cbn [resolve].
  destruct (base_type ft) as [n bt]. cbn [fst snd] in *.
  destruct (Fold.deref n fv) as [bv|]; [|split; [reflexivity|discriminate]].
  destruct (under bt); try contradiction; (split; [reflexivity|]); intros t' v' H;
    try (injection H as <- <-; split; reflexivity);
    (destruct (Fold.glen bv >? 0); [injection H as <- <-; split; reflexivity|discriminate H]).
Qed.

Lemma rf_base ft n bt fv bv f e3 : base_type ft = (n, bt) -> Fold.deref n fv = Some bv ->
  rf f false bt bv = (e3, None) -> exists f', (f <= f')%nat /\ rf f' false ft fv = (e3, None).
Proof.
  intros Eb Hd H. destruct (base_type_cases ft n bt Eb) as [[-> ->]|[u0 ->]].
  - cbn [Fold.deref] in Hd. injection Hd as ->. exists f. split; [lia|exact H].
  - exists (S f). split; [lia|]. rewrite rf_S. cbn [prim_fold]. rewrite Eb, Hd. exact H.
Qed.

Lemma Resolved_noif f t' v' evs : under t' <> TIface -> Resolved f t' v' = (evs, None) ->
  rf f false t' v' = (evs, None).
Proof.
  intros Hni H. unfold Resolved in H. destruct t'; try (apply Anyr_rf_ok; exact H). cbn [under] in Hni. contradiction.
Qed.

Inductive fields_good : list (bytes * bytes * gtype) -> list gvalue -> Prop :=
| fg_nil : fields_good [] []
| fg_cons name tag ft fr fv vr :
    inl_field name tag = false ->
    good ft fv (xev2 ft fv) (nv2 ft fv) -> fields_good fr vr ->
    fields_good ((name, tag, ft) :: fr) (fv :: vr)
| fg_inl name tag ifs fr ivs vr :
    inl_field name tag = true -> t_omitempty (snd (parse_tags tag)) = false ->
    fields_good ifs ivs ->
    good (TStruct ifs) (GStruct ivs) (xev2 (TStruct ifs) (GStruct ivs)) (nv2 (TStruct ifs) (GStruct ivs)) ->
    fields_good fr vr ->
    fields_good ((name, tag, TStruct ifs) :: fr) (GStruct ivs :: vr).

Lemma tsum_cons n tg ft fs : tsum ((n, tg, ft) :: fs) = S (tsize ft + tsum fs).
Proof. reflexivity. Qed.
Lemma vsum_cons x l : vsum (x :: l) = (vsize x + vsum l)%nat.
Proof. reflexivity. Qed.

Lemma Fields_ev2 : forall fs vs, fields_good fs vs -> forall f evs,
  nest_fields fs = true -> (tsum fs + vsum vs <= S f)%nat ->
  Fields (S f) fs vs = (evs, None) -> flat_map expand evs = fields_ev2 fs vs.
Proof.
  induction 1 as [|name tag ft fs fv vs Hinl Hgd Hgs IH|name tag ifs fs ivs vs Hinl Hoe Hgi IHi Hgd Hgs IH];
    intros f evs Hn Hb H.
  - rewrite Fields_nil_l in H. injection H as <-. reflexivity.
  - cbn [nest_fields] in Hn. apply andb_true_iff in Hn. destruct Hn as [Hn Hn3].
    apply andb_true_iff in Hn. destruct Hn as [Hnf _].
    rewrite tsum_cons, vsum_cons in Hb.
    rewrite Fields_cons in H. apply fseq_ok in H. destruct H as (e1 & e2 & H1 & H2 & ->).
    rewrite flat_map_app, (IH f e2 Hn3 ltac:(lia) H2). cbn [fields_ev2]. rewrite Hinl. f_equal.
    assert (Hfold : forall f' e3, (S f <= f')%nat -> rf f' false ft fv = (e3, None) -> flat_map expand e3 = xev2 ft fv).
    { intros f' e3 Hle Hr. apply (g_fold _ _ _ _ Hgd f' e3); [unfold msz; lia|exact Hr]. }
    unfold Field1 in H1. unfold inl_field, emitted, emittable, fkey in *.
    destruct (exported name); cbn [negb andb orb] in *; [|injection H1 as <-; reflexivity].
    destruct (parse_tags tag) as [tn o]. cbn [fst snd] in *.
    destruct (t_omit o); cbn [negb orb andb] in *; [injection H1 as <-; reflexivity|].
    destruct (t_squash o); [discriminate Hinl|].
    unfold Member in H1. destruct (t_omitempty o); cbn [andb].
    + destruct (resolve_noif f ft fv (nest_base_not_iface ft Hnf)) as [R1 R2]. rewrite R1 in H1. unfold emptyv.
      destruct (resolve 1 ft fv) as [[t' v']|] eqn:Er; cbn [negb]; [|injection H1 as <-; reflexivity].
      destruct (R2 t' v' eq_refl) as [-> Hd].
      apply fseq_fok_l in H1. destruct H1 as (e3 & H1 & ->).
      apply Resolved_noif in H1; [|apply nest_base_not_iface; exact Hnf].
      destruct (base_type ft) as [n bt] eqn:Eb. cbn [fst snd] in *.
      destruct (rf_base ft n bt fv v' (S f) e3 Eb Hd H1) as (f' & Hle & Hr).
      cbn [flat_map app expand]. rewrite (Hfold f' e3 Hle Hr). reflexivity.
    + apply fseq_fok_l in H1. destruct H1 as (e3 & H1 & ->).
      cbn [flat_map app expand negb]. rewrite (Hfold (S f) e3 (le_n _) H1). reflexivity.
  - (* an inlined struct *)
    cbn [nest_fields] in Hn. apply andb_true_iff in Hn. destruct Hn as [Hn Hn3].
    apply andb_true_iff in Hn. destruct Hn as [Hnf _].
    rewrite nest_struct in Hnf. apply andb_true_iff in Hnf. destruct Hnf as [Hnfi _].
    rewrite tsum_cons, vsum_cons, tsize_struct, vsize_struct in Hb.
    rewrite Fields_cons in H. apply fseq_ok in H. destruct H as (e1 & e2 & H1 & H2 & ->).
    rewrite flat_map_app, (IH f e2 Hn3 ltac:(lia) H2). cbn [fields_ev2]. rewrite Hinl, xev2_members. f_equal.
    unfold Field1 in H1. unfold inl_field, emittable in Hinl.
    destruct (exported name); cbn [negb andb] in *; [|discriminate Hinl].
    destruct (parse_tags tag) as [tn o]. cbn [fst snd] in *.
    destruct (t_omit o); cbn [negb andb] in *; [discriminate Hinl|].
    rewrite Hinl in H1. unfold Inl in H1. cbn [base_type] in H1. unfold Inl2 in H1. cbn [Fold.deref under] in H1.
    destruct f as [|f]; [lia|]. rewrite rf_S in H1. cbn [prim_fold] in H1.
    apply (IHi f e1 Hnfi ltac:(lia) H1).
Qed.

Lemma deq_fields_nest f : forall fs vs,
  fields_good fs vs -> nest_fields fs = true ->
  (forall fd, In fd fs -> (ftsize (snd fd) < f)%nat) ->
  deq_fields f fs (ov_fields f fs vs) (fields_nv2 fs vs) = true.
Proof.
  assert (Hstep : forall name tag ft fv,
    good ft fv (xev2 ft fv) (nv2 ft fv) -> nest ft = true -> (ftsize ft < f)%nat ->
    deep_eq f ft
      (if negb (exported name) || t_omit (snd (parse_tags tag)) || (t_omitempty (snd (parse_tags tag)) && spec_empty (S f) ft fv)
       then zero_of ft else omit_view f ft fv)
      (if emitted name tag ft fv then nv2 ft fv else zero_of ft) = true).
  { intros name tag ft fv Hgd Hnf Hlt. rewrite (g_empty _ _ _ _ Hgd (S f)) by lia.
    unfold emitted, emittable.
    destruct (exported name); cbn [negb orb andb]; [|apply tz_all; [exact Hnf|lia]].
    destruct (t_omit (snd (parse_tags tag))); cbn [negb orb andb]; [apply tz_all; [exact Hnf|lia]|].
    destruct (t_omitempty (snd (parse_tags tag)) && emptyv ft fv); cbn [negb]; [apply tz_all; [exact Hnf|lia]|].
    apply (g_deq _ _ _ _ Hgd). exact Hlt. }
  induction 1 as [|name tag ft fs fv vs Hinl Hgd Hgs IH|name tag ifs fs ivs vs Hinl Hoe Hgi _ Hgd Hgs IH];
    intros Hn Hsz; [reflexivity| |];
    (cbn [nest_fields] in Hn; apply andb_true_iff in Hn; destruct Hn as [Hn Hn3];
     apply andb_true_iff in Hn; destruct Hn as [Hnf _];
     pose proof (Hsz _ (or_introl eq_refl)) as Hlt; cbn [snd] in Hlt;
     rewrite ov_fields_cons; cbn [fields_nv2 deq_fields];
     rewrite (IH Hn3 (fun fd Hfd => Hsz fd (or_intror Hfd))), andb_true_r;
     apply Hstep; assumption).
Qed.

Lemma good_struct fs vs tab : nest_fields fs = true ->
  field_table (S (ftsize (TStruct fs))) fs O = inr tab ->
  fields_good fs vs -> (forall f, (fsum fs <= f)%nat -> funf f tab [] O fs vs) ->
  good (TStruct fs) (GStruct vs)
       (EObjStart (count_fields fs) BAny :: fields_ev2 fs vs ++ [EObjEnd]) (GStruct (fields_nv2 fs vs)).
Proof.
  intros Hn Et Hg Hu. constructor.
  - intros f evs Hm H. unfold msz in Hm. rewrite tsize_struct, vsize_struct in Hm.
    destruct f as [|[|f]]; try lia.
    rewrite rf_S in H. cbn [prim_fold] in H.
    apply fseq_fok_l in H. destruct H as (e2 & H & ->).
    apply fseq_fok_r in H. destruct H as (e1 & H & ->).
    cbn [app flat_map expand]. rewrite flat_map_app. cbn [flat_map expand app]. f_equal. f_equal.
    apply (Fields_ev2 fs vs Hg f e1 Hn); [lia|exact H].
  - intros F rest HF. rewrite ftsize_struct in HF. destruct F as [|f]; [lia|].
    cbn [app]. rewrite <- app_assoc. cbn [app].
    apply (uf_nested_struct fs vs tab); [exact Et|]. apply Hu. lia.
  - eexists; eexists; split; reflexivity.
  - intro H. discriminate H.
  - intros F HF. destruct F as [|f]; [lia|]. rewrite deep_eq_S, omit_view_struct. cbn [under].
    apply deq_fields_nest; [exact Hg|exact Hn|].
    intros fd Hfd. rewrite ftsize_struct in HF. destruct (fsum_bounds fs) as [_ Hin]. specialize (Hin fd Hfd). lia.
  - intros g Hg'. destruct g as [|g]; [cbn [ftsize] in Hg'; lia|]. reflexivity.
Qed.

(* ---------- every well-typed value of the fragment ---------- *)
Lemma prim_simple e : is_prim e = true -> simple e = true.
Proof. destruct e; try discriminate; reflexivity. Qed.

Lemma wt2_fields_nil vs : wt2_fields [] vs = true -> vs = [].
Proof. destruct vs; [reflexivity|discriminate]. Qed.

Lemma fld_ok_inl name tag ft : inl_field name tag = true -> fld_ok name tag ft = true ->
  (exists ifs, ft = TStruct ifs) /\ t_omitempty (snd (parse_tags tag)) = false.
Proof.
  unfold fld_ok. intros -> H. cbn [negb orb] in H. apply andb_true_iff in H. destruct H as [H1 H2].
  apply negb_true_iff in H2. split; [|exact H2]. destruct ft; try discriminate H1. eauto.
Qed.

Section Build.
  Variable n : nat.
  Hypothesis IHn : forall t v, (ftsize t <= n)%nat -> nest t = true -> wt2 t v = true ->
    good t v (xev2 t v) (nv2 t v).

  Lemma build_funf : forall tab pp idx fs, tabfor tab pp idx fs ->
    forall vs f, nest_fields fs = true -> wt2_fields fs vs = true -> (fsum fs <= n)%nat -> (fsum fs <= f)%nat ->
    funf f tab pp idx fs vs.
  Proof.
    induction 1 as [pp idx|pp idx name tag ft r He _ IH|pp idx name tag ft r He Hs Hk _ IH
                   |pp idx name tag ifs r He Hs _ IHin _ IH]; intros vs f Hn Hw Hb Hf.
    - rewrite (wt2_fields_nil vs Hw). constructor.
    - destruct vs as [|fv vr]; [discriminate Hw|].
      cbn [nest_fields] in Hn. apply andb_true_iff in Hn. destruct Hn as [_ Hn3].
      cbn [wt2_fields] in Hw. apply andb_true_iff in Hw. destruct Hw as [_ Hw]. rewrite fsum_cons in Hb, Hf.
      apply fu_skip; [exact He|]. apply IH; [exact Hn3|exact Hw|lia|lia].
    - destruct vs as [|fv vr]; [discriminate Hw|].
      cbn [nest_fields] in Hn. apply andb_true_iff in Hn. destruct Hn as [Hn Hn3].
      apply andb_true_iff in Hn. destruct Hn as [Hnf _].
      cbn [wt2_fields] in Hw. apply andb_true_iff in Hw. destruct Hw as [Hwf Hw]. rewrite fsum_cons in Hb, Hf.
      apply fu_plain; [exact He|exact Hs|exact Hk| |apply IH; [exact Hn3|exact Hw|lia|lia]].
      intro rest. apply (g_unf _ _ _ _ (IHn ft fv ltac:(lia) Hnf Hwf)). lia.
    - destruct vs as [|fv vr]; [discriminate Hw|].
      cbn [nest_fields] in Hn. apply andb_true_iff in Hn. destruct Hn as [Hn Hn3].
      apply andb_true_iff in Hn. destruct Hn as [Hnf Hok].
      cbn [wt2_fields] in Hw. apply andb_true_iff in Hw. destruct Hw as [Hwf Hw].
      rewrite fsum_cons, ftsize_struct in Hb, Hf.
      destruct fv; try discriminate Hwf. rewrite wt2_struct in Hwf.
      rewrite nest_struct in Hnf. apply andb_true_iff in Hnf. destruct Hnf as [Hnfi _].
      assert (Hinl : inl_field name tag = true) by (unfold inl_field; rewrite He, Hs; reflexivity).
      destruct (fld_ok_inl name tag _ Hinl Hok) as [_ Hoe].
      apply fu_inl; [exact He|exact Hs|exact Hoe|apply IHin; [exact Hnfi|exact Hwf|lia|lia]
                    |apply IH; [exact Hn3|exact Hw|lia|lia]].
  Qed.

  Lemma build_fg : forall m fs vs, (fsum fs <= m)%nat -> (m <= n)%nat ->
    nest_fields fs = true -> wt2_fields fs vs = true -> fields_good fs vs.
  Proof.
    induction m as [|m IHm]; intros fs.
    - intros vs Hb _ _ Hw. destruct fs as [|[[name tag] ft] fs]; [|rewrite fsum_cons in Hb; lia].
      rewrite (wt2_fields_nil vs Hw). constructor.
    - induction fs as [|[[name tag] ft] fs IHfs]; intros vs Hb Hmn Hn Hw.
      + rewrite (wt2_fields_nil vs Hw). constructor.
      + destruct vs as [|fv vr]; [discriminate Hw|].
        cbn [nest_fields] in Hn. apply andb_true_iff in Hn. destruct Hn as [Hn Hn3].
        apply andb_true_iff in Hn. destruct Hn as [Hnf Hok].
        cbn [wt2_fields] in Hw. apply andb_true_iff in Hw. destruct Hw as [Hwf Hw]. rewrite fsum_cons in Hb.
        assert (Htail : fields_good fs vr) by (apply IHfs; [lia|exact Hmn|exact Hn3|exact Hw]).
        destruct (inl_field name tag) eqn:Hinl.
        * destruct (fld_ok_inl name tag ft Hinl Hok) as [[ifs ->] Hoe].
          destruct fv; try discriminate Hwf.
          rewrite ftsize_struct in Hb.
          apply fg_inl; [exact Hinl|exact Hoe| |apply IHn; [rewrite ftsize_struct; lia|exact Hnf|exact Hwf]|exact Htail].
          rewrite nest_struct in Hnf. apply andb_true_iff in Hnf. destruct Hnf as [Hnfi _].
          rewrite wt2_struct in Hwf. apply IHm; [lia|lia|exact Hnfi|exact Hwf].
        * apply fg_cons; [exact Hinl|apply IHn; [lia|exact Hnf|exact Hwf]|exact Htail].
  Qed.
End Build.

Theorem good_all : forall n t v, (ftsize t <= n)%nat -> nest t = true -> wt2 t v = true ->
  good t v (xev2 t v) (nv2 t v).
Proof.
  induction n as [|n IH]; intros t v Hsz Hn Hw; [pose proof (ftsize_pos t); lia|].
  destruct t; try discriminate Hn.
  - exact (good_simple TBool v eq_refl Hw).
  - exact (good_simple TString v eq_refl Hw).
  - exact (good_simple (TNum k) v eq_refl Hw).
  - (* pointer *)
    cbn [nest] in Hn. cbn [ftsize] in Hsz. destruct v; try discriminate Hw.
    + exact (good_ptr_nil t).
    + cbn [wt2] in Hw. exact (good_ptr t v _ _ (IH t v ltac:(lia) Hn Hw)).
  - (* slice *)
    cbn [nest] in Hn. cbn [ftsize] in Hsz. destruct (is_prim t) eqn:Hp.
    + assert (Hs : simple (TSlice t) = true) by (cbn [simple]; apply prim_simple; exact Hp).
      rewrite xev2_simple, nv2_simple by exact Hs. rewrite wt2_simple in Hw by exact Hs. apply good_simple; assumption.
    + assert (Hv : v = GNil \/ v = GList (glist v)) by (destruct v; try discriminate Hw; auto).
      assert (Hel : forall x, In x (glist v) -> good t x (xev2 t x) (nv2 t x)).
      { intros x Hx. apply IH; [lia|exact Hn|]. destruct v; try contradiction. cbn [wt2 glist] in *.
        rewrite forallb_forall in Hw. auto. }
      pose proof (good_slice t v (xev2 t) (nv2 t) Hp Hv Hel) as G.
      cbn [xev2 nv2]. rewrite Hp. exact G.
  - (* map *)
    cbn [nest] in Hn. cbn [ftsize] in Hsz. destruct (is_prim t) eqn:Hp.
    + assert (Hs : simple (TMap t) = true) by (cbn [simple]; apply prim_simple; exact Hp).
      rewrite xev2_simple, nv2_simple by exact Hs. rewrite wt2_simple in Hw by exact Hs. apply good_simple; assumption.
    + assert (Hv : v = GNil \/ v = GMap (gmap v)) by (destruct v; try discriminate Hw; auto).
      assert (Hs : ssorted (map fst (gmap v)) = true).
      { destruct v; try reflexivity. cbn [wt2 gmap] in *. apply andb_true_iff in Hw. tauto. }
      assert (Hel : forall kv, In kv (gmap v) -> good t (snd kv) (xev2 t (snd kv)) (nv2 t (snd kv))).
      { intros kv Hx. apply IH; [lia|exact Hn|]. destruct v; try contradiction. cbn [wt2 gmap] in *.
        apply andb_true_iff in Hw. destruct Hw as [Hw _]. rewrite forallb_forall in Hw. auto. }
      pose proof (good_map t v (xev2 t) (nv2 t) Hp (nest_not_iface t Hn) Hv Hs Hel) as G.
      cbn [xev2 nv2]. rewrite Hp. exact G.
  - (* struct *)
    rewrite nest_struct in Hn. apply andb_true_iff in Hn. destruct Hn as [Hnf Hok].
    destruct (ftab_ok_inv fs Hok) as [tab Et].
    destruct v; try discriminate Hw. rewrite wt2_struct in Hw. rewrite ftsize_struct in Hsz.
    rewrite xev2_struct, nv2_struct. apply (good_struct fs vs tab Hnf Et).
    + apply (build_fg n IH (fsum fs) fs vs); [lia|lia|exact Hnf|exact Hw].
    + intros f Hf. apply (build_funf n IH tab [] O fs); [|exact Hnf|exact Hw|lia|exact Hf].
      apply (field_table_tabfor _ _ _ _ Et). intros k p ft Hk. exact Hk.
  - exact (good_simple (TNamed t) v Hn Hw).
Qed.
Print Assumptions good_all.

Lemma fold_value_nest T v : nest T = true ->
  fold_value T v = ftop (4 * (tsize T + vsize v) + 8) T v.
Proof. intro Hn. unfold fold_value. destruct v; try reflexivity. destruct T; try discriminate Hn; reflexivity. Qed.

Lemma ftop_nest f T v evs : nest T = true -> simple T = false ->
  ftop (S f) T v = (evs, None) -> rf f false T v = (evs, None).
Proof.
  intros Hn Hs H. rewrite ftop_S in H.
  assert (HF : Fast f v T = None).
  { unfold Fast. destruct T; try discriminate Hn; try discriminate Hs; cbn [prim_fold]; try reflexivity.
    - cbn [nest simple] in *. destruct (is_prim T) eqn:Hp; [rewrite (prim_simple T Hp) in Hs; discriminate Hs|].
      destruct T; try discriminate Hn; reflexivity.
    - cbn [nest simple] in *. destruct (is_prim T) eqn:Hp; [rewrite (prim_simple T Hp) in Hs; discriminate Hs|].
      destruct T; try discriminate Hn; reflexivity. }
  rewrite HF in H.
  destruct T; try discriminate Hn; try discriminate Hs; try (apply Anyr_rf_ok; exact H).
  cbn [nest] in Hn. rewrite Hn in Hs. discriminate Hs.
Qed.

(* C11 (direct route) for nested structs: structs in structs, behind pointers, in slices and
   in string-keyed maps, to any depth; inlined (squash) structs, to any depth; names, "-",
   omit, omitempty and unexported fields.
   Not covered: inlined pointers / maps / interfaces (Unfold refuses them), interface{}-typed
   fields and elements, arrays, defined (named) struct / pointer types. *)
Theorem C11_direct_nested_partial : forall T v evs,
  nest T = true -> wt2 T v = true -> fold_value T v = (evs, None) ->
  exists v', unfold_value T (zero_of T) evs = UDone v' /\
             forall F, (ftsize T < F)%nat -> deep_eq F T (omit_view F T v) v' = true.
Proof.
  intros T v evs Hn Hw H. destruct (simple T) eqn:Hs.
  - apply C11_direct_partial'; [exact Hs|rewrite <- wt2_simple by exact Hs; exact Hw|exact H].
  - pose proof (good_all (ftsize T) T v (le_n _) Hn Hw) as [Gf Gu _ _ Gd _].
    exists (nv2 T v). split; [|exact Gd].
    rewrite fold_value_nest in H by exact Hn.
    replace (4 * (tsize T + vsize v) + 8)%nat with (S (4 * (tsize T + vsize v) + 7)) in H by lia.
    apply (ftop_nest _ T v evs Hn Hs) in H.
    assert (Hx : flat_map expand evs = xev2 T v) by (apply (Gf _ evs) in H; [exact H|unfold msz; lia]).
    unfold unfold_value, ucc_type. rewrite (ucc_nest _ T Hn) by lia. rewrite Hx.
    rewrite <- (app_nil_r (xev2 T v)) at 2. rewrite Gu by lia. reflexivity.
Qed.
Print Assumptions C11_direct_nested_partial.

(* what comes back is [nv2 T v] *)
Corollary C11_direct_nested_value : forall T v evs,
  nest T = true -> wt2 T v = true -> fold_value T v = (evs, None) ->
  unfold_value T (zero_of T) evs = UDone (nv2 T v).
Proof.
  intros T v evs Hn Hw H. destruct (simple T) eqn:Hs.
  - rewrite nv2_simple by exact Hs. rewrite wt2_simple in Hw by exact Hs.
    rewrite fold_value_ftop in H by exact Hs. pose proof (ftop_xev _ _ _ _ Hs Hw H) as Hx.
    unfold unfold_value, ucc_type. rewrite (ucc_simple _ T Hs) by lia. rewrite Hx.
    rewrite <- (app_nil_r (xev true T v)) at 2. rewrite (unfold_all _ T v true [] Hs Hw); [reflexivity|lia].
  - pose proof (good_all (ftsize T) T v (le_n _) Hn Hw) as [Gf Gu _ _ _ _].
    rewrite fold_value_nest in H by exact Hn.
    replace (4 * (tsize T + vsize v) + 8)%nat with (S (4 * (tsize T + vsize v) + 7)) in H by lia.
    apply (ftop_nest _ T v evs Hn Hs) in H.
    assert (Hx : flat_map expand evs = xev2 T v) by (apply (Gf _ evs) in H; [exact H|unfold msz; lia]).
    unfold unfold_value, ucc_type. rewrite (ucc_nest _ T Hn) by lia. rewrite Hx.
    rewrite <- (app_nil_r (xev2 T v)) at 2. rewrite Gu by lia. reflexivity.
Qed.

(* an instance: a struct with a struct field, an omitempty pointer to a struct, a slice of
   structs, an omitempty map of pointers to structs, an omitempty struct, a pointer to a
   pointer to a struct, a slice of pointers and a map of structs; the inner struct has an
   omitempty *string and an unexported field *)
Definition c11_inner : gtype :=
  TStruct [([88], [], TNum KInt); ([89], [44] ++ s_omitempty, TPtr TString); ([122], [], TBool)].
Definition c11_outer : gtype :=
  TStruct [([65], [], c11_inner);
           ([66], [44] ++ s_omitempty, TPtr c11_inner);
           ([67], [], TSlice c11_inner);
           ([68], [44] ++ s_omitempty, TMap (TPtr c11_inner));
           ([69], [44] ++ s_omitempty, c11_inner);
           ([70], [], TPtr (TPtr c11_inner));
           ([71], [], TSlice (TPtr (TNum KInt)));
           ([72], [], TMap c11_inner)].
Definition c11_iv (a : Z) (s : gvalue) : gvalue := GStruct [GNum a; s; GBool true].
Definition c11_v : gvalue :=
  GStruct [c11_iv 1 GNil; GPtr (c11_iv 2 (GPtr (GStr [120]))); GList [c11_iv 3 GNil; c11_iv 4 (GPtr (GStr []))];
           GMap [([97], GNil); ([98], GPtr (c11_iv 5 GNil))]; c11_iv 6 GNil; GPtr GNil; GList [GNil; GPtr (GNum 3)];
           GMap [([113], c11_iv 7 GNil)]].

Example C11_nested_example :
  nest c11_outer = true /\ wt2 c11_outer c11_v = true /\ snd (fold_value c11_outer c11_v) = None /\
  unfold_value c11_outer (zero_of c11_outer) (fst (fold_value c11_outer c11_v)) =
    UDone (GStruct
             [GStruct [GNum 1; GNil; GBool false];
              GPtr (GStruct [GNum 2; GPtr (GStr [120]); GBool false]);
              GList [GStruct [GNum 3; GNil; GBool false]; GStruct [GNum 4; GNil; GBool false]];
              GMap [([97], GNil); ([98], GPtr (GStruct [GNum 5; GNil; GBool false]))];
              GStruct [GNum 6; GNil; GBool false]; GNil;
              GList [GNil; GPtr (GNum 3)];
              GMap [([113], GStruct [GNum 7; GNil; GBool false])]]).
Proof. vm_compute. repeat split; reflexivity. Qed.

Lemma fold_value_split T v : snd (fold_value T v) = None -> fold_value T v = (fst (fold_value T v), None).
Proof. destruct (fold_value T v) as [evs e]. cbn [fst snd]. intros ->. reflexivity. Qed.

Example C11_nested_example_thm :
  exists v', unfold_value c11_outer (zero_of c11_outer) (fst (fold_value c11_outer c11_v)) = UDone v' /\
             forall F, (ftsize c11_outer < F)%nat -> deep_eq F c11_outer (omit_view F c11_outer c11_v) v' = true.
Proof.
  apply (C11_direct_nested_partial c11_outer c11_v); [vm_compute; reflexivity|vm_compute; reflexivity|].
  apply fold_value_split. vm_compute. reflexivity.
Qed.

(* inlined structs, one in the other, next to the same struct type as an ordinary field and
   in a slice *)
Definition c11_in2 : gtype := TStruct [([80], [], TNum KInt); ([81], [44] ++ s_omitempty, TString)].
Definition c11_in1 : gtype :=
  TStruct [([88], [], TNum KInt); ([73], [44] ++ s_inline, c11_in2); ([89], [], TPtr c11_in2)].
Definition c11_inl : gtype :=
  TStruct [([65], [], TString); ([66], [44] ++ s_squash, c11_in1); ([67], [], c11_in1); ([68], [], TSlice c11_in1)].
Definition c11_v2 (a : Z) (s : bytes) := GStruct [GNum a; GStr s].
Definition c11_v1 (a : Z) := GStruct [GNum a; c11_v2 (a + 1) [115]; GPtr (c11_v2 (a + 2) [])].
Definition c11_inl_v := GStruct [GStr [97]; c11_v1 10; c11_v1 20; GList [c11_v1 30]].

Example C11_inline_example :
  nest c11_inl = true /\ wt2 c11_inl c11_inl_v = true /\
  fst (fold_value c11_inl c11_inl_v) =
    [EObjStart (-1) BAny; EKey [97]; EVal (SStr [97]);
     EKey [120]; EVal (SNum KInt64 10); EKey [112]; EVal (SNum KInt64 11); EKey [113]; EVal (SStr [115]);
     EKey [121]; EObjStart (-1) BAny; EKey [112]; EVal (SNum KInt64 12); EObjEnd;
     EKey [99]; EObjStart (-1) BAny; EKey [120]; EVal (SNum KInt64 20); EKey [112]; EVal (SNum KInt64 21);
       EKey [113]; EVal (SStr [115]); EKey [121]; EObjStart (-1) BAny; EKey [112]; EVal (SNum KInt64 22); EObjEnd; EObjEnd;
     EKey [100]; EArrStart 1 BAny; EObjStart (-1) BAny; EKey [120]; EVal (SNum KInt64 30); EKey [112];
       EVal (SNum KInt64 31); EKey [113]; EVal (SStr [115]); EKey [121]; EObjStart (-1) BAny; EKey [112];
       EVal (SNum KInt64 32); EObjEnd; EObjEnd; EArrEnd; EObjEnd] /\
  unfold_value c11_inl (zero_of c11_inl) (fst (fold_value c11_inl c11_inl_v)) = UDone c11_inl_v.
Proof. vm_compute. repeat split; reflexivity. Qed.

Example C11_inline_example_thm :
  exists v', unfold_value c11_inl (zero_of c11_inl) (fst (fold_value c11_inl c11_inl_v)) = UDone v' /\
             forall F, (ftsize c11_inl < F)%nat -> deep_eq F c11_inl (omit_view F c11_inl c11_inl_v) v' = true.
Proof.
  apply (C11_direct_nested_partial c11_inl c11_inl_v); [vm_compute; reflexivity|vm_compute; reflexivity|].
  apply fold_value_split. vm_compute. reflexivity.
Qed.
