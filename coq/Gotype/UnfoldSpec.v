(* L0 for unfolding, written from the property texts (C11, C13), not from the unfolders:
     [generic]   the generic Go data an interface{} target holds after a stream: scalars keep
                 the Go type of their event, arrays become []interface{} and objects
                 map[string]interface{}, or the typed slice / map of the announced element
                 type; an empty container is the nil slice / nil map of that type;
     [omit_view] a Go value with every field that Fold legitimately drops (unexported, "-",
                 omit, empty omitempty) reset to its zero value;
     [deep_eq]   deep equality with nil and empty slices / maps identified; what an
                 interface holds is compared as the value it folds to.
   A pointer to a value that folds to null is identified with the nil pointer.
   No proofs here. *)
From SF Require Import Base.Prelude Core.Events Gotype.Types Gotype.FoldSpec.
Open Scope Z_scope.

Definition gen_elem_type (bt : btype) : gtype :=
  match bt with
  | BAny | BZero => TIface
  | BBool => TBool | BString => TString
  | BByte | BUint8 => TNum KUint8
  | BInt => TNum KInt | BInt8 => TNum KInt8 | BInt16 => TNum KInt16 | BInt32 => TNum KInt32 | BInt64 => TNum KInt64
  | BUint => TNum KUint | BUint16 => TNum KUint16 | BUint32 => TNum KUint32 | BUint64 => TNum KUint64
  | BFloat32 => TNum KFloat32 | BFloat64 => TNum KFloat64
  end.

Definition gen_scalar (s : scalar) : gvalue :=
  match s with
  | SNil => GNil
  | SBool b => GIface TBool (GBool b)
  | SStr x => GIface TString (GStr x)
  | SNum k z => GIface (TNum (match k with KByte => KUint8 | _ => k end)) (GNum z)
  end.

(* the element of a typed slice / map: the bare value *)
Definition gen_typed (s : scalar) : gvalue :=
  match s with SNil => GNil | SBool b => GBool b | SStr x => GStr x | SNum _ z => GNum z end.

Fixpoint gmap_put (k : bytes) (v : gvalue) (m : list (bytes * gvalue)) : list (bytes * gvalue) :=
  let ltb := (fix ltb (a b : bytes) : bool :=
                match a, b with
                | [], [] => false | [], _ => true | _, [] => false
                | x :: r, y :: s => if x <? y then true else if y <? x then false else ltb r s
                end) in
  match m with
  | [] => [(k, v)]
  | (k', v') :: r =>
      if bytes_eqb k k' then (k, v) :: r
      else if ltb k k' then (k, v) :: m
      else (k', v') :: gmap_put k v r
  end.

Definition gen_list (et : gtype) (l : list gvalue) : gvalue :=
  GIface (TSlice et) (match l with [] => GNil | _ => GList l end).
Definition gen_map (et : gtype) (kvs : list (bytes * gvalue)) : gvalue :=
  GIface (TMap et) (match kvs with [] => GNil | _ => GMap (fold_left (fun m kv => gmap_put (fst kv) (snd kv) m) kvs []) end).

Fixpoint generic (t : tree) : gvalue :=
  match t with
  | TVal s _ => gen_scalar s
  | TArr _ bt es =>
      match gen_elem_type bt with
      | TIface => gen_list TIface (map generic es)
      | et => gen_list et (map (fun e => match e with TVal s _ => gen_typed s | _ => GNil end) es)
      end
  | TObj _ bt ms =>
      match gen_elem_type bt with
      | TIface => gen_map TIface (map (fun m => (fst (fst m), generic (snd m))) ms)
      | et => gen_map et (map (fun m => (fst (fst m), match snd m with TVal s _ => gen_typed s | _ => GNil end)) ms)
      end
  | TXArr bt es => gen_list (gen_elem_type bt) (map gen_typed es)
  | TXObj bt ms => gen_map (gen_elem_type bt) (map (fun m => (fst m, gen_typed (snd m))) ms)
  end.

(* ---------- C11 ---------- *)
Fixpoint omit_view (fuel : nat) (t : gtype) (v : gvalue) : gvalue :=
  match fuel with
  | O => v
  | S f =>
      match under t, v with
      | TPtr u, GPtr x => GPtr (omit_view f u x)
      | TIface, GIface dt dv => GIface dt (omit_view f dt dv)
      | (TSlice u | TArray _ u), GList l => GList (map (omit_view f u) l)
      | TMap u, GMap kvs => GMap (map (fun kv => (fst kv, omit_view f u (snd kv))) kvs)
      | TStruct fs, GStruct vs =>
          GStruct ((fix go (fs : list (bytes * bytes * gtype)) (vs : list gvalue) : list gvalue :=
                      match fs, vs with
                      | (name, tag, ft) :: fr, fv :: vr =>
                          let o := snd (parse_tags tag) in
                          (if negb (exported name) || t_omit o || (t_omitempty o && spec_empty fuel ft fv)
                           then zero_of ft else omit_view f ft fv) :: go fr vr
                      | _, _ => []
                      end) fs vs)
      | _, _ => v
      end
  end.

(* objects compared modulo member order: what an interface holds comes back as a map *)
Fixpoint bytes_lt (a b : bytes) : bool :=
  match a, b with
  | [], [] => false | [], _ => true | _, [] => false
  | x :: r, y :: s => if x <? y then true else if y <? x then false else bytes_lt r s
  end.
Fixpoint cv_insert (k : bytes) (v : cvalue) (m : list (bytes * cvalue)) : list (bytes * cvalue) :=
  match m with
  | [] => [(k, v)]
  | (k', v') :: r =>
      if bytes_eqb k k' then (k, v) :: r            (* a map keeps the last of equal keys *)
      else if bytes_lt k k' then (k, v) :: m else (k', v') :: cv_insert k v r
  end.
Fixpoint cv_sort (v : cvalue) : cvalue :=
  match v with
  | CArr l => CArr (map cv_sort l)
  | CObj ms => CObj (fold_left (fun acc kv => cv_insert (fst kv) (snd kv) acc)
                               (map (fun kv => (fst kv, cv_sort (snd kv))) ms) [])
  | _ => v
  end.

Definition opt_cv_eqb (a b : option cvalue) : bool :=
  match a, b with Some x, Some y => cvalue_eqb (cv_sort x) (cv_sort y) | None, None => true | _, _ => false end.

Fixpoint deep_eq (fuel : nat) (t : gtype) (a b : gvalue) : bool :=
  match fuel with
  | O => false
  | S f =>
      match under t, a, b with
      | TBool, GBool x, GBool y => Bool.eqb x y
      | TString, GStr x, GStr y => bytes_eqb x y
      | TNum _, GNum x, GNum y => x =? y
      | TPtr _, GNil, GNil => true
      | TPtr u, GPtr x, GPtr y => deep_eq f u x y
      (* a pointer to something that folds to null and a nil pointer are the same value in
         every stream: no encoding can tell them apart *)
      | TPtr u, GPtr x, GNil | TPtr u, GNil, GPtr x => opt_cv_eqb (spec_fold fuel u x) (Some CNil)
      | TIface, GNil, GNil => true
      | TIface, GIface t1 v1, GNil | TIface, GNil, GIface t1 v1 => opt_cv_eqb (spec_fold fuel t1 v1) (Some CNil)
      | (TMapK _ | TUnsup), _, _ => true      (* never folded *)
      | TIface, GIface t1 v1, GIface t2 v2 => opt_cv_eqb (spec_fold fuel t1 v1) (spec_fold fuel t2 v2)
      | (TSlice _ | TMap _), GNil, GNil => true
      | TSlice _, GNil, GList [] | TSlice _, GList [], GNil => true
      | TMap _, GNil, GMap [] | TMap _, GMap [], GNil => true
      | (TSlice u | TArray _ u), GList l1, GList l2 =>
          (fix go (l1 l2 : list gvalue) : bool :=
             match l1, l2 with
             | [], [] => true
             | x :: r1, y :: r2 => deep_eq f u x y && go r1 r2
             | _, _ => false
             end) l1 l2
      | TMap u, GMap m1, GMap m2 =>
          (fix go (l1 l2 : list (bytes * gvalue)) : bool :=
             match l1, l2 with
             | [], [] => true
             | (k1, x) :: r1, (k2, y) :: r2 => bytes_eqb k1 k2 && deep_eq f u x y && go r1 r2
             | _, _ => false
             end) m1 m2
      | TStruct fs, GStruct v1, GStruct v2 =>
          (fix go (fs : list (bytes * bytes * gtype)) (l1 l2 : list gvalue) : bool :=
             match fs, l1, l2 with
             | [], [], [] => true
             | (_, _, ft) :: fr, x :: r1, y :: r2 => deep_eq f ft x y && go fr r1 r2
             | _, _, _ => false
             end) fs v1 v2
      | _, _, _ => false
      end
  end.
