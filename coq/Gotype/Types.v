(* Go types and values as far as gotype distinguishes them (reflect.Type / reflect.Value
   seen through the operations fold and unfold use).  No proofs here. *)
From SF Require Import Base.Prelude Core.Events.
Open Scope Z_scope.

Inductive gtype :=
| TBool | TString
| TNum (k : nkind)                 (* int8..int, uint8..uint, float32/64; KByte is not a Go type *)
| TIface                           (* interface{} *)
| TPtr (t : gtype)
| TSlice (t : gtype)
| TArray (n : Z) (t : gtype)
| TMap (t : gtype)                 (* map[string]t *)
| TMapK (t : gtype)                (* map with a non-string key kind *)
| TStruct (fs : list (bytes * bytes * gtype))   (* field name, value of the `struct` tag, type *)
| TNamed (t : gtype)               (* defined (named) non-struct type without methods, underlying t *)
| TUnsup.                          (* chan, func, complex, unsafe.Pointer, ... *)

Inductive gvalue :=
| GBool (b : bool)
| GStr (s : bytes)
| GNum (z : Z)                     (* integers: the value; floats: IEEE bits *)
| GNil                             (* nil pointer / interface / slice / map *)
| GPtr (v : gvalue)
| GList (vs : list gvalue)         (* non-nil slice, or array *)
| GIface (t : gtype) (v : gvalue)  (* non-nil interface: dynamic type and value *)
| GMap (kvs : list (bytes * gvalue))  (* non-nil map; listed sorted by key *)
| GStruct (vs : list gvalue).      (* one value per field, in field order *)

Fixpoint gtype_eqb (a b : gtype) : bool :=
  match a, b with
  | TBool, TBool | TString, TString | TIface, TIface | TUnsup, TUnsup => true
  | TNum x, TNum y => nkind_eqb x y
  | TPtr x, TPtr y | TSlice x, TSlice y | TMap x, TMap y | TMapK x, TMapK y | TNamed x, TNamed y => gtype_eqb x y
  | TArray n x, TArray m y => (n =? m) && gtype_eqb x y
  | TStruct f, TStruct g =>
      (fix go (l1 l2 : list (bytes * bytes * gtype)) : bool :=
         match l1, l2 with
         | [], [] => true
         | (n1, t1, x) :: r1, (n2, t2, y) :: r2 => bytes_eqb n1 n2 && bytes_eqb t1 t2 && gtype_eqb x y && go r1 r2
         | _, _ => false
         end) f g
  | _, _ => false
  end.

(* underlying type *)
Definition under (t : gtype) : gtype := match t with TNamed u => u | _ => t end.

(* baseType: strip pointer levels (named pointer types are not generated) *)
Fixpoint base_type (t : gtype) : nat * gtype :=
  match t with
  | TPtr u => let '(n, b) := base_type u in (S n, b)
  | _ => (O, t)
  end.

(* ---------- tags.go ---------- *)
Definition is_ws (c : Z) : bool := (c =? 32) || ((9 <=? c) && (c <=? 13)).
Fixpoint trim_l (b : bytes) : bytes :=
  match b with c :: r => if is_ws c then trim_l r else b | [] => [] end.
Definition trim_space (b : bytes) : bytes := rev (trim_l (rev (trim_l b))).

(* strings.Split(s, ","): never empty *)
Fixpoint split_comma_acc (b : bytes) (cur : bytes) : list bytes :=
  match b with
  | [] => [rev cur]
  | c :: r => if c =? 44 then rev cur :: split_comma_acc r [] else split_comma_acc r (c :: cur)
  end.
Definition split_comma (b : bytes) : list bytes := split_comma_acc b [].

Record tagopts := { t_squash : bool; t_omitempty : bool; t_omit : bool }.
Definition tag_default := {| t_squash := false; t_omitempty := false; t_omit := false |}.

Definition s_squash := [115;113;117;97;115;104].
Definition s_inline := [105;110;108;105;110;101].
Definition s_omitempty := [111;109;105;116;101;109;112;116;121].
Definition s_omit := [111;109;105;116].

Definition parse_tags (tag : bytes) : bytes * tagopts :=
  match split_comma tag with
  | [] => ([], tag_default)
  | s0 :: rest =>
      if bytes_eqb s0 [45] then ([], {| t_squash := false; t_omitempty := false; t_omit := true |})
      else
        (trim_space s0,
         fold_left (fun o opt =>
            let w := trim_space opt in
            if bytes_eqb w s_squash || bytes_eqb w s_inline then {| t_squash := true; t_omitempty := t_omitempty o; t_omit := t_omit o |}
            else if bytes_eqb w s_omitempty then {| t_squash := t_squash o; t_omitempty := true; t_omit := t_omit o |}
            else if bytes_eqb w s_omit then {| t_squash := t_squash o; t_omitempty := t_omitempty o; t_omit := true |}
            else o) rest tag_default)
  end.

(* field names are ASCII identifiers in this model *)
Definition exported (name : bytes) : bool :=
  match name with c :: _ => (65 <=? c) && (c <=? 90) | [] => false end.
Definition to_lower (b : bytes) : bytes := map (fun c => if (65 <=? c) && (c <=? 90) then c + 32 else c) b.

Definition field_name (name tagname : bytes) : bytes :=
  match tagname with [] => to_lower name | _ => tagname end.

(* the BaseType / event kind of a numeric Go kind *)
Definition bt_of_kind (k : nkind) : btype :=
  match k with
  | KInt8 => BInt8 | KInt16 => BInt16 | KInt32 => BInt32 | KInt64 => BInt64 | KInt => BInt
  | KByte => BByte | KUint8 => BUint8 | KUint16 => BUint16 | KUint32 => BUint32 | KUint64 => BUint64 | KUint => BUint
  | KFloat32 => BFloat32 | KFloat64 => BFloat64
  end.

(* zero value of a type *)
Fixpoint zero_of (t : gtype) : gvalue :=
  match t with
  | TBool => GBool false
  | TString => GStr []
  | TNum _ => GNum 0
  | TIface | TPtr _ | TSlice _ | TMap _ | TMapK _ | TUnsup => GNil
  | TArray n u => GList (repeat (zero_of u) (Z.to_nat n))
  | TStruct fs => GStruct ((fix go (l : list (bytes * bytes * gtype)) : list gvalue :=
                              match l with [] => [] | (_, _, ft) :: r => zero_of ft :: go r end) fs)
  | TNamed u => zero_of u
  end.
