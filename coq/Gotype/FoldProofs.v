(* Proofs about the model of gotype.Fold (Gotype/Fold.v) against the Visitor contract
   (C09), error behaviour (C11, part) and the documented mapping (Gotype/FoldSpec.v, C12). *)
From Coq Require Import List NArith ZArith Bool Lia.
From Coq Require Import ZifyBool ZifyNat ZifyN.
From SF Require Import Base.Prelude Base.PreludeProofs Core.Events Core.EventsProofs Core.AdapterProofs.
From SF Require Import Gotype.Types Gotype.Fold Gotype.FoldSpec.
Import ListNotations.
Open Scope Z_scope.

Ltac Zify.zify_post_hook ::= Z.div_mod_to_equations.

(* ====================================================================== *)
(* Part 0: well-formed types, well-typed values                            *)
(* ====================================================================== *)

(* the underlying types of the defined (named) types: non-struct, non-pointer,
   non-interface *)
Definition named_ok (u : gtype) : bool :=
  match u with
  | TBool | TString | TNum _ | TSlice _ | TArray _ _ | TMap _ | TMapK _ => true
  | _ => false
  end.

(* Go types: KByte is not a Go kind, array lengths are not negative, field names and
   tags are byte strings, named types are as described in Types.v *)
Fixpoint type_ok (t : gtype) : bool :=
  match t with
  | TBool | TString | TIface | TUnsup => true
  | TNum k => negb (nkind_eqb k KByte)
  | TPtr u | TSlice u | TMap u | TMapK u => type_ok u
  | TArray n u => (0 <=? n) && type_ok u
  | TNamed u => named_ok u && type_ok u
  | TStruct fs =>
      (fix go (l : list (bytes * bytes * gtype)) : bool :=
         match l with
         | [] => true
         | (name, tag, ft) :: r => all_bytes name && all_bytes tag && type_ok ft && go r
         end) fs
  end.

Definition is_iface (t : gtype) : bool := match t with TIface => true | _ => false end.

Fixpoint hty (t : gtype) (v : gvalue) {struct v} : bool :=
  match under t, v with
  | TBool, GBool _ => true
  | TString, GStr s => all_bytes s
  | TNum k, GNum z => nkind_ok k z
  | TPtr _, GNil => true
  | TPtr u, GPtr x => hty u x
  | TSlice _, GNil => true
  | TSlice u, GList l => forallb (hty u) l
  | TArray n u, GList l => (zlen l =? n) && forallb (hty u) l
  | (TMap _ | TMapK _), GNil => true
  | (TMap u | TMapK u), GMap kvs => forallb (fun kv => all_bytes (fst kv) && hty u (snd kv)) kvs
  | TStruct fs, GStruct vs =>
      (fix go (fs : list (bytes * bytes * gtype)) (vs : list gvalue) {struct vs} : bool :=
         match fs, vs with
         | [], [] => true
         | (_, _, ft) :: fr, fv :: vr => hty ft fv && go fr vr
         | _, _ => false
         end) fs vs
  | TIface, GNil => true
  | TIface, GIface dt dv => type_ok dt && negb (is_iface dt) && hty dt dv
  | TUnsup, _ => true
  | _, _ => false
  end.

(* the Go value v has the Go type t *)
Definition has_type (t : gtype) (v : gvalue) : bool := type_ok t && hty t v.

(* ====================================================================== *)
(* Part 1: the local functions of rf / ftop, named; unfolding equations     *)
(* ====================================================================== *)

Definition Anyr (f : nat) (dt : gtype) (dv : gvalue) : fr :=
  match cc_type dt with Some e => ferr e | None => rf f false dt dv end.

Definition Elems (f : nat) (et : gtype) (l : list gvalue) : fr :=
  fold_right (fun x acc => rf f false et x ;; acc) (fok []) l.

Definition Mapval (f : nat) (et : gtype) (x : gvalue) : fr :=
  if is_prim et then
    match prim_scalar true et x with Some s => fok [EVal s] | None => ferr feUnsupported end
  else if gtype_eqb et TIface then
    match x with
    | GIface dt dv => ftop f dt dv
    | _ => fok [EVal SNil]
    end
  else rf f false et x.

Definition Mapkeys (f : nat) (et : gtype) (kvs : list (bytes * gvalue)) : fr :=
  fold_right (fun kv acc => fok [EKey (fst kv)] ;; Mapval f et (snd kv) ;; acc) (fok []) kvs.

(* an inlined field *)
Definition Inl2 (f : nat) (n : nat) (bt : gtype) (fv : gvalue) : fr :=
  match deref n fv with
  | None => fok []
  | Some bv =>
      match under bt, bv with
      | TStruct _, GStruct _ => rf f true bt bv
      | TMap et, GMap kvs => Mapkeys f et kvs
      | TMap _, _ => fok []
      | TIface, GIface dt dv => embed_obj (Anyr f dt dv)
      | TIface, _ => fok []
      | _, _ => ferr feSquashNeedObject
      end
  end.
Definition Inl (f : nat) (ft : gtype) (fv : gvalue) : fr :=
  let '(n, bt) := base_type ft in Inl2 f n bt fv.

(* an omitempty field that is not empty *)
Definition Resolved (f : nat) (t' : gtype) (v' : gvalue) : fr :=
  match t', v' with
  | TIface, GIface dt dv => Anyr f dt dv
  | TIface, _ => fok [EVal SNil]
  | _, _ => Anyr f t' v'
  end.

(* a named field *)
Definition Member (f : nat) (name' : bytes) (oe : bool) (ft : gtype) (fv : gvalue) : fr :=
  if oe then
    match resolve f ft fv with
    | None => fok []
    | Some (t', v') => fok [EKey name'] ;; Resolved f t' v'
    end
  else fok [EKey name'] ;; rf f false ft fv.

Definition Field1 (f : nat) (name tag : bytes) (ft : gtype) (fv : gvalue) : fr :=
  if negb (exported name) then fok [] else
  let '(tn, o) := parse_tags tag in
  if t_omit o then fok []
  else if t_squash o then Inl f ft fv
  else Member f (field_name name tn) (t_omitempty o) ft fv.

Definition Fields (f : nat) :=
  fix fields (fs : list (bytes * bytes * gtype)) (vs : list gvalue) : fr :=
  match fs, vs with
  | (name, tag, ft) :: fr', fv :: vr =>
      if negb (exported name) then fields fr' vr else
      let '(tn, o) := parse_tags tag in
      if t_omit o then fields fr' vr
      else if t_squash o then let '(n, bt) := base_type ft in (Inl2 f n bt fv ;; fields fr' vr)
      else Member f (field_name name tn) (t_omitempty o) ft fv ;; fields fr' vr
  | _, _ => fok []
  end.

Lemma rf_O inl t v : rf O inl t v = ([], Some feUnsupported).
Proof. reflexivity. Qed.

Lemma rf_S f inl t v :
  rf (S f) inl t v =
  match prim_fold false t v with
  | Some evs => fok evs
  | None =>
      match t with
      | TPtr _ =>
          let '(n, bt) := base_type t in
          match deref n v with
          | None => fok [EVal SNil]
          | Some bv => rf f false bt bv
          end
      | TStruct fs =>
          match v with
          | GStruct vs =>
              if inl then Fields f fs vs
              else fok [EObjStart (count_fields fs) BAny] ;; Fields f fs vs ;; fok [EObjEnd]
          | _ => ferr feUnsupported
          end
      | TMap et | TNamed (TMap et) =>
          fok [EObjStart (glen v) BAny] ;; Mapkeys f et (gmap v) ;; fok [EObjEnd]
      | TSlice et | TArray _ et | TNamed (TSlice et) | TNamed (TArray _ et) =>
          fok [EArrStart (glen v) BAny] ;; Elems f et (glist v) ;; fok [EArrEnd]
      | TIface =>
          match v with
          | GIface dt dv => Anyr f dt dv
          | _ => fok [EVal SNil]
          end
      | TNamed u =>
          match prim_scalar false u v with Some s => fok [EVal s] | None => ferr feUnsupported end
      | TMapK _ => ferr feMapKey
      | _ => ferr feUnsupported
      end
  end.
Proof. reflexivity. Qed.

Definition Ielem (f : nat) (x : gvalue) : fr :=
  match x with GIface dt dv => ftop f dt dv | _ => fok [EVal SNil] end.

Definition Fast (f : nat) (v : gvalue) (u : gtype) : option fr :=
  match prim_fold true u v with
  | Some evs => Some (fok evs)
  | None =>
      match u with
      | TSlice TIface =>
          Some (fok [EArrStart (glen v) BAny] ;;
                fold_right (fun x acc => Ielem f x ;; acc) (fok []) (glist v) ;; fok [EArrEnd])
      | TMap TIface =>
          Some (fok [EObjStart (glen v) BAny] ;;
                fold_right (fun kv acc => fok [EKey (fst kv)] ;; Ielem f (snd kv) ;; acc) (fok []) (gmap v) ;;
                fok [EObjEnd])
      | _ => None
      end
  end.

Lemma ftop_O t v : ftop O t v = ([], Some feUnsupported).
Proof. reflexivity. Qed.

Lemma ftop_S f t v :
  ftop (S f) t v =
  match Fast f v t with
  | Some r => r
  | None =>
      match t with
      | TNamed ((TMap _ | TSlice _) as u) =>
          match Fast f v u with Some r => r | None => Anyr f t v end
      | _ => Anyr f t v
      end
  end.
Proof. reflexivity. Qed.

(* ---------- examples (the statements below were tested on these first) ---------- *)
Definition s_A := [65]. Definition s_B := [66]. Definition s_C := [67].
Definition tg (l : list bytes) : bytes := concat (map (fun b => 44 :: b) l).   (* ",opt1,opt2" *)
Definition ex1_t := TStruct [(s_A, tg [s_omitempty], TPtr TString); (s_B, [], TNum KInt)].
Definition ex1_v := GStruct [GPtr (GStr []); GNum 5].
Definition ex2_t := TStruct [(s_A, tg [s_inline], TMap (TNum KInt)); (s_B, tg [s_inline], TIface)].
Definition ex2_v := GStruct [GMap [([120], GNum 1)]; GIface (TStruct [(s_C, [], TBool)]) (GStruct [GBool true])].
Definition ex3_t := TNamed (TSlice (TNum KInt)).
Definition ex3_v := GList [GNum 1; GNum 2].
Definition ex4_t := TSlice (TNum KUint8).
Definition ex4_v := GList [GNum 1; GNum 2].
Definition ex5_t := TStruct [(s_A, [], TSlice (TNum KUint8))].
Definition ex5_v := GStruct [ex4_v].

Eval vm_compute in (has_type ex1_t ex1_v, fold_value ex1_t ex1_v, spec_fold 100 ex1_t ex1_v).
Eval vm_compute in (has_type ex2_t ex2_v, fold_value ex2_t ex2_v, spec_fold 100 ex2_t ex2_v).
Eval vm_compute in (has_type ex3_t ex3_v, fold_value ex3_t ex3_v, spec_fold 100 ex3_t ex3_v).
Eval vm_compute in (has_type ex4_t ex4_v, fold_value ex4_t ex4_v, spec_fold 100 ex4_t ex4_v).
Eval vm_compute in (has_type ex5_t ex5_v, fold_value ex5_t ex5_v, spec_fold 100 ex5_t ex5_v).
Eval vm_compute in (map (fun tv => contract_ok (fst (fold_value (fst tv) (snd tv))))
   [(ex1_t, ex1_v); (ex2_t, ex2_v); (ex3_t, ex3_v); (ex4_t, ex4_v); (ex5_t, ex5_v)]).
(* the reason for excluding KByte (not a Go kind) in type_ok *)
Eval vm_compute in (let r := fold_value (TMap (TNum KByte)) GNil in (r, contract_ok (fst r))).

(* ====================================================================== *)
(* Part 2: helpers                                                         *)
(* ====================================================================== *)

#[local] Opaque rf ftop.

Lemma fseq_ok a k evs :
  fseq a k = (evs, None) -> exists e1 e2, a = (e1, None) /\ k tt = (e2, None) /\ evs = e1 ++ e2.
Proof.
  unfold fseq. destruct a as [e1 [x|]]; [discriminate|].
  destruct (k tt) as [e2 x]. intro H; inversion H; subst. eauto.
Qed.

Lemma fseq_nil_l (r : fr) : (fok [] ;; r) = r.
Proof. unfold fseq, fok. destruct r; reflexivity. Qed.

Lemma fseq_fok_l l (r : fr) evs :
  (fok l ;; r) = (evs, None) -> exists e2, r = (e2, None) /\ evs = l ++ e2.
Proof.
  intro H. apply fseq_ok in H. destruct H as (e1 & e2 & H1 & H2 & H3).
  unfold fok in H1. inversion H1; subst. eauto.
Qed.

Lemma fseq_fok_r (a : fr) l evs :
  (a ;; fok l) = (evs, None) -> exists e1, a = (e1, None) /\ evs = e1 ++ l.
Proof.
  intro H. apply fseq_ok in H. destruct H as (e1 & e2 & H1 & H2 & H3).
  unfold fok in H2. inversion H2; subst. eauto.
Qed.

Lemma ferr_ok e evs : ferr e = (evs, None) -> False.
Proof. unfold ferr. discriminate. Qed.

Lemma Fields_nil_l f vs : Fields f [] vs = fok [].
Proof. reflexivity. Qed.
Lemma Fields_nil_r f fs : Fields f fs [] = fok [].
Proof. destruct fs as [|[[a b] c] r]; reflexivity. Qed.

Lemma Fields_cons f name tag ft fs fv vs :
  Fields f ((name, tag, ft) :: fs) (fv :: vs) = Field1 f name tag ft fv ;; Fields f fs vs.
Proof.
  change (Fields f ((name, tag, ft) :: fs) (fv :: vs)) with
    (if negb (exported name) then Fields f fs vs else
      let '(tn, o) := parse_tags tag in
      if t_omit o then Fields f fs vs
      else if t_squash o then let '(n, bt) := base_type ft in (Inl2 f n bt fv ;; Fields f fs vs)
      else Member f (field_name name tn) (t_omitempty o) ft fv ;; Fields f fs vs).
  unfold Field1, Inl.
  destruct (negb (exported name)); [rewrite fseq_nil_l; reflexivity|].
  destruct (parse_tags tag) as [tn o].
  destruct (t_omit o); [rewrite fseq_nil_l; reflexivity|].
  destruct (t_squash o); [|reflexivity].
  destruct (base_type ft) as [n bt]. reflexivity.
Qed.

(* ---------- types and values ---------- *)
Definition type_ok_fields :=
  fix go (l : list (bytes * bytes * gtype)) : bool :=
    match l with
    | [] => true
    | (name, tag, ft) :: r => all_bytes name && all_bytes tag && type_ok ft && go r
    end.
Lemma type_ok_struct fs : type_ok (TStruct fs) = type_ok_fields fs.
Proof. reflexivity. Qed.

Definition hty_fields :=
  fix go (fs : list (bytes * bytes * gtype)) (vs : list gvalue) {struct vs} : bool :=
    match fs, vs with
    | [], [] => true
    | (_, _, ft) :: fr, fv :: vr => hty ft fv && go fr vr
    | _, _ => false
    end.
Lemma hty_struct fs vs : hty (TStruct fs) (GStruct vs) = hty_fields fs vs.
Proof. reflexivity. Qed.

Lemma hty_named u v : hty (TNamed u) v = hty u v \/ (exists w, u = TNamed w).
Proof.
  destruct u; try (left; destruct v; reflexivity). right. eauto.
Qed.

Lemma hty_named_ok u v : named_ok u = true -> hty (TNamed u) v = hty u v.
Proof. intro H. destruct u; try discriminate H; destruct v; reflexivity. Qed.

Lemma base_type_not_ptr t : forall m b, base_type t = (m, b) -> forall u, b <> TPtr u.
Proof.
  induction t; intros m b H u0; try (inversion H; subst; discriminate).
  cbn [base_type] in H. destruct (base_type t) as [n' b'] eqn:E. inversion H; subst.
  eapply IHt. reflexivity.
Qed.

Lemma hty_base t : forall m b v bv,
  type_ok t = true -> hty t v = true -> base_type t = (m, b) -> deref m v = Some bv ->
  type_ok b = true /\ hty b bv = true.
Proof.
  induction t; intros m b v bv Ht Hv Hb Hd;
    try (inversion Hb; subst; cbn [deref] in Hd; inversion Hd; subst; split; assumption).
  cbn [base_type] in Hb. destruct (base_type t) as [n' b'] eqn:E. inversion Hb; subst.
  cbn [deref] in Hd. destruct v; try discriminate Hd.
  cbn [type_ok] in Ht. cbn [hty under] in Hv. eapply IHt; eauto.
Qed.

(* ---------- tags ---------- *)
Lemma all_bytes_app a b : all_bytes (a ++ b) = all_bytes a && all_bytes b.
Proof. apply forallb_app. Qed.

Lemma all_bytes_rev a : all_bytes (rev a) = all_bytes a.
Proof.
  induction a as [|x a IH]; [reflexivity|]. cbn [rev]. rewrite all_bytes_app, IH.
  cbn [all_bytes forallb]. rewrite andb_true_r. apply andb_comm.
Qed.

Lemma all_bytes_trim_l a : all_bytes a = true -> all_bytes (trim_l a) = true.
Proof.
  induction a as [|x a IH]; [reflexivity|]. cbn [trim_l]. intro H.
  destruct (is_ws x); [|exact H]. apply IH. cbn [all_bytes forallb] in H.
  apply andb_true_iff in H. apply H.
Qed.

Lemma all_bytes_trim_space a : all_bytes a = true -> all_bytes (trim_space a) = true.
Proof.
  intro H. unfold trim_space. rewrite all_bytes_rev. apply all_bytes_trim_l.
  rewrite all_bytes_rev. apply all_bytes_trim_l. exact H.
Qed.

Lemma all_bytes_split b : forall cur, all_bytes b = true -> all_bytes cur = true ->
  forallb all_bytes (split_comma_acc b cur) = true.
Proof.
  induction b as [|c r IH]; intros cur Hb Hc.
  - cbn [split_comma_acc forallb]. rewrite all_bytes_rev, Hc. reflexivity.
  - cbn [all_bytes forallb] in Hb. apply andb_true_iff in Hb. destruct Hb as [Hc0 Hr].
    cbn [split_comma_acc]. destruct (c =? 44).
    + cbn [forallb]. rewrite all_bytes_rev, Hc. cbn [andb]. apply IH; [exact Hr|reflexivity].
    + apply IH; [exact Hr|]. cbn [all_bytes forallb]. rewrite Hc0. exact Hc.
Qed.

Lemma all_bytes_tagname tag : all_bytes tag = true -> all_bytes (fst (parse_tags tag)) = true.
Proof.
  intro H. unfold parse_tags. pose proof (all_bytes_split tag [] H eq_refl) as Hs.
  unfold split_comma. destruct (split_comma_acc tag []) as [|s0 rest]; [reflexivity|].
  cbn [forallb] in Hs. apply andb_true_iff in Hs. destruct Hs as [H0 _].
  destruct (bytes_eqb s0 [45]); [reflexivity|]. cbn [fst]. apply all_bytes_trim_space. exact H0.
Qed.

Lemma all_bytes_to_lower a : all_bytes a = true -> all_bytes (to_lower a) = true.
Proof.
  induction a as [|x a IH]; [reflexivity|]. cbn [all_bytes forallb to_lower map]. intro H.
  apply andb_true_iff in H. destruct H as [Hx Ha]. apply andb_true_iff. split.
  - unfold is_byte in *. destruct ((65 <=? x) && (x <=? 90)) eqn:E; lia.
  - apply IH. exact Ha.
Qed.

Lemma all_bytes_field_name name tag :
  all_bytes name = true -> all_bytes tag = true ->
  all_bytes (field_name name (fst (parse_tags tag))) = true.
Proof.
  intros Hn Ht. pose proof (all_bytes_tagname tag Ht) as H. unfold field_name.
  destruct (fst (parse_tags tag)); [apply all_bytes_to_lower; exact Hn|exact H].
Qed.

(* ====================================================================== *)
(* Part 3: C09 - a successful fold emits a well-formed stream              *)
(* ====================================================================== *)

Definition okv (evs : list event) : Prop := exists tr, evs = flatten tr /\ wf_tree tr = true.
Definition wf_members (ms : list (bytes * bool * tree)) : bool :=
  forallb (fun m => all_bytes (fst (fst m)) && wf_tree (snd m)) ms.
Definition okms (evs : list event) : Prop := exists ms, evs = flatten_members ms /\ wf_members ms = true.

Lemma flatten_val s : flatten (TVal s false) = [EVal s].
Proof. destruct s; reflexivity. Qed.

Lemma okv_val s : scalar_ok s = true -> okv [EVal s].
Proof. intro H. exists (TVal s false). split; [symmetry; apply flatten_val|exact H]. Qed.

Lemma flatten_members_app a b : flatten_members (a ++ b) = flatten_members a ++ flatten_members b.
Proof. apply flat_map_app. Qed.

Lemma wf_members_app a b : wf_members (a ++ b) = wf_members a && wf_members b.
Proof. apply forallb_app. Qed.

Lemma fok_inv l evs : fok l = (evs, None) -> evs = l.
Proof. unfold fok. intro H; inversion H; reflexivity. Qed.

(* loops: a sequence of folded values is a sequence of trees *)
Lemma seq_elems {A} (g : A -> fr) (R : A -> tree -> Prop) l : forall evs,
  (forall x e, In x l -> g x = (e, None) -> exists tr, e = flatten tr /\ R x tr) ->
  fold_right (fun x acc => g x ;; acc) (fok []) l = (evs, None) ->
  exists es, evs = flatten_elems es /\ Forall2 R l es.
Proof.
  induction l as [|a l IH]; intros evs Hg H; cbn [fold_right] in H.
  - apply fok_inv in H. subst. exists []. split; [reflexivity|constructor].
  - apply fseq_ok in H. destruct H as (e1 & e2 & H1 & H2 & ->).
    destruct (Hg a e1 (or_introl eq_refl) H1) as (tr & -> & Hr).
    destruct (IH e2 (fun x e Hx => Hg x e (or_intror Hx)) H2) as (es & -> & HF).
    exists (tr :: es). split; [reflexivity|constructor; assumption].
Qed.

Lemma seq_members {A} (h : A -> fr) (R : A -> tree -> Prop) (kvs : list (bytes * A)) : forall evs,
  (forall kv e, In kv kvs -> h (snd kv) = (e, None) -> exists tr, e = flatten tr /\ R (snd kv) tr) ->
  fold_right (fun kv acc => fok [EKey (fst kv)] ;; h (snd kv) ;; acc) (fok []) kvs = (evs, None) ->
  exists ms, evs = flatten_members ms /\
             Forall2 (fun kv m => fst m = (fst kv, false) /\ R (snd kv) (snd m)) kvs ms.
Proof.
  induction kvs as [|a l IH]; intros evs Hg H; cbn [fold_right] in H.
  - apply fok_inv in H. subst. exists []. split; [reflexivity|constructor].
  - apply fseq_fok_l in H. destruct H as (e0 & H & ->).
    apply fseq_ok in H. destruct H as (e1 & e2 & H1 & H2 & ->).
    destruct (Hg a e1 (or_introl eq_refl) H1) as (tr & -> & Hr).
    destruct (IH e2 (fun x e Hx => Hg x e (or_intror Hx)) H2) as (ms & -> & HF).
    exists ((fst a, false, tr) :: ms). split; [reflexivity|].
    constructor; [split; [reflexivity|exact Hr]|exact HF].
Qed.

Lemma Forall2_wf {A} (l : list A) es :
  Forall2 (fun _ tr => wf_tree tr = true) l es -> forallb wf_tree es = true /\ zlen es = zlen l.
Proof.
  induction 1 as [|x e l es Hx _ [IH1 IH2]]; [split; reflexivity|].
  cbn [forallb]. rewrite Hx, IH1. split; [reflexivity|]. unfold zlen in *. cbn [length]. lia.
Qed.

Lemma Forall2_wfm {A} (kvs : list (bytes * A)) ms :
  forallb (fun kv => all_bytes (fst kv)) kvs = true ->
  Forall2 (fun kv m => fst m = (fst kv, false) /\ wf_tree (snd m) = true) kvs ms ->
  wf_members ms = true /\ zlen ms = zlen kvs.
Proof.
  intros Hk HF. induction HF as [|x m l ms [Hx1 Hx2] _ IH]; [split; reflexivity|].
  cbn [forallb] in Hk. apply andb_true_iff in Hk. destruct Hk as [Hk1 Hk2].
  destruct (IH Hk2) as [IH1 IH2]. unfold wf_members in *. cbn [forallb].
  rewrite Hx1, Hx2, IH1. cbn [fst]. rewrite Hk1. split; [reflexivity|].
  unfold zlen in *. cbn [length]. lia.
Qed.

Lemma forallb_true {A} (l : list A) : forallb (fun _ => true) l = true.
Proof. induction l; [reflexivity|exact IHl]. Qed.

Lemma okv_arr len es :
  forallb wf_tree es = true -> len = zlen es ->
  okv (EArrStart len BAny :: flatten_elems es ++ [EArrEnd]).
Proof.
  intros Hwf ->. exists (TArr (zlen es) BAny es). split; [symmetry; apply flatten_arr|].
  rewrite wf_arr, len_ok_zlen, Hwf. cbn [tree_matches andb]. rewrite andb_true_r.
  apply forallb_true.
Qed.

Lemma okv_obj len ms :
  wf_members ms = true -> len_ok len ms = true ->
  okv (EObjStart len BAny :: flatten_members ms ++ [EObjEnd]).
Proof.
  intros Hwf Hl. exists (TObj len BAny ms). split; [symmetry; apply flatten_obj|].
  rewrite wf_obj, Hl. fold (wf_members ms). rewrite Hwf. cbn [tree_matches andb]. rewrite andb_true_r.
  apply forallb_true.
Qed.

(* ---------- the ExpectObjVisitor: removing the outermost object ---------- *)
Fixpoint noext (t : tree) : bool :=
  match t with
  | TVal _ _ => true
  | TArr _ _ es => forallb noext es
  | TObj _ _ ms => forallb (fun m => noext (snd m)) ms
  | _ => false
  end.

Lemma noext_expand : forall t, noext (expand_tree t) = true.
Proof.
  induction t as [s r|len bt es IH|len bt ms IH|bt es|bt ms] using tree_ind'; cbn [expand_tree noext].
  - reflexivity.
  - rewrite forallb_map. apply forallb_forall. rewrite Forall_forall in IH. exact IH.
  - rewrite forallb_map. apply forallb_forall. rewrite Forall_forall in IH. intros m Hm. cbn [snd]. apply IH, Hm.
  - rewrite forallb_map. apply forallb_true.
  - rewrite forallb_map. apply forallb_true.
Qed.

Definition expect_skips (evs : list event) : Prop :=
  forall d rest acc, 1 <= d -> expect_obj d (evs ++ rest) acc = expect_obj d rest (rev evs ++ acc).

Lemma expect_skips_app a b : expect_skips a -> expect_skips b -> expect_skips (a ++ b).
Proof.
  intros Ha Hb d rest acc Hd. rewrite <- app_assoc, Ha, Hb by exact Hd.
  rewrite rev_app_distr, <- app_assoc. reflexivity.
Qed.

Lemma expect_skips_nil : expect_skips [].
Proof. intros d rest acc Hd. reflexivity. Qed.

Lemma expect_skips_other e :
  match e with EObjStart _ _ | EObjEnd | EXArr _ _ | EXObj _ _ => False | _ => True end ->
  expect_skips [e].
Proof.
  intros He d rest acc Hd. cbn [app rev expect_obj].
  destruct e; try contradiction; (destruct (d =? 0) eqn:E; [lia|reflexivity]).
Qed.

Lemma expect_skips_obj body : expect_skips body -> forall len bt,
  expect_skips (EObjStart len bt :: body ++ [EObjEnd]).
Proof.
  intros Hb len bt d rest acc Hd. cbn [app expect_obj].
  destruct (d =? 0) eqn:E; [lia|]. rewrite <- app_assoc, Hb by lia. cbn [app expect_obj].
  destruct (d + 1 =? 1) eqn:E1; [lia|]. replace (d + 1 - 1) with d by lia.
  f_equal. cbn [rev]. rewrite rev_app_distr. cbn [rev app]. rewrite <- !app_assoc. reflexivity.
Qed.

Lemma expect_skips_tree : forall t, noext t = true -> expect_skips (flatten t).
Proof.
  induction t as [s r|len bt es IH|len bt ms IH|bt es|bt ms] using tree_ind'; intro Hn;
    try discriminate Hn.
  - destruct s, r; apply expect_skips_other; exact I.
  - rewrite flatten_arr. cbn [noext] in Hn.
    change (expect_skips ([EArrStart len bt] ++ flatten_elems es ++ [EArrEnd])).
    apply expect_skips_app; [apply expect_skips_other; exact I|].
    apply expect_skips_app; [|apply expect_skips_other; exact I].
    induction IH as [|e es He _ IHes]; [apply expect_skips_nil|].
    cbn [forallb] in Hn. apply andb_true_iff in Hn. destruct Hn as [Hn1 Hn2].
    rewrite flatten_elems_cons. apply expect_skips_app; [apply He, Hn1|apply IHes, Hn2].
  - rewrite flatten_obj. cbn [noext] in Hn. apply expect_skips_obj.
    induction IH as [|[[k r] e] ms He _ IHms]; [apply expect_skips_nil|].
    cbn [forallb snd] in Hn, He. apply andb_true_iff in Hn. destruct Hn as [Hn1 Hn2].
    rewrite flatten_members_cons.
    change (expect_skips ([key_event k r] ++ flatten e ++ flatten_members ms)).
    apply expect_skips_app; [destruct r; apply expect_skips_other; exact I|].
    apply expect_skips_app; [apply He, Hn1|apply IHms, Hn2].
Qed.

Lemma expect_skips_members ms :
  forallb (fun m => noext (snd m)) ms = true -> expect_skips (flatten_members ms).
Proof.
  induction ms as [|[[k r] e] ms IH]; intro Hn; [apply expect_skips_nil|].
  cbn [forallb snd] in Hn. apply andb_true_iff in Hn. destruct Hn as [Hn1 Hn2].
  rewrite flatten_members_cons.
  change (expect_skips ([key_event k r] ++ flatten e ++ flatten_members ms)).
  apply expect_skips_app; [destruct r; apply expect_skips_other; exact I|].
  apply expect_skips_app; [apply expect_skips_tree, Hn1|apply IH, Hn2].
Qed.

(* an inlined interface value must fold to an object; its members are passed on *)
Lemma embed_flatten tr out :
  embed_obj (flatten tr, None) = (out, None) ->
  exists len bt ms, expand_tree tr = TObj len bt ms /\ out = flatten_members ms.
Proof.
  unfold embed_obj. rewrite <- expand_deep_is_flatten.
  pose proof (noext_expand tr) as Hn.
  destruct (expand_tree tr) as [s r|len bt es|len bt ms|bt es|bt ms] eqn:E; try discriminate Hn.
  - destruct s, r; cbn; discriminate.
  - rewrite flatten_arr. cbn. discriminate.
  - rewrite flatten_obj. cbn [expect_obj Z.eqb]. cbn [noext] in Hn.
    rewrite (expect_skips_members ms Hn 1 [EObjEnd] []) by lia.
    cbn [expect_obj Z.eqb]. rewrite app_nil_r, rev_involutive. cbn [Z.eqb].
    intro H. inversion H. eauto.
Qed.

(* ---------- primitives and the typed slices / maps ---------- *)
Lemma nkind_ok_event k z : nkind_ok (num_event_kind k) z = nkind_ok k z.
Proof. destruct k; reflexivity. Qed.

Lemma prim_scalar_ok b t v s :
  hty t v = true -> prim_scalar b t v = Some s -> scalar_ok s = true.
Proof.
  intros Hv H. destruct t; try discriminate H; destruct v; try discriminate H;
    cbn [prim_scalar] in H; inversion H; subst; cbn [hty under scalar_ok] in *; try assumption; try reflexivity.
  destruct b; [assumption|]. rewrite nkind_ok_event. assumption.
Qed.

Lemma xscalar_ok e x : is_prim e = true -> hty e x = true ->
  xelem_ok (prim_bt e) (xscalar e x) = true.
Proof.
  intros He Hx. destruct e; try discriminate He; destruct x; try discriminate Hx;
    cbn [hty under] in Hx; cbn [prim_bt xscalar].
  - reflexivity.
  - unfold xelem_ok. cbn [scalar_matches scalar_ok andb]. exact Hx.
  - destruct k; unfold xelem_ok; cbn [bt_of_kind scalar_matches scalar_ok andb]; exact Hx.
Qed.

Lemma xscalar_ok_byte x : hty (TNum KUint8) x = true ->
  xelem_ok BByte (match xscalar (TNum KUint8) x with SNum _ z => SNum KByte z | s => s end) = true.
Proof.
  intro Hx. destruct x; try discriminate Hx. cbn [hty under] in Hx. cbn [xscalar].
  unfold xelem_ok. cbn [scalar_matches scalar_ok andb]. exact Hx.
Qed.

Lemma gtype_eqb_u8 e : gtype_eqb e (TNum KUint8) = true -> e = TNum KUint8.
Proof.
  destruct e; try discriminate. cbn [gtype_eqb]. destruct k; try discriminate. reflexivity.
Qed.

Lemma gtype_eqb_iface e : gtype_eqb e TIface = true -> e = TIface.
Proof. destruct e; try discriminate. reflexivity. Qed.

Lemma hty_slice_list e v : hty (TSlice e) v = true -> forallb (hty e) (glist v) = true.
Proof. destruct v; try discriminate; intro H; [reflexivity|exact H]. Qed.

Lemma hty_map_list e v : hty (TMap e) v = true ->
  forallb (fun kv => all_bytes (fst kv) && hty e (snd kv)) (gmap v) = true.
Proof. destruct v; try discriminate; intro H; [reflexivity|exact H]. Qed.

Lemma hty_array_list n e v : hty (TArray n e) v = true -> forallb (hty e) (glist v) = true.
Proof.
  destruct v; try discriminate. cbn [hty under glist]. intro H. apply andb_true_iff in H. apply H.
Qed.

Lemma prim_bt_not_byte e : is_prim e = true -> type_ok e = true -> btype_eqb (prim_bt e) BByte = false.
Proof.
  intros He Ht. destruct e; try discriminate He; try reflexivity.
  destruct k; try reflexivity. discriminate Ht.
Qed.

Lemma prim_fold_okv top t v evs :
  type_ok t = true -> hty t v = true -> prim_fold top t v = Some evs -> okv evs.
Proof.
  intros Ht Hv H. unfold prim_fold in H.
  destruct t; try discriminate H.
  - destruct (prim_scalar false TBool v) eqn:E; [|discriminate H]. inversion H; subst.
    apply okv_val. eapply prim_scalar_ok; eauto.
  - destruct (prim_scalar false TString v) eqn:E; [|discriminate H]. inversion H; subst.
    apply okv_val. eapply prim_scalar_ok; eauto.
  - destruct (prim_scalar false (TNum k) v) eqn:E; [|discriminate H]. inversion H; subst.
    apply okv_val. eapply prim_scalar_ok; eauto.
  - destruct (is_prim t) eqn:Ep; [|discriminate H]. inversion H; subst. clear H.
    apply hty_slice_list in Hv.
    eexists (TXArr _ _). split; [reflexivity|]. cbn [wf_tree]. rewrite forallb_map.
    apply forallb_forall. intros x Hx. rewrite forallb_forall in Hv. specialize (Hv x Hx).
    destruct (top && gtype_eqb t (TNum KUint8)) eqn:Eb.
    + apply andb_true_iff in Eb. destruct Eb as [_ Eb]. apply gtype_eqb_u8 in Eb. subst t.
      apply xscalar_ok_byte. exact Hv.
    + pose proof (xscalar_ok t x Ep Hv) as Hok.
      destruct (prim_bt t); try exact Hok.
      destruct (xscalar t x); try exact Hok. destruct k; try discriminate Hok; exact Hok.
  - destruct (is_prim t) eqn:Ep; [|discriminate H]. inversion H; subst. clear H.
    apply hty_map_list in Hv. cbn [type_ok] in Ht.
    eexists (TXObj _ _). split; [reflexivity|]. cbn [wf_tree].
    rewrite (prim_bt_not_byte t Ep Ht). cbn [negb andb]. rewrite forallb_map.
    apply forallb_forall. intros kv Hkv. rewrite forallb_forall in Hv. specialize (Hv kv Hkv).
    apply andb_true_iff in Hv. destruct Hv as [Hk Hx]. cbn [fst snd]. rewrite Hk.
    apply (xscalar_ok t (snd kv) Ep Hx).
Qed.

(* ---------- omitempty ---------- *)
Lemma resolve_hty f : forall t v t' v',
  type_ok t = true -> hty t v = true -> resolve f t v = Some (t', v') ->
  type_ok t' = true /\ hty t' v' = true.
Proof.
  induction f as [|f IH]; intros t v t' v' Ht Hv H; [discriminate H|].
  cbn [resolve] in H. destruct (base_type t) as [n bt] eqn:Eb.
  destruct (deref n v) as [bv|] eqn:Ed; [|discriminate H].
  destruct (hty_base t n bt v bv Ht Hv Eb Ed) as [Hbt Hbv].
  destruct (under bt) eqn:Eu;
    try (inversion H; subst; split; assumption);
    try (destruct (glen bv >? 0); [inversion H; subst; split; assumption|discriminate H]).
  destruct bv; try discriminate H.
  assert (Hi : type_ok t0 && negb (is_iface t0) && hty t0 bv = true).
  { destruct bt; try discriminate Eu; [exact Hbv|]. cbn [under] in Eu. subst. discriminate Hbt. }
  destruct (has_resolver t0).
  - apply andb_true_iff in Hi. destruct Hi as [Hi H3]. apply andb_true_iff in Hi. destruct Hi as [H1 H2].
    eapply IH; eauto.
  - inversion H; subst. split; [reflexivity|exact Hi].
Qed.

(* ---------- the induction ---------- *)
Definition P09 (f : nat) : Prop :=
  (forall inl t v evs, type_ok t = true -> hty t v = true -> rf f inl t v = (evs, None) ->
     (inl = false -> okv evs) /\ (inl = true -> forall fs, t = TStruct fs -> okms evs)) /\
  (forall t v evs, type_ok t = true -> hty t v = true -> ftop f t v = (evs, None) -> okv evs).

Lemma type_ok_under t : type_ok t = true -> type_ok (under t) = true.
Proof.
  destruct t; try (intro H; exact H). cbn [type_ok under]. intro H. apply andb_true_iff in H. apply H.
Qed.

Lemma hty_iface_inv dt dv : hty TIface (GIface dt dv) = true ->
  type_ok dt = true /\ is_iface dt = false /\ hty dt dv = true.
Proof.
  cbn [hty under]. intro H. apply andb_true_iff in H. destruct H as [H H3].
  apply andb_true_iff in H. destruct H as [H1 H2]. apply negb_true_iff in H2. auto.
Qed.

Lemma Anyr_okv f dt dv evs : P09 f ->
  type_ok dt = true -> hty dt dv = true -> Anyr f dt dv = (evs, None) -> okv evs.
Proof.
  intros [Hrf _] Ht Hv H. unfold Anyr in H. destruct (cc_type dt); [apply ferr_ok in H; contradiction|].
  destruct (Hrf false dt dv evs Ht Hv H) as [H1 _]. apply H1. reflexivity.
Qed.

Lemma Mapval_okv f et x evs : P09 f ->
  type_ok et = true -> hty et x = true -> Mapval f et x = (evs, None) -> okv evs.
Proof.
  intros HP Ht Hv H. unfold Mapval in H. destruct (is_prim et).
  - destruct (prim_scalar true et x) eqn:E; [|apply ferr_ok in H; contradiction].
    apply fok_inv in H. subst. apply okv_val. eapply prim_scalar_ok; eauto.
  - destruct (gtype_eqb et TIface) eqn:Ei.
    + apply gtype_eqb_iface in Ei. subst et.
      destruct x; try (apply fok_inv in H; subst; apply okv_val; reflexivity).
      apply hty_iface_inv in Hv. destruct Hv as (H1 & _ & H3).
      destruct HP as [_ Hft]. exact (Hft _ _ _ H1 H3 H).
    + destruct HP as [Hrf _]. destruct (Hrf false et x evs Ht Hv H) as [H1 _]. apply H1. reflexivity.
Qed.

Lemma Mapkeys_okms f et kvs evs : P09 f -> type_ok et = true ->
  forallb (fun kv => all_bytes (fst kv) && hty et (snd kv)) kvs = true ->
  Mapkeys f et kvs = (evs, None) ->
  exists ms, evs = flatten_members ms /\ wf_members ms = true /\ zlen ms = zlen kvs.
Proof.
  intros HP Ht Hv H. unfold Mapkeys in H.
  apply (seq_members (Mapval f et) (fun _ tr => wf_tree tr = true)) in H.
  - destruct H as (ms & -> & HF). cbv beta in HF. apply Forall2_wfm in HF.
    + exists ms. split; [reflexivity|exact HF].
    + apply forallb_forall. intros kv Hkv. rewrite forallb_forall in Hv. specialize (Hv kv Hkv).
      apply andb_true_iff in Hv. apply Hv.
  - intros kv e Hkv He. rewrite forallb_forall in Hv. specialize (Hv kv Hkv).
    apply andb_true_iff in Hv. destruct Hv as [_ Hx].
    apply (Mapval_okv f et (snd kv) e HP Ht Hx He).
Qed.

Lemma Elems_ok f et l evs : P09 f -> type_ok et = true -> forallb (hty et) l = true ->
  Elems f et l = (evs, None) ->
  exists es, evs = flatten_elems es /\ forallb wf_tree es = true /\ zlen es = zlen l.
Proof.
  intros [Hrf _] Ht Hv H. unfold Elems in H.
  apply (seq_elems (rf f false et) (fun _ tr => wf_tree tr = true)) in H.
  - destruct H as (es & -> & HF). apply Forall2_wf in HF. exists es. split; [reflexivity|exact HF].
  - intros x e Hx He. rewrite forallb_forall in Hv. specialize (Hv x Hx).
    destruct (Hrf false et x e Ht Hv He) as [H1 _]. apply H1. reflexivity.
Qed.

Lemma embed_ok_inv r out : embed_obj r = (out, None) -> exists e0, r = (e0, None).
Proof.
  unfold embed_obj. destruct r as [e0 [x|]]; [|eauto].
  destruct (expect_obj 0 (flat_map expand e0) []) as [[fw e2] depth]. destruct e2; discriminate.
Qed.

Lemma okms_nil : okms [].
Proof. exists []. split; reflexivity. Qed.

Lemma Inl2_okms f n bt fv evs : P09 f -> type_ok bt = true ->
  (forall bv, deref n fv = Some bv -> hty bt bv = true) ->
  Inl2 f n bt fv = (evs, None) -> okms evs.
Proof.
  intros HP Ht Hv H. unfold Inl2 in H.
  destruct (deref n fv) as [bv|]; [|apply fok_inv in H; subst; apply okms_nil].
  specialize (Hv bv eq_refl). pose proof (type_ok_under bt Ht) as Hu.
  destruct (under bt) as [ | |k| |u|u|n0 u|u|u|l|u| ] eqn:Eu;
    try (destruct bv; apply ferr_ok in H; contradiction).
  - (* interface *)
    destruct bv; try (apply fok_inv in H; subst; apply okms_nil).
    cbn [hty] in Hv. rewrite Eu in Hv. apply (hty_iface_inv _ bv) in Hv. destruct Hv as (H1 & _ & H3).
    destruct (embed_ok_inv _ _ H) as (e0 & He0). rewrite He0 in H.
    destruct (Anyr_okv f _ bv e0 HP H1 H3 He0) as (tr & -> & Hwf).
    apply embed_flatten in H. destruct H as (len & b & ms & Ex & ->).
    apply expand_deep_wf in Hwf. rewrite Ex, wf_obj in Hwf.
    apply andb_true_iff in Hwf. destruct Hwf as [_ Hwf]. exists ms. split; [reflexivity|exact Hwf].
  - (* map *)
    destruct bv; try (apply fok_inv in H; subst; apply okms_nil).
    cbn [hty] in Hv. rewrite Eu in Hv. cbn [type_ok] in Hu.
    destruct (Mapkeys_okms f u kvs evs HP Hu Hv H) as (ms & -> & Hwf & _).
    exists ms. split; [reflexivity|exact Hwf].
  - (* struct *)
    destruct bv; try (apply ferr_ok in H; contradiction).
    destruct bt; try discriminate Eu.
    + cbn [under] in Eu. subst. destruct HP as [Hrf _].
      destruct (Hrf true _ _ evs Ht Hv H) as [_ H2]. eapply H2; reflexivity.
    + cbn [under] in Eu. subst. discriminate Ht.
Qed.

Lemma Inl_okms f ft fv evs : P09 f -> type_ok ft = true -> hty ft fv = true ->
  Inl f ft fv = (evs, None) -> okms evs.
Proof.
  intros HP Ht Hv H. unfold Inl in H. destruct (base_type ft) as [n bt] eqn:Eb.
  assert (Hbt : type_ok bt = true).
  { clear H Hv. revert n bt Eb. induction ft; intros m b Eb; try (inversion Eb; subst; exact Ht).
    cbn [base_type] in Eb. destruct (base_type ft) as [n' b'] eqn:E. inversion Eb; subst.
    eapply IHft; [exact Ht|reflexivity]. }
  eapply Inl2_okms; eauto. intros bv Hd. exact (proj2 (hty_base ft n bt fv bv Ht Hv Eb Hd)).
Qed.

Lemma Resolved_okv f t' v' evs : P09 f -> type_ok t' = true -> hty t' v' = true ->
  Resolved f t' v' = (evs, None) -> okv evs.
Proof.
  intros HP Ht Hv H. unfold Resolved in H.
  destruct t'; try (eapply Anyr_okv; eauto; fail).
  destruct v'; try (apply fok_inv in H; subst; apply okv_val; reflexivity).
  apply hty_iface_inv in Hv. destruct Hv as (H1 & _ & H3). eapply Anyr_okv; eauto.
Qed.

Lemma okms_one k evs : all_bytes k = true -> okv evs ->
  exists ms, EKey k :: evs = flatten_members ms /\ wf_members ms = true /\ zlen ms = 1.
Proof.
  intros Hk (tr & -> & Hwf). exists [(k, false, tr)]. split; [|split; [|reflexivity]].
  - cbn [flatten_members flat_map key_event]. rewrite app_nil_r. reflexivity.
  - unfold wf_members. cbn [forallb fst snd]. rewrite Hk, Hwf. reflexivity.
Qed.

Lemma Member_okms f name' oe ft fv evs : P09 f -> all_bytes name' = true ->
  type_ok ft = true -> hty ft fv = true ->
  Member f name' oe ft fv = (evs, None) ->
  exists ms, evs = flatten_members ms /\ wf_members ms = true /\ (oe = false -> zlen ms = 1).
Proof.
  intros HP Hn Ht Hv H. unfold Member in H. destruct oe.
  - destruct (resolve f ft fv) as [[t' v']|] eqn:Er.
    + apply fseq_fok_l in H. destruct H as (e2 & H & ->). cbn [app].
      destruct (resolve_hty f ft fv t' v' Ht Hv Er) as [Ht' Hv'].
      destruct (okms_one name' e2 Hn (Resolved_okv f t' v' e2 HP Ht' Hv' H)) as (ms & E & Hwf & _).
      exists ms. split; [exact E|]. split; [exact Hwf|discriminate].
    + apply fok_inv in H. subst. exists []. split; [reflexivity|]. split; [reflexivity|discriminate].
  - apply fseq_fok_l in H. destruct H as (e2 & H & ->). cbn [app].
    destruct HP as [Hrf _]. destruct (Hrf false ft fv e2 Ht Hv H) as [H1 _].
    destruct (okms_one name' e2 Hn (H1 eq_refl)) as (ms & E & Hwf & Hl).
    exists ms. split; [exact E|]. split; [exact Hwf|intros _; exact Hl].
Qed.

Definition fvar (fd : bytes * bytes * gtype) : bool :=
  match fd with (_, tag, _) => let o := snd (parse_tags tag) in t_omitempty o || t_squash o end.
Definition fkeep (fd : bytes * bytes * gtype) : bool :=
  match fd with (name, tag, _) => exported name && negb (t_omit (snd (parse_tags tag))) end.

Lemma count_fields_eq fs :
  count_fields fs = if existsb fvar fs then -1 else zlen (filter fkeep fs).
Proof. reflexivity. Qed.

Lemma Field1_okms f name tag ft fv evs : P09 f ->
  all_bytes name = true -> all_bytes tag = true -> type_ok ft = true -> hty ft fv = true ->
  Field1 f name tag ft fv = (evs, None) ->
  exists ms, evs = flatten_members ms /\ wf_members ms = true /\
             (fvar (name, tag, ft) = false -> zlen ms = if fkeep (name, tag, ft) then 1 else 0).
Proof.
  intros HP Hn Htag Ht Hv H. unfold Field1 in H. unfold fvar, fkeep.
  pose proof (all_bytes_field_name name tag Hn Htag) as Hfn.
  destruct (exported name); cbn [negb andb] in *.
  2:{ apply fok_inv in H. subst. exists []. repeat split; reflexivity. }
  destruct (parse_tags tag) as [tn o]. cbn [fst snd] in *.
  destruct (t_omit o); cbn [negb].
  { apply fok_inv in H. subst. exists []. repeat split; reflexivity. }
  destruct (t_squash o).
  - destruct (Inl_okms f ft fv evs HP Ht Hv H) as (ms & -> & Hwf).
    exists ms. split; [reflexivity|]. split; [exact Hwf|]. rewrite orb_true_r. discriminate.
  - destruct (Member_okms f _ _ ft fv evs HP Hfn Ht Hv H) as (ms & -> & Hwf & Hl).
    exists ms. split; [reflexivity|]. split; [exact Hwf|]. rewrite orb_false_r. exact Hl.
Qed.

Lemma zlen_app {A} (a b : list A) : zlen (a ++ b) = zlen a + zlen b.
Proof. unfold zlen. rewrite app_length. lia. Qed.

Lemma Fields_okms f : P09 f -> forall fs vs evs,
  type_ok_fields fs = true -> hty_fields fs vs = true ->
  Fields f fs vs = (evs, None) ->
  exists ms, evs = flatten_members ms /\ wf_members ms = true /\
             (existsb fvar fs = false -> zlen ms = zlen (filter fkeep fs)).
Proof.
  intros HP. induction fs as [|[[name tag] ft] fs IH]; intros vs evs Ht Hv H.
  - rewrite Fields_nil_l in H. apply fok_inv in H. subst. exists []. repeat split; reflexivity.
  - destruct vs as [|fv vs]; [discriminate Hv|].
    rewrite Fields_cons in H. apply fseq_ok in H. destruct H as (e1 & e2 & H1 & H2 & ->).
    cbn [type_ok_fields] in Ht. fold type_ok_fields in Ht.
    apply andb_true_iff in Ht. destruct Ht as [Ht Ht4]. apply andb_true_iff in Ht. destruct Ht as [Ht Ht3].
    apply andb_true_iff in Ht. destruct Ht as [Ht1 Ht2].
    cbn [hty_fields] in Hv. fold hty_fields in Hv. apply andb_true_iff in Hv. destruct Hv as [Hv1 Hv2].
    destruct (Field1_okms f name tag ft fv e1 HP Ht1 Ht2 Ht3 Hv1 H1) as (m1 & -> & Hw1 & Hl1).
    destruct (IH vs e2 Ht4 Hv2 H2) as (m2 & -> & Hw2 & Hl2).
    exists (m1 ++ m2). split; [symmetry; apply flatten_members_app|].
    split; [rewrite wf_members_app, Hw1, Hw2; reflexivity|].
    cbn [existsb filter]. intro Hex. apply orb_false_iff in Hex. destruct Hex as [Hx1 Hx2].
    rewrite zlen_app, (Hl1 Hx1), (Hl2 Hx2).
    destruct (fkeep (name, tag, ft)); unfold zlen; cbn [length]; lia.
Qed.

Lemma Fields_len_ok f fs vs evs : P09 f ->
  type_ok_fields fs = true -> hty_fields fs vs = true ->
  Fields f fs vs = (evs, None) ->
  exists ms, evs = flatten_members ms /\ wf_members ms = true /\ len_ok (count_fields fs) ms = true.
Proof.
  intros HP Ht Hv H. destruct (Fields_okms f HP fs vs evs Ht Hv H) as (ms & -> & Hwf & Hl).
  exists ms. split; [reflexivity|]. split; [exact Hwf|]. rewrite count_fields_eq. unfold len_ok.
  destruct (existsb fvar fs); [reflexivity|]. rewrite (Hl eq_refl), Z.eqb_refl. apply orb_true_r.
Qed.

Lemma hty_map_glen e v : hty (TMap e) v = true -> glen v = zlen (gmap v).
Proof. destruct v; try discriminate; reflexivity. Qed.
Lemma hty_slice_glen e v : hty (TSlice e) v = true -> glen v = zlen (glist v).
Proof. destruct v; try discriminate; reflexivity. Qed.
Lemma hty_array_glen n e v : hty (TArray n e) v = true -> glen v = zlen (glist v).
Proof. destruct v; try discriminate; reflexivity. Qed.

Lemma map_case_okv f et v evs : P09 f -> type_ok et = true -> hty (TMap et) v = true ->
  (fok [EObjStart (glen v) BAny] ;; Mapkeys f et (gmap v) ;; fok [EObjEnd]) = (evs, None) -> okv evs.
Proof.
  intros HP Ht Hv H. apply fseq_fok_l in H. destruct H as (e2 & H & ->).
  apply fseq_fok_r in H. destruct H as (e1 & H & ->).
  destruct (Mapkeys_okms f et (gmap v) e1 HP Ht (hty_map_list et v Hv) H) as (ms & -> & Hwf & Hl).
  cbn [app]. apply okv_obj; [exact Hwf|]. unfold len_ok. rewrite (hty_map_glen et v Hv), Hl, Z.eqb_refl.
  apply orb_true_r.
Qed.

Lemma arr_case_okv f et v evs : P09 f -> type_ok et = true ->
  forallb (hty et) (glist v) = true -> glen v = zlen (glist v) ->
  (fok [EArrStart (glen v) BAny] ;; Elems f et (glist v) ;; fok [EArrEnd]) = (evs, None) -> okv evs.
Proof.
  intros HP Ht Hv Hg H. apply fseq_fok_l in H. destruct H as (e2 & H & ->).
  apply fseq_fok_r in H. destruct H as (e1 & H & ->).
  destruct (Elems_ok f et (glist v) e1 HP Ht Hv H) as (es & -> & Hwf & Hl).
  cbn [app]. apply okv_arr; [exact Hwf|]. rewrite Hg, Hl. reflexivity.
Qed.

Lemma Ielem_okv f x evs : P09 f -> hty TIface x = true -> Ielem f x = (evs, None) -> okv evs.
Proof.
  intros [_ Hft] Hv H. unfold Ielem in H.
  destruct x; try (apply fok_inv in H; subst; apply okv_val; reflexivity).
  apply hty_iface_inv in Hv. destruct Hv as (H1 & _ & H3). exact (Hft _ _ _ H1 H3 H).
Qed.

Lemma Some_inj {A} (a b : A) : Some a = Some b -> a = b.
Proof. intro H; inversion H; reflexivity. Qed.

Lemma Fast_okv f u v evs : P09 f -> type_ok u = true -> hty u v = true ->
  Fast f v u = Some (evs, None) -> okv evs.
Proof.
  intros HP Ht Hv HF. unfold Fast in HF.
  destruct (prim_fold true u v) as [pe|] eqn:Ep.
  - inversion HF; subst. eapply prim_fold_okv; eauto.
  - destruct u as [ | |k| |u|u|n0 u|u|u|l|u| ]; try discriminate HF.
    + destruct u; try discriminate HF. apply Some_inj in HF. rename HF into H.
      apply fseq_fok_l in H. destruct H as (e2 & H & ->).
      apply fseq_fok_r in H. destruct H as (e1 & H & ->).
      apply (seq_elems (Ielem f) (fun _ tr => wf_tree tr = true)) in H.
      * destruct H as (es & -> & HF). apply Forall2_wf in HF. destruct HF as [Hwf Hl].
        cbn [app]. apply okv_arr; [exact Hwf|]. rewrite (hty_slice_glen _ _ Hv), Hl. reflexivity.
      * intros x e Hx He. pose proof (hty_slice_list _ _ Hv) as Hl. rewrite forallb_forall in Hl.
        exact (Ielem_okv f x e HP (Hl x Hx) He).
    + destruct u; try discriminate HF. apply Some_inj in HF. rename HF into H.
      apply fseq_fok_l in H. destruct H as (e2 & H & ->).
      apply fseq_fok_r in H. destruct H as (e1 & H & ->).
      pose proof (hty_map_list _ _ Hv) as Hl.
      apply (seq_members (Ielem f) (fun _ tr => wf_tree tr = true)) in H.
      * destruct H as (ms & -> & HF). cbv beta in HF. apply Forall2_wfm in HF.
        -- destruct HF as [Hwf Hlen]. cbn [app]. apply okv_obj; [exact Hwf|]. unfold len_ok.
           rewrite (hty_map_glen _ _ Hv), Hlen, Z.eqb_refl. apply orb_true_r.
        -- apply forallb_forall. intros kv Hkv. rewrite forallb_forall in Hl. specialize (Hl kv Hkv).
           apply andb_true_iff in Hl. apply Hl.
      * intros kv e Hkv He. rewrite forallb_forall in Hl. specialize (Hl kv Hkv).
        apply andb_true_iff in Hl. destruct Hl as [_ Hx]. exact (Ielem_okv f (snd kv) e HP Hx He).
Qed.

Theorem P09_all : forall f, P09 f.
Proof.
  induction f as [|f IH].
  - split.
    + intros inl t v evs _ _ H. rewrite rf_O in H. discriminate H.
    + intros t v evs _ _ H. rewrite ftop_O in H. discriminate H.
  - split.
    + intros inl t v evs Ht Hv H. rewrite rf_S in H.
      destruct (prim_fold false t v) as [pe|] eqn:Ep.
      { apply fok_inv in H. subst. split.
        - intros _. eapply prim_fold_okv; eauto.
        - intros _ fs E. subst t. discriminate Ep. }
      destruct t as [ | |k| |u|u|n0 u|u|u|fs|u| ];
        try (apply ferr_ok in H; contradiction).
      * (* interface *)
        split; [intros _|intros _ fs E; discriminate E].
        destruct v; try (apply fok_inv in H; subst; apply okv_val; reflexivity).
        apply hty_iface_inv in Hv. destruct Hv as (H1 & _ & H3). eapply Anyr_okv; eauto.
      * (* pointer *)
        split; [intros _|intros _ fs E; discriminate E].
        destruct (base_type (TPtr u)) as [n bt] eqn:Eb.
        destruct (deref n v) as [bv|] eqn:Ed; [|apply fok_inv in H; subst; apply okv_val; reflexivity].
        destruct (hty_base _ _ _ _ _ Ht Hv Eb Ed) as [Hbt Hbv].
        destruct IH as [Hrf _]. destruct (Hrf false bt bv evs Hbt Hbv H) as [H1 _]. apply H1. reflexivity.
      * (* slice *)
        split; [intros _|intros _ fs E; discriminate E].
        exact (arr_case_okv f u v evs IH Ht (hty_slice_list _ _ Hv) (hty_slice_glen _ _ Hv) H).
      * (* array *)
        split; [intros _|intros _ fs E; discriminate E].
        cbn [type_ok] in Ht. apply andb_true_iff in Ht. destruct Ht as [_ Ht].
        exact (arr_case_okv f u v evs IH Ht (hty_array_list _ _ _ Hv) (hty_array_glen _ _ _ Hv) H).
      * (* map *)
        split; [intros _|intros _ fs E; discriminate E].
        exact (map_case_okv f u v evs IH Ht Hv H).
      * (* struct *)
        destruct v; try (apply ferr_ok in H; contradiction).
        rewrite type_ok_struct in Ht. rewrite hty_struct in Hv.
        destruct inl.
        -- split; [discriminate|]. intros _ fs0 _.
           destruct (Fields_okms f IH fs vs evs Ht Hv H) as (ms & -> & Hwf & _).
           exists ms. split; [reflexivity|exact Hwf].
        -- split; [intros _|discriminate].
           apply fseq_fok_l in H. destruct H as (e2 & H & ->).
           apply fseq_fok_r in H. destruct H as (e1 & H & ->).
           destruct (Fields_len_ok f fs vs e1 IH Ht Hv H) as (ms & -> & Hwf & Hl).
           cbn [app]. apply okv_obj; assumption.
      * (* named *)
        split; [intros _|intros _ fs E; discriminate E].
        cbn [type_ok] in Ht. apply andb_true_iff in Ht. destruct Ht as [Hn Ht].
        rewrite (hty_named_ok u v Hn) in Hv.
        destruct u as [ | |k| |u|u|n0 u|u|u|fs|u| ]; try discriminate Hn;
          try (destruct (prim_scalar false _ v) eqn:E; [|apply ferr_ok in H; contradiction];
               apply fok_inv in H; subst; apply okv_val; eapply prim_scalar_ok; eauto; fail).
        -- exact (arr_case_okv f u v evs IH Ht (hty_slice_list _ _ Hv) (hty_slice_glen _ _ Hv) H).
        -- cbn [type_ok] in Ht. apply andb_true_iff in Ht. destruct Ht as [_ Ht].
           exact (arr_case_okv f u v evs IH Ht (hty_array_list _ _ _ Hv) (hty_array_glen _ _ _ Hv) H).
        -- exact (map_case_okv f u v evs IH Ht Hv H).
    + intros t v evs Ht Hv H. rewrite ftop_S in H.
      destruct (Fast f v t) as [r|] eqn:EF; [subst r; eapply Fast_okv; eauto|].
      destruct t as [ | |k| |u|u|n0 u|u|u|fs|u| ]; try (eapply Anyr_okv; eauto; fail).
      assert (Hn := Ht). cbn [type_ok] in Hn. apply andb_true_iff in Hn. destruct Hn as [Hn Hu].
      destruct u as [ | |k| |u|u|n0 u|u|u|fs|u| ]; try (exact (Anyr_okv f _ v evs IH Ht Hv H)).
      * destruct (Fast f v (TSlice u)) as [r|] eqn:EF2; [|exact (Anyr_okv f _ v evs IH Ht Hv H)].
        subst r. rewrite (hty_named_ok _ v Hn) in Hv. eapply Fast_okv; eauto.
      * destruct (Fast f v (TMap u)) as [r|] eqn:EF2; [|exact (Anyr_okv f _ v evs IH Ht Hv H)].
        subst r. rewrite (hty_named_ok _ v Hn) in Hv. eapply Fast_okv; eauto.
Qed.

Lemma fold_value_okv t v evs :
  has_type t v = true -> fold_value t v = (evs, None) -> okv evs.
Proof.
  unfold has_type. intros Hh H. apply andb_true_iff in Hh. destruct Hh as [Ht Hv].
  destruct (P09_all (4 * (tsize t + vsize v) + 8)) as [_ Hft].
  unfold fold_value in H.
  destruct v; try exact (Hft _ _ _ Ht Hv H).
  destruct t; exact (Hft _ _ _ Ht Hv H).
Qed.

(* C09 for Fold: every successful fold of a Go value emits a stream that obeys the
   Visitor contract (balanced, key before each value, announced lengths and element
   types respected) - for all types, tag combinations and values. *)
Theorem C09_fold : forall t v evs,
  has_type t v = true -> fold_value t v = (evs, None) -> contract_ok evs = true.
Proof.
  intros t v evs Hh H. destruct (fold_value_okv t v evs Hh H) as (tr & -> & Hwf).
  rewrite contract_flatten. exact Hwf.
Qed.
Print Assumptions C09_fold.

(* ====================================================================== *)
(* Part 4: errors are clean (C11, part): a statically unsupported type is   *)
(* refused before anything is emitted                                      *)
(* ====================================================================== *)

Definition cc_fields (f : nat) :=
  fix go (l : list (bytes * bytes * gtype)) : option Z :=
    match l with
    | [] => None
    | (name, tag, ft) :: r =>
        if negb (exported name) then go r else
        let o := snd (parse_tags tag) in
        if t_squash o && t_omitempty o then Some feInlineOmitEmpty
        else if t_omit o then go r
        else
          let here :=
            if t_squash o then
              match under (snd (base_type ft)) with
              | TStruct _ | TMap _ | TMapK _ => cc f (snd (base_type ft))
              | TIface => None
              | _ => Some feSquashNeedObject
              end
            else cc f ft in
          match here with Some e => Some e | None => go r end
    end.

Lemma cc_S f t :
  cc (S f) t =
  match t with
  | TBool | TString | TNum _ | TIface => None
  | TUnsup => Some feUnsupported
  | TMapK _ => Some feMapKey
  | TPtr u | TSlice u | TArray _ u | TMap u | TNamed u => cc f u
  | TStruct fs => cc_fields f fs
  end.
Proof. destruct t; reflexivity. Qed.

Lemma cc_type_named u : cc_type (TNamed u) = cc_type u.
Proof. reflexivity. Qed.

(* the fast paths of the top-level type switch only take types that compile *)
Lemma Fast_cc f v u r : Fast f v u = Some r -> cc_type u = None.
Proof.
  unfold Fast, prim_fold. intro H.
  destruct u as [ | |k| |u|u|n0 u|u|u|l|u| ]; try reflexivity; try discriminate H.
  - destruct u; try reflexivity; discriminate H.
  - destruct u; try reflexivity; discriminate H.
Qed.

Lemma ftop_cc f t v e : cc_type t = Some e -> ftop (S f) t v = ([], Some e).
Proof.
  intro Hc. rewrite ftop_S.
  destruct (Fast f v t) as [r|] eqn:EF; [apply Fast_cc in EF; congruence|].
  assert (HA : Anyr f t v = ([], Some e)) by (unfold Anyr; rewrite Hc; reflexivity).
  destruct t as [ | |k| |u|u|n0 u|u|u|l|u| ]; try exact HA.
  destruct u as [ | |k| |u|u|n0 u|u|u|l|u| ]; try exact HA.
  - destruct (Fast f v (TSlice u)) as [r|] eqn:EF2; [|exact HA].
    apply Fast_cc in EF2. rewrite cc_type_named in Hc. congruence.
  - destruct (Fast f v (TMap u)) as [r|] eqn:EF2; [|exact HA].
    apply Fast_cc in EF2. rewrite cc_type_named in Hc. congruence.
Qed.

(* A type the compile step of getReflectFold rejects is refused with exactly that
   error and nothing is emitted - for every value, well-typed or not.  (The top-level
   fast paths never apply to such a type: Fast_cc.) *)
Theorem fold_cc_error : forall t v e,
  cc_type t = Some e -> fold_value t v = ([], Some e).
Proof.
  intros t v e Hc. unfold fold_value.
  destruct (4 * (tsize t + vsize v) + 8)%nat as [|f] eqn:E; [lia|].
  destruct v; try (apply ftop_cc; exact Hc).
  destruct t; try (apply ftop_cc; exact Hc). discriminate Hc.
Qed.
Print Assumptions fold_cc_error.

(* the documented notion of a supported static type is the compile check *)
Lemma supported_cc : forall f t,
  spec_supported f t = match cc f t with None => true | Some _ => false end.
Proof.
  induction f as [|f IH]; intro t; [reflexivity|].
  rewrite cc_S. destruct t as [ | |k| |u|u|n0 u|u|u|l|u| ]; cbn [spec_supported]; try reflexivity;
    try apply IH.
  induction l as [|[[name tag] ft] l IHl]; [reflexivity|].
  cbn [forallb cc_fields]. rewrite IHl.
  destruct (negb (exported name)); [reflexivity|]. cbv zeta.
  destruct (t_squash (snd (parse_tags tag)) && t_omitempty (snd (parse_tags tag))); [reflexivity|].
  destruct (t_omit (snd (parse_tags tag))); [reflexivity|].
  destruct (t_squash (snd (parse_tags tag))).
  - destruct (under (snd (base_type ft))) eqn:Eu; try reflexivity;
      try (rewrite IH; destruct (cc f (snd (base_type ft))); reflexivity).
    (* TMapK: the spec says no, the compile step fails on the map key *)
    destruct f as [|f']; [reflexivity|].
    destruct (snd (base_type ft)) eqn:Eb; try discriminate Eu; cbn [under] in Eu; subst.
    + reflexivity.
    + rewrite cc_S. destruct f'; reflexivity.
  - rewrite IH. destruct (cc f ft); reflexivity.
Qed.

Lemma supported_mono : forall f f' t,
  spec_supported f t = true -> (f <= f')%nat -> spec_supported f' t = true.
Proof.
  induction f as [|f IH]; intros f' t H Hle; [discriminate H|].
  destruct f' as [|f']; [lia|].
  destruct t as [ | |k| |u|u|n0 u|u|u|l|u| ]; cbn [spec_supported] in *; try reflexivity; try discriminate H;
    try (apply (IH f'); [exact H|lia]).
  rewrite forallb_forall in *. intros [[name tag] ft] Hin. specialize (H _ Hin). cbv beta iota zeta in *.
  destruct (negb (exported name)); [reflexivity|].
  destruct (t_squash (snd (parse_tags tag)) && t_omitempty (snd (parse_tags tag))); [discriminate H|].
  destruct (t_omit (snd (parse_tags tag))); [reflexivity|].
  destruct (t_squash (snd (parse_tags tag))).
  - destruct (under (snd (base_type ft))); try exact H; (apply (IH f'); [exact H|lia]).
  - apply (IH f'); [exact H|lia].
Qed.

(* A type that is not supported according to the documentation is refused, cleanly. *)
Theorem fold_refuses_unsupported : forall F t v,
  spec_supported F t = false -> (tsize t < F)%nat ->
  exists e, fold_value t v = ([], Some e).
Proof.
  intros F t v H HF.
  destruct (cc_type t) as [e|] eqn:Ec; [exists e; apply fold_cc_error; exact Ec|].
  unfold cc_type in Ec. pose proof (supported_cc (S (tsize t)) t) as Hs. rewrite Ec in Hs.
  rewrite (supported_mono _ F t Hs) in H by lia. discriminate H.
Qed.
Print Assumptions fold_refuses_unsupported.

(* ... and conversely the compile step accepts every supported type *)
Theorem supported_compiles : forall t,
  spec_supported (S (tsize t)) t = true <-> cc_type t = None.
Proof.
  intro t. unfold cc_type. rewrite supported_cc. destruct (cc (S (tsize t)) t); split; congruence.
Qed.
Print Assumptions supported_compiles.

(* ====================================================================== *)
(* Part 5: C12 - the folded value is the documented one                    *)
(* ====================================================================== *)

(* ---------- the local functions of spec_fold, named ---------- *)
Definition Sim (f : nat) :=
  fix im (g : nat) (inif : bool) (t : gtype) (v : gvalue) : option (list (bytes * cvalue)) :=
    match g with
    | O => None
    | S g' =>
        match under t, v with
        | TMap _, GNil => Some []
        | TIface, GNil | TPtr _, GNil => if inif then None else Some []
        | TPtr u, GPtr x => im g' inif u x
        | TIface, GIface dt dv => if spec_supported (S f) dt then im g' true dt dv else None
        | (TStruct _ | TMap _), _ =>
            match spec_fold f t v with Some (CObj ms) => Some ms | _ => None end
        | _, _ => None
        end
    end.

Definition Sfields (f : nat) :=
  fix fields (fs : list (bytes * bytes * gtype)) (vs : list gvalue) (acc : list (bytes * cvalue))
    : option cvalue :=
    match fs, vs with
    | (name, tag, ft) :: fr, fv :: vr =>
        if negb (exported name) then fields fr vr acc else
        let '(tn, o) := parse_tags tag in
        if t_squash o && t_omitempty o then None
        else if t_omit o then fields fr vr acc
        else if t_squash o then
          match Sim f (S f) false ft fv with
          | Some ms => fields fr vr (rev ms ++ acc)
          | None => None
          end
        else if t_omitempty o && spec_empty (S f) ft fv then fields fr vr acc
        else
          match spec_fold f ft fv with
          | Some x => fields fr vr ((field_name name tn, x) :: acc)
          | None => None
          end
    | _, _ => Some (CObj (rev acc))
    end.

Lemma spec_fold_O t v : spec_fold O t v = None.
Proof. reflexivity. Qed.

Lemma spec_fold_S f t v :
  spec_fold (S f) t v =
  match under t, v with
  | TBool, GBool b => Some (CBool b)
  | TString, GStr s => Some (CStr s)
  | TNum k, GNum z => Some (spec_num k z)
  | TPtr _, GNil | TIface, GNil => Some CNil
  | TPtr u, GPtr x => spec_fold f u x
  | TIface, GIface dt dv => if spec_supported (S f) dt then spec_fold f dt dv else None
  | TSlice _, GNil => Some (CArr [])
  | (TSlice u | TArray _ u), GList l =>
      match opt_all (map (spec_fold f u) l) with Some vs => Some (CArr vs) | None => None end
  | TMap _, GNil => Some (CObj [])
  | TMap u, GMap kvs =>
      match opt_all (map (fun kv => match spec_fold f u (snd kv) with
                                    | Some x => Some (fst kv, x) | None => None end) kvs) with
      | Some ms => Some (CObj ms)
      | None => None
      end
  | TStruct fs, GStruct vs => Sfields f fs vs []
  | _, _ => None
  end.
Proof. reflexivity. Qed.

Lemma Sim_O f inif t v : Sim f O inif t v = None.
Proof. reflexivity. Qed.

Lemma Sim_S f g inif t v :
  Sim f (S g) inif t v =
  match under t, v with
  | TMap _, GNil => Some []
  | TIface, GNil | TPtr _, GNil => if inif then None else Some []
  | TPtr u, GPtr x => Sim f g inif u x
  | TIface, GIface dt dv => if spec_supported (S f) dt then Sim f g true dt dv else None
  | (TStruct _ | TMap _), _ =>
      match spec_fold f t v with Some (CObj ms) => Some ms | _ => None end
  | _, _ => None
  end.
Proof. reflexivity. Qed.

Lemma spec_empty_S f t v :
  spec_empty (S f) t v =
  match under t, v with
  | (TPtr _ | TIface), GNil => true
  | TPtr u, GPtr x => spec_empty f u x
  | TIface, GIface dt dv => spec_empty f dt dv
  | TString, GStr s => zlen s =? 0
  | (TSlice _ | TMap _ | TMapK _), GNil => true
  | (TSlice _ | TArray _ _), GList l => zlen l =? 0
  | (TMap _ | TMapK _), GMap l => zlen l =? 0
  | _, _ => false
  end.
Proof. reflexivity. Qed.

Lemma spec_empty_O t v : spec_empty O t v = false.
Proof. reflexivity. Qed.

#[local] Opaque spec_fold spec_empty.

(* ---------- sizes ---------- *)
Definition vsum (l : list gvalue) : nat := fold_right (fun x a => (vsize x + a)%nat) O l.
Definition vsum_kv (l : list (bytes * gvalue)) : nat := fold_right (fun kv a => (vsize (snd kv) + a)%nat) O l.
Definition tsum :=
  fix go (l : list (bytes * bytes * gtype)) : nat :=
    match l with [] => O | (_, _, ft) :: r => S (tsize ft + go r) end.

Lemma vsize_list l : vsize (GList l) = S (vsum l). Proof. reflexivity. Qed.
Lemma vsize_map l : vsize (GMap l) = S (vsum_kv l). Proof. reflexivity. Qed.
Lemma vsize_struct l : vsize (GStruct l) = S (vsum l). Proof. reflexivity. Qed.
Lemma tsize_struct fs : tsize (TStruct fs) = S (tsum fs). Proof. reflexivity. Qed.

Lemma vsize_pos v : (1 <= vsize v)%nat.
Proof. destruct v; cbn [vsize]; lia. Qed.
Lemma tsize_pos t : (1 <= tsize t)%nat.
Proof. destruct t; cbn [tsize]; lia. Qed.

Lemma vsum_in x l : In x l -> (vsize x <= vsum l)%nat.
Proof.
  induction l as [|y l IH]; [contradiction|]. intros [->|H]; cbn [vsum fold_right]; [lia|].
  specialize (IH H). unfold vsum in IH. lia.
Qed.
Lemma vsum_kv_in kv l : In kv l -> (vsize (snd kv) <= vsum_kv l)%nat.
Proof.
  induction l as [|y l IH]; [contradiction|]. intros [->|H]; cbn [vsum_kv fold_right]; [lia|].
  specialize (IH H). unfold vsum_kv in IH. lia.
Qed.

Definition msz (t : gtype) (v : gvalue) : nat := (tsize t + vsize v)%nat.

Lemma base_tsize t : forall m b, base_type t = (m, b) -> tsize t = (m + tsize b)%nat.
Proof.
  induction t; intros m b H; try (inversion H; subst; reflexivity).
  cbn [base_type] in H. destruct (base_type t) as [n' b'] eqn:E. inversion H; subst.
  cbn [tsize]. rewrite (IHt n' b eq_refl). lia.
Qed.

Lemma deref_vsize m : forall v bv, deref m v = Some bv -> vsize v = (m + vsize bv)%nat.
Proof.
  induction m as [|m IH]; intros v bv H; cbn [deref] in H; [inversion H; reflexivity|].
  destruct v; try discriminate H. cbn [vsize]. rewrite (IH _ _ H). lia.
Qed.

Lemma type_ok_base t : forall m b, type_ok t = true -> base_type t = (m, b) -> type_ok b = true.
Proof.
  induction t; intros m b Ht Eb; try (inversion Eb; subst; exact Ht).
  cbn [base_type] in Eb. destruct (base_type t) as [n' b'] eqn:E. inversion Eb; subst.
  eapply IHt; [exact Ht|reflexivity].
Qed.

(* ---------- the spec along a pointer chain ---------- *)
Lemma spec_fold_ptr t : forall m b v bv g,
  base_type t = (m, b) -> deref m v = Some bv -> spec_fold (m + g) t v = spec_fold g b bv.
Proof.
  induction t; intros m b v bv g Hb Hd;
    try (inversion Hb; subst; cbn [deref] in Hd; inversion Hd; subst; reflexivity).
  cbn [base_type] in Hb. destruct (base_type t) as [n' b'] eqn:E. inversion Hb; subst.
  cbn [deref] in Hd. destruct v; try discriminate Hd.
  cbn [Nat.add]. rewrite spec_fold_S. cbn [under]. apply IHt; [reflexivity|exact Hd].
Qed.

Lemma spec_fold_nilptr t : forall m b v g,
  base_type t = (m, b) -> deref m v = None -> hty t v = true -> (m <= g)%nat ->
  spec_fold g t v = Some CNil.
Proof.
  induction t; intros m b v g Hb Hd Hv Hg;
    try (inversion Hb; subst; cbn [deref] in Hd; discriminate Hd).
  cbn [base_type] in Hb. destruct (base_type t) as [n' b'] eqn:E. inversion Hb; subst.
  destruct g as [|g]; [lia|]. rewrite spec_fold_S. cbn [under].
  destruct v; try discriminate Hv; [reflexivity|].
  cbn [deref] in Hd. cbn [hty under] in Hv. eapply IHt; eauto. lia.
Qed.

Lemma spec_empty_ptr t : forall m b v bv g,
  base_type t = (m, b) -> deref m v = Some bv -> spec_empty (m + g) t v = spec_empty g b bv.
Proof.
  induction t; intros m b v bv g Hb Hd;
    try (inversion Hb; subst; cbn [deref] in Hd; inversion Hd; subst; reflexivity).
  cbn [base_type] in Hb. destruct (base_type t) as [n' b'] eqn:E. inversion Hb; subst.
  cbn [deref] in Hd. destruct v; try discriminate Hd.
  cbn [Nat.add]. rewrite spec_empty_S. cbn [under]. apply IHt; [reflexivity|exact Hd].
Qed.

Lemma spec_empty_nilptr t : forall m b v g,
  base_type t = (m, b) -> deref m v = None -> hty t v = true -> (m <= g)%nat ->
  spec_empty g t v = true.
Proof.
  induction t; intros m b v g Hb Hd Hv Hg;
    try (inversion Hb; subst; cbn [deref] in Hd; discriminate Hd).
  cbn [base_type] in Hb. destruct (base_type t) as [n' b'] eqn:E. inversion Hb; subst.
  destruct g as [|g]; [lia|]. rewrite spec_empty_S. cbn [under].
  destruct v; try discriminate Hv; [reflexivity|].
  cbn [deref] in Hd. cbn [hty under] in Hv. eapply IHt; eauto. lia.
Qed.

Lemma Sim_ptr f t : forall m b v bv g inif,
  base_type t = (m, b) -> deref m v = Some bv -> Sim f (m + g) inif t v = Sim f g inif b bv.
Proof.
  induction t; intros m b v bv g inif Hb Hd;
    try (inversion Hb; subst; cbn [deref] in Hd; inversion Hd; subst; reflexivity).
  cbn [base_type] in Hb. destruct (base_type t) as [n' b'] eqn:E. inversion Hb; subst.
  cbn [deref] in Hd. destruct v; try discriminate Hd.
  cbn [Nat.add]. rewrite Sim_S. cbn [under]. apply IHt; [reflexivity|exact Hd].
Qed.

Lemma Sim_nilptr f t : forall m b v g,
  base_type t = (m, b) -> deref m v = None -> hty t v = true -> (m <= g)%nat ->
  Sim f g false t v = Some [].
Proof.
  induction t; intros m b v g Hb Hd Hv Hg;
    try (inversion Hb; subst; cbn [deref] in Hd; discriminate Hd).
  cbn [base_type] in Hb. destruct (base_type t) as [n' b'] eqn:E. inversion Hb; subst.
  destruct g as [|g]; [lia|]. rewrite Sim_S. cbn [under].
  destruct v; try discriminate Hv; [reflexivity|].
  cbn [deref] in Hd. cbn [hty under] in Hv. eapply IHt; eauto. lia.
Qed.

(* "the documented value of v : t is c" (with any sufficient fuel) *)
Definition sfv (t : gtype) (v : gvalue) (c : cvalue) : Prop :=
  forall g, (msz t v < g)%nat -> spec_fold g t v = Some c.

Lemma msz_base t m b v bv : base_type t = (m, b) -> deref m v = Some bv ->
  msz t v = (2 * m + msz b bv)%nat.
Proof.
  intros Hb Hd. unfold msz. rewrite (base_tsize t m b Hb), (deref_vsize m v bv Hd). lia.
Qed.

Lemma sfv_ptr t m b v bv c : base_type t = (m, b) -> deref m v = Some bv ->
  sfv b bv c -> sfv t v c.
Proof.
  intros Hb Hd H g Hg. rewrite (msz_base t m b v bv Hb Hd) in Hg.
  replace g with (m + (g - m))%nat by lia. rewrite (spec_fold_ptr t m b v bv _ Hb Hd).
  apply H. lia.
Qed.

Lemma sfv_nilptr t m b v : base_type t = (m, b) -> deref m v = None -> hty t v = true ->
  sfv t v CNil.
Proof.
  intros Hb Hd Hv g Hg. apply (spec_fold_nilptr t m b v g Hb Hd Hv).
  unfold msz in Hg. rewrite (base_tsize t m b Hb) in Hg. lia.
Qed.

Lemma supported_of_cc dt F : cc_type dt = None -> (tsize dt < F)%nat -> spec_supported F dt = true.
Proof.
  intros Hc HF. apply (supported_mono (S (tsize dt))); [apply supported_compiles; exact Hc|lia].
Qed.

Lemma sfv_iface dt dv c : cc_type dt = None -> sfv dt dv c -> sfv TIface (GIface dt dv) c.
Proof.
  intros Hc H g Hg. unfold msz in Hg. cbn [tsize vsize] in Hg. destruct g as [|g]; [lia|].
  rewrite spec_fold_S. cbn [under]. rewrite (supported_of_cc dt (S g) Hc) by lia.
  apply H. unfold msz. lia.
Qed.

Lemma spec_fold_under g t t' v : under t = under t' -> spec_fold g t v = spec_fold g t' v.
Proof. intro H. destruct g; [reflexivity|]. rewrite !spec_fold_S, H. reflexivity. Qed.

Lemma sfv_named u v c : named_ok u = true -> sfv u v c -> sfv (TNamed u) v c.
Proof.
  intros Hn H g Hg. rewrite (spec_fold_under g (TNamed u) u).
  - apply H. unfold msz in *. cbn [tsize] in Hg. lia.
  - destruct u; try discriminate Hn; reflexivity.
Qed.

(* ---------- values of trees ---------- *)
Definition cvt (tr : tree) : cvalue := cv (value_of tr).
Definition cvm (ms : list (bytes * bool * tree)) : list (bytes * cvalue) :=
  map (fun m => (fst (fst m), cvt (snd m))) ms.

Lemma cvt_obj len bt ms : cvt (TObj len bt ms) = CObj (cvm ms).
Proof. unfold cvt, cvm. cbn [value_of cv]. rewrite map_map. reflexivity. Qed.
Lemma cvt_arr len bt es : cvt (TArr len bt es) = CArr (map cvt es).
Proof. unfold cvt. cbn [value_of cv]. rewrite map_map. reflexivity. Qed.
Lemma cvt_val s : cvt (TVal s false) = cv (scalar_value s).
Proof. reflexivity. Qed.
Lemma cvm_app a b : cvm (a ++ b) = cvm a ++ cvm b.
Proof. apply map_app. Qed.

Definition okc (t : gtype) (v : gvalue) (evs : list event) : Prop :=
  exists tr, evs = flatten tr /\ sfv t v (cvt tr).

Lemma opt_all_Forall2 {A B C} (f : A -> option B) (h : C -> B) l es :
  Forall2 (fun x e => f x = Some (h e)) l es -> opt_all (map f l) = Some (map h es).
Proof.
  induction 1 as [|x e l es Hx _ IH]; [reflexivity|]. cbn [map opt_all]. rewrite Hx, IH. reflexivity.
Qed.

Lemma Forall2_impl_in {A B} (P Q : A -> B -> Prop) l es :
  (forall x e, In x l -> P x e -> Q x e) -> Forall2 P l es -> Forall2 Q l es.
Proof.
  intros H HF. induction HF as [|x e l es Hx _ IH]; constructor.
  - apply H; [left; reflexivity|exact Hx].
  - apply IH. intros y e' Hy. apply H. right. exact Hy.
Qed.

Lemma list_sfv et l es g :
  Forall2 (fun x tr => sfv et x (cvt tr)) l es -> (tsize et + vsum l < g)%nat ->
  opt_all (map (spec_fold g et) l) = Some (map cvt es).
Proof.
  intros HF Hg. apply opt_all_Forall2. eapply Forall2_impl_in; [|exact HF].
  intros x e Hx Hs. cbv beta in *. apply Hs. pose proof (vsum_in x l Hx). unfold msz. lia.
Qed.

Lemma map_sfv et (kvs : list (bytes * gvalue)) ms g :
  Forall2 (fun kv m => fst m = (fst kv, false) /\ sfv et (snd kv) (cvt (snd m))) kvs ms ->
  (tsize et + vsum_kv kvs < g)%nat ->
  opt_all (map (fun kv => match spec_fold g et (snd kv) with
                          | Some x => Some (fst kv, x) | None => None end) kvs) = Some (cvm ms).
Proof.
  intros HF Hg. unfold cvm. apply opt_all_Forall2. eapply Forall2_impl_in; [|exact HF].
  intros kv m Hkv [H1 H2]. cbv beta in *. rewrite H2.
  - rewrite H1. reflexivity.
  - pose proof (vsum_kv_in kv kvs Hkv). unfold msz. lia.
Qed.

Lemma sfv_slice et v es : hty (TSlice et) v = true ->
  Forall2 (fun x tr => sfv et x (cvt tr)) (glist v) es ->
  sfv (TSlice et) v (CArr (map cvt es)).
Proof.
  intros Hv HF g Hg. unfold msz in Hg. cbn [tsize] in Hg. destruct g as [|g]; [lia|].
  rewrite spec_fold_S. cbn [under]. destruct v; try discriminate Hv.
  - cbn [glist] in HF. inversion HF. reflexivity.
  - cbn [glist] in HF. rewrite vsize_list in Hg. rewrite (list_sfv et vs es g HF) by lia. reflexivity.
Qed.

Lemma sfv_array n et v es : hty (TArray n et) v = true ->
  Forall2 (fun x tr => sfv et x (cvt tr)) (glist v) es ->
  sfv (TArray n et) v (CArr (map cvt es)).
Proof.
  intros Hv HF g Hg. unfold msz in Hg. cbn [tsize] in Hg. destruct g as [|g]; [lia|].
  rewrite spec_fold_S. cbn [under]. destruct v; try discriminate Hv.
  cbn [glist] in HF. rewrite vsize_list in Hg. rewrite (list_sfv et vs es g HF) by lia. reflexivity.
Qed.

Lemma sfv_map et v ms : hty (TMap et) v = true ->
  Forall2 (fun kv m => fst m = (fst kv, false) /\ sfv et (snd kv) (cvt (snd m))) (gmap v) ms ->
  sfv (TMap et) v (CObj (cvm ms)).
Proof.
  intros Hv HF g Hg. unfold msz in Hg. cbn [tsize] in Hg. destruct g as [|g]; [lia|].
  rewrite spec_fold_S. cbn [under]. destruct v; try discriminate Hv.
  - cbn [gmap] in HF. inversion HF. reflexivity.
  - cbn [gmap] in HF. rewrite vsize_map in Hg. rewrite (map_sfv et kvs ms g HF) by lia. reflexivity.
Qed.

(* ---------- primitives ---------- *)
Lemma canon_event k z : canon_num (num_event_kind k) z = canon_num k z.
Proof. destruct k; reflexivity. Qed.

Lemma prim_scalar_spec b t v s g :
  prim_scalar b t v = Some s -> spec_fold (S g) t v = Some (cv (scalar_value s)).
Proof.
  intro H. rewrite spec_fold_S.
  destruct t; try discriminate H; destruct v; try discriminate H; cbn [prim_scalar] in H;
    inversion H; subst; cbn [under scalar_value cv]; try reflexivity.
  unfold spec_num. destruct b; [reflexivity|]. rewrite canon_event. reflexivity.
Qed.

Lemma prim_scalar_sfv b t v s : prim_scalar b t v = Some s -> sfv t v (cv (scalar_value s)).
Proof.
  intros H g Hg. destruct g as [|g]; [lia|]. eapply prim_scalar_spec; eauto.
Qed.

Lemma xscalar_sfv e x : is_prim e = true -> hty e x = true ->
  sfv e x (cv (scalar_value (xscalar e x))).
Proof.
  intros He Hx g Hg. destruct g as [|g]; [lia|]. rewrite spec_fold_S.
  destruct e; try discriminate He; destruct x; try discriminate Hx; reflexivity.
Qed.

Lemma xscalar_sfv_byte x : hty (TNum KUint8) x = true ->
  sfv (TNum KUint8) x
    (cv (scalar_value (match xscalar (TNum KUint8) x with SNum _ z => SNum KByte z | s => s end))).
Proof.
  intros Hx g Hg. destruct g as [|g]; [lia|]. rewrite spec_fold_S.
  destruct x; try discriminate Hx; reflexivity.
Qed.

Lemma cvt_xarr bt ss : cvt (TXArr bt ss) = CArr (map (fun s => cv (scalar_value s)) ss).
Proof. unfold cvt. cbn [value_of cv]. rewrite map_map. reflexivity. Qed.
Lemma cvt_xobj bt ms : cvt (TXObj bt ms) = CObj (map (fun m => (fst m, cv (scalar_value (snd m)))) ms).
Proof. unfold cvt. cbn [value_of cv]. rewrite map_map. reflexivity. Qed.

Lemma okc_val t v s : sfv t v (cv (scalar_value s)) -> okc t v [EVal s].
Proof. intro H. exists (TVal s false). split; [symmetry; apply flatten_val|exact H]. Qed.

Lemma Forall2_map_r {A B C} (R : A -> C -> Prop) (h : B -> C) (l : list A) (l' : list B) :
  Forall2 (fun x y => R x (h y)) l l' -> Forall2 R l (map h l').
Proof. induction 1; constructor; assumption. Qed.

Lemma Forall2_self_map {A C} (R : A -> C -> Prop) (h : A -> C) (l : list A) :
  (forall x, In x l -> R x (h x)) -> Forall2 R l (map h l).
Proof.
  induction l as [|x l IH]; intro H; constructor.
  - apply H. left. reflexivity.
  - apply IH. intros y Hy. apply H. right. exact Hy.
Qed.

Lemma prim_fold_okc top t v evs :
  type_ok t = true -> hty t v = true -> prim_fold top t v = Some evs -> okc t v evs.
Proof.
  intros Ht Hv H. unfold prim_fold in H.
  destruct t; try discriminate H.
  - destruct (prim_scalar false TBool v) eqn:E; [|discriminate H]. inversion H; subst.
    apply okc_val. eapply prim_scalar_sfv; eauto.
  - destruct (prim_scalar false TString v) eqn:E; [|discriminate H]. inversion H; subst.
    apply okc_val. eapply prim_scalar_sfv; eauto.
  - destruct (prim_scalar false (TNum k) v) eqn:E; [|discriminate H]. inversion H; subst.
    apply okc_val. eapply prim_scalar_sfv; eauto.
  - destruct (is_prim t) eqn:Ep; [|discriminate H]. inversion H; subst. clear H.
    pose proof (hty_slice_list _ _ Hv) as Hl. rewrite forallb_forall in Hl.
    eexists (TXArr _ _). split; [reflexivity|]. rewrite cvt_xarr, map_map.
    set (h := fun x => TVal (match
             (if top && gtype_eqb t (TNum KUint8) then BByte else prim_bt t), xscalar t x with
             | BByte, SNum _ z => SNum KByte z | _, s => s end) false).
    rewrite (map_ext _ (fun x => cvt (h x))) by reflexivity. rewrite <- (map_map h cvt).
    apply sfv_slice; [exact Hv|]. apply Forall2_self_map. intros x Hx. specialize (Hl x Hx).
    unfold h. rewrite cvt_val.
    destruct (top && gtype_eqb t (TNum KUint8)) eqn:Eb.
    + apply andb_true_iff in Eb. destruct Eb as [_ Eb]. apply gtype_eqb_u8 in Eb. subst t.
      apply xscalar_sfv_byte. exact Hl.
    + pose proof (xscalar_sfv t x Ep Hl) as Hs. pose proof (prim_bt_not_byte t Ep Ht) as Hnb.
      destruct (prim_bt t); try exact Hs. discriminate Hnb.
  - destruct (is_prim t) eqn:Ep; [|discriminate H]. inversion H; subst. clear H.
    pose proof (hty_map_list _ _ Hv) as Hl. rewrite forallb_forall in Hl.
    eexists (TXObj _ _). split; [reflexivity|]. rewrite cvt_xobj, map_map. cbn [fst snd].
    set (h := fun kv : bytes * gvalue => (fst kv, false, TVal (xscalar t (snd kv)) false)).
    rewrite (map_ext _ (fun kv => (fst (fst (h kv)), cvt (snd (h kv))))) by reflexivity.
    rewrite <- (map_map h (fun m => (fst (fst m), cvt (snd m)))). fold (cvm (map h (gmap v))).
    apply sfv_map; [exact Hv|]. apply Forall2_self_map. intros kv Hkv. specialize (Hl kv Hkv).
    apply andb_true_iff in Hl. destruct Hl as [_ Hx]. unfold h. cbn [fst snd]. split; [reflexivity|].
    rewrite cvt_val. apply xscalar_sfv; assumption.
Qed.

(* ---------- omitempty: the resolver chain against spec_empty ---------- *)
Lemma spec_empty_ptr_false t : forall m b v bv,
  base_type t = (m, b) -> deref m v = Some bv ->
  (forall g, spec_empty g b bv = false) -> forall g, spec_empty g t v = false.
Proof.
  induction t; intros m b v bv Hb Hd H g;
    try (inversion Hb; subst; cbn [deref] in Hd; inversion Hd; subst; apply H).
  cbn [base_type] in Hb. destruct (base_type t) as [n' b'] eqn:E. inversion Hb; subst.
  cbn [deref] in Hd. destruct v; try discriminate Hd.
  destruct g as [|g]; [apply spec_empty_O|]. rewrite spec_empty_S. cbn [under].
  eapply IHt; eauto.
Qed.

Lemma no_resolver_nonempty dt : has_resolver dt = false -> forall g v, spec_empty g dt v = false.
Proof.
  unfold has_resolver. intros H g v. destruct g as [|g]; [apply spec_empty_O|].
  rewrite spec_empty_S. destruct (under dt); try discriminate H; destruct v; reflexivity.
Qed.

Lemma under_iface t : type_ok t = true -> under t = TIface -> t = TIface.
Proof. destruct t; try discriminate; [reflexivity|]. cbn [under type_ok]. intros H E. subst. discriminate H. Qed.

Lemma under_not_ptr t u : type_ok t = true -> under t = TPtr u -> t = TPtr u.
Proof. destruct t; try discriminate; [intros _ E; exact E|]. cbn [under type_ok]. intros H E. subst. discriminate H. Qed.

Lemma under_not_named t u : type_ok t = true -> under t = TNamed u -> False.
Proof. destruct t; try discriminate. cbn [under type_ok]. intros H E. subst. discriminate H. Qed.

Lemma cc_type_base t : forall m b, base_type t = (m, b) -> cc_type t = cc_type b.
Proof.
  induction t; intros m b H; try (inversion H; subst; reflexivity).
  cbn [base_type] in H. destruct (base_type t) as [n' b'] eqn:E. inversion H; subst.
  change (cc_type (TPtr t)) with (cc_type t). eapply IHt. reflexivity.
Qed.

Lemma resolve_spec : forall f t v, type_ok t = true -> hty t v = true ->
  match resolve f t v with
  | None => (vsize v <= f)%nat -> forall g, (msz t v <= g)%nat -> spec_empty g t v = true
  | Some (t', v') =>
      (forall g, spec_empty g t v = false) /\ (vsize v' <= vsize v)%nat /\
      (cc_type t' = None -> cc_type t = None) /\
      (forall c, cc_type t' = None -> sfv t' v' c -> sfv t v c)
  end.
Proof.
  induction f as [|f IH]; intros t v Ht Hv.
  { cbn [resolve]. intro Hf. pose proof (vsize_pos v). lia. }
  cbn [resolve]. destruct (base_type t) as [n bt] eqn:Eb.
  destruct (deref n v) as [bv|] eqn:Ed.
  2:{ intros _ g Hg. eapply spec_empty_nilptr; eauto.
      unfold msz in Hg. rewrite (base_tsize t n bt Eb) in Hg. lia. }
  destruct (hty_base t n bt v bv Ht Hv Eb Ed) as [Hbt Hbv].
  pose proof (deref_vsize n v bv Ed) as Hvs. pose proof (msz_base t n bt v bv Eb Ed) as Hm.
  (* what is needed at the base type, transported along the pointers *)
  assert (KS : (forall g, spec_empty g bt bv = false) ->
               (forall g, spec_empty g t v = false) /\ (vsize bv <= vsize v)%nat /\
               (cc_type bt = None -> cc_type t = None) /\
               (forall c, cc_type bt = None -> sfv bt bv c -> sfv t v c)).
  { intro H. split; [eapply spec_empty_ptr_false; eauto|]. split; [lia|].
    split; [rewrite (cc_type_base t n bt Eb); auto|].
    intros c _ Hc. eapply sfv_ptr; eauto. }
  assert (KN : (forall g, (msz bt bv <= S g)%nat -> spec_empty (S g) bt bv = true) ->
               forall g, (msz t v <= g)%nat -> spec_empty g t v = true).
  { intros H g Hg. replace g with (n + S (g - n - 1))%nat
      by (unfold msz in *; pose proof (vsize_pos bv); pose proof (tsize_pos bt); lia).
    rewrite (spec_empty_ptr t n bt v bv _ Eb Ed). apply H. lia. }
  destruct (under bt) as [ | |k| |u|u|n0 u|u|u|l|u| ] eqn:Eu.
  - (* bool *) apply KS. intros [|g]; [apply spec_empty_O|]. rewrite spec_empty_S, Eu. destruct bv; reflexivity.
  - (* string *)
    destruct bv; cbn [hty] in Hbv; rewrite Eu in Hbv; try discriminate Hbv. cbn [glen].
    destruct (zlen s >? 0) eqn:Eg; rewrite Z.gtb_ltb in Eg.
    + apply KS. intros [|g]; [apply spec_empty_O|]. rewrite spec_empty_S, Eu. lia.
    + intros _. apply KN. intros g _. rewrite spec_empty_S, Eu. unfold zlen in *. lia.
  - (* num *) apply KS. intros [|g]; [apply spec_empty_O|]. rewrite spec_empty_S, Eu. destruct bv; reflexivity.
  - (* interface *)
    apply under_iface in Eu; [|exact Hbt]. subst bt.
    destruct bv; try discriminate Hbv.
    + intros _. apply KN. intros g _. rewrite spec_empty_S. reflexivity.
    + apply hty_iface_inv in Hbv. destruct Hbv as (H1 & _ & H3).
      destruct (has_resolver t0) eqn:Eh.
      * specialize (IH t0 bv H1 H3). destruct (resolve f t0 bv) as [[t' v']|].
        -- destruct IH as (A & B & D & C).
           destruct KS as (K1 & K2 & K3 & K4).
           { intros [|g]; [apply spec_empty_O|]. rewrite spec_empty_S. cbn [under]. apply A. }
           split; [exact K1|]. split; [cbn [vsize] in K2; lia|].
           split; [intros _; apply K3; reflexivity|].
           intros c Hcc Hc. apply K4; [reflexivity|]. apply sfv_iface; [apply D; exact Hcc|].
           apply C; assumption.
        -- intros Hf. apply KN. intros g Hg. rewrite spec_empty_S. cbn [under].
           unfold msz in Hg. cbn [tsize vsize] in Hg, Hvs. apply IH; [lia|unfold msz; lia].
      * apply KS. intros [|g]; [apply spec_empty_O|]. rewrite spec_empty_S. cbn [under].
        apply no_resolver_nonempty. exact Eh.
  - (* pointer: not a base type *)
    exfalso. apply under_not_ptr in Eu; [|exact Hbt]. exact (base_type_not_ptr t n bt Eb u Eu).
  - (* slice *)
    destruct bv; cbn [hty] in Hbv; rewrite Eu in Hbv; try discriminate Hbv; cbn [glen].
    + intros _. apply KN. intros g _. rewrite spec_empty_S, Eu. reflexivity.
    + destruct (zlen vs >? 0) eqn:Eg; rewrite Z.gtb_ltb in Eg.
      * apply KS. intros [|g]; [apply spec_empty_O|]. rewrite spec_empty_S, Eu. lia.
      * intros _. apply KN. intros g _. rewrite spec_empty_S, Eu. unfold zlen in *. lia.
  - (* array *)
    destruct bv; cbn [hty] in Hbv; rewrite Eu in Hbv; try discriminate Hbv; cbn [glen].
    destruct (zlen vs >? 0) eqn:Eg; rewrite Z.gtb_ltb in Eg.
    + apply KS. intros [|g]; [apply spec_empty_O|]. rewrite spec_empty_S, Eu. lia.
    + intros _. apply KN. intros g _. rewrite spec_empty_S, Eu. unfold zlen in *. lia.
  - (* map *)
    destruct bv; cbn [hty] in Hbv; rewrite Eu in Hbv; try discriminate Hbv; cbn [glen].
    + intros _. apply KN. intros g _. rewrite spec_empty_S, Eu. reflexivity.
    + destruct (zlen kvs >? 0) eqn:Eg; rewrite Z.gtb_ltb in Eg.
      * apply KS. intros [|g]; [apply spec_empty_O|]. rewrite spec_empty_S, Eu. lia.
      * intros _. apply KN. intros g _. rewrite spec_empty_S, Eu. unfold zlen in *. lia.
  - (* map with another key type *)
    destruct bv; cbn [hty] in Hbv; rewrite Eu in Hbv; try discriminate Hbv; cbn [glen].
    + intros _. apply KN. intros g _. rewrite spec_empty_S, Eu. reflexivity.
    + destruct (zlen kvs >? 0) eqn:Eg; rewrite Z.gtb_ltb in Eg.
      * apply KS. intros [|g]; [apply spec_empty_O|]. rewrite spec_empty_S, Eu. lia.
      * intros _. apply KN. intros g _. rewrite spec_empty_S, Eu. unfold zlen in *. lia.
  - (* struct *) apply KS. intros [|g]; [apply spec_empty_O|]. rewrite spec_empty_S, Eu. destruct bv; reflexivity.
  - exfalso. exact (under_not_named bt u Hbt Eu).
  - (* unsupported *) apply KS. intros [|g]; [apply spec_empty_O|]. rewrite spec_empty_S, Eu. destruct bv; reflexivity.
Qed.

(* ---------- inline: an object value gives its members ---------- *)
Lemma Sim_obj g : forall G t v cms inif g0,
  type_ok t = true -> hty t v = true ->
  (forall g', (g0 <= g')%nat -> spec_fold g' t v = Some (CObj cms)) ->
  (g0 <= g)%nat -> (msz t v <= G)%nat ->
  Sim g G inif t v = Some cms.
Proof.
  induction G as [|G IH]; intros t v cms inif g0 Ht Hv H Hg HG.
  { unfold msz in HG. pose proof (vsize_pos v). lia. }
  rewrite Sim_S. pose proof (H (S g0) (Nat.le_succ_diag_r g0)) as H1. rewrite spec_fold_S in H1.
  pose proof (H g Hg) as H2.
  destruct (under t) as [ | |k| |u|u|n0 u|u|u|l|u| ] eqn:Eu;
    destruct v; cbn [hty] in Hv; rewrite Eu in Hv; try discriminate Hv; try discriminate H1.
  - (* interface *)
    apply under_iface in Eu; [|exact Ht]. subst t.
    apply hty_iface_inv in Hv. destruct Hv as (Hv1 & _ & Hv3).
    assert (Hsup : spec_supported (S g) t0 = true).
    { pose proof (H (S g) ltac:(lia)) as Hx. rewrite spec_fold_S in Hx. cbn [under] in Hx.
      destruct (spec_supported (S g) t0); [reflexivity|discriminate Hx]. }
    rewrite Hsup.
    apply (IH t0 v cms true g0 Hv1 Hv3); [|exact Hg|unfold msz in *; cbn [tsize vsize] in HG; lia].
    intros g' Hg'. specialize (H (S g') (Nat.le_trans _ _ _ Hg' (Nat.le_succ_diag_r g'))).
    rewrite spec_fold_S in H. cbn [under] in H.
    destruct (spec_supported (S g') t0); [exact H|discriminate H].
  - (* pointer *)
    apply under_not_ptr in Eu; [|exact Ht]. subst t. cbn [type_ok] in Ht.
    apply (IH u v cms inif g0 Ht Hv); [|exact Hg|unfold msz in *; cbn [tsize vsize] in HG; lia].
    intros g' Hg'. specialize (H (S g') (Nat.le_trans _ _ _ Hg' (Nat.le_succ_diag_r g'))).
    rewrite spec_fold_S in H. exact H.
  - destruct (opt_all _); discriminate H1.
  - destruct (opt_all _); discriminate H1.
  - inversion H1. reflexivity.
  - rewrite H2. reflexivity.
  - rewrite H2. reflexivity.
Qed.

Lemma sfv_Sim ft fv cms : type_ok ft = true -> hty ft fv = true ->
  sfv ft fv (CObj cms) -> forall g, (msz ft fv < g)%nat -> Sim g (S g) false ft fv = Some cms.
Proof.
  intros Ht Hv H g Hg. apply (Sim_obj g (S g) ft fv cms false (S (msz ft fv)) Ht Hv); try lia.
  intros g' Hg'. apply H. lia.
Qed.

(* ---------- the compile check, as far as the run needs it ---------- *)
Definition ccok (t : gtype) : Prop := exists gc, cc gc t = None.

Lemma cc_O t : cc O t = Some feUnsupported. Proof. reflexivity. Qed.

Lemma ccok_inv t : ccok t -> exists gc, cc (S gc) t = None.
Proof. intros [[|gc] H]; [rewrite cc_O in H; discriminate H|eauto]. Qed.

Lemma ccok_ptr u : ccok (TPtr u) -> ccok u.
Proof. intro H. apply ccok_inv in H. destruct H as [gc H]. rewrite cc_S in H. exists gc. exact H. Qed.
Lemma ccok_slice u : ccok (TSlice u) -> ccok u.
Proof. intro H. apply ccok_inv in H. destruct H as [gc H]. rewrite cc_S in H. exists gc. exact H. Qed.
Lemma ccok_array n u : ccok (TArray n u) -> ccok u.
Proof. intro H. apply ccok_inv in H. destruct H as [gc H]. rewrite cc_S in H. exists gc. exact H. Qed.
Lemma ccok_map u : ccok (TMap u) -> ccok u.
Proof. intro H. apply ccok_inv in H. destruct H as [gc H]. rewrite cc_S in H. exists gc. exact H. Qed.
Lemma ccok_named u : ccok (TNamed u) -> ccok u.
Proof. intro H. apply ccok_inv in H. destruct H as [gc H]. rewrite cc_S in H. exists gc. exact H. Qed.

Lemma ccok_base t : forall m b, ccok t -> base_type t = (m, b) -> ccok b.
Proof.
  induction t; intros m b Hc Eb; try (inversion Eb; subst; exact Hc).
  cbn [base_type] in Eb. destruct (base_type t) as [n' b'] eqn:E. inversion Eb; subst.
  eapply IHt; [apply ccok_ptr; exact Hc|reflexivity].
Qed.

Lemma ccok_under_map t et : ccok t -> under t = TMap et -> ccok et.
Proof.
  intros Hc Eu. destruct t; try discriminate Eu; cbn [under] in Eu.
  - inversion Eu; subst. apply ccok_map. exact Hc.
  - subst. apply ccok_map. apply ccok_named. exact Hc.
Qed.

Lemma cc_fields_cons gc name tag ft fs :
  cc_fields gc ((name, tag, ft) :: fs) = None ->
  cc_fields gc fs = None /\
  (exported name = true ->
   let o := snd (parse_tags tag) in
   t_squash o && t_omitempty o = false /\
   (t_omit o = false ->
    if t_squash o then
      match under (snd (base_type ft)) with
      | TStruct _ | TMap _ | TMapK _ => cc gc (snd (base_type ft)) = None
      | _ => True
      end
    else cc gc ft = None)).
Proof.
  cbn [cc_fields]. fold (cc_fields gc). destruct (exported name); cbn [negb]; [|intro H; split; [exact H|discriminate]].
  cbv zeta. destruct (t_squash (snd (parse_tags tag)) && t_omitempty (snd (parse_tags tag))); [discriminate|].
  destruct (t_omit (snd (parse_tags tag))).
  - intro H. split; [exact H|]. intros _. split; [reflexivity|discriminate].
  - destruct (t_squash (snd (parse_tags tag))).
    + destruct (under (snd (base_type ft))) eqn:Eu; intro H;
        try (destruct (cc gc (snd (base_type ft))) eqn:Ec; [discriminate H|]);
        try discriminate H;
        (split; [exact H|]; intros _; split; [reflexivity|]; intros _; try exact I; try reflexivity).
    + destruct (cc gc ft) eqn:Ec; [discriminate|]. intro H. split; [exact H|].
      intros _. split; [reflexivity|]. intros _. reflexivity.
Qed.

(* ---------- the induction ---------- *)
Definition P12 (f : nat) : Prop :=
  (forall inl t v evs, type_ok t = true -> hty t v = true -> ccok t -> (vsize v <= f)%nat ->
     rf f inl t v = (evs, None) ->
     (inl = false -> okc t v evs) /\
     (inl = true -> forall fs, t = TStruct fs ->
        exists ms, evs = flatten_members ms /\ sfv t v (CObj (cvm ms)))) /\
  (forall t v evs, type_ok t = true -> hty t v = true -> (vsize v < f)%nat ->
     ftop f t v = (evs, None) -> okc t v evs).

Lemma sfv_nil_iface : sfv TIface GNil CNil.
Proof. intros g Hg. destruct g; [lia|]. rewrite spec_fold_S. reflexivity. Qed.

Lemma okc_nil_iface : okc TIface GNil [EVal SNil].
Proof. apply okc_val. exact sfv_nil_iface. Qed.

Lemma okc_iface dt dv evs : cc_type dt = None -> okc dt dv evs -> okc TIface (GIface dt dv) evs.
Proof. intros Hc (tr & E & H). exists tr. split; [exact E|apply sfv_iface; assumption]. Qed.

Lemma Anyr_ok_cc f dt dv evs : Anyr f dt dv = (evs, None) -> cc_type dt = None.
Proof.
  unfold Anyr. destruct (cc_type dt); [intro H; apply ferr_ok in H; contradiction|reflexivity].
Qed.

Lemma ftop_ok_cc f t v evs : ftop f t v = (evs, None) -> cc_type t = None.
Proof.
  intro H. destruct f as [|f]; [rewrite ftop_O in H; discriminate H|].
  destruct (cc_type t) as [e|] eqn:Ec; [|reflexivity].
  rewrite (ftop_cc f t v e Ec) in H. discriminate H.
Qed.

Lemma Anyr_okc f dt dv evs : P12 f ->
  type_ok dt = true -> hty dt dv = true -> (vsize dv <= f)%nat ->
  Anyr f dt dv = (evs, None) -> okc dt dv evs.
Proof.
  intros [Hrf _] Ht Hv Hf H. unfold Anyr in H.
  destruct (cc_type dt) eqn:Ec; [apply ferr_ok in H; contradiction|].
  assert (Hc : ccok dt) by (eexists; exact Ec).
  destruct (Hrf false dt dv evs Ht Hv Hc Hf H) as [H1 _]. apply H1. reflexivity.
Qed.

Lemma hty_iface_nil x : hty TIface x = true ->
  x = GNil \/ exists dt dv, x = GIface dt dv /\ type_ok dt = true /\ hty dt dv = true.
Proof.
  destruct x; try discriminate; [left; reflexivity|]. intro H. right.
  apply hty_iface_inv in H. destruct H as (H1 & _ & H3). eauto.
Qed.

Lemma Ielem_okc f x evs : P12 f -> hty TIface x = true -> (vsize x <= f)%nat ->
  Ielem f x = (evs, None) -> okc TIface x evs.
Proof.
  intros [_ Hft] Hv Hf H. unfold Ielem in H.
  destruct (hty_iface_nil x Hv) as [->|(dt & dv & -> & H1 & H3)].
  - apply fok_inv in H. subst. apply okc_nil_iface.
  - apply okc_iface; [exact (ftop_ok_cc _ _ _ _ H)|]. apply (Hft dt dv evs H1 H3); [|exact H]. cbn [vsize] in Hf. lia.
Qed.

Lemma Mapval_okc f et x evs : P12 f ->
  type_ok et = true -> ccok et -> hty et x = true -> (vsize x <= f)%nat ->
  Mapval f et x = (evs, None) -> okc et x evs.
Proof.
  intros HP Ht Hc Hv Hf H. unfold Mapval in H. destruct (is_prim et).
  - destruct (prim_scalar true et x) eqn:E; [|apply ferr_ok in H; contradiction].
    apply fok_inv in H. subst. apply okc_val. eapply prim_scalar_sfv; eauto.
  - destruct (gtype_eqb et TIface) eqn:Ei.
    + apply gtype_eqb_iface in Ei. subst et. apply (Ielem_okc f x evs HP Hv Hf). exact H.
    + destruct HP as [Hrf _]. destruct (Hrf false et x evs Ht Hv Hc Hf H) as [H1 _]. apply H1. reflexivity.
Qed.

Lemma Mapkeys_okc f et kvs evs : P12 f -> type_ok et = true -> ccok et ->
  forallb (fun kv => all_bytes (fst kv) && hty et (snd kv)) kvs = true ->
  (vsum_kv kvs <= f)%nat ->
  Mapkeys f et kvs = (evs, None) ->
  exists ms, evs = flatten_members ms /\
    Forall2 (fun kv m => fst m = (fst kv, false) /\ sfv et (snd kv) (cvt (snd m))) kvs ms.
Proof.
  intros HP Ht Hc Hv Hf H. unfold Mapkeys in H.
  apply (seq_members (Mapval f et) (fun x tr => sfv et x (cvt tr))) in H; [exact H|].
  intros kv e Hkv He. rewrite forallb_forall in Hv. specialize (Hv kv Hkv).
  apply andb_true_iff in Hv. destruct Hv as [_ Hx]. pose proof (vsum_kv_in kv kvs Hkv).
  apply (Mapval_okc f et (snd kv) e HP Ht Hc Hx); [lia|exact He].
Qed.

Lemma Elems_okc f et l evs : P12 f -> type_ok et = true -> ccok et ->
  forallb (hty et) l = true -> (vsum l <= f)%nat ->
  Elems f et l = (evs, None) ->
  exists es, evs = flatten_elems es /\ Forall2 (fun x tr => sfv et x (cvt tr)) l es.
Proof.
  intros [Hrf _] Ht Hc Hv Hf H. unfold Elems in H.
  apply (seq_elems (rf f false et) (fun x tr => sfv et x (cvt tr))) in H; [exact H|].
  intros x e Hx He. rewrite forallb_forall in Hv. specialize (Hv x Hx). pose proof (vsum_in x l Hx).
  destruct (Hrf false et x e Ht Hv Hc ltac:(lia) He) as [H1 _]. apply H1. reflexivity.
Qed.

Lemma glist_vsum v : (vsum (glist v) < vsize v)%nat.
Proof. destruct v; cbn [glist vsum fold_right vsize]; lia. Qed.
Lemma gmap_vsum v : (vsum_kv (gmap v) < vsize v)%nat.
Proof. destruct v; cbn [gmap vsum_kv fold_right vsize]; lia. Qed.

Lemma okc_ext t t' v evs : (forall c, sfv t v c -> sfv t' v c) -> okc t v evs -> okc t' v evs.
Proof. intros H (tr & E & Hs). exists tr. split; [exact E|apply H; exact Hs]. Qed.

Lemma map_case_okc f et v evs : P12 f -> type_ok et = true -> ccok et -> hty (TMap et) v = true ->
  (vsize v <= S f)%nat ->
  (fok [EObjStart (glen v) BAny] ;; Mapkeys f et (gmap v) ;; fok [EObjEnd]) = (evs, None) ->
  okc (TMap et) v evs.
Proof.
  intros HP Ht Hc Hv Hf H. apply fseq_fok_l in H. destruct H as (e2 & H & ->).
  apply fseq_fok_r in H. destruct H as (e1 & H & ->). pose proof (gmap_vsum v).
  destruct (Mapkeys_okc f et (gmap v) e1 HP Ht Hc (hty_map_list et v Hv) ltac:(lia) H) as (ms & -> & HF).
  exists (TObj (glen v) BAny ms). split; [symmetry; apply flatten_obj|].
  rewrite cvt_obj. apply sfv_map; assumption.
Qed.

Lemma slice_case_okc f et v evs : P12 f -> type_ok et = true -> ccok et -> hty (TSlice et) v = true ->
  (vsize v <= S f)%nat ->
  (fok [EArrStart (glen v) BAny] ;; Elems f et (glist v) ;; fok [EArrEnd]) = (evs, None) ->
  okc (TSlice et) v evs.
Proof.
  intros HP Ht Hc Hv Hf H. apply fseq_fok_l in H. destruct H as (e2 & H & ->).
  apply fseq_fok_r in H. destruct H as (e1 & H & ->). pose proof (glist_vsum v).
  destruct (Elems_okc f et (glist v) e1 HP Ht Hc (hty_slice_list et v Hv) ltac:(lia) H) as (es & -> & HF).
  exists (TArr (glen v) BAny es). split; [symmetry; apply flatten_arr|].
  rewrite cvt_arr. apply sfv_slice; assumption.
Qed.

Lemma array_case_okc f n et v evs : P12 f -> type_ok et = true -> ccok et -> hty (TArray n et) v = true ->
  (vsize v <= S f)%nat ->
  (fok [EArrStart (glen v) BAny] ;; Elems f et (glist v) ;; fok [EArrEnd]) = (evs, None) ->
  okc (TArray n et) v evs.
Proof.
  intros HP Ht Hc Hv Hf H. apply fseq_fok_l in H. destruct H as (e2 & H & ->).
  apply fseq_fok_r in H. destruct H as (e1 & H & ->). pose proof (glist_vsum v).
  destruct (Elems_okc f et (glist v) e1 HP Ht Hc (hty_array_list n et v Hv) ltac:(lia) H) as (es & -> & HF).
  exists (TArr (glen v) BAny es). split; [symmetry; apply flatten_arr|].
  rewrite cvt_arr. apply sfv_array; assumption.
Qed.

Lemma sfv_under t t' v c : under t = under t' -> (tsize t' <= tsize t)%nat ->
  sfv t' v c -> sfv t v c.
Proof.
  intros Hu Hs H g Hg. rewrite (spec_fold_under g t t' v Hu). apply H. unfold msz in *. lia.
Qed.

Lemma cvt_expand tr : cvt (expand_tree tr) = cvt tr.
Proof. unfold cvt. rewrite expand_deep_value. reflexivity. Qed.

Lemma Inl2_okc f n bt ft fv evs : P12 f ->
  type_ok ft = true -> hty ft fv = true -> base_type ft = (n, bt) ->
  match under bt with TStruct _ | TMap _ | TMapK _ => ccok bt | _ => True end ->
  (vsize fv <= f)%nat ->
  Inl2 f n bt fv = (evs, None) ->
  exists ms, evs = flatten_members ms /\
    forall g, (msz ft fv < g)%nat -> Sim g (S g) false ft fv = Some (cvm ms).
Proof.
  intros HP Ht Hv Eb Hcc Hf H. unfold Inl2 in H.
  pose proof (base_tsize ft n bt Eb) as Hts.
  destruct (deref n fv) as [bv|] eqn:Ed.
  2:{ apply fok_inv in H. subst. exists []. split; [reflexivity|]. intros g Hg.
      apply (Sim_nilptr g ft n bt fv (S g) Eb Ed Hv). unfold msz in Hg. lia. }
  destruct (hty_base ft n bt fv bv Ht Hv Eb Ed) as [Hbt Hbv].
  pose proof (deref_vsize n fv bv Ed) as Hvs.
  assert (K : forall ms, sfv bt bv (CObj (cvm ms)) ->
              forall g, (msz ft fv < g)%nat -> Sim g (S g) false ft fv = Some (cvm ms)).
  { intros ms Hs. apply sfv_Sim; [exact Ht|exact Hv|]. eapply sfv_ptr; eauto. }
  destruct (under bt) as [ | |k| |u|u|n0 u|u|u|l|u| ] eqn:Eu;
    try (destruct bv; apply ferr_ok in H; contradiction).
  - (* interface *)
    apply under_iface in Eu; [|exact Hbt]. subst bt.
    destruct (hty_iface_nil bv Hbv) as [->|(dt & dv & -> & H1 & H3)].
    + apply fok_inv in H. subst. exists []. split; [reflexivity|]. intros g Hg.
      replace (S g) with (n + S (g - n))%nat by (unfold msz in Hg; lia).
      rewrite (Sim_ptr g ft n TIface fv GNil _ false Eb Ed). rewrite Sim_S. reflexivity.
    + destruct (embed_ok_inv _ _ H) as (e0 & He0). rewrite He0 in H.
      assert (Hdv : (vsize dv <= f)%nat) by (cbn [vsize] in Hvs; lia).
      destruct (Anyr_okc f dt dv e0 HP H1 H3 Hdv He0) as (tr & -> & Hs).
      apply embed_flatten in H. destruct H as (len & b & ms & Ex & ->).
      exists ms. split; [reflexivity|]. apply K. apply sfv_iface; [exact (Anyr_ok_cc _ _ _ _ He0)|].
      rewrite <- cvt_obj with (len := len) (bt := b). rewrite <- Ex, cvt_expand. exact Hs.
  - (* map *)
    assert (Hcu : ccok u) by (eapply ccok_under_map; eauto).
    assert (Htu : type_ok u = true) by (pose proof (type_ok_under bt Hbt) as Hu; rewrite Eu in Hu; exact Hu).
    assert (Hmv : hty (TMap u) bv = true).
    { destruct bv; cbn [hty] in Hbv; rewrite Eu in Hbv; try discriminate Hbv; exact Hbv. }
    assert (Hsz : (tsize (TMap u) <= tsize bt)%nat).
    { destruct bt; try discriminate Eu; cbn [under] in Eu; [inversion Eu; subst; lia|subst; cbn [tsize]; lia]. }
    assert (KM : forall ms,
       Forall2 (fun kv m => fst m = (fst kv, false) /\ sfv u (snd kv) (cvt (snd m))) (gmap bv) ms ->
       forall g, (msz ft fv < g)%nat -> Sim g (S g) false ft fv = Some (cvm ms)).
    { intros ms HF. apply K. apply (sfv_under bt (TMap u)); [rewrite Eu; reflexivity|exact Hsz|].
      apply sfv_map; assumption. }
    destruct bv; try (apply fok_inv in H; subst; exists []; split; [reflexivity|]; apply KM; constructor).
    pose proof (gmap_vsum (GMap kvs)) as Hgv. cbn [gmap] in Hgv.
    destruct (Mapkeys_okc f u kvs evs HP Htu Hcu (hty_map_list u _ Hmv) ltac:(lia) H) as (ms & -> & HF).
    exists ms. split; [reflexivity|]. apply KM. exact HF.
  - (* struct *)
    destruct bv; try (apply ferr_ok in H; contradiction).
    destruct bt; try discriminate Eu; [|cbn [under] in Eu; subst; discriminate Hbt].
    cbn [under] in Eu. destruct HP as [Hrf _].
    destruct (Hrf true _ _ evs Hbt Hbv Hcc ltac:(lia) H) as [_ H2].
    destruct (H2 eq_refl _ eq_refl) as (ms & -> & Hs). exists ms. split; [reflexivity|]. apply K. exact Hs.
Qed.

Lemma Resolved_okc f t' v' evs : P12 f -> type_ok t' = true -> hty t' v' = true ->
  (vsize v' <= f)%nat -> Resolved f t' v' = (evs, None) -> okc t' v' evs.
Proof.
  intros HP Ht Hv Hf H. unfold Resolved in H.
  destruct t'; try (eapply Anyr_okc; eauto; fail).
  destruct (hty_iface_nil v' Hv) as [->|(dt & dv & -> & H1 & H3)].
  - apply fok_inv in H. subst. apply okc_nil_iface.
  - apply okc_iface; [exact (Anyr_ok_cc _ _ _ _ H)|]. apply (Anyr_okc f dt dv evs HP H1 H3); [cbn [vsize] in Hf; lia|exact H].
Qed.

Lemma Resolved_ok_cc f t' v' e : Resolved f t' v' = (e, None) -> cc_type t' = None.
Proof.
  unfold Resolved. destruct t'; try (apply Anyr_ok_cc); intros _; reflexivity.
Qed.

Lemma flatten_members_one k tr : flatten_members [(k, false, tr)] = EKey k :: flatten tr.
Proof. cbn [flatten_members flat_map key_event]. rewrite app_nil_r. reflexivity. Qed.

Lemma Member_okc f name' oe ft fv evs : P12 f ->
  type_ok ft = true -> hty ft fv = true -> ccok ft -> (vsize fv <= f)%nat ->
  Member f name' oe ft fv = (evs, None) ->
  exists m1, evs = flatten_members m1 /\
    forall g, (msz ft fv < g)%nat ->
      (oe && spec_empty (S g) ft fv = true /\ m1 = []) \/
      (oe && spec_empty (S g) ft fv = false /\
       exists tr, m1 = [(name', false, tr)] /\ spec_fold g ft fv = Some (cvt tr)).
Proof.
  intros HP Ht Hv Hc Hf H. unfold Member in H. destruct oe.
  - pose proof (resolve_spec f ft fv Ht Hv) as HR.
    destruct (resolve f ft fv) as [[t' v']|] eqn:Er.
    + apply fseq_fok_l in H. destruct H as (e2 & H & ->). cbn [app].
      destruct HR as (A & B & _ & C).
      destruct (resolve_hty f ft fv t' v' Ht Hv Er) as [Ht' Hv'].
      pose proof (Resolved_ok_cc f t' v' e2 H) as Hcc'.
      destruct (Resolved_okc f t' v' e2 HP Ht' Hv' ltac:(lia) H) as (tr & -> & Hs).
      exists [(name', false, tr)]. split; [symmetry; apply flatten_members_one|].
      intros g Hg. right. rewrite A. split; [reflexivity|]. exists tr. split; [reflexivity|].
      apply (C _ Hcc' Hs). exact Hg.
    + apply fok_inv in H. subst. exists []. split; [reflexivity|]. intros g Hg. left.
      rewrite (HR Hf (S g)) by lia. split; reflexivity.
  - apply fseq_fok_l in H. destruct H as (e2 & H & ->). cbn [app].
    destruct HP as [Hrf _]. destruct (Hrf false ft fv e2 Ht Hv Hc Hf H) as [H1 _].
    destruct (H1 eq_refl) as (tr & -> & Hs).
    exists [(name', false, tr)]. split; [symmetry; apply flatten_members_one|].
    intros g Hg. right. split; [reflexivity|]. exists tr. split; [reflexivity|]. apply Hs. exact Hg.
Qed.

Lemma Sfields_cons g name tag ft fs fv vs acc :
  Sfields g ((name, tag, ft) :: fs) (fv :: vs) acc =
  if negb (exported name) then Sfields g fs vs acc else
  let '(tn, o) := parse_tags tag in
  if t_squash o && t_omitempty o then None
  else if t_omit o then Sfields g fs vs acc
  else if t_squash o then
    match Sim g (S g) false ft fv with
    | Some ms => Sfields g fs vs (rev ms ++ acc)
    | None => None
    end
  else if t_omitempty o && spec_empty (S g) ft fv then Sfields g fs vs acc
  else
    match spec_fold g ft fv with
    | Some x => Sfields g fs vs ((field_name name tn, x) :: acc)
    | None => None
    end.
Proof. reflexivity. Qed.

Lemma Field1_okc f name tag ft fv e1 : P12 f ->
  type_ok ft = true -> hty ft fv = true ->
  (exported name = true ->
   let o := snd (parse_tags tag) in
   t_squash o && t_omitempty o = false /\
   (t_omit o = false ->
    if t_squash o then
      match under (snd (base_type ft)) with
      | TStruct _ | TMap _ | TMapK _ => ccok (snd (base_type ft))
      | _ => True
      end
    else ccok ft)) ->
  (vsize fv <= f)%nat ->
  Field1 f name tag ft fv = (e1, None) ->
  exists m1, e1 = flatten_members m1 /\
    forall g fs vs acc, (msz ft fv < g)%nat ->
      Sfields g ((name, tag, ft) :: fs) (fv :: vs) acc = Sfields g fs vs (rev (cvm m1) ++ acc).
Proof.
  intros HP Ht Hv Hcc Hf H. unfold Field1 in H.
  destruct (exported name) eqn:Ex; cbn [negb] in H.
  2:{ apply fok_inv in H. subst. exists []. split; [reflexivity|]. intros g fs vs acc Hg.
      rewrite Sfields_cons, Ex. reflexivity. }
  specialize (Hcc eq_refl). cbv zeta in Hcc. destruct Hcc as [Hso Hcc].
  destruct (parse_tags tag) as [tn o] eqn:Etag. cbn [snd] in *.
  destruct (t_omit o) eqn:Eo.
  { apply fok_inv in H. subst. exists []. split; [reflexivity|]. intros g fs vs acc Hg.
    rewrite Sfields_cons, Ex, Etag, Hso, Eo. reflexivity. }
  specialize (Hcc eq_refl).
  destruct (t_squash o) eqn:Es.
  - unfold Inl in H. destruct (base_type ft) as [n bt] eqn:Eb. cbn [snd] in Hcc.
    destruct (Inl2_okc f n bt ft fv e1 HP Ht Hv Eb Hcc Hf H) as (ms & -> & HS).
    exists ms. split; [reflexivity|]. intros g fs vs acc Hg.
    cbn [andb] in Hso. rewrite Sfields_cons, Ex, Etag, Es. cbn [negb andb]. rewrite Hso, Eo, (HS g Hg). reflexivity.
  - destruct (Member_okc f _ _ ft fv e1 HP Ht Hv Hcc Hf H) as (m1 & -> & HS).
    exists m1. split; [reflexivity|]. intros g fs vs acc Hg.
    rewrite Sfields_cons, Ex, Etag, Es. cbn [negb andb]. rewrite Eo.
    destruct (HS g Hg) as [[E1 ->]|[E1 (tr & -> & E2)]]; rewrite E1.
    + reflexivity.
    + rewrite E2. reflexivity.
Qed.

Lemma Fields_okc f : P12 f -> forall fs vs evs gc,
  type_ok_fields fs = true -> hty_fields fs vs = true -> cc_fields gc fs = None ->
  (vsum vs <= f)%nat ->
  Fields f fs vs = (evs, None) ->
  exists ms, evs = flatten_members ms /\
    forall g acc, (tsum fs + vsum vs < g)%nat ->
      Sfields g fs vs acc = Some (CObj (rev acc ++ cvm ms)).
Proof.
  intros HP. induction fs as [|[[name tag] ft] fs IH]; intros vs evs gc Ht Hv Hc Hf H.
  - rewrite Fields_nil_l in H. apply fok_inv in H. subst. exists []. split; [reflexivity|].
    intros g acc _. cbn [cvm map]. rewrite app_nil_r. reflexivity.
  - destruct vs as [|fv vs]; [discriminate Hv|].
    rewrite Fields_cons in H. apply fseq_ok in H. destruct H as (e1 & e2 & H1 & H2 & ->).
    cbn [type_ok_fields] in Ht. fold type_ok_fields in Ht.
    apply andb_true_iff in Ht. destruct Ht as [Ht Ht4]. apply andb_true_iff in Ht. destruct Ht as [Ht Ht3].
    cbn [hty_fields] in Hv. fold hty_fields in Hv. apply andb_true_iff in Hv. destruct Hv as [Hv1 Hv2].
    apply cc_fields_cons in Hc. destruct Hc as [Hc1 Hc2].
    cbn [vsum fold_right] in Hf. fold (vsum vs) in Hf.
    assert (Hcc : exported name = true ->
       let o := snd (parse_tags tag) in
       t_squash o && t_omitempty o = false /\
       (t_omit o = false ->
        if t_squash o then
          match under (snd (base_type ft)) with
          | TStruct _ | TMap _ | TMapK _ => ccok (snd (base_type ft))
          | _ => True
          end
        else ccok ft)).
    { intro Ex. specialize (Hc2 Ex). cbv zeta in *. destruct Hc2 as [A B]. split; [exact A|].
      intro Eo. specialize (B Eo). destruct (t_squash (snd (parse_tags tag))).
      - destruct (under (snd (base_type ft))); try exact I; exists gc; exact B.
      - exists gc; exact B. }
    destruct (Field1_okc f name tag ft fv e1 HP Ht3 Hv1 Hcc ltac:(lia) H1) as (m1 & -> & HS1).
    destruct (IH vs e2 gc Ht4 Hv2 Hc1 ltac:(lia) H2) as (m2 & -> & HS2).
    exists (m1 ++ m2). split; [symmetry; apply flatten_members_app|].
    intros g acc Hg. cbn [tsum vsum fold_right] in Hg. fold tsum in Hg. fold (vsum vs) in Hg.
    rewrite HS1 by (unfold msz; lia). rewrite HS2 by lia.
    rewrite rev_app_distr, rev_involutive, cvm_app, <- app_assoc. reflexivity.
Qed.

Lemma Fast_okc f u v evs : P12 f -> type_ok u = true -> hty u v = true -> (vsize v <= f)%nat ->
  Fast f v u = Some (evs, None) -> okc u v evs.
Proof.
  intros HP Ht Hv Hf HF. unfold Fast in HF.
  destruct (prim_fold true u v) as [pe|] eqn:Ep.
  - inversion HF; subst. eapply prim_fold_okc; eauto.
  - destruct u as [ | |k| |u|u|n0 u|u|u|l|u| ]; try discriminate HF.
    + destruct u; try discriminate HF. apply Some_inj in HF. rename HF into H.
      apply fseq_fok_l in H. destruct H as (e2 & H & ->).
      apply fseq_fok_r in H. destruct H as (e1 & H & ->).
      apply (seq_elems (Ielem f) (fun x tr => sfv TIface x (cvt tr))) in H.
      * destruct H as (es & -> & HF). exists (TArr (glen v) BAny es).
        split; [symmetry; apply flatten_arr|]. rewrite cvt_arr. apply sfv_slice; assumption.
      * intros x e Hx He. pose proof (hty_slice_list _ _ Hv) as Hl. rewrite forallb_forall in Hl.
        pose proof (vsum_in x _ Hx). pose proof (glist_vsum v).
        exact (Ielem_okc f x e HP (Hl x Hx) ltac:(lia) He).
    + destruct u; try discriminate HF. apply Some_inj in HF. rename HF into H.
      apply fseq_fok_l in H. destruct H as (e2 & H & ->).
      apply fseq_fok_r in H. destruct H as (e1 & H & ->).
      pose proof (hty_map_list _ _ Hv) as Hl.
      apply (seq_members (Ielem f) (fun x tr => sfv TIface x (cvt tr))) in H.
      * destruct H as (ms & -> & HF). exists (TObj (glen v) BAny ms).
        split; [symmetry; apply flatten_obj|]. rewrite cvt_obj. apply sfv_map; assumption.
      * intros kv e Hkv He. rewrite forallb_forall in Hl. specialize (Hl kv Hkv).
        apply andb_true_iff in Hl. destruct Hl as [_ Hx].
        pose proof (vsum_kv_in kv _ Hkv). pose proof (gmap_vsum v).
        exact (Ielem_okc f (snd kv) e HP Hx ltac:(lia) He).
Qed.

Theorem P12_all : forall f, P12 f.
Proof.
  induction f as [|f IH].
  - split.
    + intros inl t v evs _ _ _ _ H. rewrite rf_O in H. discriminate H.
    + intros t v evs _ _ _ H. rewrite ftop_O in H. discriminate H.
  - split.
    + intros inl t v evs Ht Hv Hc Hf H. rewrite rf_S in H.
      destruct (prim_fold false t v) as [pe|] eqn:Ep.
      { apply fok_inv in H. subst. split.
        - intros _. eapply prim_fold_okc; eauto.
        - intros _ fs E. subst t. discriminate Ep. }
      destruct t as [ | |k| |u|u|n0 u|u|u|fs|u| ];
        try (apply ferr_ok in H; contradiction).
      * (* interface *)
        split; [intros _|intros _ fs E; discriminate E].
        destruct (hty_iface_nil v Hv) as [->|(dt & dv & -> & H1 & H3)].
        -- apply fok_inv in H. subst. apply okc_nil_iface.
        -- apply okc_iface; [exact (Anyr_ok_cc _ _ _ _ H)|]. apply (Anyr_okc f dt dv evs IH H1 H3); [cbn [vsize] in Hf; lia|exact H].
      * (* pointer *)
        split; [intros _|intros _ fs E; discriminate E].
        destruct (base_type (TPtr u)) as [n bt] eqn:Eb.
        destruct (deref n v) as [bv|] eqn:Ed.
        -- destruct (hty_base _ _ _ _ _ Ht Hv Eb Ed) as [Hbt Hbv].
           pose proof (deref_vsize n v bv Ed) as Hvs.
           assert (Hn : (1 <= n)%nat).
           { cbn [base_type] in Eb. destruct (base_type u). inversion Eb. lia. }
           destruct IH as [Hrf _].
           destruct (Hrf false bt bv evs Hbt Hbv (ccok_base _ _ _ Hc Eb) ltac:(lia) H) as [H1 _].
           destruct (H1 eq_refl) as (tr & -> & Hs). exists tr. split; [reflexivity|].
           eapply sfv_ptr; eauto.
        -- apply fok_inv in H. subst. apply okc_val. eapply sfv_nilptr; eauto.
      * (* slice *)
        split; [intros _|intros _ fs E; discriminate E].
        exact (slice_case_okc f u v evs IH Ht (ccok_slice _ Hc) Hv Hf H).
      * (* array *)
        split; [intros _|intros _ fs E; discriminate E].
        cbn [type_ok] in Ht. apply andb_true_iff in Ht. destruct Ht as [_ Ht].
        exact (array_case_okc f n0 u v evs IH Ht (ccok_array _ _ Hc) Hv Hf H).
      * (* map *)
        split; [intros _|intros _ fs E; discriminate E].
        exact (map_case_okc f u v evs IH Ht (ccok_map _ Hc) Hv Hf H).
      * (* struct *)
        destruct v; try (apply ferr_ok in H; contradiction).
        rewrite type_ok_struct in Ht. rewrite hty_struct in Hv.
        apply ccok_inv in Hc. destruct Hc as [gc Hc]. rewrite cc_S in Hc.
        rewrite vsize_struct in Hf.
        assert (KS : forall ms,
          (forall g acc, (tsum fs + vsum vs < g)%nat -> Sfields g fs vs acc = Some (CObj (rev acc ++ cvm ms))) ->
          sfv (TStruct fs) (GStruct vs) (CObj (cvm ms))).
        { intros ms HS g Hg. unfold msz in Hg. rewrite tsize_struct, vsize_struct in Hg.
          destruct g as [|g]; [lia|]. rewrite spec_fold_S. cbn [under]. rewrite HS by lia. reflexivity. }
        destruct inl.
        -- split; [discriminate|]. intros _ fs0 _.
           destruct (Fields_okc f IH fs vs evs gc Ht Hv Hc ltac:(lia) H) as (ms & -> & HS).
           exists ms. split; [reflexivity|]. apply KS. exact HS.
        -- split; [intros _|discriminate].
           apply fseq_fok_l in H. destruct H as (e2 & H & ->).
           apply fseq_fok_r in H. destruct H as (e1 & H & ->).
           destruct (Fields_okc f IH fs vs e1 gc Ht Hv Hc ltac:(lia) H) as (ms & -> & HS).
           exists (TObj (count_fields fs) BAny ms). split; [symmetry; apply flatten_obj|].
           rewrite cvt_obj. apply KS. exact HS.
      * (* named *)
        split; [intros _|intros _ fs E; discriminate E].
        cbn [type_ok] in Ht. apply andb_true_iff in Ht. destruct Ht as [Hn Ht].
        rewrite (hty_named_ok u v Hn) in Hv. apply ccok_named in Hc.
        apply (okc_ext u); [intros c; apply sfv_named; exact Hn|].
        destruct u as [ | |k| |u|u|n0 u|u|u|fs|u| ]; try discriminate Hn;
          try (destruct (prim_scalar false _ v) eqn:E; [|apply ferr_ok in H; contradiction];
               apply fok_inv in H; subst; apply okc_val; eapply prim_scalar_sfv; eauto; fail).
        -- exact (slice_case_okc f u v evs IH Ht (ccok_slice _ Hc) Hv Hf H).
        -- cbn [type_ok] in Ht. apply andb_true_iff in Ht. destruct Ht as [_ Ht].
           exact (array_case_okc f n0 u v evs IH Ht (ccok_array _ _ Hc) Hv Hf H).
        -- exact (map_case_okc f u v evs IH Ht (ccok_map _ Hc) Hv Hf H).
    + intros t v evs Ht Hv Hf H. rewrite ftop_S in H.
      assert (Hf' : (vsize v <= f)%nat) by lia.
      destruct (Fast f v t) as [r|] eqn:EF; [subst r; eapply Fast_okc; eauto|].
      destruct t as [ | |k| |u|u|n0 u|u|u|fs|u| ]; try (exact (Anyr_okc f _ v evs IH Ht Hv Hf' H)).
      assert (Hn := Ht). cbn [type_ok] in Hn. apply andb_true_iff in Hn. destruct Hn as [Hn Hu].
      destruct u as [ | |k| |u|u|n0 u|u|u|fs|u| ]; try (exact (Anyr_okc f _ v evs IH Ht Hv Hf' H)).
      * destruct (Fast f v (TSlice u)) as [r|] eqn:EF2; [|exact (Anyr_okc f _ v evs IH Ht Hv Hf' H)].
        subst r. rewrite (hty_named_ok _ v Hn) in Hv.
        apply (okc_ext (TSlice u)); [intros c; apply sfv_named; exact Hn|]. eapply Fast_okc; eauto.
      * destruct (Fast f v (TMap u)) as [r|] eqn:EF2; [|exact (Anyr_okc f _ v evs IH Ht Hv Hf' H)].
        subst r. rewrite (hty_named_ok _ v Hn) in Hv.
        apply (okc_ext (TMap u)); [intros c; apply sfv_named; exact Hn|]. eapply Fast_okc; eauto.
Qed.

Lemma fold_value_okc t v evs :
  has_type t v = true -> fold_value t v = (evs, None) -> okc t v evs.
Proof.
  unfold has_type. intros Hh H. apply andb_true_iff in Hh. destruct Hh as [Ht Hv].
  destruct (P12_all (4 * (tsize t + vsize v) + 8)) as [_ Hft].
  assert (Hf : (vsize v < 4 * (tsize t + vsize v) + 8)%nat) by lia.
  unfold fold_value in H.
  destruct v; try exact (Hft _ _ _ Ht Hv Hf H).
  destruct t; exact (Hft _ _ _ Ht Hv Hf H).
Qed.

(* C12 for Fold, any sufficient fuel of the specification *)
Theorem C12_fold_fuel : forall t v evs F,
  has_type t v = true -> fold_value t v = (evs, None) -> (tsize t + vsize v < F)%nat ->
  exists tr, stream_tree evs = Some tr /\ spec_fold F t v = Some (cv (value_of tr)).
Proof.
  intros t v evs F Hh H HF. destruct (fold_value_okc t v evs Hh H) as (tr & -> & Hs).
  exists (norm tr). split; [apply stream_tree_flatten|]. rewrite value_of_norm. apply Hs. exact HF.
Qed.
Print Assumptions C12_fold_fuel.

(* C12: the events of a successful fold describe exactly the documented value *)
Theorem C12_fold : forall t v evs,
  has_type t v = true -> fold_value t v = (evs, None) ->
  exists tr, stream_tree evs = Some tr /\
             spec_fold (4 * (tsize t + vsize v) + 8) t v = Some (cv (value_of tr)).
Proof. intros t v evs Hh H. apply C12_fold_fuel; [exact Hh|exact H|lia]. Qed.
Print Assumptions C12_fold.

(* what the documentation refuses, Fold refuses (no supportedness hypothesis needed) *)
Theorem C12_fold_refuses : forall t v F,
  has_type t v = true -> (tsize t + vsize v < F)%nat -> spec_fold F t v = None ->
  exists e, snd (fold_value t v) = Some e.
Proof.
  intros t v F Hh HF Hn. destruct (fold_value t v) as [evs [e|]] eqn:E; [exists e; reflexivity|].
  destruct (C12_fold_fuel t v evs F Hh E HF) as (tr & _ & Hs). rewrite Hs in Hn. discriminate Hn.
Qed.
Print Assumptions C12_fold_refuses.

(* The two values that refuted the converse under the first version of the specification
   (an interface holding a struct with an empty omitempty field of an unsupported type;
   an inlined interface holding a *interface{} that points to a nil interface) are now
   refused by the specification as well as by Fold. *)
Definition acc_cex_t := TSlice TIface.
Definition acc_cex_v :=
  GList [GIface (TStruct [(s_A, tg [s_omitempty], TPtr TUnsup)]) (GStruct [GNil])].
Example C12_former_counterexample1 :
  has_type acc_cex_t acc_cex_v = true /\
  spec_fold 100 acc_cex_t acc_cex_v = None /\
  fold_value acc_cex_t acc_cex_v = ([EArrStart 1 BAny], Some feUnsupported).
Proof. vm_compute. repeat split. Qed.
Print Assumptions C12_former_counterexample1.

Definition acc_cex2_t := TStruct [(s_A, tg [s_inline], TIface)].
Definition acc_cex2_v := GStruct [GIface (TPtr TIface) (GPtr GNil)].
Example C12_former_counterexample2 :
  has_type acc_cex2_t acc_cex2_v = true /\
  spec_fold 100 acc_cex2_t acc_cex2_v = None /\
  fold_value acc_cex2_t acc_cex2_v = ([EObjStart (-1) BAny], Some feInlineNoObject).
Proof. vm_compute. repeat split. Qed.
Print Assumptions C12_former_counterexample2.

(* ====================================================================== *)
(* Part 6: the converse - what the documentation accepts, Fold accepts      *)
(* ====================================================================== *)

(* ---------- the compile check with enough fuel ---------- *)
Lemma base_tsize_le t : (tsize (snd (base_type t)) <= tsize t)%nat.
Proof.
  destruct (base_type t) as [n b] eqn:E. cbn [snd]. rewrite (base_tsize t n b E). lia.
Qed.

Lemma cc_enough : forall gc t, cc gc t = None -> forall g, (tsize t < g)%nat -> cc g t = None.
Proof.
  induction gc as [|gc IH]; intros t H g Hg; [rewrite cc_O in H; discriminate H|].
  destruct g as [|g]; [lia|]. rewrite cc_S in *.
  destruct t as [ | |k| |u|u|n0 u|u|u|l|u| ]; try reflexivity; try discriminate H;
    try (apply IH; [exact H|cbn [tsize] in Hg; lia]).
  rewrite tsize_struct in Hg. assert (Hl : (tsum l <= g)%nat) by lia. clear Hg.
  induction l as [|[[name tag] ft] l IHl]; [reflexivity|].
  cbn [tsum] in Hl. fold tsum in Hl. cbn [cc_fields] in *. fold (cc_fields gc) in *. fold (cc_fields g).
  destruct (negb (exported name)); [apply IHl; [exact H|lia]|]. cbv zeta in *.
  destruct (t_squash (snd (parse_tags tag)) && t_omitempty (snd (parse_tags tag))); [discriminate H|].
  destruct (t_omit (snd (parse_tags tag))); [apply IHl; [exact H|lia]|].
  pose proof (base_tsize_le ft) as Hb.
  destruct (t_squash (snd (parse_tags tag))).
  - destruct (under (snd (base_type ft))); try discriminate H; try (apply IHl; [exact H|lia]);
      (destruct (cc gc (snd (base_type ft))) eqn:Ec; [discriminate H|];
       rewrite (IH _ Ec g) by lia; apply IHl; [exact H|lia]).
  - destruct (cc gc ft) eqn:Ec; [discriminate H|]. rewrite (IH _ Ec g) by lia. apply IHl; [exact H|lia].
Qed.

Lemma ccok_cc_type t : ccok t -> cc_type t = None.
Proof. intros [gc H]. unfold cc_type. apply (cc_enough gc t H). lia. Qed.

(* ---------- inversion of the specification ---------- *)
Definition sp (t : gtype) (v : gvalue) : Prop := exists g c, spec_fold g t v = Some c.

Lemma opt_all_some {A B} (f : A -> option B) l ys :
  opt_all (map f l) = Some ys -> forall x, In x l -> exists y, f x = Some y.
Proof.
  revert ys. induction l as [|a l IH]; intros ys H x Hx; [contradiction|].
  cbn [map opt_all] in H. destruct (f a) as [y|] eqn:Ea; [|discriminate H].
  destruct (opt_all (map f l)) as [ys'|] eqn:El; [|discriminate H].
  destruct Hx as [->|Hx]; [eauto|]. eapply IH; eauto.
Qed.

Lemma sp_elems t v et : sp t v -> (under t = TSlice et \/ exists n, under t = TArray n et) ->
  forall x, In x (glist v) -> sp et x.
Proof.
  intros (g & c & H) Hu x Hx. destruct g as [|g]; [rewrite spec_fold_O in H; discriminate H|].
  rewrite spec_fold_S in H. destruct v; try contradiction. cbn [glist] in Hx.
  destruct Hu as [Eu|[n Eu]]; rewrite Eu in H;
    (destruct (opt_all (map (spec_fold g et) vs)) eqn:Eo; [|discriminate H];
     destruct (opt_all_some _ _ _ Eo x Hx) as [y Hy]; exists g, y; exact Hy).
Qed.

Lemma sp_mapvals t v et : sp t v -> under t = TMap et ->
  forall kv, In kv (gmap v) -> sp et (snd kv).
Proof.
  intros (g & c & H) Eu kv Hkv. destruct g as [|g]; [rewrite spec_fold_O in H; discriminate H|].
  rewrite spec_fold_S, Eu in H. destruct v; try contradiction. cbn [gmap] in Hkv.
  match type of H with match opt_all (map ?F kvs) with _ => _ end = _ =>
    destruct (opt_all (map F kvs)) eqn:Eo; [|discriminate H];
    destruct (opt_all_some F _ _ Eo kv Hkv) as [y Hy] end.
  cbv beta in Hy. destruct (spec_fold g et (snd kv)) as [c'|] eqn:Ec; [|discriminate Hy].
  exists g, c'. exact Ec.
Qed.

Lemma sp_base t : forall m b v bv, sp t v -> base_type t = (m, b) -> deref m v = Some bv -> sp b bv.
Proof.
  induction t; intros m b v bv Hs Hb Hd;
    try (inversion Hb; subst; cbn [deref] in Hd; inversion Hd; subst; exact Hs).
  cbn [base_type] in Hb. destruct (base_type t) as [n' b'] eqn:E. inversion Hb; subst.
  cbn [deref] in Hd. destruct v; try discriminate Hd.
  destruct Hs as (g & c & H). destruct g as [|g]; [rewrite spec_fold_O in H; discriminate H|].
  rewrite spec_fold_S in H. cbn [under] in H. eapply IHt; eauto. exists g, c. exact H.
Qed.

Lemma cc_of_supported F dt : spec_supported F dt = true -> cc_type dt = None.
Proof.
  intro H. rewrite supported_cc in H. destruct (cc F dt) eqn:Ec; [discriminate H|].
  unfold cc_type. apply (cc_enough F dt Ec). lia.
Qed.

Lemma sp_iface dt dv : sp TIface (GIface dt dv) -> sp dt dv /\ cc_type dt = None.
Proof.
  intros (g & c & H). destruct g as [|g]; [rewrite spec_fold_O in H; discriminate H|].
  rewrite spec_fold_S in H. cbn [under] in H.
  destruct (spec_supported (S g) dt) eqn:Es; [|discriminate H].
  split; [exists g, c; exact H|eapply cc_of_supported; eauto].
Qed.

Lemma sp_named u v : named_ok u = true -> sp (TNamed u) v -> sp u v.
Proof.
  intros Hn (g & c & H). exists g, c. rewrite <- H. apply spec_fold_under.
  destruct u; try discriminate Hn; reflexivity.
Qed.

Lemma Sfields_shape g : forall fs vs acc c, Sfields g fs vs acc = Some c -> exists cms, c = CObj cms.
Proof.
  induction fs as [|[[name tag] ft] fs IH]; intros vs acc c H.
  - inversion H. eauto.
  - destruct vs as [|fv vs]; [inversion H; eauto|]. rewrite Sfields_cons in H.
    destruct (negb (exported name)); [eapply IH; eauto|].
    destruct (parse_tags tag) as [tn o].
    destruct (t_squash o && t_omitempty o); [discriminate H|].
    destruct (t_omit o); [eapply IH; eauto|].
    destruct (t_squash o).
    + destruct (Sim g (S g) false ft fv); [eapply IH; eauto|discriminate H].
    + destruct (t_omitempty o && spec_empty (S g) ft fv); [eapply IH; eauto|].
      destruct (spec_fold g ft fv); [eapply IH; eauto|discriminate H].
Qed.

Lemma spec_obj_shape g b bv c :
  match under b with TStruct _ | TMap _ => True | _ => False end ->
  spec_fold g b bv = Some c -> exists cms, c = CObj cms.
Proof.
  intros Hu H. destruct g as [|g]; [rewrite spec_fold_O in H; discriminate H|].
  rewrite spec_fold_S in H. destruct (under b); try contradiction.
  - destruct bv; try discriminate H; [inversion H; eauto|].
    match type of H with match ?X with _ => _ end = _ => destruct X; [|discriminate H] end.
    inversion H; eauto.
  - destruct bv; try discriminate H. eapply Sfields_shape; eauto.
Qed.

(* ---------- fuel monotonicity of the specification ---------- *)
Lemma spec_empty_mono_true : forall g g' t v,
  spec_empty g t v = true -> (g <= g')%nat -> spec_empty g' t v = true.
Proof.
  induction g as [|g IH]; intros g' t v H Hle; [rewrite spec_empty_O in H; discriminate H|].
  destruct g' as [|g']; [lia|]. rewrite spec_empty_S in *.
  destruct (under t); destruct v; try discriminate H; try exact H; (eapply IH; [exact H|lia]).
Qed.

Lemma spec_empty_stable : forall g t v c, spec_fold g t v = Some c ->
  forall g', (S g <= g')%nat -> spec_empty g' t v = spec_empty (S g) t v.
Proof.
  induction g as [|g IH]; intros t v c H g' Hle; [rewrite spec_fold_O in H; discriminate H|].
  destruct g' as [|g']; [lia|]. rewrite spec_fold_S in H. rewrite (spec_empty_S g'), (spec_empty_S (S g)).
  destruct (under t); destruct v; try reflexivity; try discriminate H.
  - destruct (spec_supported (S g) t0); [|discriminate H]. eapply IH; [exact H|lia].
  - eapply IH; [exact H|lia].
Qed.

Lemma opt_all_mono {A B} (f f' : A -> option B) l : forall ys,
  (forall x y, f x = Some y -> f' x = Some y) ->
  opt_all (map f l) = Some ys -> opt_all (map f' l) = Some ys.
Proof.
  induction l as [|a l IH]; intros ys Hf H; [exact H|]. cbn [map opt_all] in *.
  destruct (f a) as [y|] eqn:Ea; [|discriminate H]. rewrite (Hf a y Ea).
  destruct (opt_all (map f l)) as [ys'|] eqn:El; [|discriminate H].
  rewrite (IH ys' Hf eq_refl). exact H.
Qed.

Lemma Sim_mono g g' :
  (forall t v c, spec_fold g t v = Some c -> spec_fold g' t v = Some c) -> (g <= g')%nat ->
  forall G G' inif t v ms, Sim g G inif t v = Some ms -> (G <= G')%nat -> Sim g' G' inif t v = Some ms.
Proof.
  intros Hsf Hgg. induction G as [|G IH]; intros G' inif t v ms H Hle; [rewrite Sim_O in H; discriminate H|].
  destruct G' as [|G']; [lia|]. rewrite Sim_S in *.
  assert (K : match spec_fold g t v with Some (CObj ms0) => Some ms0 | _ => None end = Some ms ->
              match spec_fold g' t v with Some (CObj ms0) => Some ms0 | _ => None end = Some ms).
  { intro HK. destruct (spec_fold g t v) as [[]|] eqn:E; try discriminate HK.
    rewrite (Hsf _ _ _ E). exact HK. }
  destruct (under t); destruct v; try discriminate H; try exact H; try (apply K; exact H).
  - destruct (spec_supported (S g) t0) eqn:Es; [|discriminate H].
    rewrite (supported_mono (S g) (S g') t0 Es) by lia. eapply IH; [exact H|lia].
  - eapply IH; [exact H|lia].
Qed.

Lemma Sfields_mono g g' :
  (forall t v c, spec_fold g t v = Some c -> spec_fold g' t v = Some c) -> (g <= g')%nat ->
  forall fs vs acc c, Sfields g fs vs acc = Some c -> Sfields g' fs vs acc = Some c.
Proof.
  intros Hsf Hgg. induction fs as [|[[name tag] ft] fs IH]; intros vs acc c H; [exact H|].
  destruct vs as [|fv vs]; [exact H|]. rewrite Sfields_cons in *.
  destruct (negb (exported name)); [apply IH; exact H|].
  destruct (parse_tags tag) as [tn o].
  destruct (t_squash o && t_omitempty o); [discriminate H|].
  destruct (t_omit o); [apply IH; exact H|].
  destruct (t_squash o).
  - destruct (Sim g (S g) false ft fv) as [ms|] eqn:ES; [|discriminate H].
    rewrite (Sim_mono g g' Hsf Hgg (S g) (S g') false ft fv ms ES) by lia. apply IH. exact H.
  - destruct (t_omitempty o); cbn [andb] in *.
    + destruct (spec_empty (S g) ft fv) eqn:Ee.
      * rewrite (spec_empty_mono_true (S g) (S g') ft fv Ee) by lia. apply IH. exact H.
      * destruct (spec_fold g ft fv) as [x|] eqn:Es; [|discriminate H].
        rewrite (spec_empty_stable g ft fv x Es (S g')) by lia. rewrite Ee, (Hsf _ _ _ Es). apply IH. exact H.
    + destruct (spec_fold g ft fv) as [x|] eqn:Es; [|discriminate H].
      rewrite (Hsf _ _ _ Es). apply IH. exact H.
Qed.

Theorem spec_fold_mono : forall g g' t v c,
  spec_fold g t v = Some c -> (g <= g')%nat -> spec_fold g' t v = Some c.
Proof.
  induction g as [|g IH]; intros g' t v c H Hle; [rewrite spec_fold_O in H; discriminate H|].
  destruct g' as [|g']; [lia|]. rewrite spec_fold_S in *.
  assert (Hsf : forall t v c, spec_fold g t v = Some c -> spec_fold g' t v = Some c).
  { intros t1 v1 c1 H1. apply (IH g' t1 v1 c1 H1). lia. }
  destruct (under t) as [ | |k| |u|u|n0 u|u|u|l|u| ]; destruct v; try discriminate H; try exact H.
  - destruct (spec_supported (S g) t0) eqn:Es; [|discriminate H].
    rewrite (supported_mono (S g) (S g') t0 Es) by lia. apply Hsf. exact H.
  - apply Hsf. exact H.
  - destruct (opt_all (map (spec_fold g u) vs)) as [ys|] eqn:Eo; [|discriminate H].
    rewrite (opt_all_mono _ (spec_fold g' u) vs ys (Hsf u) Eo). exact H.
  - destruct (opt_all (map (spec_fold g u) vs)) as [ys|] eqn:Eo; [|discriminate H].
    rewrite (opt_all_mono _ (spec_fold g' u) vs ys (Hsf u) Eo). exact H.
  - match type of H with match opt_all (map ?F kvs) with _ => _ end = _ =>
      destruct (opt_all (map F kvs)) as [ys|] eqn:Eo; [|discriminate H];
      rewrite (opt_all_mono F (fun kv => match spec_fold g' u (snd kv) with
                                          | Some x => Some (fst kv, x) | None => None end) kvs ys) end;
      [exact H| |exact Eo].
    intros kv y Hy. cbv beta in *. destruct (spec_fold g u (snd kv)) as [x|] eqn:Ex; [|discriminate Hy].
    rewrite (Hsf _ _ _ Ex). exact Hy.
  - apply (Sfields_mono g g' Hsf ltac:(lia)). exact H.
Qed.
Print Assumptions spec_fold_mono.

(* ---------- success of the loops ---------- *)
Lemma fseq_intro (a k : fr) e1 e2 : a = (e1, None) -> k = (e2, None) -> (a ;; k) = (e1 ++ e2, None).
Proof. intros -> ->. reflexivity. Qed.

Lemma seq_ok {A} (g : A -> fr) l :
  (forall x, In x l -> exists e, g x = (e, None)) ->
  exists e, fold_right (fun x acc => g x ;; acc) (fok []) l = (e, None).
Proof.
  induction l as [|a l IH]; intro H; [exists []; reflexivity|].
  destruct (H a (or_introl eq_refl)) as [e1 H1].
  destruct (IH (fun x Hx => H x (or_intror Hx))) as [e2 H2].
  exists (e1 ++ e2). cbn [fold_right]. apply fseq_intro; assumption.
Qed.

Lemma seq_members_ok {A} (h : A -> fr) (kvs : list (bytes * A)) :
  (forall kv, In kv kvs -> exists e, h (snd kv) = (e, None)) ->
  exists e, fold_right (fun kv acc => fok [EKey (fst kv)] ;; h (snd kv) ;; acc) (fok []) kvs = (e, None).
Proof.
  induction kvs as [|a l IH]; intro H; [exists []; reflexivity|].
  destruct (H a (or_introl eq_refl)) as [e1 H1].
  destruct (IH (fun x Hx => H x (or_intror Hx))) as [e2 H2].
  eexists. cbn [fold_right]. apply fseq_intro; [reflexivity|]. apply fseq_intro; eassumption.
Qed.

Lemma wrap_ok (a : fr) l1 l2 : (exists e, a = (e, None)) -> exists e, (fok l1 ;; a ;; fok l2) = (e, None).
Proof.
  intros [e H]. eexists. apply fseq_intro; [reflexivity|]. apply fseq_intro; [exact H|reflexivity].
Qed.

Lemma prim_scalar_some b t v : is_prim t = true -> hty t v = true -> exists s, prim_scalar b t v = Some s.
Proof.
  intros Hp Hv. destruct t; try discriminate Hp; destruct v; try discriminate Hv; cbn [prim_scalar]; eauto.
Qed.

(* an object value passes the ExpectObjVisitor *)
Lemma embed_succeeds tr cms : cvt tr = CObj cms -> exists out, embed_obj (flatten tr, None) = (out, None).
Proof.
  intro Hc. unfold embed_obj. rewrite <- expand_deep_is_flatten.
  pose proof (noext_expand tr) as Hn.
  assert (Hs : exists len bt ms, expand_tree tr = TObj len bt ms).
  { destruct tr as [s r|len bt es|len bt ms|bt es|bt ms]; cbn [expand_tree]; eauto;
      unfold cvt in Hc; cbn [value_of cv] in Hc; try discriminate Hc.
    destruct s; discriminate Hc. }
  destruct Hs as (len & bt & ms & E). rewrite E in *. cbn [noext] in Hn.
  rewrite flatten_obj. cbn [expect_obj Z.eqb].
  rewrite (expect_skips_members ms Hn 1 [EObjEnd] []) by lia.
  cbn [expect_obj Z.eqb]. eexists. reflexivity.
Qed.

(* ---------- "good": everything the run needs to know about a typed value ---------- *)
Definition good (t : gtype) (v : gvalue) : Prop :=
  type_ok t = true /\ hty t v = true /\ ccok t /\ sp t v.

Lemma good_iface dt dv : good TIface (GIface dt dv) -> good dt dv.
Proof.
  intros (Ht & Hv & Hc & Hs). apply hty_iface_inv in Hv. destruct Hv as (H1 & _ & H3).
  destruct (sp_iface dt dv Hs) as [Hs' Hcc].
  split; [exact H1|]. split; [exact H3|]. split; [eexists; exact Hcc|exact Hs'].
Qed.

Lemma good_base t m b v bv : good t v -> base_type t = (m, b) -> deref m v = Some bv -> good b bv.
Proof.
  intros (Ht & Hv & Hc & Hs) Eb Ed. destruct (hty_base t m b v bv Ht Hv Eb Ed) as [Hbt Hbv].
  split; [exact Hbt|]. split; [exact Hbv|]. split; [eapply ccok_base; eauto|eapply sp_base; eauto].
Qed.

Lemma good_named u v : named_ok u = true -> good (TNamed u) v -> good u v.
Proof.
  intros Hn (Ht & Hv & Hc & Hs). cbn [type_ok] in Ht. apply andb_true_iff in Ht.
  split; [apply Ht|]. split; [rewrite <- (hty_named_ok u v Hn); exact Hv|].
  split; [apply ccok_named; exact Hc|apply sp_named; assumption].
Qed.

Lemma good_slice_elem et v x : good (TSlice et) v -> In x (glist v) -> good et x.
Proof.
  intros (Ht & Hv & Hc & Hs) Hx. split; [exact Ht|]. split.
  - pose proof (hty_slice_list et v Hv) as Hl. rewrite forallb_forall in Hl. apply Hl, Hx.
  - split; [apply ccok_slice; exact Hc|]. eapply sp_elems; eauto.
Qed.

Lemma good_array_elem n et v x : good (TArray n et) v -> In x (glist v) -> good et x.
Proof.
  intros (Ht & Hv & Hc & Hs) Hx. cbn [type_ok] in Ht. apply andb_true_iff in Ht. split; [apply Ht|]. split.
  - pose proof (hty_array_list n et v Hv) as Hl. rewrite forallb_forall in Hl. apply Hl, Hx.
  - split; [eapply ccok_array; exact Hc|]. eapply sp_elems; eauto. right. exists n. reflexivity.
Qed.

Lemma good_map_elem et v kv : good (TMap et) v -> In kv (gmap v) -> good et (snd kv).
Proof.
  intros (Ht & Hv & Hc & Hs) Hx. split; [exact Ht|]. split.
  - pose proof (hty_map_list et v Hv) as Hl. rewrite forallb_forall in Hl. specialize (Hl kv Hx).
    apply andb_true_iff in Hl. apply Hl.
  - split; [apply ccok_map; exact Hc|]. eapply sp_mapvals; eauto.
Qed.

Lemma vsize_glist_in v x : In x (glist v) -> (vsize x < vsize v)%nat.
Proof. intro H. pose proof (vsum_in x _ H). pose proof (glist_vsum v). lia. Qed.
Lemma vsize_gmap_in v kv : In kv (gmap v) -> (vsize (snd kv) < vsize v)%nat.
Proof. intro H. pose proof (vsum_kv_in kv _ H). pose proof (gmap_vsum v). lia. Qed.

(* ---------- inversion of inline_members ---------- *)
Lemma Sim_base_inv g t : forall G inif m b v bv ms,
  Sim g G inif t v = Some ms -> base_type t = (m, b) -> deref m v = Some bv ->
  exists G', Sim g (S G') inif b bv = Some ms.
Proof.
  induction t; intros G inif m b v bv ms H Hb Hd;
    try (inversion Hb; subst; cbn [deref] in Hd; inversion Hd; subst;
         destruct G as [|G]; [rewrite Sim_O in H; discriminate H|exists G; exact H]).
  cbn [base_type] in Hb. destruct (base_type t) as [n' b'] eqn:E. inversion Hb; subst.
  cbn [deref] in Hd. destruct v; try discriminate Hd.
  destruct G as [|G]; [rewrite Sim_O in H; discriminate H|].
  rewrite Sim_S in H. cbn [under] in H. eapply IHt; eauto.
Qed.

Lemma Sim_nilptr_true g t : forall G m b v,
  base_type t = (m, b) -> deref m v = None -> hty t v = true -> Sim g G true t v = None.
Proof.
  induction t; intros G m b v Hb Hd Hv;
    try (inversion Hb; subst; cbn [deref] in Hd; discriminate Hd).
  cbn [base_type] in Hb. destruct (base_type t) as [n' b'] eqn:E. inversion Hb; subst.
  destruct G as [|G]; [apply Sim_O|]. rewrite Sim_S. cbn [under].
  destruct v; try discriminate Hv; [reflexivity|].
  cbn [deref] in Hd. cbn [hty under] in Hv. eapply IHt; eauto.
Qed.

Definition objty (b : gtype) : Prop := match under b with TStruct _ | TMap _ => True | _ => False end.

(* at a base type (no pointer), inline_members is the object value of a struct or map *)
Lemma Sim_at_base g G inif b bv ms :
  type_ok b = true -> hty b bv = true -> (forall u, b <> TPtr u) -> is_iface b = false ->
  Sim g (S G) inif b bv = Some ms ->
  objty b /\ exists g', spec_fold g' b bv = Some (CObj ms).
Proof.
  intros Ht Hv Hnp Hni H. rewrite Sim_S in H. unfold objty.
  destruct (under b) as [ | |k| |u|u|n0 u|u|u|l|u| ] eqn:Eu;
    try (destruct bv; discriminate H).
  - apply under_iface in Eu; [|exact Ht]. subst b. discriminate Hni.
  - apply under_not_ptr in Eu; [|exact Ht]. exfalso. exact (Hnp u Eu).
  - split; [exact I|].
    destruct bv; cbn [hty] in Hv; rewrite Eu in Hv; try discriminate Hv.
    + inversion H; subst. exists 1%nat. rewrite spec_fold_S, Eu. reflexivity.
    + exists g. destruct (spec_fold g b (GMap kvs)) as [[]|]; try discriminate H. inversion H; reflexivity.
  - split; [exact I|].
    destruct bv; cbn [hty] in Hv; rewrite Eu in Hv; try discriminate Hv.
    exists g. destruct (spec_fold g b (GStruct vs)) as [[]|]; try discriminate H. inversion H; reflexivity.
Qed.

(* an inlined interface value that contributes members is an object value *)
Lemma Sim_true_sp g : forall G t v ms,
  type_ok t = true -> hty t v = true -> Sim g G true t v = Some ms ->
  exists g', spec_fold g' t v = Some (CObj ms).
Proof.
  induction G as [|G IH]; intros t v ms Ht Hv H; [rewrite Sim_O in H; discriminate H|].
  rewrite Sim_S in H.
  destruct (under t) as [ | |k| |u|u|n0 u|u|u|l|u| ] eqn:Eu;
    destruct v; cbn [hty] in Hv; rewrite Eu in Hv; try discriminate Hv; try discriminate H.
  - (* interface *)
    apply under_iface in Eu; [|exact Ht]. subst t.
    apply hty_iface_inv in Hv. destruct Hv as (H1 & _ & H3).
    destruct (spec_supported (S g) t0) eqn:Es; [|discriminate H].
    destruct (IH t0 v ms H1 H3 H) as [g' Hg'].
    exists (S (Nat.max g g')). rewrite spec_fold_S. cbn [under].
    rewrite (supported_mono (S g) _ t0 Es) by lia.
    apply (spec_fold_mono g' _ t0 v _ Hg'). lia.
  - (* pointer *)
    apply under_not_ptr in Eu; [|exact Ht]. subst t. cbn [type_ok] in Ht.
    destruct (IH u v ms Ht Hv H) as [g' Hg']. exists (S g'). rewrite spec_fold_S. exact Hg'.
  - (* nil map *) inversion H; subst. exists 1%nat. rewrite spec_fold_S, Eu. reflexivity.
  - exists g. destruct (spec_fold g t (GMap kvs)) as [[]|]; try discriminate H. inversion H; reflexivity.
  - exists g. destruct (spec_fold g t (GStruct vs)) as [[]|]; try discriminate H. inversion H; reflexivity.
Qed.

Lemma ccok_not_mapk bt u : ccok bt -> under bt = TMapK u -> False.
Proof.
  intros Hc Eu. apply ccok_inv in Hc. destruct Hc as [gc Hc]. rewrite cc_S in Hc.
  destruct bt; try discriminate Eu; try discriminate Hc. cbn [under] in Eu. subst.
  destruct gc; [rewrite cc_O in Hc|rewrite cc_S in Hc]; discriminate Hc.
Qed.

Lemma good_under_map bt et bv : good bt bv -> under bt = TMap et ->
  good (TMap et) bv /\ (tsize (TMap et) <= tsize bt)%nat.
Proof.
  intros Hg Eu. destruct bt; try discriminate Eu; cbn [under] in Eu.
  - inversion Eu; subst. split; [exact Hg|lia].
  - subst. split; [apply good_named; [reflexivity|exact Hg]|cbn [tsize]; lia].
Qed.

(* ---------- the resolver chain keeps "good" ---------- *)
Lemma msz_base_le t m b v bv : base_type t = (m, b) -> deref m v = Some bv -> (msz b bv <= msz t v)%nat.
Proof. intros Eb Ed. rewrite (msz_base t m b v bv Eb Ed). lia. Qed.

Lemma resolve_good : forall f t v t' v', good t v -> resolve f t v = Some (t', v') ->
  good t' v' /\ (msz t' v' <= msz t v)%nat.
Proof.
  induction f as [|f IH]; intros t v t' v' Hg H; [discriminate H|].
  cbn [resolve] in H. destruct (base_type t) as [n bt] eqn:Eb.
  destruct (deref n v) as [bv|] eqn:Ed; [|discriminate H].
  pose proof (good_base t n bt v bv Hg Eb Ed) as Hgb. pose proof (msz_base_le t n bt v bv Eb Ed) as Hm.
  destruct (under bt) eqn:Eu;
    try (inversion H; subst; split; assumption);
    try (destruct (glen bv >? 0); [inversion H; subst; split; assumption|discriminate H]).
  destruct Hgb as (Hbt & Hbv & Hbc & Hbs).
  apply under_iface in Eu; [|exact Hbt]. subst bt.
  destruct bv; try discriminate H.
  destruct (has_resolver t0).
  - pose proof (good_iface t0 bv (conj Hbt (conj Hbv (conj Hbc Hbs)))) as Hgd.
    destruct (IH t0 bv t' v' Hgd H) as [Hg' Hm']. split; [exact Hg'|].
    unfold msz in *. cbn [tsize vsize] in Hm. lia.
  - inversion H; subst. split; [|exact Hm]. repeat split; assumption.
Qed.

(* ---------- the induction ---------- *)
Definition P13 (f : nat) : Prop :=
  (forall inl t v, good t v -> (2 * msz t v <= f)%nat -> exists evs, rf f inl t v = (evs, None)) /\
  (forall t v, good t v -> (2 * msz t v + 1 <= f)%nat -> exists evs, ftop f t v = (evs, None)).

Lemma Anyr_ok f dt dv : P13 f -> good dt dv -> (2 * msz dt dv <= f)%nat ->
  exists evs, Anyr f dt dv = (evs, None).
Proof.
  intros [Hrf _] Hg Hf. unfold Anyr. destruct Hg as (Ht & Hv & Hc & Hs).
  rewrite (ccok_cc_type dt Hc). apply Hrf; [repeat split; assumption|exact Hf].
Qed.

Lemma Ielem_ok f x : P13 f -> good TIface x -> (2 * msz TIface x <= f)%nat ->
  exists evs, Ielem f x = (evs, None).
Proof.
  intros [_ Hft] Hg Hf. unfold Ielem. pose proof Hg as (_ & Hv & _).
  destruct (hty_iface_nil x Hv) as [->|(dt & dv & -> & H1 & H3)]; [eexists; reflexivity|].
  apply Hft; [exact (good_iface dt dv Hg)|]. unfold msz in *. cbn [tsize vsize] in Hf. lia.
Qed.

Lemma Mapval_ok f et x : P13 f -> good et x -> (2 * msz et x <= f)%nat ->
  exists evs, Mapval f et x = (evs, None).
Proof.
  intros HP Hg Hf. unfold Mapval. destruct (is_prim et) eqn:Ep.
  - destruct Hg as (_ & Hv & _). destruct (prim_scalar_some true et x Ep Hv) as [s ->]. eexists; reflexivity.
  - destruct (gtype_eqb et TIface) eqn:Ei.
    + apply gtype_eqb_iface in Ei. subst et. apply Ielem_ok; assumption.
    + destruct HP as [Hrf _]. apply Hrf; assumption.
Qed.

Lemma map_case_ok f et v l1 l2 : P13 f -> good (TMap et) v -> (2 * msz (TMap et) v <= S f)%nat ->
  exists evs, (fok l1 ;; Mapkeys f et (gmap v) ;; fok l2) = (evs, None).
Proof.
  intros HP Hg Hf. apply wrap_ok. unfold Mapkeys. apply seq_members_ok. intros kv Hkv.
  apply Mapval_ok; [exact HP|eapply good_map_elem; eauto|].
  pose proof (vsize_gmap_in v kv Hkv). unfold msz in *. cbn [tsize] in Hf. lia.
Qed.

Lemma slice_case_ok f et v l1 l2 : P13 f -> good (TSlice et) v -> (2 * msz (TSlice et) v <= S f)%nat ->
  exists evs, (fok l1 ;; Elems f et (glist v) ;; fok l2) = (evs, None).
Proof.
  intros HP Hg Hf. apply wrap_ok. unfold Elems. apply seq_ok. intros x Hx.
  destruct HP as [Hrf _]. apply Hrf; [eapply good_slice_elem; eauto|].
  pose proof (vsize_glist_in v x Hx). unfold msz in *. cbn [tsize] in Hf. lia.
Qed.

Lemma array_case_ok f n et v l1 l2 : P13 f -> good (TArray n et) v -> (2 * msz (TArray n et) v <= S f)%nat ->
  exists evs, (fok l1 ;; Elems f et (glist v) ;; fok l2) = (evs, None).
Proof.
  intros HP Hg Hf. apply wrap_ok. unfold Elems. apply seq_ok. intros x Hx.
  destruct HP as [Hrf _]. apply Hrf; [eapply good_array_elem; eauto|].
  pose proof (vsize_glist_in v x Hx). unfold msz in *. cbn [tsize] in Hf. lia.
Qed.

Lemma Resolved_ok f t' v' : P13 f -> good t' v' -> (2 * msz t' v' <= f)%nat ->
  exists evs, Resolved f t' v' = (evs, None).
Proof.
  intros HP Hg Hf. unfold Resolved.
  destruct t'; try (apply Anyr_ok; assumption).
  pose proof Hg as (_ & Hv & _).
  destruct (hty_iface_nil v' Hv) as [->|(dt & dv & -> & H1 & H3)]; [eexists; reflexivity|].
  apply Anyr_ok; [exact HP|exact (good_iface dt dv Hg)|].
  unfold msz in *. cbn [tsize vsize] in Hf. lia.
Qed.

Lemma Member_ok f name' oe ft fv g : P13 f ->
  type_ok ft = true -> hty ft fv = true -> ccok ft ->
  (oe && spec_empty (S g) ft fv = false -> sp ft fv) ->
  (2 * msz ft fv <= f)%nat ->
  exists evs, Member f name' oe ft fv = (evs, None).
Proof.
  intros HP Ht Hv Hc Hs Hf. unfold Member. destruct oe.
  - pose proof (resolve_spec f ft fv Ht Hv) as HR.
    destruct (resolve f ft fv) as [[t' v']|] eqn:Er; [|eexists; reflexivity].
    destruct HR as (A & _ & _). rewrite A in Hs. specialize (Hs eq_refl).
    destruct (resolve_good f ft fv t' v' (conj Ht (conj Hv (conj Hc Hs))) Er) as [Hg' Hm].
    destruct (Resolved_ok f t' v' HP Hg' ltac:(lia)) as [e He].
    eexists. apply fseq_intro; [reflexivity|exact He].
  - specialize (Hs eq_refl). destruct HP as [Hrf _].
    destruct (Hrf false ft fv (conj Ht (conj Hv (conj Hc Hs))) Hf) as [e He].
    eexists. apply fseq_intro; [reflexivity|exact He].
Qed.

Lemma Inl_ok f ft fv g ms : P13 f ->
  type_ok ft = true -> hty ft fv = true ->
  match under (snd (base_type ft)) with
  | TStruct _ | TMap _ | TMapK _ => ccok (snd (base_type ft))
  | _ => True
  end ->
  Sim g (S g) false ft fv = Some ms ->
  (2 * msz ft fv <= f)%nat ->
  exists evs, Inl f ft fv = (evs, None).
Proof.
  intros HP Ht Hv Hcc HS Hf. unfold Inl. destruct (base_type ft) as [n bt] eqn:Eb. cbn [snd] in Hcc.
  unfold Inl2. destruct (deref n fv) as [bv|] eqn:Ed; [|eexists; reflexivity].
  destruct (hty_base ft n bt fv bv Ht Hv Eb Ed) as [Hbt Hbv].
  pose proof (msz_base_le ft n bt fv bv Eb Ed) as Hm.
  destruct (Sim_base_inv g ft (S g) false n bt fv bv ms HS Eb Ed) as [G' HS'].
  destruct (under bt) as [ | |k| |u|u|n0 u|u|u|l|u| ] eqn:Eu;
    try (rewrite Sim_S, Eu in HS'; destruct bv; discriminate HS').
  - (* interface *)
    apply under_iface in Eu; [|exact Hbt]. subst bt.
    destruct (hty_iface_nil bv Hbv) as [->|(dt & dv & -> & H1 & H3)]; [eexists; reflexivity|].
    rewrite Sim_S in HS'. cbn [under] in HS'.
    destruct (spec_supported (S g) dt) eqn:Esup; [|discriminate HS'].
    destruct (Sim_true_sp g G' dt dv ms H1 H3 HS') as [g' Hsp].
    assert (Hgd : good dt dv).
    { split; [exact H1|]. split; [exact H3|]. split; [eexists; exact (cc_of_supported _ _ Esup)|].
      exists g', (CObj ms). exact Hsp. }
    assert (Hfd : (2 * msz dt dv <= f)%nat) by (unfold msz in *; cbn [tsize vsize] in Hm; lia).
    destruct (Anyr_ok f dt dv HP Hgd Hfd) as [e0 He0]. rewrite He0.
    assert (Hvs : (vsize dv <= f)%nat) by (unfold msz in Hfd; lia).
    destruct (Anyr_okc f dt dv e0 (P12_all f) H1 H3 Hvs He0) as (tr & -> & Hsf).
    (* the folded value is the object the specification inlines *)
    pose proof (Hsf (S (Nat.max g' (msz dt dv))) ltac:(lia)) as Hbig.
    rewrite (spec_fold_mono g' (S (Nat.max g' (msz dt dv))) dt dv _ Hsp ltac:(lia)) in Hbig.
    apply (embed_succeeds tr ms). inversion Hbig. reflexivity.
  - (* pointer: not a base type *)
    exfalso. apply under_not_ptr in Eu; [|exact Hbt]. exact (base_type_not_ptr ft n bt Eb u Eu).
  - (* map *)
    assert (Hgb : good bt bv).
    { destruct (Sim_at_base g G' false bt bv ms Hbt Hbv (base_type_not_ptr ft n bt Eb)) as [_ Hsp];
        [destruct bt; try reflexivity; discriminate Eu|exact HS'|].
      split; [exact Hbt|]. split; [exact Hbv|]. split; [exact Hcc|].
      destruct Hsp as [g' Hsp]. exists g', (CObj ms). exact Hsp. }
    destruct (good_under_map bt u bv Hgb Eu) as [Hgm Hts].
    destruct bv; try (eexists; reflexivity).
    unfold Mapkeys. apply seq_members_ok. intros kv Hkv.
    apply Mapval_ok; [exact HP|apply (good_map_elem u (GMap kvs) kv Hgm Hkv)|].
    pose proof (vsize_gmap_in (GMap kvs) kv Hkv) as Hlt. cbn [gmap] in Hlt.
    unfold msz in *. cbn [tsize] in Hts. lia.
  - (* struct *)
    assert (Hgb : good bt bv).
    { destruct (Sim_at_base g G' false bt bv ms Hbt Hbv (base_type_not_ptr ft n bt Eb)) as [_ Hsp];
        [destruct bt; try reflexivity; discriminate Eu|exact HS'|].
      split; [exact Hbt|]. split; [exact Hbv|]. split; [exact Hcc|].
      destruct Hsp as [g' Hsp]. exists g', (CObj ms). exact Hsp. }
    destruct bv; cbn [hty] in Hbv; rewrite Eu in Hbv; try discriminate Hbv.
    destruct HP as [Hrf _]. apply Hrf; [exact Hgb|lia].
Qed.

Lemma Field1_ok f name tag ft fv fs vs g acc c : P13 f ->
  type_ok ft = true -> hty ft fv = true ->
  (exported name = true ->
   let o := snd (parse_tags tag) in
   t_squash o && t_omitempty o = false /\
   (t_omit o = false ->
    if t_squash o then
      match under (snd (base_type ft)) with
      | TStruct _ | TMap _ | TMapK _ => ccok (snd (base_type ft))
      | _ => True
      end
    else ccok ft)) ->
  Sfields g ((name, tag, ft) :: fs) (fv :: vs) acc = Some c ->
  (2 * msz ft fv <= f)%nat ->
  (exists e, Field1 f name tag ft fv = (e, None)) /\ exists acc', Sfields g fs vs acc' = Some c.
Proof.
  intros HP Ht Hv Hcc H Hf. rewrite Sfields_cons in H. unfold Field1.
  destruct (exported name) eqn:Ex; cbn [negb] in *; [|split; [eexists; reflexivity|eauto]].
  specialize (Hcc eq_refl). cbv zeta in Hcc. destruct Hcc as [_ Hcc].
  destruct (parse_tags tag) as [tn o] eqn:Etag. cbn [snd] in *.
  destruct (t_squash o && t_omitempty o); [discriminate H|].
  destruct (t_omit o); [split; [eexists; reflexivity|eauto]|].
  specialize (Hcc eq_refl).
  destruct (t_squash o).
  - destruct (Sim g (S g) false ft fv) as [ms|] eqn:ES; [|discriminate H].
    split; [eapply Inl_ok; eauto|eauto].
  - destruct (t_omitempty o && spec_empty (S g) ft fv) eqn:E.
    + split; [|eauto]. apply (Member_ok f _ _ ft fv g HP Ht Hv Hcc); [|exact Hf]. congruence.
    + destruct (spec_fold g ft fv) as [x|] eqn:Es; [|discriminate H].
      split; [|eauto]. apply (Member_ok f _ _ ft fv g HP Ht Hv Hcc); [|exact Hf].
      intros _. exists g, x. exact Es.
Qed.

Lemma Fields_ok f : P13 f -> forall fs vs gc g acc c,
  type_ok_fields fs = true -> hty_fields fs vs = true -> cc_fields gc fs = None ->
  Sfields g fs vs acc = Some c ->
  (2 * (tsum fs + vsum vs) <= f)%nat ->
  exists e, Fields f fs vs = (e, None).
Proof.
  intros HP. induction fs as [|[[name tag] ft] fs IH]; intros vs gc g acc c Ht Hv Hc HS Hf.
  - rewrite Fields_nil_l. eexists; reflexivity.
  - destruct vs as [|fv vs]; [discriminate Hv|]. rewrite Fields_cons.
    cbn [type_ok_fields] in Ht. fold type_ok_fields in Ht.
    apply andb_true_iff in Ht. destruct Ht as [Ht Ht4]. apply andb_true_iff in Ht. destruct Ht as [Ht Ht3].
    cbn [hty_fields] in Hv. fold hty_fields in Hv. apply andb_true_iff in Hv. destruct Hv as [Hv1 Hv2].
    apply cc_fields_cons in Hc. destruct Hc as [Hc1 Hc2].
    cbn [tsum vsum fold_right] in Hf. fold tsum in Hf. fold (vsum vs) in Hf.
    assert (Hcc : exported name = true ->
       let o := snd (parse_tags tag) in
       t_squash o && t_omitempty o = false /\
       (t_omit o = false ->
        if t_squash o then
          match under (snd (base_type ft)) with
          | TStruct _ | TMap _ | TMapK _ => ccok (snd (base_type ft))
          | _ => True
          end
        else ccok ft)).
    { intro Ex. specialize (Hc2 Ex). cbv zeta in *. destruct Hc2 as [A B]. split; [exact A|].
      intro Eo. specialize (B Eo). destruct (t_squash (snd (parse_tags tag))).
      - destruct (under (snd (base_type ft))); try exact I; exists gc; exact B.
      - exists gc; exact B. }
    destruct (Field1_ok f name tag ft fv fs vs g acc c HP Ht3 Hv1 Hcc HS ltac:(unfold msz; lia))
      as [[e1 H1] [acc' HS']].
    destruct (IH vs gc g acc' c Ht4 Hv2 Hc1 HS' ltac:(lia)) as [e2 H2].
    exists (e1 ++ e2). apply fseq_intro; assumption.
Qed.

Lemma Fast_ok f u v r : P13 f -> good u v -> (2 * msz u v <= f)%nat ->
  Fast f v u = Some r -> exists evs, r = (evs, None).
Proof.
  intros HP Hg Hf HF. unfold Fast in HF. pose proof Hg as (Ht & Hv & Hc & Hs).
  destruct (prim_fold true u v) as [pe|]; [inversion HF; eexists; reflexivity|].
  destruct u as [ | |k| |u|u|n0 u|u|u|l|u| ]; try discriminate HF.
  - destruct u; try discriminate HF. apply Some_inj in HF. subst r.
    apply wrap_ok. apply seq_ok. intros x Hx.
    apply Ielem_ok; [exact HP|exact (good_slice_elem TIface v x Hg Hx)|].
    pose proof (vsize_glist_in v x Hx). unfold msz in *. cbn [tsize] in *. lia.
  - destruct u; try discriminate HF. apply Some_inj in HF. subst r.
    apply wrap_ok. apply seq_members_ok. intros kv Hkv.
    apply Ielem_ok; [exact HP|exact (good_map_elem TIface v kv Hg Hkv)|].
    pose proof (vsize_gmap_in v kv Hkv). unfold msz in *. cbn [tsize] in *. lia.
Qed.

Lemma good_struct fs vs : good (TStruct fs) (GStruct vs) ->
  type_ok_fields fs = true /\ hty_fields fs vs = true /\ (exists gc, cc_fields gc fs = None) /\
  exists g c, Sfields g fs vs [] = Some c.
Proof.
  intros (Ht & Hv & Hc & (g & c & Hs)). split; [exact Ht|]. split; [exact Hv|]. split.
  - apply ccok_inv in Hc. destruct Hc as [gc Hc]. rewrite cc_S in Hc. eauto.
  - destruct g as [|g]; [rewrite spec_fold_O in Hs; discriminate Hs|].
    rewrite spec_fold_S in Hs. cbn [under] in Hs. exists g, c. exact Hs.
Qed.

Lemma ccok_unsup : ccok TUnsup -> False.
Proof. intro Hc. apply ccok_inv in Hc. destruct Hc as [gc Hc]. rewrite cc_S in Hc. discriminate Hc. Qed.

Lemma msz_named u v : msz (TNamed u) v = S (msz u v).
Proof. reflexivity. Qed.

Theorem P13_all : forall f, P13 f.
Proof.
  induction f as [|f IH].
  - split.
    + intros inl t v _ Hf. unfold msz in Hf. pose proof (vsize_pos v). lia.
    + intros t v _ Hf. lia.
  - split.
    + intros inl t v Hg Hf. rewrite rf_S. pose proof Hg as (Ht & Hv & Hc & Hs).
      destruct (prim_fold false t v) as [pe|] eqn:Ep; [eexists; reflexivity|].
      destruct t as [ | |k| |u|u|n0 u|u|u|fs|u| ].
      * exfalso. unfold prim_fold in Ep. destruct (prim_scalar_some false TBool v eq_refl Hv) as [s Es].
        rewrite Es in Ep. discriminate Ep.
      * exfalso. unfold prim_fold in Ep. destruct (prim_scalar_some false TString v eq_refl Hv) as [s Es].
        rewrite Es in Ep. discriminate Ep.
      * exfalso. unfold prim_fold in Ep. destruct (prim_scalar_some false (TNum k) v eq_refl Hv) as [s Es].
        rewrite Es in Ep. discriminate Ep.
      * (* interface *)
        destruct (hty_iface_nil v Hv) as [->|(dt & dv & -> & H1 & H3)]; [eexists; reflexivity|].
        apply Anyr_ok; [exact IH|exact (good_iface dt dv Hg)|].
        unfold msz in *. cbn [tsize vsize] in Hf. lia.
      * (* pointer *)
        destruct (base_type (TPtr u)) as [n bt] eqn:Eb.
        destruct (deref n v) as [bv|] eqn:Ed; [|eexists; reflexivity].
        assert (Hn : (1 <= n)%nat).
        { cbn [base_type] in Eb. destruct (base_type u). inversion Eb. lia. }
        destruct IH as [Hrf _]. apply Hrf; [eapply good_base; eauto|].
        rewrite (msz_base _ _ _ _ _ Eb Ed) in Hf. lia.
      * exact (slice_case_ok f u v _ _ IH Hg Hf).
      * exact (array_case_ok f n0 u v _ _ IH Hg Hf).
      * exact (map_case_ok f u v _ _ IH Hg Hf).
      * exfalso. exact (ccok_not_mapk (TMapK u) u Hc eq_refl).
      * (* struct *)
        destruct v; try discriminate Hv.
        destruct (good_struct fs vs Hg) as (H1 & H2 & (gc & H3) & (g & c & H5)).
        unfold msz in Hf. rewrite tsize_struct, vsize_struct in Hf.
        destruct (Fields_ok f IH fs vs gc g [] c H1 H2 H3 H5 ltac:(lia)) as [e He].
        destruct inl; [eauto|]. apply wrap_ok. eauto.
      * (* named *)
        assert (Hn : named_ok u = true) by (cbn [type_ok] in Ht; apply andb_true_iff in Ht; apply Ht).
        pose proof (good_named u v Hn Hg) as Hgu. rewrite msz_named in Hf.
        destruct u as [ | |k| |u|u|n0 u|u|u|fs|u| ]; try discriminate Hn.
        -- destruct Hgu as (_ & Hvu & _). destruct (prim_scalar_some false TBool v eq_refl Hvu) as [s ->]. eexists; reflexivity.
        -- destruct Hgu as (_ & Hvu & _). destruct (prim_scalar_some false TString v eq_refl Hvu) as [s ->]. eexists; reflexivity.
        -- destruct Hgu as (_ & Hvu & _). destruct (prim_scalar_some false (TNum k) v eq_refl Hvu) as [s ->]. eexists; reflexivity.
        -- exact (slice_case_ok f u v _ _ IH Hgu ltac:(lia)).
        -- exact (array_case_ok f n0 u v _ _ IH Hgu ltac:(lia)).
        -- exact (map_case_ok f u v _ _ IH Hgu ltac:(lia)).
        -- exfalso. destruct Hgu as (_ & _ & Hcu & _). exact (ccok_not_mapk (TMapK u) u Hcu eq_refl).
      * exfalso. exact (ccok_unsup Hc).
    + intros t v Hg Hf. rewrite ftop_S.
      assert (Hf' : (2 * msz t v <= f)%nat) by lia.
      destruct (Fast f v t) as [r|] eqn:EF; [exact (Fast_ok f t v r IH Hg Hf' EF)|].
      destruct t as [ | |k| |u|u|n0 u|u|u|fs|u| ]; try (exact (Anyr_ok f _ v IH Hg Hf')).
      pose proof Hg as (Ht & _).
      assert (Hn : named_ok u = true) by (cbn [type_ok] in Ht; apply andb_true_iff in Ht; apply Ht).
      pose proof (good_named u v Hn Hg) as Hgu. rewrite msz_named in Hf'.
      destruct u as [ | |k| |u|u|n0 u|u|u|fs|u| ]; try (exact (Anyr_ok f _ v IH Hg ltac:(rewrite msz_named; lia))).
      * destruct (Fast f v (TSlice u)) as [r|] eqn:EF2; [|exact (Anyr_ok f _ v IH Hg ltac:(rewrite msz_named; lia))].
        exact (Fast_ok f _ v r IH Hgu ltac:(lia) EF2).
      * destruct (Fast f v (TMap u)) as [r|] eqn:EF2; [|exact (Anyr_ok f _ v IH Hg ltac:(rewrite msz_named; lia))].
        exact (Fast_ok f _ v r IH Hgu ltac:(lia) EF2).
Qed.

(* C12, converse: what the documented mapping accepts, Fold accepts.  The only premise
   besides well-typedness is that the static type compiles (= is a supported type); what
   interfaces hold is judged by the specification itself. *)
Theorem C12_fold_accepts_cc : forall t v F c,
  has_type t v = true -> cc_type t = None ->
  spec_fold F t v = Some c -> snd (fold_value t v) = None.
Proof.
  intros t v F c Hh Hc Hs. unfold has_type in Hh. apply andb_true_iff in Hh. destruct Hh as [Ht Hv].
  assert (Hg : good t v).
  { split; [exact Ht|]. split; [exact Hv|]. split; [eexists; exact Hc|]. exists F, c. exact Hs. }
  destruct (P13_all (4 * (tsize t + vsize v) + 8)) as [_ Hft].
  destruct (Hft t v Hg ltac:(unfold msz; lia)) as [evs He].
  unfold fold_value. destruct v; try (rewrite He; reflexivity).
  destruct t; try (rewrite He; reflexivity). reflexivity.
Qed.
Print Assumptions C12_fold_accepts_cc.

(* in the form of Properties/C12.v: the weakest form of "the static type is supported" *)
Theorem C12_fold_accepts : forall t v F c,
  has_type t v = true -> spec_supported (S (tsize t)) t = true ->
  spec_fold F t v = Some c -> snd (fold_value t v) = None.
Proof.
  intros t v F c Hh Hsup. apply C12_fold_accepts_cc; [exact Hh|].
  apply supported_compiles. exact Hsup.
Qed.
Print Assumptions C12_fold_accepts.

(* ... or judged with the fuel the specification is run with *)
Corollary C12_fold_accepts_same_fuel : forall t v F c,
  has_type t v = true -> spec_supported F t = true ->
  spec_fold F t v = Some c -> snd (fold_value t v) = None.
Proof.
  intros t v F c Hh Hsup. apply C12_fold_accepts_cc; [exact Hh|].
  eapply cc_of_supported. exact Hsup.
Qed.
Print Assumptions C12_fold_accepts_same_fuel.

(* the premise on the static type cannot be dropped: at top level the specification does
   not judge the static type (an empty omitempty field is skipped without looking at it) *)
Definition acc_static_t := TStruct [(s_A, tg [s_omitempty], TPtr TUnsup)].
Definition acc_static_v := GStruct [GNil].
Example C12_fold_accepts_needs_supported :
  has_type acc_static_t acc_static_v = true /\
  spec_supported 100 acc_static_t = false /\
  spec_fold 100 acc_static_t acc_static_v = Some (CObj []) /\
  fold_value acc_static_t acc_static_v = ([], Some feUnsupported).
Proof. vm_compute. repeat split. Qed.
Print Assumptions C12_fold_accepts_needs_supported.
