From SF Require Import Base.Prelude Base.PreludeProofs Gotype.Lru.
From Coq Require Import ZifyBool ZifyNat ZifyN.
Open Scope Z_scope.

Lemma beqb_false a b : bytes_eqb a b = false <-> a <> b.
Proof.
  split.
  - intros E H. apply bytes_eqb_spec in H. congruence.
  - intro H. destruct (bytes_eqb a b) eqn:E; [|reflexivity].
    apply bytes_eqb_spec in E. contradiction.
Qed.

Ltac beq a b :=
  let E := fresh "E" in
  destruct (bytes_eqb a b) eqn:E;
  [apply bytes_eqb_spec in E | apply beqb_false in E].

(* ---- association lists ---- *)
Lemma find_in_keys k m : assoc_find k m <> None <-> In k (map fst m).
Proof.
  induction m as [|[k' v] m IH]; cbn.
  - split; [congruence | tauto].
  - beq k k'.
    + subst. split; [auto | congruence].
    + rewrite IH. split; [auto | intros [H|H]; [congruence | exact H]].
Qed.

Lemma find_del_other k old m : k <> old -> assoc_find k (assoc_del old m) = assoc_find k m.
Proof.
  intro H. induction m as [|[k' v] m IH]; cbn; [reflexivity|].
  beq old k'.
  - subst. rewrite IH. beq k k'; [contradiction | reflexivity].
  - cbn. rewrite IH. reflexivity.
Qed.

Lemma find_del_same old m : assoc_find old (assoc_del old m) = None.
Proof.
  induction m as [|[k' v] m IH]; cbn; [reflexivity|].
  beq old k'; [exact IH|]. cbn. beq old k'; [contradiction | exact IH].
Qed.

Lemma del_keys_subset old m k : In k (map fst (assoc_del old m)) -> In k (map fst m).
Proof.
  induction m as [|[k' v] m IH]; cbn; [tauto|].
  beq old k'; cbn; intuition.
Qed.

Lemma del_nodup old m : NoDup (map fst m) -> NoDup (map fst (assoc_del old m)).
Proof.
  induction m as [|[k' v] m IH]; cbn; intro H; [constructor|].
  inversion H as [|x l Hn Hd]; subst.
  beq old k'; [apply IH; exact Hd|].
  cbn. constructor; [|apply IH; exact Hd].
  intro Hin. apply Hn. eapply del_keys_subset; eauto.
Qed.

Lemma del_length old m : NoDup (map fst m) -> In old (map fst m) ->
  S (length (assoc_del old m)) = length m.
Proof.
  induction m as [|[k' v] m IH]; cbn; intros Hd Hin; [tauto|].
  inversion Hd as [|x l Hn Hd']; subst.
  beq old k'.
  - subst. f_equal.
    assert (Hx : ~ In k' (map fst m)) by exact Hn.
    clear -Hx. induction m as [|[k2 v2] m IH]; cbn in *; [reflexivity|].
    beq k' k2; [subst; tauto|]. cbn. f_equal. apply IH. tauto.
  - cbn. f_equal. apply IH; [exact Hd'|]. destruct Hin; [congruence | assumption].
Qed.

(* ---- list_del ---- *)
Lemma list_del_in k x l : In x (list_del k l) -> In x l.
Proof.
  induction l as [|y l IH]; cbn; [tauto|].
  beq k y; cbn; intuition.
Qed.

Lemma list_del_in_other k x l : x <> k -> In x l -> In x (list_del k l).
Proof.
  intro Hne. induction l as [|y l IH]; cbn; [tauto|].
  intros [H|H]; beq k y; subst; cbn; try tauto; try congruence; auto.
Qed.

Lemma list_del_nodup k l : NoDup l -> NoDup (list_del k l) /\ ~ In k (list_del k l).
Proof.
  induction l as [|y l IH]; cbn; intro H; [split; [constructor | tauto]|].
  inversion H as [|x l' Hn Hd]; subst.
  beq k y.
  - subst. split; assumption.
  - destruct (IH Hd) as [I1 I2]. split.
    + constructor; [|exact I1]. intro Hin. apply Hn. eapply list_del_in; eauto.
    + cbn. intros [Hx|Hx]; [congruence | tauto].
Qed.

Lemma list_del_length k l : In k l -> S (length (list_del k l)) = length l.
Proof.
  induction l as [|y l IH]; cbn; [tauto|].
  intros Hin. beq k y; [reflexivity|]. cbn. f_equal. apply IH.
  destruct Hin; [congruence | assumption].
Qed.

Lemma existsb_beq k l : existsb (bytes_eqb k) l = true <-> In k l.
Proof.
  rewrite existsb_exists. split.
  - intros [x [Hx E]]. apply bytes_eqb_spec in E. subst. exact Hx.
  - intro H. exists k. split; [exact H | apply bytes_eqb_refl].
Qed.

Lemma nodup_snoc (k : bytes) l : NoDup l -> ~ In k l -> NoDup (l ++ [k]).
Proof.
  induction l as [|y l IH]; cbn; intros Hd Hn.
  - constructor; [tauto | constructor].
  - inversion Hd as [|x l' Hn' Hd']; subst. constructor.
    + rewrite in_app_iff. cbn. intros [H|[H|[]]]; [tauto | subst; tauto].
    + apply IH; tauto.
Qed.

(* ---- the invariant ---- *)
Record Inv (c : lru) : Prop := {
  inv_val  : forall k v, assoc_find k (lm c) = Some v -> v = k;
  inv_dom  : forall k, In k (map fst (lm c)) <-> In k (llst c);
  inv_nd_l : NoDup (llst c);
  inv_nd_m : NoDup (map fst (lm c));
  inv_len  : length (lm c) = length (llst c);
}.

Lemma inv_init max : Inv (lru_init max).
Proof. constructor; cbn; try constructor; try tauto; congruence. Qed.

Lemma lookup_hit c k v c' : Inv c -> lru_lookup c k = Some (v, c') ->
  v = k /\ In k (llst c) /\ Inv c' /\ llst c' = list_del k (llst c) ++ [k] /\ lmax c' = lmax c.
Proof.
  intros I H. unfold lru_lookup in H.
  destruct (assoc_find k (lm c)) as [v0|] eqn:F; [|discriminate].
  inversion H; subst v0 c'; clear H.
  pose proof (inv_val c I _ _ F) as ->.
  assert (Hin : In k (llst c)).
  { apply (inv_dom c I). apply find_in_keys. congruence. }
  split; [reflexivity|]. split; [exact Hin|]. split; [|split; reflexivity].
  constructor; cbn.
  - exact (inv_val c I).
  - intro q. rewrite in_app_iff. cbn. split.
    + intro H. apply (inv_dom c I) in H.
      beq q k; [subst; tauto | left; apply list_del_in_other; auto].
    + intros [H|[H|[]]].
      * apply (inv_dom c I). eapply list_del_in; eauto.
      * subst. apply (inv_dom c I). exact Hin.
  - destruct (list_del_nodup k (llst c) (inv_nd_l c I)) as [N1 N2].
    apply nodup_snoc; assumption.
  - exact (inv_nd_m c I).
  - rewrite app_length. cbn. rewrite (inv_len c I).
    pose proof (list_del_length k (llst c) Hin). lia.
Qed.

Lemma lookup_miss c k : Inv c -> lru_lookup c k = None -> ~ In k (llst c).
Proof.
  intros I H Hin. unfold lru_lookup in H.
  destruct (assoc_find k (lm c)) eqn:F; [discriminate|].
  apply (inv_dom c I) in Hin. apply find_in_keys in Hin. congruence.
Qed.

Lemma add_miss c k : Inv c -> ~ In k (llst c) ->
  exists c', lru_add c k = Ok c' /\ Inv c' /\ lmax c' = lmax c /\
    llst c' = (if zlen (llst c) =? lmax c
               then match llst c with [] => [] | _ :: r => r ++ [k] end
               else llst c ++ [k]).
Proof.
  intros I Hn. unfold lru_add, zlen. rewrite (inv_len c I).
  destruct (Z.of_nat (length (llst c)) =? lmax c) eqn:Efull.
  - destruct (llst c) as [|old rest] eqn:El.
    + exists c. rewrite ?El. split; [reflexivity|]. split; [exact I|]. split; [reflexivity | auto].
    + eexists. split; [reflexivity|]. split; [|split; reflexivity].
      pose proof (inv_nd_l c I) as Nd. rewrite El in Nd.
      inversion Nd as [|x l' Hold Nrest]; subst.
      assert (Hko : k <> old) by (intro; subst; apply Hn; rewrite ?El; left; reflexivity).
      assert (Hkr : ~ In k rest) by (intro; apply Hn; rewrite ?El; right; assumption).
      assert (Hold_in : In old (map fst (lm c))) by (apply (inv_dom c I); rewrite ?El; left; reflexivity).
      constructor; cbn.
      * intros q v. beq q k; [congruence|].
        intro F. beq q old; [subst; rewrite find_del_same in F; discriminate|].
        rewrite find_del_other in F by assumption. exact (inv_val c I _ _ F).
      * intro q. rewrite in_app_iff. cbn. split.
        -- intros [H|H]; [subst; tauto|].
           assert (q <> old).
           { intro; subst. apply find_in_keys in H. rewrite find_del_same in H. congruence. }
           apply del_keys_subset in H. apply (inv_dom c I) in H. rewrite El in H.
           destruct H; [congruence | tauto].
        -- intros [H|[H|[]]]; [|subst; tauto].
           right. apply find_in_keys. rewrite find_del_other by (intro; subst; tauto).
           apply find_in_keys. apply (inv_dom c I). rewrite El. right. exact H.
      * apply nodup_snoc; assumption.
      * constructor; [|apply del_nodup; exact (inv_nd_m c I)].
        intro H. apply del_keys_subset in H. apply (inv_dom c I) in H. rewrite El in H. tauto.
      * rewrite app_length. cbn.
        pose proof (del_length old (lm c) (inv_nd_m c I) Hold_in).
        pose proof (inv_len c I) as L. rewrite El in L. cbn in L. lia.
  - eexists. split; [reflexivity|]. split; [|split; reflexivity].
    constructor; cbn.
    + intros q v. beq q k; [congruence|]. exact (inv_val c I q v).
    + intro q. rewrite in_app_iff. cbn. rewrite (inv_dom c I q). intuition.
    + apply nodup_snoc; [exact (inv_nd_l c I) | exact Hn].
    + constructor; [|exact (inv_nd_m c I)]. rewrite (inv_dom c I). exact Hn.
    + rewrite app_length. cbn. rewrite (inv_len c I). lia.
Qed.

(* One get: never fails, returns exactly the key it was asked for, in fresh
   memory, keeps the invariant and moves the abstract list as the LRU spec says. *)
Theorem get_refines c k : Inv c ->
  exists c', lru_get c k = Ok (k, Fresh, c') /\ Inv c' /\ lmax c' = lmax c /\
             llst c' = spec_get (lmax c) (llst c) k.
Proof.
  intro I. unfold lru_get, spec_get.
  destruct (lru_lookup c k) as [[v c1]|] eqn:L.
  - destruct (lookup_hit c k v c1 I L) as (-> & Hin & I1 & El & Em).
    exists c1. split; [reflexivity|]. split; [assumption|]. split; [assumption|].
    apply existsb_beq in Hin. rewrite Hin. exact El.
  - pose proof (lookup_miss c k I L) as Hn.
    destruct (add_miss c k I Hn) as (c1 & A & I1 & Em & El).
    exists c1. rewrite A. cbn. split; [reflexivity|]. split; [assumption|]. split; [assumption|].
    destruct (existsb (bytes_eqb k) (llst c)) eqn:Ex; [apply existsb_beq in Ex; contradiction|].
    exact El.
Qed.

(* Whole histories. *)
Theorem run_refines ks : forall c, Inv c ->
  exists c', lru_run c ks = Ok (ks, c') /\ Inv c' /\ lmax c' = lmax c /\
             llst c' = spec_run (lmax c) (llst c) ks.
Proof.
  induction ks as [|k ks IH]; intros c I.
  - exists c. cbn. auto.
  - destruct (get_refines c k I) as (c1 & G & I1 & M1 & L1).
    destruct (IH c1 I1) as (c2 & R & I2 & M2 & L2).
    exists c2. cbn [lru_run]. rewrite G. cbn. rewrite R. cbn.
    split; [reflexivity|]. split; [assumption|]. split; [congruence|].
    cbn [spec_run]. rewrite L2, M1, L1. reflexivity.
Qed.

(* The abstract LRU never exceeds a non-negative capacity. *)
Lemma spec_get_bound max l k : 0 <= max -> zlen l <= max -> zlen (spec_get max l k) <= max.
Proof.
  unfold spec_get, zlen. intros Hm Hl.
  destruct (existsb (bytes_eqb k) l) eqn:Ex.
  - apply existsb_beq in Ex. rewrite app_length. cbn.
    pose proof (list_del_length k l Ex). lia.
  - destruct (Z.of_nat (length l) =? max) eqn:E.
    + destruct l as [|x r]; cbn in *; [lia|]. rewrite app_length. cbn. lia.
    + rewrite app_length. cbn. lia.
Qed.

Lemma spec_run_bound max ks : forall l, 0 <= max -> zlen l <= max -> zlen (spec_run max l ks) <= max.
Proof.
  induction ks as [|k ks IH]; intros l Hm Hl; cbn; [exact Hl|].
  apply IH; [exact Hm | apply spec_get_bound; assumption].
Qed.
