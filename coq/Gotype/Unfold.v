(* L1: gotype.Unfolder - unfold.go, unfold_struct.go, unfold_refl.go and the generated
   unfolders (primitive, arr, map, refl, ignore, err, lookup), after the fixes recorded in
   known-findings.txt.  The unfolder is a stack of per-target state machines; for a stream
   delivered event by event that stack is the recursion stack of this function, which
   consumes one value from the event list and returns the updated target and the rest of
   the events, or the events left when an event method returned an error.
   Extended events reach the unfolder through the adapters (EnsureExtVisitor), by-reference
   strings and keys are copied at once: the model runs on [flat_map expand evs].
   User unfolders and Expander implementations are outside this model.  No proofs here. *)
From SF Require Import Base.Prelude Core.Events Gotype.Types Gotype.Conv.
Open Scope Z_scope.

Inductive ur :=
| UOk (v : gvalue) (rest : list event)
| UErr (rest : list event).        (* rest starts with the event whose method returned the error *)

Definition max_initial_len := 4096.

Definition prim_kind (t : gtype) : bool :=
  match under t with TBool | TString | TNum _ => true | _ => false end.

(* element type of the slice / map an interface{} target builds for an announced BaseType *)
Definition ifc_elem (bt : btype) : gtype :=
  match bt with
  | BAny | BZero => TIface
  | BBool => TBool | BString => TString
  | BByte | BUint8 => TNum KUint8
  | BInt => TNum KInt | BInt8 => TNum KInt8 | BInt16 => TNum KInt16 | BInt32 => TNum KInt32 | BInt64 => TNum KInt64
  | BUint => TNum KUint | BUint16 => TNum KUint16 | BUint32 => TNum KUint32 | BUint64 => TNum KUint64
  | BFloat32 => TNum KFloat32 | BFloat64 => TNum KFloat64
  end.

(* ---------- struct field tables (unfold_struct.go fieldUnfolders) ---------- *)
(* key -> path of field indices (through inlined structs) and the field's type *)
Definition ftable := list (bytes * (list nat * gtype)).

Definition ue_unsupported := 1.
Definition ue_mapkey := 2.
Definition ue_squash := 3.
Definition ue_dup := 4.

Fixpoint field_table (fuel : nat) (fs : list (bytes * bytes * gtype)) (idx : nat) : Z + ftable :=
  match fuel with
  | O => inl ue_unsupported
  | S f =>
      match fs with
      | [] => inr []
      | (name, tag, ft) :: r =>
          let rest := field_table f r (S idx) in
          if negb (exported name) then rest else
          let '(tn, o) := parse_tags tag in
          if t_omit o then rest
          else
            let here : Z + ftable :=
              if t_squash o then
                match ft with
                | TStruct ifs =>
                    match field_table f ifs O with
                    | inl e => inl e
                    | inr sub => inr (map (fun e => (fst e, (idx :: fst (snd e), snd (snd e)))) sub)
                    end
                | _ => inl ue_squash
                end
              else inr [(field_name name tn, ([idx], ft))] in
            match here, rest with
            | inl e, _ => inl e
            | _, inl e => inl e
            | inr a, inr b =>
                if existsb (fun x => existsb (fun y => bytes_eqb (fst x) (fst y)) b) a then inl ue_dup
                else inr (a ++ b)
            end
      end
  end.

Fixpoint ftsize (t : gtype) : nat :=
  match t with
  | TPtr u | TSlice u | TArray _ u | TMap u | TMapK u | TNamed u => S (ftsize u)
  | TStruct fs => S ((fix go (l : list (bytes * bytes * gtype)) : nat :=
                        match l with [] => O | (_, _, ft) :: r => S (ftsize ft + go r) end) fs)
  | _ => 1%nat
  end.

(* lookupReflUnfolder / buildReflUnfolder: the error SetTarget returns, if any *)
Fixpoint ucc (fuel : nat) (t : gtype) : option Z :=
  match fuel with
  | O => Some ue_unsupported
  | S f =>
      match under t with
      | TBool | TString | TNum _ | TIface => None
      | TUnsup | TArray _ _ | TNamed _ => Some ue_unsupported
      | TMapK _ => Some ue_mapkey
      | TPtr u => ucc f u
      | TSlice e | TMap e => if prim_kind e || gtype_eqb e TIface then None else ucc f e
      | TStruct fs =>
          match field_table (S (ftsize t)) fs O with
          | inl e => Some e
          | inr tab =>
              fold_right (fun e acc => match ucc f (snd (snd e)) with Some x => Some x | None => acc end) None tab
          end
      end
  end.

Definition ucc_type (t : gtype) : option Z := ucc (S (ftsize t)) t.

(* ---------- helpers on values ---------- *)
Fixpoint replace_nth {A} (n : nat) (x : A) (l : list A) : list A :=
  match l, n with
  | [], _ => []
  | _ :: r, O => x :: r
  | y :: r, S m => y :: replace_nth m x r
  end.

Fixpoint get_path (p : list nat) (v : gvalue) : gvalue :=
  match p with
  | [] => v
  | i :: r => match v with GStruct vs => get_path r (nth i vs GNil) | _ => GNil end
  end.
Fixpoint set_path (p : list nat) (x : gvalue) (v : gvalue) : gvalue :=
  match p with
  | [] => x
  | i :: r => match v with
              | GStruct vs => GStruct (replace_nth i (set_path r x (nth i vs GNil)) vs)
              | _ => v
              end
  end.

(* map listing sorted by key (as compared by the harness: hex order = byte order) *)
Fixpoint bytes_ltb (a b : bytes) : bool :=
  match a, b with
  | [], [] => false
  | [], _ => true
  | _, [] => false
  | x :: r, y :: s => if x <? y then true else if y <? x then false else bytes_ltb r s
  end.
Fixpoint map_put (k : bytes) (v : gvalue) (m : list (bytes * gvalue)) : list (bytes * gvalue) :=
  match m with
  | [] => [(k, v)]
  | (k', v') :: r =>
      if bytes_eqb k k' then (k, v) :: r
      else if bytes_ltb k k' then (k, v) :: m
      else (k', v') :: map_put k v r
  end.

Definition assoc_key {A} (k : bytes) (l : list (bytes * A)) : option A :=
  match find (fun e => bytes_eqb (fst e) k) l with Some e => Some (snd e) | None => None end.

(* unfolderIgnore / IgnoreArr / IgnoreObj: swallow one complete value *)
Inductive skres := SkOk (rest : list event) | SkMore | SkErr (rest : list event).
Fixpoint skip_value (fuel : nat) (evs : list event) : skres :=
  match fuel with
  | O => SkMore
  | S f =>
      match evs with
      | [] => SkMore
      | EVal _ :: r | EStrRef _ :: r => SkOk r
      | EArrStart _ _ :: r =>
          (fix elems (g : nat) (evs : list event) : skres :=
             match g with
             | O => SkMore
             | S g' =>
                 match evs with
                 | [] => SkMore
                 | EArrEnd :: r' => SkOk r'
                 | _ => match skip_value f evs with SkOk r' => elems g' r' | x => x end
                 end
             end) f r
      | EObjStart _ _ :: r =>
          (fix mems (g : nat) (evs : list event) : skres :=
             match g with
             | O => SkMore
             | S g' =>
                 match evs with
                 | [] => SkMore
                 | EObjEnd :: r' => SkOk r'
                 | (EKey _ | EKeyRef _) :: r' => mems g' r'      (* OnKey is a no-op while ignoring an object *)
                 | _ => match skip_value f evs with SkOk r' => mems g' r' | x => x end
                 end
             end) f r
      | _ => SkErr evs
      end
  end.

Definition ifc_scalar (s : scalar) : gvalue :=
  match s with
  | SNil => GNil
  | SBool b => GIface TBool (GBool b)
  | SStr x => GIface TString (GStr x)
  | SNum k z => GIface (TNum (match k with KByte => KUint8 | _ => k end)) (GNum z)
  end.

(* [uf fuel t old evs]: the unfolder for a target of type t holding [old] consumes one value *)
Fixpoint uf (fuel : nat) (t : gtype) (old : gvalue) (evs : list event) : ur :=
  match fuel with
  | O => UErr evs
  | S f =>
      match under t with
      | TBool =>
          match evs with
          | EVal (SBool b) :: r => UOk (GBool b) r
          | EVal SNil :: r => UOk (GBool false) r
          | _ => UErr evs
          end
      | TString =>
          match evs with
          | EVal (SStr s) :: r => UOk (GStr s) r
          | EVal SNil :: r => UOk (GStr []) r
          | _ => UErr evs
          end
      | TNum k =>
          match evs with
          | EVal (SNum k' z) :: r => UOk (GNum (conv k' k z)) r
          | EVal SNil :: r => UOk (GNum 0) r
          | _ => UErr evs
          end
      | TIface =>
          match evs with
          | EVal s :: r => UOk (ifc_scalar s) r
          | EArrStart _ bt :: _ =>
              let st := TSlice (ifc_elem bt) in
              match uf f st GNil evs with UOk v r => UOk (GIface st v) r | e => e end
          | EObjStart _ bt :: _ =>
              let mt := TMap (ifc_elem bt) in
              match uf f mt GNil evs with UOk v r => UOk (GIface mt v) r | e => e end
          | _ => UErr evs
          end
      | TPtr u =>
          match evs with
          | EVal SNil :: r => UOk GNil r
          | _ => match uf f u (zero_of u) evs with UOk v r => UOk (GPtr v) r | e => e end
          end
      | TSlice e =>
          match evs with
          | EArrStart l _ :: r =>
              let l := Z.max l 0 in
              (* unfoldArrStart*.OnArrayStart / unfolderReflSliceStart.OnArrayStart *)
              (* [spare]: elements cut off by the truncation stay in the backing array and are
                 re-exposed by unfolderReflSlice.prepare (SetLen within the capacity) *)
              let '(cur, spare, wasnil) :=
                match old with
                | GList xs => if l <? zlen xs then (firstn (Z.to_nat l) xs, skipn (Z.to_nat l) xs, false) else (xs, [], false)
                | _ => (repeat (zero_of e) (Z.to_nat (Z.min l max_initial_len)), [], l =? 0)
                end in
              let reflslice := negb (prim_kind e || gtype_eqb e TIface) in
              (fix elems (g : nat) (cur spare : list gvalue) (idx : nat) (evs : list event) : ur :=
                 match g with
                 | O => UErr evs
                 | S g' =>
                     match evs with
                     | EArrEnd :: r' =>
                         UOk (match cur with [] => if wasnil then GNil else GList [] | _ => GList cur end) r'
                     | _ =>
                         let have := Nat.ltb idx (length cur) in
                         let oldel := if have then nth idx cur GNil
                                      else if reflslice then hd (zero_of e) spare else zero_of e in
                         let spare' := if have then spare else tl spare in
                         let put (v : gvalue) := if have then replace_nth idx v cur else cur ++ [v] in
                         match evs with
                         | EVal SNil :: r' =>
                             if reflslice then elems g' (put oldel) spare' (S idx) r'   (* OnNil: prepare only *)
                             else match uf f e oldel evs with
                                  | UOk v r'' => elems g' (put v) spare' (S idx) r''
                                  | UErr x => UErr x
                                  end
                         | _ =>
                             match uf f e oldel evs with
                             | UOk v r'' => elems g' (put v) spare' (S idx) r''
                             | UErr x => UErr x
                             end
                         end
                     end
                 end) (S (length r)) cur spare O r
          | _ => UErr evs
          end
      | TMap e =>
          match evs with
          | EObjStart _ _ :: r =>
              let reflmap := negb (prim_kind e || gtype_eqb e TIface) in
              let start : option (list (bytes * gvalue)) :=
                match old with
                | GMap m => Some m
                | _ => if reflmap then Some [] else None     (* unfolderReflMapStart allocates; typed maps on first put *)
                end in
              (fix mems (g : nat) (cur : option (list (bytes * gvalue))) (evs : list event) : ur :=
                 match g with
                 | O => UErr evs
                 | S g' =>
                     match evs with
                     | EObjEnd :: r' => UOk (match cur with Some m => GMap m | None => GNil end) r'
                     | (EKey k | EKeyRef k) :: r' =>
                         let m := match cur with Some m => m | None => [] end in
                         match (match r' with
                                | EVal SNil :: r'' => if reflmap then UOk (zero_of e) r'' else uf f e (zero_of e) r'
                                | _ => uf f e (zero_of e) r'
                                end) with
                         | UOk v r'' => mems g' (Some (map_put k v m)) r''
                         | UErr x => UErr x
                         end
                     | _ => UErr evs
                     end
                 end) (S (length r)) start r
          | _ => UErr evs
          end
      | TStruct fs =>
          match evs with
          | EObjStart _ _ :: r =>
              match field_table (S (ftsize t)) fs O with
              | inl _ => UErr evs
              | inr tab =>
                  (fix mems (g : nat) (cur : gvalue) (evs : list event) : ur :=
                     match g with
                     | O => UErr evs
                     | S g' =>
                         match evs with
                         | EObjEnd :: r' => UOk cur r'
                         | (EKey k | EKeyRef k) :: r' =>
                             match assoc_key k tab with
                             | None =>
                                 match skip_value (S (length r')) r' with
                                 | SkOk r'' => mems g' cur r''
                                 | SkMore => UErr []
                                 | SkErr x => UErr x        (* reported by an event inside the skipped value *)
                                 end
                             | Some (path, ft) =>
                                 match uf f ft (get_path path cur) r' with
                                 | UOk v r'' => mems g' (set_path path v cur) r''
                                 | UErr x => UErr x
                                 end
                             end
                         | _ => UErr evs
                         end
                     end) (S (length r)) old r
              end
          | _ => UErr evs
          end
      | _ => UErr evs
      end
  end.

(* SetTarget(&target) followed by the events of one document.
   Result: setup error | (verdict ok, final target) | (error, index of the failing event) *)
Inductive uresult :=
| USetupErr (e : Z)
| UDone (v : gvalue)
| UMore                    (* every event was accepted, the document is not complete yet *)
| UFail (index : nat).

Definition unfold_value (t : gtype) (old : gvalue) (evs0 : list event) : uresult :=
  match ucc_type t with
  | Some e => USetupErr e
  | None =>
      let evs := flat_map expand evs0 in
      match uf (S (S (2 * length evs)) + ftsize t) t old evs with
      | UOk v [] => UDone v
      | UOk v rest => UFail (length evs - length rest)     (* events after the value: no target *)
      | UErr [] => UMore
      | UErr rest => UFail (length evs - length rest)
      end
  end.
