(* C11: Fold, then Unfold into a fresh variable of the same type, directly or through a codec -
   for the fragment [nest] of Gotype/UnfoldStructProofs.v extended by interface{} as the type
   of struct fields, slice elements, map values and pointer targets ([nest3]).  What an
   interface holds may be ANY Go value that Fold accepts.

   The proof is semantic: Fold is used only through C12_fold / C09_fold (the events of a
   successful fold are a well-formed tree whose canonical value is [spec_fold T v]).  The main
   induction ([S_all]) says: unfolding ANY well-formed stream whose canonical value is
   [spec_fold T v] into a zero target of type T completes with a value that is [deep_eq] to
   [v] ([C11_value_route]).  The direct route and the codec routes (whose parsers deliver a
   tree with the same canonical value: C01_cbor, C01_ubj, C01_json) are instances.

     Part 1  sorted association lists; cvalue_eqb is reflexive
     Part 2  (a) what an interface{} target holds folds to the canonically sorted value of
             the stream: [generic_spec]
     Part 3  (b) the omit view folds to the same value, for all types: [ov_spec]; the depth
             of the folded value is bounded by the fuel: [cdepth_fuel]
     Part 4  the slice / map loops of the unfolder on a list of element streams
     Part 5  the fragment [nest3]; the main induction [S_all]
     Part 6  C11_direct_iface_partial (+ an instance)
     Part 7  C11_value_route; C11_cbor_route_partial; C11_ubj_route_partial (no integer above
             MaxInt64: finding F1/F3, [C11_ubj_counterexample]); C11_json_route_partial (no
             floats, valid UTF-8; [C11_json_float_in_interface_counterexample]); instances *)
From Coq Require Import List NArith ZArith Bool Lia.
From Coq Require Import ZifyBool ZifyNat ZifyN.
From SF Require Import Base.Prelude Base.PreludeProofs Core.Events Core.EventsProofs Core.AdapterProofs.
From SF Require Import Gotype.Types Gotype.Conv Gotype.FoldSpec Gotype.Unfold Gotype.UnfoldSpec.
From SF Require Import Gotype.Fold Gotype.FoldProofs Gotype.UnfoldProofs Gotype.UnfoldStructProofs.
From SF Require Core.ComposeProofs Cbor.ComposeProofs.
Import ListNotations.
Open Scope Z_scope.

Ltac Zify.zify_post_hook ::= Z.div_mod_to_equations.

#[local] Opaque spec_fold spec_empty.

(* ====================================================================== *)
(* Part 1: sorted association lists                                        *)
(* ====================================================================== *)

(* the insertion of UnfoldSpec.gmap_put / Unfold.map_put / UnfoldSpec.cv_insert *)
Fixpoint ins {V} (k : bytes) (v : V) (m : list (bytes * V)) : list (bytes * V) :=
  match m with
  | [] => [(k, v)]
  | (k', v') :: r =>
      if bytes_eqb k k' then (k, v) :: r
      else if bytes_ltb k k' then (k, v) :: m else (k', v') :: ins k v r
  end.

Lemma bytes_lt_ltb a : forall b, bytes_lt a b = bytes_ltb a b.
Proof. reflexivity. Qed.

Lemma map_put_ins k v m : map_put k v m = ins k v m.
Proof. induction m as [|[k' v'] m IH]; [reflexivity|]. cbn [map_put ins]. rewrite IH. reflexivity. Qed.

Lemma cv_insert_ins k v m : cv_insert k v m = ins k v m.
Proof.
  induction m as [|[k' v'] m IH]; [reflexivity|]. cbn [cv_insert ins]. rewrite IH, bytes_lt_ltb. reflexivity.
Qed.

Definition ins_all {V} (kvs m : list (bytes * V)) : list (bytes * V) :=
  fold_left (fun m kv => ins (fst kv) (snd kv) m) kvs m.

Lemma ins_all_cons {V} (kv : bytes * V) kvs m : ins_all (kv :: kvs) m = ins_all kvs (ins (fst kv) (snd kv) m).
Proof. reflexivity. Qed.

(* two association lists with the same keys and related values *)
Definition rel_al {V W} (R : V -> W -> Prop) : list (bytes * V) -> list (bytes * W) -> Prop :=
  Forall2 (fun a b => fst a = fst b /\ R (snd a) (snd b)).

Lemma ins_rel {V W} (R : V -> W -> Prop) k v w : R v w -> forall m m', rel_al R m m' ->
  rel_al R (ins k v m) (ins k w m').
Proof.
  intros Hr. induction 1 as [|[k1 v1] [k2 w1] m m' [Hk Hv] Hm IH].
  - constructor; [split; [reflexivity|exact Hr]|constructor].
  - cbn [fst snd] in Hk, Hv. subst k2. cbn [ins].
    destruct (bytes_eqb k k1).
    + constructor; [split; [reflexivity|exact Hr]|exact Hm].
    + destruct (bytes_ltb k k1).
      * constructor; [split; [reflexivity|exact Hr]|]. constructor; [split; [reflexivity|exact Hv]|exact Hm].
      * constructor; [split; [reflexivity|exact Hv]|exact IH].
Qed.

Lemma ins_all_rel {V W} (R : V -> W -> Prop) : forall kvs kws, rel_al R kvs kws ->
  forall m m', rel_al R m m' -> rel_al R (ins_all kvs m) (ins_all kws m').
Proof.
  induction 1 as [|[k1 v1] [k2 w1] kvs kws [Hk Hv] _ IH]; intros m m' Hm; [exact Hm|].
  cbn [fst snd] in Hk, Hv. subst k2. rewrite !ins_all_cons. apply IH. cbn [fst snd]. apply ins_rel; assumption.
Qed.

(* keys strictly increasing *)
Definition ksort {V} (m : list (bytes * V)) : bool := ssorted (map fst m).

Lemma bytes_eqb_sym a b : bytes_eqb a b = bytes_eqb b a.
Proof.
  destruct (bytes_eqb a b) eqn:E1, (bytes_eqb b a) eqn:E2; try reflexivity.
  - apply bytes_eqb_spec in E1. subst b. rewrite bytes_eqb_refl in E2. discriminate E2.
  - apply bytes_eqb_spec in E2. subst b. rewrite bytes_eqb_refl in E1. discriminate E1.
Qed.

Lemma bytes_ltb_total : forall a b, bytes_ltb a b = false -> bytes_eqb a b = false -> bytes_ltb b a = true.
Proof.
  induction a as [|x a IH]; intros [|y b] H1 H2; try discriminate H1; try reflexivity.
  - rewrite bytes_eqb_refl in H2. discriminate H2.
  - cbn [bytes_ltb] in *. destruct (x <? y) eqn:E1; [discriminate H1|]. destruct (y <? x) eqn:E2; [reflexivity|].
    assert (x = y) by lia. subst y. apply IH; [exact H1|].
    destruct (bytes_eqb a b) eqn:E; [|reflexivity]. apply bytes_eqb_spec in E. subst b.
    rewrite bytes_eqb_refl in H2. discriminate H2.
Qed.

Lemma ins_keys_lt {V} k0 k (v : V) : forall m, bytes_ltb k0 k = true ->
  forallb (bytes_ltb k0) (map fst m) = true -> forallb (bytes_ltb k0) (map fst (ins k v m)) = true.
Proof.
  induction m as [|[k' v'] m IH]; intros Hk Hm; cbn [ins].
  - cbn. rewrite Hk. reflexivity.
  - cbn [map fst forallb] in Hm. apply andb_true_iff in Hm. destruct Hm as [H1 H2].
    destruct (bytes_eqb k k').
    + cbn [map fst forallb]. rewrite Hk, H2. reflexivity.
    + destruct (bytes_ltb k k'); cbn [map fst forallb].
      * rewrite Hk, H1, H2. reflexivity.
      * rewrite H1, IH by assumption. reflexivity.
Qed.

Lemma ins_sorted {V} k (v : V) : forall m, ksort m = true -> ksort (ins k v m) = true.
Proof.
  unfold ksort. induction m as [|[k' v'] m IH]; intro Hs; [reflexivity|].
  cbn [map fst ssorted] in Hs. apply andb_true_iff in Hs. destruct Hs as [H1 H2]. cbn [ins].
  destruct (bytes_eqb k k') eqn:E.
  - apply bytes_eqb_spec in E. subst k'. cbn [map fst ssorted]. rewrite H1, H2. reflexivity.
  - destruct (bytes_ltb k k') eqn:L.
    + cbn [map fst ssorted forallb]. rewrite L, H1, H2, andb_true_r. cbn [andb].
      apply forallb_forall. intros y Hy. rewrite forallb_forall in H1. apply (bytes_ltb_trans k k' y L). apply H1. exact Hy.
    + cbn [map fst ssorted]. rewrite IH by exact H2. rewrite andb_true_r.
      apply ins_keys_lt; [|exact H1]. apply bytes_ltb_total; [exact L|exact E].
Qed.

Lemma ins_all_sorted {V} : forall (kvs m : list (bytes * V)), ksort m = true -> ksort (ins_all kvs m) = true.
Proof.
  induction kvs as [|kv kvs IH]; intros m Hm; [exact Hm|]. rewrite ins_all_cons. apply IH. apply ins_sorted. exact Hm.
Qed.

Lemma ins_last {V} k (v : V) : forall m, forallb (fun kv => bytes_ltb (fst kv) k) m = true -> ins k v m = m ++ [(k, v)].
Proof.
  induction m as [|[k' v'] m IH]; intro H; [reflexivity|].
  cbn [forallb fst] in H. apply andb_true_iff in H. destruct H as [H1 H2].
  destruct (bytes_ltb_asym _ _ H1) as [E1 E2]. cbn [ins app]. rewrite E1, E2, IH by exact H2. reflexivity.
Qed.

(* inserting a sorted list into the empty one gives the list back *)
Lemma ins_all_sorted_id {V} : forall (kvs m : list (bytes * V)),
  ksort (m ++ kvs) = true -> ins_all kvs m = m ++ kvs.
Proof.
  induction kvs as [|[k v] kvs IH]; intros m Hs; [rewrite app_nil_r; reflexivity|].
  rewrite ins_all_cons. cbn [fst snd].
  assert (Hlt : forallb (fun kv => bytes_ltb (fst kv) k) m = true).
  { clear IH. unfold ksort in Hs. induction m as [|[k' v'] m IHm]; [reflexivity|].
    cbn [app map fst ssorted] in Hs. apply andb_true_iff in Hs. destruct Hs as [H1 H2].
    cbn [forallb fst]. rewrite IHm by exact H2. rewrite andb_true_r.
    rewrite map_app in H1. cbn [map fst] in H1. rewrite forallb_app in H1. apply andb_true_iff in H1.
    destruct H1 as [_ H1]. cbn [forallb] in H1. apply andb_true_iff in H1. tauto. }
  rewrite ins_last by exact Hlt. rewrite IH; rewrite <- app_assoc; [reflexivity|exact Hs].
Qed.

(* ---------- cvalue_eqb is reflexive ---------- *)
Lemma cnum_eqb_refl n : cnum_eqb n n = true.
Proof. destruct n; cbn; apply Z.eqb_refl. Qed.

Lemma cvalue_eqb_refl : forall c, cvalue_eqb c c = true.
Proof.
  induction c as [| b | s | n | vs IH | kvs IH] using Core.ComposeProofs.cvalue_ind'; cbn [cvalue_eqb].
  - reflexivity.
  - destruct b; reflexivity.
  - apply bytes_eqb_refl.
  - apply cnum_eqb_refl.
  - induction IH as [|x l Hx _ IHl]; [reflexivity|]. rewrite Hx, IHl. reflexivity.
  - induction IH as [|[k x] l Hx _ IHl]; [reflexivity|]. cbn [snd] in Hx. rewrite bytes_eqb_refl, Hx, IHl. reflexivity.
Qed.

Lemma opt_cv_eqb_sort a b : cv_sort a = cv_sort b -> opt_cv_eqb (Some a) (Some b) = true.
Proof. intro H. cbn [opt_cv_eqb]. rewrite H. apply cvalue_eqb_refl. Qed.

Lemma cv_sort_obj ms :
  cv_sort (CObj ms) = CObj (ins_all (map (fun kv => (fst kv, cv_sort (snd kv))) ms) []).
Proof.
  cbn [cv_sort]. f_equal. unfold ins_all. generalize (@nil (bytes * cvalue)).
  induction (map (fun kv => (fst kv, cv_sort (snd kv))) ms) as [|kv l IH]; intro acc; [reflexivity|].
  cbn [fold_left]. rewrite cv_insert_ins. apply IH.
Qed.

(* ====================================================================== *)
(* Part 2: (a) what an interface{} target holds folds to the sorted value   *)
(* ====================================================================== *)

Fixpoint cdepth (c : cvalue) : nat :=
  match c with
  | CArr l => S (list_max (map cdepth l))
  | CObj ms => S (list_max (map (fun kv => cdepth (snd kv)) ms))
  | _ => O
  end.

Lemma list_max_cons a l : list_max (a :: l) = Nat.max a (list_max l).
Proof. reflexivity. Qed.

Lemma gput_all_ins (kvs : list (bytes * gvalue)) : forall m,
  fold_left (fun m kv => gmap_put (fst kv) (snd kv) m) kvs m = ins_all kvs m.
Proof.
  unfold ins_all. induction kvs as [|kv kvs IH]; intro m; [reflexivity|]. cbn [fold_left].
  rewrite gmap_put_eq, map_put_ins. apply IH.
Qed.

Lemma opt_all_cons_some {A} (x : A) l r : opt_all l = Some r -> opt_all (Some x :: l) = Some (x :: r).
Proof. intro H. cbn [opt_all]. rewrite H. reflexivity. Qed.

Lemma Forall2_maps {A B C} (R : B -> C -> Prop) (g : A -> B) (h : A -> C) l :
  (forall x, In x l -> R (g x) (h x)) -> Forall2 R (map g l) (map h l).
Proof.
  induction l as [|x l IH]; intro H; [constructor|]. cbn [map]. constructor; [apply H; left; reflexivity|].
  apply IH. intros y Hy. apply H. right. exact Hy.
Qed.

(* elements: a list of values that each fold to the sorted value of their tree *)
Lemma spec_elems f et (gs : list gvalue) (cs : list cvalue) :
  Forall2 (fun g s => exists c, spec_fold f et g = Some c /\ cv_sort c = s) gs cs ->
  exists r, opt_all (map (spec_fold f et) gs) = Some r /\ map cv_sort r = cs.
Proof.
  induction 1 as [|g s gs cs (c & Hc & Hs) _ (r & Hr & Hm)]; [exists []; split; reflexivity|].
  exists (c :: r). cbn [map]. rewrite Hc. split; [apply opt_all_cons_some; exact Hr|]. rewrite Hs, Hm. reflexivity.
Qed.

Lemma spec_members f et (m : list (bytes * gvalue)) (M : list (bytes * cvalue)) :
  rel_al (fun g s => exists c, spec_fold f et g = Some c /\ cv_sort c = s) m M ->
  exists r, opt_all (map (fun kv => match spec_fold f et (snd kv) with
                                  | Some x => Some (fst kv, x) | None => None end) m) = Some r /\
            map (fun kv => (fst kv, cv_sort (snd kv))) r = M.
Proof.
  induction 1 as [|[k g] [k' s] m M [Hk (c & Hc & Hs)] _ (r & Hr & Hm)]; [exists []; split; reflexivity|].
  cbn [fst snd] in *. subst k'. exists ((k, c) :: r). cbn [map fst snd]. rewrite Hc.
  split; [apply opt_all_cons_some; exact Hr|]. rewrite Hs, Hm. reflexivity.
Qed.

(* a typed element *)
Lemma typed_elem_spec bt x f : gen_elem_type bt <> TIface -> tree_matches bt x = true ->
  exists c, spec_fold (S f) (gen_elem_type bt) (gen_typed_tree x) = Some c /\ cv_sort c = cv_sort (cvt x).
Proof.
  intros Hne Hm. destruct x as [s r| | | |]; try (destruct bt; try discriminate Hm; contradiction Hne; reflexivity).
  unfold cvt. cbn [value_of gen_typed_tree]. rewrite spec_fold_S.
  destruct bt; try (contradiction Hne; reflexivity); cbn [tree_matches] in Hm;
    destruct s as [|b|s|k z]; try discriminate Hm; cbn [gen_elem_type under gen_typed scalar_value cv];
    try (eexists; split; reflexivity);
    destruct k; try discriminate Hm; eexists; split; reflexivity.
Qed.

Definition gen_spec_at (tr : tree) : Prop :=
  forall F, (2 * cdepth (cvt tr) + 2 <= F)%nat ->
    exists c, spec_fold F TIface (generic tr) = Some c /\ cv_sort c = cv_sort (cvt tr).

Lemma supported_elem bt f : spec_supported (S f) (gen_elem_type bt) = true.
Proof. destruct bt; reflexivity. Qed.

Lemma elem_spec bt x f : strict x = true -> wf_tree x = true -> tree_matches bt x = true -> gen_spec_at x ->
  (2 * cdepth (cvt x) + 2 <= S f)%nat ->
  exists c, spec_fold (S f) (gen_elem_type bt) (gen_elem bt x) = Some c /\ cv_sort c = cv_sort (cvt x).
Proof.
  intros Hs Hw Hm Hg Hf. destruct (gtype_iface_dec (gen_elem_type bt)) as [E|E].
  - rewrite gen_elem_any by exact E. rewrite E. apply Hg. exact Hf.
  - rewrite gen_elem_typed by exact E. apply typed_elem_spec; assumption.
Qed.

Theorem generic_spec : forall tr, strict tr = true -> wf_tree tr = true -> gen_spec_at tr.
Proof.
  induction tr as [s r|len bt es IH|len bt ms IH|bt es|bt ms] using tree_ind'; intros Hs Hwf F HF; try discriminate Hs.
  - cbn [strict] in Hs. destruct r; [discriminate Hs|]. unfold cvt in *. cbn [value_of generic] in *.
    destruct F as [|[|f]]; try lia. rewrite spec_fold_S. cbn [under].
    destruct s as [|b|s|k z]; cbn [gen_scalar scalar_value cv].
    + eexists; split; reflexivity.
    + rewrite spec_fold_S. eexists; split; reflexivity.
    + rewrite spec_fold_S. eexists; split; reflexivity.
    + rewrite spec_fold_S. destruct k; eexists; split; reflexivity.
  - rewrite cvt_arr in *. cbn [cdepth] in HF. destruct F as [|[|[|f]]]; try lia.
    rewrite generic_arr. unfold gen_list. rewrite spec_fold_S. cbn [under].
    change (spec_supported (S (S (S f))) (TSlice (gen_elem_type bt))) with (spec_supported (S (S f)) (gen_elem_type bt)).
    rewrite supported_elem.
    rewrite wf_arr in Hwf. apply andb_true_iff in Hwf. destruct Hwf as [Hwf H3].
    apply andb_true_iff in Hwf. destruct Hwf as [H1 H2].
    cbn [strict] in Hs. rewrite forallb_forall in Hs, H2, H3. rewrite Forall_forall in IH.
    assert (Hel : Forall2 (fun g s => exists c, spec_fold (S f) (gen_elem_type bt) g = Some c /\ cv_sort c = s)
                    (map (gen_elem bt) es) (map cv_sort (map cvt es))).
    { rewrite map_map. apply Forall2_maps. intros x Hx.
      apply elem_spec; [apply Hs; exact Hx|apply H3; exact Hx|apply H2; exact Hx
                       |apply IH; [exact Hx|apply Hs; exact Hx|apply H3; exact Hx]|].
      rewrite map_map in HF. pose proof (list_max_in (fun t => cdepth (cvt t)) es x Hx). lia. }
    destruct (spec_elems _ _ _ _ Hel) as (r & Hr & Hm).
    destruct es as [|x es].
    + cbn [map]. rewrite spec_fold_S. cbn [under]. eexists; split; reflexivity.
    + set (l := map (gen_elem bt) (x :: es)) in *.
      assert (El : match l with [] => GNil | _ :: _ => GList l end = GList l) by reflexivity. rewrite El.
      rewrite spec_fold_S. cbn [under]. rewrite Hr. eexists; split; [reflexivity|].
      cbn [cv_sort]. rewrite Hm. reflexivity.
  - rewrite cvt_obj in *. cbn [cdepth] in HF. destruct F as [|[|[|f]]]; try lia.
    rewrite generic_obj. unfold gen_map. rewrite spec_fold_S. cbn [under].
    change (spec_supported (S (S (S f))) (TMap (gen_elem_type bt))) with (spec_supported (S (S f)) (gen_elem_type bt)).
    rewrite supported_elem.
    rewrite wf_obj in Hwf. apply andb_true_iff in Hwf. destruct Hwf as [Hwf H3].
    apply andb_true_iff in Hwf. destruct Hwf as [H1 H2].
    cbn [strict] in Hs. rewrite forallb_forall in Hs, H2, H3. rewrite Forall_forall in IH.
    set (kvs := map (fun m => (fst (fst m), gen_elem bt (snd m))) ms).
    set (KS := map (fun kv => (fst kv, cv_sort (snd kv))) (cvm ms)).
    assert (Hel : rel_al (fun g s => exists c, spec_fold (S f) (gen_elem_type bt) g = Some c /\ cv_sort c = s) kvs KS).
    { subst kvs KS. unfold cvm. rewrite map_map. apply Forall2_maps. intros m Hm. cbn [fst snd]. split; [reflexivity|].
      pose proof (Hs m Hm) as Hsm. apply andb_true_iff in Hsm. destruct Hsm as [_ Hsm].
      pose proof (H3 m Hm) as Hwm. apply andb_true_iff in Hwm. destruct Hwm as [_ Hwm].
      apply elem_spec; [exact Hsm|exact Hwm|apply (H2 m Hm)|apply IH; assumption|].
      unfold cvm in HF. rewrite map_map in HF. cbn [snd] in HF.
      pose proof (list_max_in (fun m => cdepth (cv (value_of (snd m)))) ms m Hm). unfold cvt in *. lia. }
    destruct ms as [|m0 ms].
    + cbn [map]. rewrite spec_fold_S. cbn [under]. eexists; split; reflexivity.
    + assert (El : match kvs with [] => GNil | _ :: _ => GMap (fold_left (fun m kv => gmap_put (fst kv) (snd kv) m) kvs []) end
                   = GMap (ins_all kvs [])) by (rewrite gput_all_ins; reflexivity).
      rewrite El. rewrite spec_fold_S. cbn [under].
      pose proof (ins_all_rel _ kvs KS Hel [] [] (Forall2_nil _)) as Hrel.
      destruct (spec_members _ _ _ _ Hrel) as (r & Hr & Hm). rewrite Hr.
      eexists; split; [reflexivity|].
      rewrite !cv_sort_obj. fold KS. rewrite Hm. f_equal.
      apply (ins_all_sorted_id (ins_all KS []) []). cbn [app]. apply ins_all_sorted. reflexivity.
Qed.

(* ====================================================================== *)
(* Part 3: (b) the omit view folds to the same value                        *)
(* ====================================================================== *)

Lemma omit_view_O t v : omit_view O t v = v.
Proof. reflexivity. Qed.

Lemma omit_view_S f t v :
  omit_view (S f) t v =
  match under t, v with
  | TPtr u, GPtr x => GPtr (omit_view f u x)
  | TIface, GIface dt dv => GIface dt (omit_view f dt dv)
  | (TSlice u | TArray _ u), GList l => GList (map (omit_view f u) l)
  | TMap u, GMap kvs => GMap (map (fun kv => (fst kv, omit_view f u (snd kv))) kvs)
  | TStruct fs, GStruct vs => GStruct (ov_fields f fs vs)
  | _, _ => v
  end.
Proof. reflexivity. Qed.

#[local] Opaque omit_view.

(* the omit view is empty exactly when the value is *)
Lemma ov_empty : forall g t v F', spec_empty g t (omit_view F' t v) = spec_empty g t v.
Proof.
  induction g as [|g IH]; intros t v F'; [rewrite !spec_empty_O; reflexivity|].
  destruct F' as [|f']; [rewrite omit_view_O; reflexivity|].
  rewrite omit_view_S, !spec_empty_S.
  destruct (under t); destruct v; try reflexivity; try apply IH;
    unfold zlen; rewrite map_length; reflexivity.
Qed.

(* the zero value of an empty value's type is empty *)
Lemma empty_zero g t v : spec_empty (S g) t v = true -> hty t v = true -> spec_empty (S g) t (zero_of t) = true.
Proof.
  intros He Hh. rewrite spec_empty_S in *. rewrite (zero_under t).
  destruct (under t) eqn:U; destruct v; try discriminate He; cbn [zero_of]; try reflexivity.
  cbn [hty] in Hh. rewrite U in Hh. apply andb_true_iff in Hh. destruct Hh as [Hn _].
  assert (n = 0) by lia. subst n. reflexivity.
Qed.

Lemma hty_ptr t u x : under t = TPtr u -> hty t (GPtr x) = true -> hty u x = true.
Proof. intros U H. cbn [hty] in H. rewrite U in H. exact H. Qed.

Lemma hty_iface t dt dv : under t = TIface -> hty t (GIface dt dv) = true ->
  type_ok dt = true /\ hty dt dv = true.
Proof.
  intros U H. cbn [hty] in H. rewrite U in H. apply andb_true_iff in H. destruct H as [H H3].
  apply andb_true_iff in H. tauto.
Qed.

Lemma hty_list t u l : (under t = TSlice u \/ exists n, under t = TArray n u) -> hty t (GList l) = true ->
  forall x, In x l -> hty u x = true.
Proof.
  intros U H x Hx. cbn [hty] in H. destruct U as [U|[n U]]; rewrite U in H.
  - rewrite forallb_forall in H. auto.
  - apply andb_true_iff in H. destruct H as [_ H]. rewrite forallb_forall in H. auto.
Qed.

Lemma hty_mapv t u kvs : under t = TMap u -> hty t (GMap kvs) = true ->
  forall kv, In kv kvs -> hty u (snd kv) = true.
Proof.
  intros U H kv Hkv. cbn [hty] in H. rewrite U in H. rewrite forallb_forall in H.
  specialize (H kv Hkv). apply andb_true_iff in H. tauto.
Qed.

Lemma hty_structv t fs vs : under t = TStruct fs -> hty t (GStruct vs) = true -> hty_fields fs vs = true.
Proof. intros U H. cbn [hty] in H. rewrite U in H. exact H. Qed.

Lemma type_ok_under_ptr t u : type_ok t = true -> under t = TPtr u -> type_ok u = true.
Proof. intros H U. apply type_ok_under in H. rewrite U in H. exact H. Qed.
Lemma type_ok_under_slice t u : type_ok t = true -> under t = TSlice u -> type_ok u = true.
Proof. intros H U. apply type_ok_under in H. rewrite U in H. exact H. Qed.
Lemma type_ok_under_map t u : type_ok t = true -> under t = TMap u -> type_ok u = true.
Proof. intros H U. apply type_ok_under in H. rewrite U in H. exact H. Qed.
Lemma type_ok_under_array t n u : type_ok t = true -> under t = TArray n u -> type_ok u = true.
Proof. intros H U. apply type_ok_under in H. rewrite U in H. cbn [type_ok] in H. apply andb_true_iff in H. tauto. Qed.
Lemma type_ok_under_struct t fs : type_ok t = true -> under t = TStruct fs -> type_ok_fields fs = true.
Proof. intros H U. apply type_ok_under in H. rewrite U in H. exact H. Qed.

Lemma opt_all_map_in {A B} (f f' : A -> option B) l : forall ys,
  (forall x y, In x l -> f x = Some y -> f' x = Some y) ->
  opt_all (map f l) = Some ys -> opt_all (map f' l) = Some ys.
Proof.
  induction l as [|a l IH]; intros ys Hf H; [exact H|]. cbn [map opt_all] in *.
  destruct (f a) as [y|] eqn:Ea; [|discriminate H]. rewrite (Hf a y (or_introl eq_refl) Ea).
  destruct (opt_all (map f l)) as [ys'|] eqn:El; [|discriminate H].
  rewrite (IH ys' (fun x y Hx => Hf x y (or_intror Hx)) eq_refl). exact H.
Qed.

Definition ov_at (f : nat) : Prop :=
  forall t v c F', spec_fold f t v = Some c -> type_ok t = true -> hty t v = true ->
    spec_fold f t (omit_view F' t v) = Some c.

Lemma ov_Sim f : ov_at f -> forall G inif t v ms F',
  Sim f G inif t v = Some ms -> type_ok t = true -> hty t v = true ->
  Sim f G inif t (omit_view F' t v) = Some ms.
Proof.
  intro IHf. induction G as [|G IH]; intros inif t v ms F' H Ht Hh; [rewrite Sim_O in H; discriminate H|].
  destruct F' as [|f']; [rewrite omit_view_O; exact H|].
  assert (K : match spec_fold f t v with Some (CObj ms0) => Some ms0 | _ => None end = Some ms ->
              match spec_fold f t (omit_view (S f') t v) with Some (CObj ms0) => Some ms0 | _ => None end = Some ms).
  { intro HK. destruct (spec_fold f t v) as [[]|] eqn:E; try discriminate HK.
    rewrite (IHf _ _ _ (S f') E Ht Hh). exact HK. }
  pose proof (omit_view_S f' t v) as EO. rewrite Sim_S in *.
  destruct (under t) eqn:U; destruct v; try discriminate H; rewrite EO; try exact H;
    try (rewrite <- EO; apply K; exact H).
  - destruct (spec_supported (S f) t0); [|discriminate H].
    destruct (hty_iface t _ _ U Hh) as [Hdt Hdv]. apply IH; assumption.
  - apply IH; [exact H|apply (type_ok_under_ptr t); assumption|apply (hty_ptr t); assumption].
Qed.

Lemma ov_Sfields f f' : ov_at f -> forall fs vs acc c,
  Sfields f fs vs acc = Some c -> type_ok_fields fs = true -> hty_fields fs vs = true ->
  Sfields f fs (ov_fields f' fs vs) acc = Some c.
Proof.
  intro IHf. induction fs as [|[[name tag] ft] fs IH]; intros vs acc c H Ht Hh.
  - destruct vs; exact H.
  - destruct vs as [|fv vs]; [discriminate Hh|].
    cbn [type_ok_fields] in Ht. apply andb_true_iff in Ht. destruct Ht as [Ht Ht2].
    apply andb_true_iff in Ht. destruct Ht as [_ Htf].
    cbn [hty_fields] in Hh. apply andb_true_iff in Hh. destruct Hh as [Hhf Hh].
    rewrite ov_fields_cons, Sfields_cons in *.
    destruct (negb (exported name)); [apply IH; assumption|].
    destruct (parse_tags tag) as [tn o]. cbn [snd orb].
    destruct (t_squash o && t_omitempty o) eqn:Eso; [discriminate H|].
    destruct (t_omit o); [apply IH; assumption|]. cbn [orb].
    destruct (t_squash o).
    + cbn [andb] in Eso. rewrite Eso. cbn [andb].
      destruct (Sim f (S f) false ft fv) as [ms|] eqn:ES; [|discriminate H].
      rewrite (ov_Sim f IHf _ _ _ _ _ f' ES Htf Hhf). apply IH; assumption.
    + destruct (t_omitempty o); cbn [andb] in *.
      * destruct (spec_empty (S f) ft fv) eqn:Ee.
        -- destruct (spec_empty (S f') ft fv).
           ++ rewrite (empty_zero _ _ _ Ee Hhf). apply IH; assumption.
           ++ rewrite ov_empty, Ee. apply IH; assumption.
        -- destruct (spec_fold f ft fv) as [x|] eqn:Es; [|discriminate H].
           assert (E' : spec_empty (S f') ft fv = false).
           { destruct (spec_empty (S f') ft fv) eqn:E'; [|reflexivity].
             destruct (Nat.le_ge_cases (S f) (S f')) as [Hle|Hle].
             - rewrite (spec_empty_stable f ft fv x Es (S f') Hle), Ee in E'. discriminate E'.
             - rewrite (spec_empty_mono_true (S f') (S f) ft fv E' Hle) in Ee. discriminate Ee. }
           rewrite E', ov_empty, Ee, (IHf _ _ _ f' Es Htf Hhf). apply IH; assumption.
      * destruct (spec_fold f ft fv) as [x|] eqn:Es; [|discriminate H].
        rewrite (IHf _ _ _ f' Es Htf Hhf). apply IH; assumption.
Qed.

Theorem ov_spec : forall f, ov_at f.
Proof.
  induction f as [|f IH]; intros t v c F' H Ht Hh; [rewrite spec_fold_O in H; discriminate H|].
  destruct F' as [|f']; [rewrite omit_view_O; exact H|].
  pose proof (omit_view_S f' t v) as EO. rewrite spec_fold_S in *.
  destruct (under t) as [ | |k| |u|u|n0 u|u|u|l|u| ] eqn:U; destruct v; try discriminate H; rewrite EO; try exact H.
  - destruct (spec_supported (S f) t0); [|discriminate H].
    destruct (hty_iface t _ _ U Hh) as [Hdt Hdv]. apply IH; assumption.
  - apply IH; [exact H|apply (type_ok_under_ptr t); assumption|apply (hty_ptr t); assumption].
  - destruct (opt_all (map (spec_fold f u) vs)) as [ys|] eqn:Eo; [|discriminate H].
    rewrite map_map.
    rewrite (opt_all_map_in (spec_fold f u) (fun x => spec_fold f u (omit_view f' u x)) vs ys); [exact H| |exact Eo].
    intros x y Hx Hy. apply IH; [exact Hy|apply (type_ok_under_slice t); assumption|].
    apply (hty_list t u vs); auto.
  - destruct (opt_all (map (spec_fold f u) vs)) as [ys|] eqn:Eo; [|discriminate H].
    rewrite map_map.
    rewrite (opt_all_map_in (spec_fold f u) (fun x => spec_fold f u (omit_view f' u x)) vs ys); [exact H| |exact Eo].
    intros x y Hx Hy. apply IH; [exact Hy|apply (type_ok_under_array t n0); assumption|].
    apply (hty_list t u vs); eauto.
  - rewrite map_map. cbn [fst snd].
    match type of H with match opt_all (map ?F kvs) with _ => _ end = _ =>
      destruct (opt_all (map F kvs)) as [ys|] eqn:Eo; [|discriminate H];
      rewrite (opt_all_map_in F (fun kv => match spec_fold f u (omit_view f' u (snd kv)) with
                                          | Some x => Some (fst kv, x) | None => None end) kvs ys) end;
      [exact H| |exact Eo].
    intros kv y Hkv Hy. cbv beta in *. destruct (spec_fold f u (snd kv)) as [x|] eqn:Ex; [|discriminate Hy].
    rewrite (IH _ _ _ f' Ex); [exact Hy|apply (type_ok_under_map t); assumption|apply (hty_mapv t u kvs); assumption].
  - apply (ov_Sfields f f' IH); [exact H|apply (type_ok_under_struct t); assumption|apply (hty_structv t); assumption].
Qed.

(* ---------- the depth of the folded value is bounded by the fuel ---------- *)
Lemma opt_all_Forall {A B} (F : A -> option B) (P : B -> Prop) l : forall ys,
  opt_all (map F l) = Some ys -> (forall x y, F x = Some y -> P y) -> Forall P ys.
Proof.
  induction l as [|a l IH]; intros ys H HP; cbn [map opt_all] in H.
  - injection H as <-. constructor.
  - destruct (F a) as [y|] eqn:Ea; [|discriminate H].
    destruct (opt_all (map F l)) as [ys'|] eqn:El; [|discriminate H]. injection H as <-.
    constructor; [apply (HP a); exact Ea|apply IH; [reflexivity|exact HP]].
Qed.

Definition mdle (f : nat) (ms : list (bytes * cvalue)) : Prop := Forall (fun kv => (cdepth (snd kv) <= f)%nat) ms.

Lemma cdepth_arr_le f ys : Forall (fun y => (cdepth y <= f)%nat) ys -> (cdepth (CArr ys) <= S f)%nat.
Proof.
  intro H. cbn [cdepth]. apply le_n_S. apply list_max_le. apply Forall_map. exact H.
Qed.

Lemma cdepth_obj_le f ms : mdle f ms -> (cdepth (CObj ms) <= S f)%nat.
Proof.
  intro H. cbn [cdepth]. apply le_n_S. apply list_max_le. apply Forall_map. exact H.
Qed.

Lemma cdepth_obj_inv f ms : (cdepth (CObj ms) <= f)%nat -> mdle f ms.
Proof.
  cbn [cdepth]. intro H. assert (H' : (list_max (map (fun kv => cdepth (snd kv)) ms) <= f)%nat) by lia.
  apply list_max_le in H'. apply Forall_map in H'. exact H'.
Qed.

Definition cd_at (f : nat) : Prop := forall t v c, spec_fold f t v = Some c -> (cdepth c <= f)%nat.

Lemma cd_Sim f : cd_at f -> forall G inif t v ms, Sim f G inif t v = Some ms -> mdle f ms.
Proof.
  intro IHf. induction G as [|G IH]; intros inif t v ms H; [rewrite Sim_O in H; discriminate H|].
  assert (K : match spec_fold f t v with Some (CObj ms0) => Some ms0 | _ => None end = Some ms -> mdle f ms).
  { intro HK. destruct (spec_fold f t v) as [[]|] eqn:E; try discriminate HK. injection HK as <-.
    apply cdepth_obj_inv. apply (IHf _ _ _ E). }
  rewrite Sim_S in H.
  destruct (under t); destruct v; try discriminate H; try (apply K; exact H);
    try (injection H as <-; constructor).
  - destruct inif; [discriminate H|injection H as <-; constructor].
  - destruct (spec_supported (S f) t0); [|discriminate H]. eapply IH; exact H.
  - destruct inif; [discriminate H|injection H as <-; constructor].
  - eapply IH; exact H.
Qed.

Lemma cd_Sfields f : cd_at f -> forall fs vs acc c,
  Sfields f fs vs acc = Some c -> mdle f acc -> (cdepth c <= S f)%nat.
Proof.
  intro IHf. induction fs as [|[[name tag] ft] fs IH]; intros vs acc c H Ha.
  - assert (E : c = CObj (rev acc)) by (destruct vs; injection H as <-; reflexivity). subst c.
    apply cdepth_obj_le. apply Forall_rev. exact Ha.
  - destruct vs as [|fv vs]; [injection H as <-; apply cdepth_obj_le; apply Forall_rev; exact Ha|].
    rewrite Sfields_cons in H.
    destruct (negb (exported name)); [eapply IH; eassumption|].
    destruct (parse_tags tag) as [tn o].
    destruct (t_squash o && t_omitempty o); [discriminate H|].
    destruct (t_omit o); [eapply IH; eassumption|].
    destruct (t_squash o).
    + destruct (Sim f (S f) false ft fv) as [ms|] eqn:ES; [|discriminate H].
      eapply IH; [exact H|]. apply Forall_app. split; [apply Forall_rev; apply (cd_Sim f IHf _ _ _ _ _ ES)|exact Ha].
    + destruct (t_omitempty o && spec_empty (S f) ft fv); [eapply IH; eassumption|].
      destruct (spec_fold f ft fv) as [x|] eqn:Es; [|discriminate H].
      eapply IH; [exact H|]. constructor; [cbn [snd]; apply (IHf _ _ _ Es)|exact Ha].
Qed.

Theorem cdepth_fuel : forall f, cd_at f.
Proof.
  induction f as [|f IH]; intros t v c H; [rewrite spec_fold_O in H; discriminate H|].
  rewrite spec_fold_S in H.
  destruct (under t) as [ | |k| |u|u|n0 u|u|u|l|u| ]; destruct v; try discriminate H;
    try (injection H as <-; cbn; lia).
  - destruct (spec_supported (S f) t0); [|discriminate H]. apply IH in H. lia.
  - apply IH in H. lia.
  - destruct (opt_all (map (spec_fold f u) vs)) as [ys|] eqn:Eo; [|discriminate H]. injection H as <-.
    apply cdepth_arr_le. apply (opt_all_Forall _ _ _ _ Eo). intros x y Hy. apply (IH _ _ _ Hy).
  - destruct (opt_all (map (spec_fold f u) vs)) as [ys|] eqn:Eo; [|discriminate H]. injection H as <-.
    apply cdepth_arr_le. apply (opt_all_Forall _ _ _ _ Eo). intros x y Hy. apply (IH _ _ _ Hy).
  - match type of H with match opt_all (map ?F kvs) with _ => _ end = _ =>
      destruct (opt_all (map F kvs)) as [ys|] eqn:Eo; [|discriminate H] end. injection H as <-.
    apply cdepth_obj_le. apply (opt_all_Forall _ _ _ _ Eo). intros kv y Hy. cbv beta in Hy.
    destruct (spec_fold f u (snd kv)) as [x|] eqn:Ex; [|discriminate Hy]. injection Hy as <-. cbn [snd]. apply (IH _ _ _ Ex).
  - apply (cd_Sfields f IH _ _ _ _ H). constructor.
Qed.

(* ====================================================================== *)
(* Part 4: the slice / map loops on a list of element streams               *)
(* ====================================================================== *)
(* (slice_loop_fillN / map_loop_fillN / uf_slice_zeroN / uf_map_zeroN of UnfoldStructProofs
   for lists of any type, and any announced length the contract allows) *)
Section Loops.
  Context {A : Type} (ev : A -> list event) (nvf : A -> gvalue).

  Definition elem_okA (f : nat) (e : gtype) (refl : bool) (x : A) : Prop :=
    (exists h tl, ev x = h :: tl /\ starts_value h = true) /\
    (forall rest, uf f e (zero_of e) (ev x ++ rest) = UOk (nvf x) rest) /\
    (refl = true -> is_nil_head (ev x) = true -> ev x = [EVal SNil] /\ nvf x = zero_of e).

  Lemma slice_loop_fillA f e wasnil refl l :
    Forall (elem_okA f e refl) l ->
    forall g done k rest, (length l < g)%nat ->
      slice_loop f e wasnil refl g (done ++ repeat (zero_of e) k) [] (length done)
                 (flat_map ev l ++ EArrEnd :: rest)
      = UOk (slice_final wasnil (done ++ map nvf l ++ repeat (zero_of e) (k - length l))) rest.
  Proof.
    induction 1 as [|x l Hx Hl IH]; intros g done k rest Hg.
    - destruct g as [|g]; [cbn in Hg; lia|]. rewrite slice_loop_S.
      cbn [flat_map app map length]. rewrite Nat.sub_0_r. reflexivity.
    - destruct g as [|g]; [cbn in Hg; lia|].
      cbn [flat_map]. rewrite <- app_assoc.
      destruct Hx as ((h & tl & E & Hh) & Hu & Hn).
      specialize (Hu (flat_map ev l ++ EArrEnd :: rest)).
      assert (Hcont : slice_loop f e wasnil refl g (sl_put (done ++ repeat (zero_of e) k) (length done) (nvf x))
                        (sl_spare (done ++ repeat (zero_of e) k) [] (length done)) (S (length done))
                        (flat_map ev l ++ EArrEnd :: rest)
                      = UOk (slice_final wasnil (done ++ map nvf (x :: l) ++ repeat (zero_of e) (k - length (x :: l)))) rest).
      { rewrite sl_put_fill, sl_spare_nil.
        replace (S (length done)) with (length (done ++ [nvf x])) by (rewrite app_length; cbn [length]; lia).
        rewrite IH by (cbn [length] in Hg; lia).
        cbn [map length app]. rewrite <- app_assoc. cbn [app].
        replace (k - 1 - length l)%nat with (k - S (length l))%nat by lia. reflexivity. }
      rewrite E in *. cbn [app] in *.
      rewrite slice_loop_step by exact Hh. rewrite sl_oldel_fill.
      destruct (refl && is_nil_ev h) eqn:En.
      + apply andb_true_iff in En. destruct En as [-> En].
        destruct (Hn eq_refl En) as [E2 E3]. injection E2 as -> ->. cbn [app].
        rewrite E3 in Hcont. exact Hcont.
      + rewrite Hu. exact Hcont.
  Qed.

  Lemma map_loop_fillA f e refl (kvs : list (bytes * A)) :
    Forall (fun kv => elem_okA f e refl (snd kv)) kvs ->
    forall g cur rest, (length kvs < g)%nat ->
      map_loop f e refl g cur (flat_map (fun kv => EKey (fst kv) :: ev (snd kv)) kvs ++ EObjEnd :: rest)
      = UOk (map_final (mstep cur (map (fun kv => (fst kv, nvf (snd kv))) kvs))) rest.
  Proof.
    induction 1 as [|[k x] kvs Hx Hl IH]; intros g cur rest Hg.
    - destruct g as [|g]; [cbn in Hg; lia|]. rewrite map_loop_S. reflexivity.
    - destruct g as [|g]; [cbn in Hg; lia|].
      cbn [flat_map fst snd]. rewrite <- !app_comm_cons, <- app_assoc.
      change (EKey k) with (key_event k false). rewrite map_loop_key.
      cbn [snd] in Hx. destruct Hx as ((h & tl & E & Hh) & Hu & Hn).
      specialize (Hu (flat_map (fun kv => EKey (fst kv) :: ev (snd kv)) kvs ++ EObjEnd :: rest)).
      cbn [map fst snd]. rewrite mstep_cons.
      rewrite E in *. cbn [app] in *.
      destruct (refl && is_nil_ev h) eqn:En.
      + apply andb_true_iff in En. destruct En as [-> En].
        destruct (Hn eq_refl En) as [E2 E3]. injection E2 as -> ->. cbn [app].
        rewrite E3. apply IH. cbn [length] in Hg; lia.
      + rewrite Hu. apply IH. cbn [length] in Hg; lia.
  Qed.

  Lemma uf_slice_zeroA f t e len bt l rest :
    under t = TSlice e -> len_ok len l = true -> Forall (elem_okA f e (is_refl e)) l ->
    uf (S f) t GNil (EArrStart len bt :: flat_map ev l ++ EArrEnd :: rest)
    = UOk (match l with [] => GNil | _ => GList (map nvf l) end) rest.
  Proof.
    intros U Hlen Hl. rewrite (uf_slice _ _ e) by exact U. cbn [slice_start].
    pose proof (slice_loop_fillA f e (Z.max len 0 =? 0) (is_refl e) l Hl
                  (S (length (flat_map ev l ++ EArrEnd :: rest))) []
                  (Z.to_nat (Z.min (Z.max len 0) max_initial_len)) rest) as L.
    cbn [app length] in L. rewrite L.
    - rewrite (len_ok_prealloc _ _ Hlen). cbn [repeat]. rewrite app_nil_r.
      destruct l as [|x l]; [|reflexivity]. cbn [map slice_final]. rewrite (len_ok_wasnil _ _ Hlen eq_refl). reflexivity.
    - rewrite app_length. cbn [length].
      assert (length l <= length (flat_map ev l))%nat; [|lia].
      apply flat_map_length_ge. eapply Forall_impl; [|exact Hl]. intros x Hx. apply Hx.
  Qed.

  Lemma uf_map_zeroA f t e n bt (kvs : list (bytes * A)) rest :
    under t = TMap e -> Forall (fun kv => elem_okA f e (is_refl e) (snd kv)) kvs ->
    ssorted (map fst kvs) = true ->
    uf (S f) t GNil (EObjStart n bt :: flat_map (fun kv => EKey (fst kv) :: ev (snd kv)) kvs ++ EObjEnd :: rest)
    = UOk (match kvs with
           | [] => if is_refl e then GMap [] else GNil
           | _ => GMap (map (fun kv => (fst kv, nvf (snd kv))) kvs)
           end) rest.
  Proof.
    intros U Hl Hs. rewrite (uf_map _ _ e) by exact U.
    rewrite (map_loop_fillA f e (is_refl e) kvs Hl).
    - unfold map_start. destruct kvs as [|kv kvs]; [destruct (is_refl e); reflexivity|].
      unfold mstep. cbn [map]. f_equal. cbn [map_final]. f_equal.
      replace (opt_map (if is_refl e then Some [] else None)) with (@nil (bytes * gvalue)) by (destruct (is_refl e); reflexivity).
      apply (put_all_sorted_nil (map (fun kv0 => (fst kv0, nvf (snd kv0))) (kv :: kvs))).
      rewrite map_map. cbn [fst]. exact Hs.
    - rewrite app_length. cbn [length].
      assert (length kvs <= length (flat_map (fun kv => EKey (fst kv) :: ev (snd kv)) kvs))%nat; [|lia].
      clear. induction kvs as [|kv kvs IH]; [cbn; lia|]. cbn [flat_map]. rewrite app_length. cbn [length]. lia.
  Qed.
End Loops.

(* ====================================================================== *)
(* Part 5: the fragment and the main induction                              *)
(* ====================================================================== *)

(* the fragment [nest] of UnfoldStructProofs with interface{} wherever a type may stand:
   struct fields, slice elements, map values, pointer targets (and at the top) *)
Fixpoint nest3 (t : gtype) : bool :=
  match t with
  | TBool | TString | TNum _ | TIface => true
  | TPtr u | TSlice u | TMap u => nest3 u
  | TStruct fs =>
      (fix go (l : list (bytes * bytes * gtype)) : bool :=
         match l with [] => true | (name, tag, ft) :: r => nest3 ft && fld_ok name tag ft && go r end) fs
      && ftab_okb fs
  | TNamed u => simple (TNamed u)
  | _ => false
  end.

Fixpoint nest3_fields (l : list (bytes * bytes * gtype)) : bool :=
  match l with [] => true | (name, tag, ft) :: r => nest3 ft && fld_ok name tag ft && nest3_fields r end.

Lemma nest3_struct fs : nest3 (TStruct fs) = nest3_fields fs && ftab_okb fs.
Proof. reflexivity. Qed.

(* the maps of a value (reachable without passing an interface) are listed sorted by key,
   as Types.v says *)
Fixpoint ksorted (t : gtype) (v : gvalue) {struct t} : bool :=
  match t with
  | TPtr u => match v with GPtr x => ksorted u x | _ => true end
  | TSlice e => forallb (ksorted e) (glist v)
  | TMap e => forallb (fun kv => ksorted e (snd kv)) (gmap v) && ssorted (map fst (gmap v))
  | TStruct fs =>
      match v with
      | GStruct vs =>
          (fix go (l : list (bytes * bytes * gtype)) (vs : list gvalue) : bool :=
             match l, vs with
             | (_, _, ft) :: r, fv :: vr => ksorted ft fv && go r vr
             | _, _ => true
             end) fs vs
      | _ => true
      end
  | TNamed u =>
      match u with
      | TSlice e => forallb (ksorted e) (glist v)
      | TMap e => forallb (fun kv => ksorted e (snd kv)) (gmap v) && ssorted (map fst (gmap v))
      | _ => true
      end
  | _ => true
  end.

Fixpoint ksorted_fields (l : list (bytes * bytes * gtype)) (vs : list gvalue) : bool :=
  match l, vs with
  | (_, _, ft) :: r, fv :: vr => ksorted ft fv && ksorted_fields r vr
  | _, _ => true
  end.

Lemma ksorted_struct fs vs : ksorted (TStruct fs) (GStruct vs) = ksorted_fields fs vs.
Proof. reflexivity. Qed.

(* ---------- what is proved of a (type, value) pair ---------- *)
Definition Res (T : gtype) (v : gvalue) (F : nat) (c : cvalue) (tr : tree) (N : gvalue) : Prop :=
  (forall fuel rest, (ftsize T + length (flatten tr) <= fuel)%nat ->
     uf fuel T (zero_of T) (flatten tr ++ rest) = UOk N rest) /\
  (is_nil_head (flatten tr) = true -> N = zero_of T) /\
  (forall F', (ftsize T < F')%nat -> (F + 2 * cdepth c + 2 <= F')%nat ->
     deep_eq F' T (omit_view F' T v) N = true).

Definition S_at (T : gtype) (v : gvalue) : Prop :=
  nest3 T = true -> type_ok T = true -> hty T v = true -> ksorted T v = true ->
  forall F c tr, spec_fold F T v = Some c -> strict tr = true -> wf_tree tr = true -> cvt tr = c ->
  exists N, Res T v F c tr N.

(* ---------- strict trees with a given canonical value ---------- *)
Lemma strict_cvt_arr tr cs : strict tr = true -> cvt tr = CArr cs ->
  exists len bt es, tr = TArr len bt es /\ map cvt es = cs.
Proof.
  destruct tr as [s r|len bt es|len bt ms|bt es|bt ms]; intros Hs Hc; try discriminate Hs.
  - destruct s; discriminate Hc.
  - rewrite cvt_arr in Hc. injection Hc as <-. eauto.
  - rewrite cvt_obj in Hc. discriminate Hc.
Qed.

Lemma strict_cvt_obj tr cms : strict tr = true -> cvt tr = CObj cms ->
  exists len bt ms, tr = TObj len bt ms /\ cvm ms = cms.
Proof.
  destruct tr as [s r|len bt es|len bt ms|bt es|bt ms]; intros Hs Hc; try discriminate Hs.
  - destruct s; discriminate Hc.
  - rewrite cvt_arr in Hc. discriminate Hc.
  - rewrite cvt_obj in Hc. injection Hc as <-. eauto.
Qed.

Definition cscalar (c : cvalue) : bool := match c with CArr _ | CObj _ => false | _ => true end.

Lemma strict_cvt_scalar tr : strict tr = true -> cscalar (cvt tr) = true ->
  exists s, tr = TVal s false /\ cv (scalar_value s) = cvt tr.
Proof.
  destruct tr as [s r|len bt es|len bt ms|bt es|bt ms]; intros Hs Hc; try discriminate Hs.
  - cbn [strict] in Hs. destruct r; [discriminate Hs|]. exists s. split; reflexivity.
  - rewrite cvt_arr in Hc. discriminate Hc.
  - rewrite cvt_obj in Hc. discriminate Hc.
Qed.

Lemma nil_head_cvt tr : is_nil_head (flatten tr) = true -> cvt tr = CNil.
Proof.
  destruct tr as [s r|len bt es|len bt ms|bt es|bt ms].
  - destruct s, r; cbn [flatten is_nil_head]; try discriminate; reflexivity.
  - rewrite flatten_arr. discriminate.
  - rewrite flatten_obj. discriminate.
  - discriminate.
  - discriminate.
Qed.

Lemma cv_sort_nil c : cv_sort c = CNil -> c = CNil.
Proof. destruct c; try discriminate; reflexivity. Qed.

(* ---------- numbers: the conversion depends on the canonical number only ---------- *)
Lemma conv_canon k' z' k z : canon_num k' z' = canon_num k z -> nkind_ok k z = true ->
  negb (nkind_eqb k KByte) = true -> conv k' k z' = z.
Proof.
  intros Hc Hk Hb.
  destruct k; try discriminate Hb; destruct k'; try discriminate Hc; cbn [canon_num] in Hc; injection Hc as ->;
    try (apply conv_same_kind; exact Hk);
    unfold conv; cbn [kind_float kind_signed kind_bits]; cbn [nkind_ok] in Hk; unfold in_s, in_u in Hk;
    first [apply wraps_small; lia | apply wrapu_small; lia].
Qed.

(* ---------- scalar targets ---------- *)
Lemma omit_view_prim F t v : is_prim (under t) = true -> omit_view F t v = v.
Proof.
  intro H. destruct F as [|f]; [apply omit_view_O|]. rewrite omit_view_S.
  destruct (under t); try discriminate H; reflexivity.
Qed.

Lemma S_scalar T v : is_prim (under T) = true -> S_at T v.
Proof.
  intros Hp _ Ht Hh _ F c tr Hsf Hst Hwf Hc. unfold Res.
  destruct F as [|f]; [rewrite spec_fold_O in Hsf; discriminate Hsf|]. rewrite spec_fold_S in Hsf.
  assert (Hsc : cscalar (cvt tr) = true).
  { rewrite Hc. destruct (under T); try discriminate Hp; destruct v; try discriminate Hsf; injection Hsf as <-; reflexivity. }
  destruct (strict_cvt_scalar tr Hst Hsc) as (s & -> & Es). rewrite Hc in Es.
  rewrite flatten_tval. cbn [wf_tree] in Hwf.
  destruct (under T) eqn:U; try discriminate Hp; destruct v; try discriminate Hsf; injection Hsf as <-.
  - destruct s; try discriminate Es. cbn in Es. injection Es as ->. exists (GBool b). split; [|split].
    + intros fuel rest Hf. destruct fuel as [|fuel]; [pose proof (ftsize_pos T); lia|].
      rewrite (uf_S_bool _ _ _ _ U). reflexivity.
    + discriminate.
    + intros F' _ HF'. destruct F' as [|f']; [lia|]. rewrite omit_view_prim by (rewrite U; reflexivity).
      rewrite deep_eq_S, U. destruct b; reflexivity.
  - destruct s as [| |s'|]; try discriminate Es. cbn in Es. injection Es as ->. exists (GStr s0). split; [|split].
    + intros fuel rest Hf. destruct fuel as [|fuel]; [pose proof (ftsize_pos T); lia|].
      rewrite (uf_S_string _ _ _ _ U). reflexivity.
    + discriminate.
    + intros F' _ HF'. destruct F' as [|f']; [lia|]. rewrite omit_view_prim by (rewrite U; reflexivity).
      rewrite deep_eq_S, U. apply bytes_eqb_refl.
  - destruct s as [| | |k' z']; try discriminate Es. cbn [scalar_value cv spec_num] in Es. injection Es as Es.
    assert (Hk : nkind_ok k z = true) by (cbn [hty] in Hh; rewrite U in Hh; exact Hh).
    assert (Hb : negb (nkind_eqb k KByte) = true) by (apply type_ok_under in Ht; rewrite U in Ht; exact Ht).
    exists (GNum z). split; [|split].
    + intros fuel rest Hf. destruct fuel as [|fuel]; [pose proof (ftsize_pos T); lia|].
      rewrite (uf_S_num _ _ k _ _ U). cbn [app]. rewrite (conv_canon _ _ _ _ Es Hk Hb). reflexivity.
    + discriminate.
    + intros F' _ HF'. destruct F' as [|f']; [lia|]. rewrite omit_view_prim by (rewrite U; reflexivity).
      rewrite deep_eq_S, U. apply Z.eqb_refl.
Qed.

(* ---------- pointers ---------- *)
Lemma S_ptr u v : (forall x, v = GPtr x -> S_at u x) -> S_at (TPtr u) v.
Proof.
  intros IH Hn Ht Hh Hk F c tr Hsf Hst Hwf Hc. unfold Res.
  destruct F as [|f]; [rewrite spec_fold_O in Hsf; discriminate Hsf|]. rewrite spec_fold_S in Hsf. cbn [under] in Hsf.
  destruct v; try discriminate Hsf.
  - (* nil *)
    injection Hsf as <-.
    assert (Hsc : cscalar (cvt tr) = true) by (rewrite Hc; reflexivity).
    destruct (strict_cvt_scalar tr Hst Hsc) as (s & -> & Es). rewrite Hc in Es. destruct s; try discriminate Es.
    exists GNil. split; [|split].
    + intros fuel rest Hf. destruct fuel as [|fuel]; [cbn [ftsize] in Hf; lia|].
      rewrite (uf_S_ptr_gen _ _ u) by reflexivity. reflexivity.
    + reflexivity.
    + intros F' _ HF'. destruct F' as [|f']; [lia|]. rewrite omit_view_S. cbn [under]. rewrite deep_eq_S. reflexivity.
  - (* a pointer *)
    cbn [nest3] in Hn. cbn [type_ok] in Ht. cbn [hty under] in Hh. cbn [ksorted] in Hk.
    destruct (is_nil_head (flatten tr)) eqn:Hnil.
    + pose proof (nil_head_cvt tr Hnil) as Ec. subst c. rewrite Ec in Hsf.
      exists GNil. split; [|split].
      * intros fuel rest Hf. destruct fuel as [|fuel]; [cbn [ftsize] in Hf; lia|].
        rewrite (uf_S_ptr_gen _ _ u) by reflexivity. rewrite is_nil_head_flatten, Hnil.
        rewrite (nil_head_flatten tr Hnil). reflexivity.
      * reflexivity.
      * intros F' _ HF'. destruct F' as [|f']; [lia|]. rewrite omit_view_S. cbn [under]. rewrite deep_eq_S. cbn [under].
        pose proof (ov_spec f u v CNil f' Hsf Ht Hh) as Ho.
        rewrite (spec_fold_mono f (S f') _ _ _ Ho) by lia. reflexivity.
    + destruct (IH v eq_refl Hn Ht Hh Hk f c tr Hsf Hst Hwf Hc) as (N & Hu & _ & Hd).
      exists (GPtr N). split; [|split].
      * intros fuel rest Hf. destruct fuel as [|fuel]; [cbn [ftsize] in Hf; lia|]. cbn [ftsize] in Hf.
        rewrite (uf_S_ptr_gen _ _ u) by reflexivity. rewrite is_nil_head_flatten, Hnil. rewrite Hu by lia. reflexivity.
      * intro H. discriminate H.
      * intros F' HF1 HF'. destruct F' as [|f']; [lia|]. cbn [ftsize] in HF1. rewrite omit_view_S. cbn [under]. rewrite deep_eq_S. cbn [under].
        apply Hd; lia.
Qed.

(* ---------- interface{} ---------- *)
Lemma S_iface v : S_at TIface v.
Proof.
  intros _ _ Hh _ F c tr Hsf Hst Hwf Hc. unfold Res.
  destruct F as [|f]; [rewrite spec_fold_O in Hsf; discriminate Hsf|]. rewrite spec_fold_S in Hsf. cbn [under] in Hsf.
  exists (generic tr). split; [|split].
  - intros fuel rest Hf. apply (generic_strict tr Hst Hwf). cbn [ftsize] in Hf. lia.
  - intro Hnil. pose proof (nil_head_flatten tr Hnil) as E.
    destruct tr as [s r|len bt es|len bt ms|bt es|bt ms]; try discriminate Hst.
    + destruct s, r; try discriminate E; reflexivity.
    + rewrite flatten_arr in E. discriminate E.
    + rewrite flatten_obj in E. discriminate E.
  - intros F' _ HF'. destruct F' as [|f']; [lia|].
    destruct (generic_spec tr Hst Hwf (S f')) as (c2 & H2 & Hs2); [rewrite Hc; lia|]. rewrite Hc in Hs2.
    rewrite omit_view_S. cbn [under]. rewrite deep_eq_S. cbn [under].
    destruct v; try discriminate Hsf.
    + (* a nil interface *)
      injection Hsf as <-.
      assert (Hsc : cscalar (cvt tr) = true) by (rewrite Hc; reflexivity).
      destruct (strict_cvt_scalar tr Hst Hsc) as (s & -> & Es). rewrite Hc in Es. destruct s; try discriminate Es. reflexivity.
    + destruct (spec_supported (S f) t) eqn:Esup; [|discriminate Hsf].
      destruct (hty_iface TIface _ _ eq_refl Hh) as [Hdt Hdv].
      pose proof (ov_spec f t v c f' Hsf Hdt Hdv) as Ho.
      rewrite (spec_fold_mono f (S f') _ _ _ Ho) by lia.
      rewrite spec_fold_S in H2. cbn [under] in H2.
      destruct (generic tr) as [| | | | | |t2 v2| |]; try discriminate H2.
      * injection H2 as <-. apply opt_cv_eqb_sort. symmetry. rewrite (cv_sort_nil _ (eq_sym Hs2)). reflexivity.
      * destruct (spec_supported (S f') t2); [|discriminate H2].
        rewrite (spec_fold_mono f' (S f') _ _ _ H2) by lia. apply opt_cv_eqb_sort. symmetry. exact Hs2.
Qed.

(* ---------- slices and maps ---------- *)
Inductive Forall3 {A B C} (R : A -> B -> C -> Prop) : list A -> list B -> list C -> Prop :=
| F3_nil : Forall3 R [] [] []
| F3_cons a b c la lb lc : R a b c -> Forall3 R la lb lc -> Forall3 R (a :: la) (b :: lb) (c :: lc).

Lemma Forall2_ex3 {A B C} (R : A -> B -> C -> Prop) la lb :
  Forall2 (fun a b => exists c, R a b c) la lb -> exists lc, Forall3 R la lb lc.
Proof.
  induction 1 as [|a b la lb (c & Hc) _ (lc & Hl)]; [exists []; constructor|]. exists (c :: lc). constructor; assumption.
Qed.

Lemma opt_all_inv2 {A B C} (f : A -> option B) (h : C -> B) l : forall es,
  opt_all (map f l) = Some (map h es) -> Forall2 (fun x e => f x = Some (h e)) l es.
Proof.
  induction l as [|x l IH]; intros es H; cbn [map opt_all] in H.
  - destruct es; [constructor|discriminate H].
  - destruct (f x) as [y|] eqn:Ex; [|discriminate H].
    destruct (opt_all (map f l)) as [ys|] eqn:El; [|discriminate H].
    destruct es as [|e es]; [discriminate H|]. cbn [map] in H. injection H as -> ->.
    constructor; [exact Ex|apply IH; reflexivity].
Qed.

Lemma Forall2_imp {A B} (P Q : A -> B -> Prop) : (forall a b, P a b -> Q a b) ->
  forall la lb, Forall2 P la lb -> Forall2 Q la lb.
Proof. intros H la lb. induction 1; constructor; auto. Qed.

Lemma Forall2_in_l {A B} (R : A -> B -> Prop) la lb : Forall2 R la lb ->
  Forall2 (fun a b => In a la /\ In b lb /\ R a b) la lb.
Proof.
  induction 1 as [|a b la lb H _ IH]; [constructor|]. constructor; [split; [left; reflexivity|split; [left; reflexivity|exact H]]|].
  eapply Forall2_imp; [|exact IH]. cbv beta. intros x y (H1 & H2 & H3). split; [right; exact H1|split; [right; exact H2|exact H3]].
Qed.

(* the elements of a slice / the values of a map: what the induction gives for each *)
Definition ElemRes (e : gtype) (f : nat) (x : gvalue) (tx : tree) (N : gvalue) : Prop := Res e x f (cvt tx) tx N.

Lemma elems_ok e f l es Ns : Forall3 (ElemRes e f) l es Ns ->
  forall f0, (ftsize e + length (flatten_elems es) <= f0)%nat ->
  Forall (elem_okA (fun p : tree * gvalue => flatten (fst p)) snd f0 e (is_refl e)) (combine es Ns) /\
  flat_map (fun p : tree * gvalue => flatten (fst p)) (combine es Ns) = flatten_elems es /\
  map snd (combine es Ns) = Ns.
Proof.
  induction 1 as [|x tx N l es Ns (Hu & Hz & _) _ IH]; intros f0 Hf; [split; [constructor|split; reflexivity]|].
  rewrite flatten_elems_cons, app_length in Hf.
  destruct (IH f0 ltac:(lia)) as (H1 & H2 & H3). cbn [combine flat_map map fst snd]. rewrite H2, H3.
  split; [|split; reflexivity]. constructor; [|exact H1]. cbn [fst snd]. split; [apply flatten_head|]. split.
  - intro rest. apply Hu. lia.
  - intros _ Hn. split; [apply nil_head_flatten; exact Hn|apply Hz; exact Hn].
Qed.

Lemma elems_deq e f l es Ns : Forall3 (ElemRes e f) l es Ns ->
  forall f', (ftsize e < f')%nat -> (f + 2 * list_max (map (fun t => cdepth (cvt t)) es) + 2 <= f')%nat ->
  deq_list f' e (map (omit_view f' e) l) Ns = true.
Proof.
  induction 1 as [|x tx N l es Ns (_ & _ & Hd) _ IH]; intros f' H1 H2; [reflexivity|].
  cbn [map] in H2. rewrite list_max_cons in H2. cbn [map deq_list]. rewrite Hd by lia. rewrite IH by lia. reflexivity.
Qed.

Lemma Forall3_combine_length {A B C} (R : A -> B -> C -> Prop) la lb lc : Forall3 R la lb lc ->
  length (combine lb lc) = length lb.
Proof. induction 1; [reflexivity|]. cbn [combine length]. f_equal. assumption. Qed.

Lemma Forall3_nil_r {A B C} (R : A -> B -> C -> Prop) la lb : Forall3 R la lb [] -> la = [] /\ lb = [].
Proof. intro H. inversion H. split; reflexivity. Qed.

Lemma deep_eq_slice f t e l1 l2 : under t = TSlice e ->
  deep_eq (S f) t (GList l1) (match l2 with [] => GNil | _ => GList l2 end) =
  match l2 with [] => match l1 with [] => true | _ => false end | _ => deq_list f e l1 l2 end.
Proof. intro U. rewrite deep_eq_S, U. destruct l2; destruct l1; reflexivity. Qed.

Lemma S_slice t e v : under t = TSlice e -> zero_of t = GNil -> (ftsize e < ftsize t)%nat ->
  nest3 e = true -> ksorted t v = forallb (ksorted e) (glist v) ->
  (forall x, In x (glist v) -> S_at e x) -> S_at t v.
Proof.
  intros U Hz Hsz Hne Hks IH _ Ht Hh Hk F c tr Hsf Hst Hwf Hc. unfold Res. rewrite Hz.
  pose proof (type_ok_under_slice t e Ht U) as Hte.
  destruct F as [|f]; [rewrite spec_fold_O in Hsf; discriminate Hsf|]. rewrite spec_fold_S, U in Hsf.
  assert (Hl : exists ys, c = CArr ys /\ opt_all (map (spec_fold f e) (glist v)) = Some ys /\
                          (v = GNil \/ v = GList (glist v))).
  { destruct v; try discriminate Hsf.
    - injection Hsf as <-. exists []. auto.
    - cbn [glist]. destruct (opt_all (map (spec_fold f e) vs)) as [ys|]; [|discriminate Hsf]. injection Hsf as <-. eauto. }
  destruct Hl as (ys & -> & Hys & Hv). clear Hsf.
  destruct (strict_cvt_arr tr ys Hst Hc) as (len & bt & es & -> & Ees). subst ys.
  rewrite wf_arr in Hwf. apply andb_true_iff in Hwf. destruct Hwf as [Hwf Hw3].
  apply andb_true_iff in Hwf. destruct Hwf as [Hlen _].
  cbn [strict] in Hst. rewrite forallb_forall in Hst, Hw3.
  assert (Hkl : forall x, In x (glist v) -> ksorted e x = true).
  { rewrite Hks in Hk. rewrite forallb_forall in Hk. exact Hk. }
  assert (Hhl : forall x, In x (glist v) -> hty e x = true).
  { destruct Hv as [Hv|Hv]; [rewrite Hv; intros x []|]. rewrite Hv in Hh. apply (hty_list t e _ (or_introl U) Hh). }
  pose proof (Forall2_in_l _ _ _ (opt_all_inv2 _ _ _ _ Hys)) as H2.
  assert (H3 : Forall2 (fun x tx => exists N, ElemRes e f x tx N) (glist v) es).
  { eapply Forall2_imp; [|exact H2]. cbv beta. intros x tx (Hx & Htx & Hs).
    apply (IH x Hx Hne Hte (Hhl x Hx) (Hkl x Hx) f (cvt tx) tx Hs (Hst tx Htx) (Hw3 tx Htx) eq_refl). }
  destruct (Forall2_ex3 _ _ _ H3) as (Ns & HN).
  exists (match combine es Ns with [] => GNil | _ => GList (map snd (combine es Ns)) end). split; [|split].
  - intros fuel rest Hf. rewrite flatten_arr in *. cbn [length] in Hf. rewrite app_length in Hf.
    destruct fuel as [|f0]; [lia|].
    destruct (elems_ok e f _ _ _ HN f0 ltac:(lia)) as (Hok & Hfl & Hsn).
    cbn [app]. rewrite <- app_assoc. cbn [app]. rewrite <- Hfl.
    apply (uf_slice_zeroA (fun p : tree * gvalue => flatten (fst p)) snd f0 t e len bt (combine es Ns) rest U); [|exact Hok].
    unfold len_ok in *. replace (zlen (combine es Ns)) with (zlen es); [exact Hlen|].
    unfold zlen. rewrite (Forall3_combine_length _ _ _ _ HN). reflexivity.
  - rewrite flatten_arr. discriminate.
  - intros F' HF1 HF2. destruct F' as [|f']; [lia|]. cbn [cdepth] in HF2. rewrite map_map in HF2.
    destruct (elems_ok e f _ _ _ HN _ (le_n _)) as (_ & _ & Hsn). rewrite Hsn.
    rewrite omit_view_S, U. destruct Hv as [Hv|Hv].
    + rewrite Hv in HN |- *. cbn [glist] in HN. inversion HN; subst. cbn [combine]. rewrite deep_eq_S, U. reflexivity.
    + rewrite Hv. cbn [glist].
      assert (E : match combine es Ns with [] => GNil | _ :: _ => GList Ns end = match Ns with [] => GNil | _ => GList Ns end).
      { destruct (combine es Ns); cbn [map] in Hsn; rewrite <- Hsn; reflexivity. }
      rewrite E, (deep_eq_slice f' t e _ _ U).
      pose proof (elems_deq e f _ _ _ HN f' ltac:(lia) ltac:(lia)) as Hd.
      destruct Ns as [|N0 Ns]; [|exact Hd]. destruct (Forall3_nil_r _ _ _ HN) as [-> _]. reflexivity.
Qed.

Definition MemRes (e : gtype) (f : nat) (kv : bytes * gvalue) (m : bytes * bool * tree) (N : gvalue) : Prop :=
  fst kv = fst (fst m) /\ snd (fst m) = false /\ ElemRes e f (snd kv) (snd m) N.

Definition tkv : Type := bytes * (tree * gvalue).

Lemma mems_all e f kvs ms Ns : Forall3 (MemRes e f) kvs ms Ns ->
  exists kvs' : list tkv,
    (forall f0, (ftsize e + length (flatten_members ms) <= f0)%nat ->
       Forall (fun kv : tkv => elem_okA (fun p : tree * gvalue => flatten (fst p)) snd f0 e (is_refl e) (snd kv)) kvs') /\
    flat_map (fun kv : tkv => EKey (fst kv) :: flatten (fst (snd kv))) kvs' = flatten_members ms /\
    map fst kvs' = map fst kvs /\
    (forall f', (ftsize e < f')%nat -> (f + 2 * list_max (map (fun m => cdepth (cvt (snd m))) ms) + 2 <= f')%nat ->
       deq_map f' e (map (fun kv => (fst kv, omit_view f' e (snd kv))) kvs)
                    (map (fun kv : tkv => (fst kv, snd (snd kv))) kvs') = true).
Proof.
  induction 1 as [|[k x] [[k' b] tx] N kvs ms Ns (Hk & Hb & Hu & Hz & Hd) _ (kvs' & H1 & H2 & H3 & H4)].
  - exists []. split; [intros; constructor|]. split; [reflexivity|]. split; [reflexivity|]. intros; reflexivity.
  - cbn [fst snd] in *. subst k' b. exists ((k, (tx, N)) :: kvs'). split; [|split; [|split]].
    + intros f0 Hf. rewrite flatten_members_cons in Hf. cbn [length] in Hf. rewrite app_length in Hf.
      constructor; [|apply H1; lia]. cbn [fst snd]. split; [apply flatten_head|]. split.
      * intro rest. apply Hu. lia.
      * intros _ Hn. split; [apply nil_head_flatten; exact Hn|apply Hz; exact Hn].
    + cbn [flat_map fst snd]. rewrite H2, flatten_members_cons. reflexivity.
    + cbn [map fst]. rewrite H3. reflexivity.
    + intros f' Hf1 Hf2. cbn [map snd] in Hf2. rewrite list_max_cons in Hf2.
      cbn [map deq_map fst snd]. rewrite bytes_eqb_refl, Hd by lia. rewrite H4 by lia. reflexivity.
Qed.

Lemma map_fst_nil {A B} (l1 : list (A * B)) {C} (l2 : list (A * C)) : map fst l1 = map fst l2 -> l2 = [] -> l1 = [].
Proof. intros H ->. destruct l1; [reflexivity|discriminate H]. Qed.

Lemma S_map t e v : under t = TMap e -> zero_of t = GNil -> (ftsize e < ftsize t)%nat ->
  nest3 e = true ->
  ksorted t v = forallb (fun kv => ksorted e (snd kv)) (gmap v) && ssorted (map fst (gmap v)) ->
  (forall kv, In kv (gmap v) -> S_at e (snd kv)) -> S_at t v.
Proof.
  intros U Hz Hsz Hne Hks IH _ Ht Hh Hk F c tr Hsf Hst Hwf Hc. unfold Res. rewrite Hz.
  pose proof (type_ok_under_map t e Ht U) as Hte.
  destruct F as [|f]; [rewrite spec_fold_O in Hsf; discriminate Hsf|]. rewrite spec_fold_S, U in Hsf.
  assert (Hl : exists cms, c = CObj cms /\
             opt_all (map (fun kv => match spec_fold f e (snd kv) with
                                     | Some x => Some (fst kv, x) | None => None end) (gmap v)) = Some cms /\
             (v = GNil \/ v = GMap (gmap v))).
  { destruct v; try discriminate Hsf.
    - injection Hsf as <-. exists []. auto.
    - cbn [gmap]. match type of Hsf with match ?X with _ => _ end = _ => destruct X as [cms|]; [|discriminate Hsf] end.
      injection Hsf as <-. eauto. }
  destruct Hl as (cms & -> & Hcms & Hv). clear Hsf.
  destruct (strict_cvt_obj tr cms Hst Hc) as (len & bt & ms & -> & Ems). subst cms.
  rewrite wf_obj in Hwf. apply andb_true_iff in Hwf. destruct Hwf as [_ Hw3].
  cbn [strict] in Hst. rewrite forallb_forall in Hst, Hw3.
  rewrite Hks in Hk. apply andb_true_iff in Hk. destruct Hk as [Hk Hsorted]. rewrite forallb_forall in Hk.
  assert (Hhl : forall kv, In kv (gmap v) -> hty e (snd kv) = true).
  { destruct Hv as [Hv|Hv]; [rewrite Hv; intros x []|]. rewrite Hv in Hh. apply (hty_mapv t e _ U Hh). }
  unfold cvm in Hcms.
  pose proof (Forall2_in_l _ _ _ (opt_all_inv2 _ _ _ _ Hcms)) as H2.
  assert (H3 : Forall2 (fun kv m => exists N, MemRes e f kv m N) (gmap v) ms).
  { eapply Forall2_imp; [|exact H2]. cbv beta. intros kv m (Hx & Hm & Hs).
    destruct (spec_fold f e (snd kv)) as [x|] eqn:Ex; [|discriminate Hs]. injection Hs as Hs1 Hs2. subst x.
    specialize (Hst m Hm). apply andb_true_iff in Hst. destruct Hst as [Hb Hstm]. apply negb_true_iff in Hb.
    specialize (Hw3 m Hm). apply andb_true_iff in Hw3. destruct Hw3 as [_ Hwm].
    destruct (IH kv Hx Hne Hte (Hhl kv Hx) (Hk kv Hx) f (cvt (snd m)) (snd m) Ex Hstm Hwm eq_refl) as (N & HN).
    exists N. split; [exact Hs1|split; [exact Hb|exact HN]]. }
  destruct (Forall2_ex3 _ _ _ H3) as (Ns & HN).
  destruct (mems_all e f _ _ _ HN) as (kvs' & Hok & Hfl & Hkeys & Hdeq).
  exists (match kvs' with
          | [] => if is_refl e then GMap [] else GNil
          | _ => GMap (map (fun kv : tkv => (fst kv, snd (snd kv))) kvs')
          end). split; [|split].
  - intros fuel rest Hf. rewrite flatten_obj in *. cbn [length] in Hf. rewrite app_length in Hf.
    destruct fuel as [|f0]; [lia|].
    cbn [app]. rewrite <- app_assoc. cbn [app]. rewrite <- Hfl.
    apply (uf_map_zeroA (fun p : tree * gvalue => flatten (fst p)) snd f0 t e len bt kvs' rest U); [apply Hok; lia|].
    rewrite Hkeys. exact Hsorted.
  - rewrite flatten_obj. discriminate.
  - intros F' HF1 HF2. destruct F' as [|f']; [lia|]. cbn [cdepth] in HF2. unfold cvm in HF2. rewrite map_map in HF2. cbn [snd] in HF2.
    specialize (Hdeq f' ltac:(lia) ltac:(lia)).
    rewrite omit_view_S, U. destruct Hv as [Hv|Hv].
    + rewrite Hv in Hkeys |- *. cbn [gmap map] in Hkeys. destruct kvs'; [|discriminate Hkeys].
      rewrite deep_eq_S, U. destruct (is_refl e); reflexivity.
    + rewrite Hv. cbn [gmap]. rewrite deep_eq_S, U.
      destruct kvs' as [|kv0 kvs'].
      * rewrite (map_fst_nil _ _ (eq_sym Hkeys) eq_refl). cbn [map]. destruct (is_refl e); reflexivity.
      * destruct (gmap v) as [|kv1 kvs1]; [discriminate Hkeys|]. exact Hdeq.
Qed.

(* ---------- facts about the types of the fragment ---------- *)
Lemma nest3_fields_in fs : nest3_fields fs = true -> forall n tg ft, In (n, tg, ft) fs -> nest3 ft = true.
Proof.
  induction fs as [|[[n0 tg0] ft0] fs IH]; intros H n tg ft Hin; [contradiction|].
  cbn [nest3_fields] in H. apply andb_true_iff in H. destruct H as [H H3]. apply andb_true_iff in H. destruct H as [H1 _].
  destruct Hin as [E|Hin]; [injection E as _ _ <-; exact H1|eauto].
Qed.

Lemma tz_all3 : forall F t, nest3 t = true -> (ftsize t < F)%nat -> deep_eq F t (zero_of t) (zero_of t) = true.
Proof.
  induction F as [|f IH]; intros t Hn HF; [lia|].
  destruct t; try discriminate Hn; try (apply deep_eq_zero; [exact Hn || reflexivity|lia]); try reflexivity.
  rewrite nest3_struct in Hn. apply andb_true_iff in Hn. destruct Hn as [Hnf _].
  rewrite zero_struct, deep_eq_S. cbn [under]. apply deq_fields_zero.
  intros n tg ft Hin. apply IH; [apply (nest3_fields_in fs Hnf n tg ft Hin)|].
  rewrite ftsize_struct in HF. destruct (fsum_bounds fs) as [_ Hb]. specialize (Hb _ Hin). cbn [snd] in Hb. lia.
Qed.

Lemma field_table_nest3 : forall fuel fs idx tab, field_table fuel fs idx = inr tab -> nest3_fields fs = true ->
  forall k path ft, In (k, (path, ft)) tab -> nest3 ft = true.
Proof.
  induction fuel as [|f IH]; intros fs idx tab H Hn k path ft Hin; [discriminate H|].
  cbn [field_table] in H. destruct fs as [|[[name tag] ft0] fs]; [injection H as <-; contradiction|].
  cbn [nest3_fields] in Hn. apply andb_true_iff in Hn. destruct Hn as [Hn Hn3].
  apply andb_true_iff in Hn. destruct Hn as [Hnf _].
  destruct (field_table f fs (S idx)) as [err|b] eqn:Er.
  - destruct (negb (exported name)); [discriminate H|].
    destruct (parse_tags tag) as [tn o]. destruct (t_omit o); [discriminate H|].
    destruct (t_squash o); [destruct ft0; try discriminate H; destruct (field_table f fs0 0); discriminate H|discriminate H].
  - pose proof (IH _ _ _ Er Hn3) as Hb.
    destruct (negb (exported name)); [injection H as <-; eauto|].
    destruct (parse_tags tag) as [tn o]. destruct (t_omit o); [injection H as <-; eauto|].
    destruct (t_squash o).
    + destruct ft0; try discriminate H.
      destruct (field_table f fs0 0) as [err|sub] eqn:Es; [discriminate H|].
      match type of H with (if ?c then _ else _) = _ => destruct c end; [discriminate H|].
      injection H as <-. apply in_app_or in Hin. destruct Hin as [Hin|Hin]; [|eauto].
      apply in_map_iff in Hin. destruct Hin as ([k' [p' ft']] & E & Hin). cbn [fst snd] in E. injection E as _ _ ->.
      rewrite nest3_struct in Hnf. apply andb_true_iff in Hnf. destruct Hnf as [Hnf' _].
      apply (IH _ _ _ Es Hnf' _ _ _ Hin).
    + match type of H with (if ?c then _ else _) = _ => destruct c end; [discriminate H|].
      injection H as <-. cbn [app] in Hin. destruct Hin as [Hin|Hin]; [|eauto].
      injection Hin as _ _ ->. exact Hnf.
Qed.

Lemma ucc_nest3 : forall F t, nest3 t = true -> (ftsize t <= F)%nat -> ucc F t = None.
Proof.
  induction F as [|f IH]; intros t Hn HF; [pose proof (ftsize_pos t); lia|].
  destruct t; try discriminate Hn; try reflexivity.
  - cbn [ucc under]. apply IH; [exact Hn|cbn [ftsize] in HF; lia].
  - cbn [ucc under]. destruct (prim_kind t || gtype_eqb t TIface); [reflexivity|].
    apply IH; [exact Hn|cbn [ftsize] in HF; lia].
  - cbn [ucc under]. destruct (prim_kind t || gtype_eqb t TIface); [reflexivity|].
    apply IH; [exact Hn|cbn [ftsize] in HF; lia].
  - rewrite nest3_struct in Hn. apply andb_true_iff in Hn. destruct Hn as [Hnf Hok].
    destruct (ftab_ok_inv fs Hok) as [tab Et]. cbn [ucc under]. rewrite Et.
    assert (H : forall e, In e tab -> ucc f (snd (snd e)) = None).
    { intros [k [path ft]] He. cbn [snd]. apply IH; [apply (field_table_nest3 _ _ _ _ Et Hnf _ _ _ He)|].
      pose proof (field_table_ftsize _ _ _ _ Et _ _ _ He). rewrite ftsize_struct in HF. lia. }
    clear Et. induction tab as [|e l IHl]; [reflexivity|].
    cbn [fold_right]. rewrite (H e) by (left; reflexivity). apply IHl. intros e' He'. apply H. right. exact He'.
  - apply ucc_simple; [exact Hn|exact HF].
Qed.

(* the fragment of UnfoldStructProofs is part of this one *)
Lemma nest_nest3 : forall n t, (ftsize t <= n)%nat -> nest t = true -> nest3 t = true.
Proof.
  induction n as [|n IH]; intros t Hs Hn; [pose proof (ftsize_pos t); lia|].
  destruct t; try discriminate Hn; try reflexivity; try (cbn [nest nest3 ftsize] in *; apply IH; [lia|exact Hn]).
  - rewrite nest_struct in Hn. rewrite nest3_struct. apply andb_true_iff in Hn. destruct Hn as [Hnf Hok].
    rewrite Hok, andb_true_r. rewrite ftsize_struct in Hs.
    assert (Hb : forall fd, In fd fs -> (ftsize (snd fd) <= n)%nat).
    { intros fd Hfd. destruct (fsum_bounds fs) as [_ Hb]. specialize (Hb fd Hfd). lia. }
    clear Hs Hok. induction fs as [|[[name tag] ft] fs IHfs]; [reflexivity|].
    cbn [nest_fields nest3_fields] in *. apply andb_true_iff in Hnf. destruct Hnf as [Hnf H3].
    apply andb_true_iff in Hnf. destruct Hnf as [H1 H2].
    rewrite (IH ft (Hb _ (or_introl eq_refl)) H1), H2, IHfs; [reflexivity|exact H3|]. intros fd Hfd. apply Hb. right. exact Hfd.
  - exact Hn.
Qed.

(* ---------- structs ---------- *)
Definition strict_ms (ms : list (bytes * bool * tree)) : bool := forallb (fun m => negb (snd (fst m)) && strict (snd m)) ms.
Definition dms (cms : list (bytes * cvalue)) : nat := list_max (map (fun kv => cdepth (snd kv)) cms).

Lemma dms_app a b : dms (a ++ b) = Nat.max (dms a) (dms b).
Proof. unfold dms. rewrite map_app. apply list_max_app. Qed.
Lemma dms_cons k x b : dms ((k, x) :: b) = Nat.max (cdepth x) (dms b).
Proof. reflexivity. Qed.

Lemma Sfields_nil g vs acc : Sfields g [] vs acc = Some (CObj (rev acc)).
Proof. destruct vs; reflexivity. Qed.

Lemma emittable_false name tag : emittable name tag = false ->
  negb (exported name) || t_omit (snd (parse_tags tag)) = true.
Proof. unfold emittable. destruct (exported name), (t_omit (snd (parse_tags tag))); cbn; congruence. Qed.

Lemma emittable_true name tag : emittable name tag = true ->
  exported name = true /\ t_omit (snd (parse_tags tag)) = false.
Proof. unfold emittable. destruct (exported name), (t_omit (snd (parse_tags tag))); cbn; try discriminate; auto. Qed.

Section Fields.
  Variable n : nat.
  Hypothesis IHn : forall T v, (msz T v <= n)%nat -> S_at T v.

  Lemma fields_S : forall tab pp idx fs, tabfor tab pp idx fs ->
    forall vs g acc ctot,
      nest3_fields fs = true -> type_ok_fields fs = true -> hty_fields fs vs = true -> ksorted_fields fs vs = true ->
      (tsum fs + vsum vs <= n)%nat ->
      Sfields g fs vs acc = Some ctot ->
      exists cms, ctot = CObj (rev acc ++ cms) /\
        forall ms : list (bytes * bool * tree), strict_ms ms = true -> wf_members ms = true -> cvm ms = cms ->
          exists Ns,
            (forall f gl done cur R, length done = idx -> get_path pp cur = GStruct (done ++ zeros fs) ->
               (fsum fs + length (flatten_members ms) <= f)%nat -> (length ms <= gl)%nat ->
               struct_loop f tab gl cur (flatten_members ms ++ R) =
               struct_loop f tab (gl - length ms) (set_path pp (GStruct (done ++ Ns)) cur) R) /\
            (forall f', (fsum fs <= f')%nat -> (g + 2 * dms cms + 2 <= f')%nat ->
               deq_fields f' fs (ov_fields f' fs vs) Ns = true).
  Proof.
    induction 1 as [pp idx|pp idx name tag ft r He _ IH|pp idx name tag ft r He Hs Hkey _ IH
                   |pp idx name tag ifs r He Hs _ IHin _ IH]; intros vs g acc ctot Hn Ht Hh Hk Hsz H.
    - (* no field left *)
      rewrite Sfields_nil in H. injection H as <-. exists []. split; [rewrite app_nil_r; reflexivity|].
      intros ms _ _ Hc. destruct ms; [|discriminate Hc]. exists []. split.
      + intros f gl done cur R _ Hg _ _. cbn [flatten_members flat_map app length]. rewrite Nat.sub_0_r.
        unfold zeros in Hg. cbn [map] in Hg. rewrite <- Hg, set_get_path. reflexivity.
      + intros. destruct vs; reflexivity.
    - (* a field that is not emitted: unexported, "-" or omit *)
      destruct vs as [|fv vr]; [discriminate Hh|].
      cbn [nest3_fields] in Hn. apply andb_true_iff in Hn. destruct Hn as [Hn Hn3].
      apply andb_true_iff in Hn. destruct Hn as [Hnf _].
      cbn [type_ok_fields] in Ht. apply andb_true_iff in Ht. destruct Ht as [_ Ht3].
      cbn [hty_fields] in Hh. apply andb_true_iff in Hh. destruct Hh as [_ Hh3].
      cbn [ksorted_fields] in Hk. apply andb_true_iff in Hk. destruct Hk as [_ Hk3].
      rewrite tsum_cons, vsum_cons in Hsz.
      pose proof (emittable_false name tag He) as Hcond.
      assert (H' : Sfields g r vr acc = Some ctot).
      { rewrite Sfields_cons in H. destruct (negb (exported name)); [exact H|]. cbn [orb] in Hcond.
        destruct (parse_tags tag) as [tn o]. cbn [snd] in Hcond.
        destruct (t_squash o && t_omitempty o); [discriminate H|]. rewrite Hcond in H. exact H. }
      destruct (IH vr g acc ctot Hn3 Ht3 Hh3 Hk3 ltac:(lia) H') as (cms & E & Hms).
      exists cms. split; [exact E|]. intros ms H1 H2 H3. destruct (Hms ms H1 H2 H3) as (Ns & HL & HD).
      exists (zero_of ft :: Ns). split.
      + intros f gl done cur R Hd Hg Hf Hgl. rewrite zeros_cons, app_cons_assoc in Hg. rewrite fsum_cons in Hf.
        rewrite (HL f gl (done ++ [zero_of ft]) cur R) by (try rewrite app_length; cbn [length]; try lia; exact Hg).
        rewrite <- app_cons_assoc. reflexivity.
      + intros f' Hf1 Hf2. rewrite fsum_cons in Hf1. rewrite ov_fields_cons, Hcond. cbn [orb deq_fields].
        rewrite tz_all3 by (exact Hnf || lia). rewrite HD by lia. reflexivity.
    - (* an ordinary emitted field *)
      destruct vs as [|fv vr]; [discriminate Hh|].
      cbn [nest3_fields] in Hn. apply andb_true_iff in Hn. destruct Hn as [Hn Hn3].
      apply andb_true_iff in Hn. destruct Hn as [Hnf _].
      cbn [type_ok_fields] in Ht. apply andb_true_iff in Ht. destruct Ht as [Ht Ht3].
      apply andb_true_iff in Ht. destruct Ht as [_ Htf].
      cbn [hty_fields] in Hh. apply andb_true_iff in Hh. destruct Hh as [Hhf Hh3].
      cbn [ksorted_fields] in Hk. apply andb_true_iff in Hk. destruct Hk as [Hkf Hk3].
      rewrite tsum_cons, vsum_cons in Hsz.
      destruct (emittable_true name tag He) as [Hex Hom].
      rewrite Sfields_cons in H. rewrite Hex in H. cbn [negb] in H.
      unfold fkey in Hkey. destruct (parse_tags tag) as [tn o] eqn:Ep. cbn [fst snd] in *.
      rewrite Hs, Hom in H. cbn [andb] in H.
      destruct (t_omitempty o && spec_empty (S g) ft fv) eqn:Eskip.
      + (* omitted because empty *)
        destruct (IH vr g acc ctot Hn3 Ht3 Hh3 Hk3 ltac:(lia) H) as (cms & E & Hms).
        exists cms. split; [exact E|]. intros ms H1 H2 H3. destruct (Hms ms H1 H2 H3) as (Ns & HL & HD).
        exists (zero_of ft :: Ns). split.
        * intros f gl done cur R Hd Hg Hf Hgl. rewrite zeros_cons, app_cons_assoc in Hg. rewrite fsum_cons in Hf.
          rewrite (HL f gl (done ++ [zero_of ft]) cur R) by (try rewrite app_length; cbn [length]; try lia; exact Hg).
          rewrite <- app_cons_assoc. reflexivity.
        * intros f' Hf1 Hf2. rewrite fsum_cons in Hf1. rewrite ov_fields_cons, Ep. cbn [snd].
          apply andb_true_iff in Eskip. destruct Eskip as [Eo Ee].
          rewrite Eo, (spec_empty_mono_true (S g) (S f') ft fv Ee) by lia. rewrite orb_true_r. cbn [deq_fields].
          rewrite tz_all3 by (exact Hnf || lia). rewrite HD by lia. reflexivity.
      + (* emitted *)
        destruct (spec_fold g ft fv) as [x|] eqn:Ex; [|discriminate H].
        destruct (IH vr g _ ctot Hn3 Ht3 Hh3 Hk3 ltac:(lia) H) as (cms & E & Hms).
        exists ((field_name name tn, x) :: cms). split; [rewrite E; cbn [rev]; rewrite <- app_assoc; reflexivity|].
        intros ms H1 H2 H3. unfold cvm in H3. apply map_eq_cons in H3. destruct H3 as ([[k b] tx] & ms' & -> & E1 & E3).
        cbn [fst snd] in E1. injection E1 as -> Ex'.
        cbn [strict_ms forallb fst snd] in H1. apply andb_true_iff in H1. destruct H1 as [H1 H1'].
        apply andb_true_iff in H1. destruct H1 as [Hb Hstx]. apply negb_true_iff in Hb. subst b.
        cbn [wf_members forallb fst snd] in H2. apply andb_true_iff in H2. destruct H2 as [H2 H2'].
        apply andb_true_iff in H2. destruct H2 as [_ Hwtx].
        assert (Hm : (msz ft fv <= n)%nat) by (unfold msz; lia).
        destruct (IHn ft fv Hm Hnf Htf Hhf Hkf g x tx Ex Hstx Hwtx Ex') as (N & Hu & _ & Hd).
        destruct (Hms ms' H1' H2' E3) as (Ns & HL & HD).
        exists (N :: Ns). split.
        * intros f gl done cur R Hdn Hg Hf Hgl. destruct gl as [|gl]; [cbn [length] in Hgl; lia|].
          rewrite fsum_cons in Hf. rewrite flatten_members_cons in *. cbn [length] in Hf. rewrite app_length in Hf.
          cbn [app]. rewrite <- app_assoc.
          rewrite struct_loop_key, Hkey.
          rewrite get_path_app, Hg. cbn [get_path]. rewrite zeros_cons, <- Hdn, nth_app_here. cbn [get_path].
          rewrite Hu by lia.
          rewrite (set_path_snoc pp cur _ (length done) N Hg), zeros_cons, replace_nth_app.
          set (cur1 := set_path pp (GStruct (done ++ N :: zeros r)) cur).
          assert (Hg1 : get_path pp cur1 = GStruct ((done ++ [N]) ++ zeros r)).
          { unfold cur1. rewrite (get_set_path pp cur _ _ Hg), app_cons_assoc. reflexivity. }
          rewrite (HL f gl (done ++ [N]) cur1 R) by (try rewrite app_length; cbn [length] in *; try lia; exact Hg1).
          unfold cur1. rewrite (set_set_path pp cur _ _ _ Hg), <- app_cons_assoc. reflexivity.
        * intros f' Hf1 Hf2. rewrite fsum_cons in Hf1. rewrite dms_cons in Hf2.
          rewrite ov_fields_cons, Ep. cbn [snd]. rewrite Hex, Hom. cbn [negb orb].
          assert (Ee : t_omitempty o && spec_empty (S f') ft fv = false).
          { destruct (t_omitempty o); [|reflexivity]. cbn [andb] in *.
            rewrite (spec_empty_stable g ft fv x Ex (S f')) by lia. exact Eskip. }
          rewrite Ee. cbn [deq_fields]. rewrite Hd by lia. rewrite HD by lia. reflexivity.
    - (* an inlined struct *)
      destruct vs as [|fv vr]; [discriminate Hh|].
      cbn [nest3_fields] in Hn. apply andb_true_iff in Hn. destruct Hn as [Hn Hn3].
      apply andb_true_iff in Hn. destruct Hn as [Hnf Hok].
      cbn [type_ok_fields] in Ht. apply andb_true_iff in Ht. destruct Ht as [Ht Ht3].
      apply andb_true_iff in Ht. destruct Ht as [_ Htf].
      cbn [hty_fields] in Hh. apply andb_true_iff in Hh. destruct Hh as [Hhf Hh3].
      cbn [ksorted_fields] in Hk. apply andb_true_iff in Hk. destruct Hk as [Hkf Hk3].
      destruct fv as [| | | | | | | |ivs]; try discriminate Hhf.
      rewrite tsum_cons, vsum_cons, tsize_struct, vsize_struct in Hsz.
      rewrite nest3_struct in Hnf. apply andb_true_iff in Hnf. destruct Hnf as [Hnfi _].
      rewrite type_ok_struct in Htf. rewrite hty_struct in Hhf. rewrite ksorted_struct in Hkf.
      destruct (emittable_true name tag He) as [Hex Hom].
      assert (Hinl : inl_field name tag = true) by (unfold inl_field; rewrite He, Hs; reflexivity).
      destruct (fld_ok_inl name tag _ Hinl Hok) as [_ Hoe].
      rewrite Sfields_cons in H. rewrite Hex in H. cbn [negb] in H.
      destruct (parse_tags tag) as [tn o] eqn:Ep. cbn [fst snd] in *.
      rewrite Hs, Hoe, Hom in H. cbn [andb] in H.
      rewrite Sim_S in H. cbn [under] in H.
      destruct (spec_fold g (TStruct ifs) (GStruct ivs)) as [[| | | | |cin]|] eqn:Ein; try discriminate H.
      destruct g as [|g1]; [rewrite spec_fold_O in Ein; discriminate Ein|]. rewrite spec_fold_S in Ein. cbn [under] in Ein.
      destruct (IHin ivs g1 [] _ Hnfi Htf Hhf Hkf ltac:(lia) Ein) as (cmi & Ei & Hmi). cbn [rev app] in Ei. injection Ei as ->.
      destruct (IH vr (S g1) _ ctot Hn3 Ht3 Hh3 Hk3 ltac:(lia) H) as (cms & E & Hms).
      exists (cmi ++ cms). split; [rewrite E, rev_app_distr, rev_involutive, <- app_assoc; reflexivity|].
      intros ms H1 H2 H3. unfold cvm in H3. apply map_eq_app in H3. destruct H3 as (ms1 & ms2 & -> & E1 & E2).
      unfold strict_ms in H1. rewrite forallb_app in H1. apply andb_true_iff in H1. destruct H1 as [H1a H1b].
      unfold wf_members in H2. rewrite forallb_app in H2. apply andb_true_iff in H2. destruct H2 as [H2a H2b].
      destruct (Hmi ms1 H1a H2a E1) as (Ni & HLi & HDi).
      destruct (Hms ms2 H1b H2b E2) as (Ns & HL & HD).
      exists (GStruct Ni :: Ns). split.
      + intros f gl done cur R Hdn Hg Hf Hgl. rewrite fsum_cons, ftsize_struct in Hf.
        rewrite flatten_members_app, app_length in *. rewrite <- app_assoc.
        assert (Hgi : get_path (pp ++ [idx]) cur = GStruct ([] ++ zeros ifs)).
        { rewrite get_path_app, Hg. cbn [get_path]. rewrite zeros_cons, <- Hdn, nth_app_here. cbn [get_path app].
          apply zero_struct. }
        rewrite (HLi f gl [] cur _ eq_refl Hgi) by lia. cbn [app].
        rewrite (set_path_snoc pp cur _ idx _ Hg), zeros_cons, <- Hdn, replace_nth_app.
        set (N := GStruct Ni).
        set (cur1 := set_path pp (GStruct (done ++ N :: zeros r)) cur).
        assert (Hg1 : get_path pp cur1 = GStruct ((done ++ [N]) ++ zeros r)).
        { unfold cur1. rewrite (get_set_path pp cur _ _ Hg), app_cons_assoc. reflexivity. }
        rewrite (HL f (gl - length ms1)%nat (done ++ [N]) cur1 R) by (try rewrite app_length; cbn [length]; try lia; exact Hg1).
        unfold cur1. rewrite (set_set_path pp cur _ _ _ Hg), <- app_cons_assoc.
        replace (gl - length ms1 - length ms2)%nat with (gl - (length ms1 + length ms2))%nat by lia. reflexivity.
      + intros f' Hf1 Hf2. rewrite fsum_cons, ftsize_struct in Hf1. rewrite dms_app in Hf2.
        rewrite ov_fields_cons, Ep. cbn [snd]. rewrite Hex, Hom, Hoe. cbn [negb orb andb deq_fields].
        destruct f' as [|f'']; [lia|]. rewrite omit_view_struct, deep_eq_S. cbn [under].
        rewrite HDi by lia. rewrite HD by lia. reflexivity.
  Qed.
End Fields.

Lemma S_struct n fs v : (forall T v, (msz T v <= n)%nat -> S_at T v) -> (msz (TStruct fs) v <= S n)%nat ->
  S_at (TStruct fs) v.
Proof.
  intros IH Hm Hn Ht Hh Hk F c tr Hsf Hst Hwf Hc. unfold Res.
  destruct F as [|g]; [rewrite spec_fold_O in Hsf; discriminate Hsf|]. rewrite spec_fold_S in Hsf. cbn [under] in Hsf.
  destruct v as [| | | | | | | |vs]; try discriminate Hsf.
  rewrite nest3_struct in Hn. apply andb_true_iff in Hn. destruct Hn as [Hnf Hok].
  destruct (ftab_ok_inv fs Hok) as [tab Et].
  rewrite type_ok_struct in Ht. rewrite hty_struct in Hh. rewrite ksorted_struct in Hk.
  unfold msz in Hm. rewrite tsize_struct, vsize_struct in Hm.
  assert (Htab : tabfor tab [] O fs) by (apply (field_table_tabfor _ _ _ _ Et); intros k p ft Hkp; exact Hkp).
  destruct (fields_S n IH tab [] O fs Htab vs g [] c Hnf Ht Hh Hk ltac:(lia) Hsf) as (cms & -> & Hms). cbn [rev app] in *.
  destruct (strict_cvt_obj tr cms Hst Hc) as (len & bt & ms & -> & Ems).
  rewrite wf_obj in Hwf. apply andb_true_iff in Hwf. destruct Hwf as [_ Hw3].
  destruct (Hms ms Hst Hw3 Ems) as (Ns & HL & HD).
  exists (GStruct Ns). split; [|split].
  - intros fuel rest Hf. rewrite flatten_obj in *. cbn [length] in Hf. rewrite app_length in Hf. rewrite ftsize_struct in Hf.
    destruct fuel as [|f0]; [lia|]. cbn [app]. rewrite <- app_assoc. cbn [app].
    rewrite (uf_S_struct _ _ fs) by reflexivity. rewrite Et, zero_struct.
    pose proof (flatten_members_length_ge ms) as Hlen.
    rewrite (HL f0 _ [] (GStruct (zeros fs)) (EObjEnd :: rest) eq_refl eq_refl) by (try rewrite app_length; cbn [length]; lia).
    cbn [set_path app].
    destruct (S (length (flatten_members ms ++ EObjEnd :: rest)) - length ms)%nat as [|g'] eqn:Eg;
      [rewrite app_length in Eg; cbn [length] in Eg; lia|].
    rewrite struct_loop_S. reflexivity.
  - rewrite flatten_obj. discriminate.
  - intros F' HF1 HF2. destruct F' as [|f']; [lia|]. rewrite ftsize_struct in HF1. cbn [cdepth] in HF2. fold (dms cms) in HF2.
    rewrite omit_view_struct, deep_eq_S. cbn [under]. apply HD; lia.
Qed.

Lemma vsize_glist_le v x : In x (glist v) -> (vsize x < vsize v)%nat.
Proof. destruct v; try contradiction. cbn [glist]. intro H. rewrite vsize_list. pose proof (vsum_in x _ H). lia. Qed.
Lemma vsize_gmap_le v kv : In kv (gmap v) -> (vsize (snd kv) < vsize v)%nat.
Proof. destruct v; try contradiction. cbn [gmap]. intro H. rewrite vsize_map. pose proof (vsum_kv_in kv _ H). lia. Qed.

(* unfolding ANY well-formed stream whose canonical value is the documented value of v
   into a zero target yields a value deeply equal to v *)
Theorem S_all : forall n T v, (msz T v <= n)%nat -> S_at T v.
Proof.
  induction n as [|n IH]; intros T v Hm; [unfold msz in Hm; pose proof (tsize_pos T); lia|].
  unfold msz in Hm. destruct T.
  - apply S_scalar. reflexivity.
  - apply S_scalar. reflexivity.
  - apply S_scalar. reflexivity.
  - apply S_iface.
  - apply S_ptr. intros x ->. apply IH. unfold msz. cbn [tsize vsize] in Hm. lia.
  - intro Hn. cbn [nest3] in Hn. revert Hn. intro Hn.
    refine (S_slice (TSlice T) T v eq_refl eq_refl _ Hn eq_refl _ Hn); [cbn [ftsize]; lia|].
    intros x Hx. apply IH. unfold msz. pose proof (vsize_glist_le v x Hx). cbn [tsize] in Hm. lia.
  - intro Hn. discriminate Hn.
  - intro Hn. cbn [nest3] in Hn.
    refine (S_map (TMap T) T v eq_refl eq_refl _ Hn eq_refl _ Hn); [cbn [ftsize]; lia|].
    intros kv Hx. apply IH. unfold msz. pose proof (vsize_gmap_le v kv Hx). cbn [tsize] in Hm. lia.
  - intro Hn. discriminate Hn.
  - apply (S_struct n); [exact IH|exact Hm].
  - intro Hn. cbn [nest3 simple] in Hn. destruct T; try discriminate Hn.
    + apply S_scalar; reflexivity.
    + apply S_scalar; reflexivity.
    + apply S_scalar; reflexivity.
    + pose proof (nest_nest3 _ T (le_n _) (simple_nest T Hn)) as Hn3.
      refine (S_slice (TNamed (TSlice T)) T v eq_refl eq_refl _ Hn3 eq_refl _ Hn); [cbn [ftsize]; lia|].
      intros x Hx. apply IH. unfold msz. pose proof (vsize_glist_le v x Hx). cbn [tsize] in Hm. lia.
    + pose proof (nest_nest3 _ T (le_n _) (simple_nest T Hn)) as Hn3.
      refine (S_map (TNamed (TMap T)) T v eq_refl eq_refl _ Hn3 eq_refl _ Hn); [cbn [ftsize]; lia|].
      intros kv Hx. apply IH. unfold msz. pose proof (vsize_gmap_le v kv Hx). cbn [tsize] in Hm. lia.
  - intro Hn. discriminate Hn.
Qed.
Print Assumptions S_all.

(* ====================================================================== *)
(* Part 6: C11, direct route                                                *)
(* ====================================================================== *)

Lemma ftsize_tsize t : ftsize t = tsize t.
Proof. reflexivity. Qed.

Lemma stream_tree_inv evs tr : stream_tree evs = Some tr -> evs = flatten tr.
Proof.
  unfold stream_tree. destruct (parse_tree (S (length evs)) evs) as [[t r]|] eqn:E; [|discriminate].
  destruct r; [|discriminate]. intro H. injection H as ->.
  destruct (parse_tree_sound _ _ _ _ E) as [H _]. rewrite app_nil_r in H. exact H.
Qed.

(* any stream describing the documented value of v unfolds to a value deeply equal to v *)
Theorem unfold_of_value : forall T v F0 c evs tr,
  nest3 T = true -> has_type T v = true -> ksorted T v = true ->
  spec_fold F0 T v = Some c ->
  stream_tree evs = Some tr -> wf_tree tr = true -> cv (value_of tr) = c ->
  exists v', unfold_value T (zero_of T) evs = UDone v' /\
             forall F, (ftsize T < F)%nat -> (F0 + 2 * cdepth c + 2 <= F)%nat ->
                       deep_eq F T (omit_view F T v) v' = true.
Proof.
  intros T v F0 c evs tr Hn Hh Hk Hsf Hst Hwf Hc.
  unfold has_type in Hh. apply andb_true_iff in Hh. destruct Hh as [Ht Hh].
  pose proof (stream_tree_inv evs tr Hst) as ->.
  destruct (S_all (msz T v) T v (le_n _) Hn Ht Hh Hk F0 c (expand_tree tr) Hsf (strict_expand tr)
              (expand_deep_wf tr Hwf) ltac:(rewrite cvt_expand; exact Hc)) as (N & Hu & _ & Hd).
  exists N. split; [|exact Hd].
  unfold unfold_value, ucc_type. rewrite (ucc_nest3 _ T Hn) by lia.
  rewrite <- expand_deep_is_flatten.
  rewrite <- (app_nil_r (flatten (expand_tree tr))) at 2. rewrite Hu by lia. reflexivity.
Qed.
Print Assumptions unfold_of_value.

(* C11 (direct route) for the fragment [nest3]: booleans, strings, numbers of every width,
   pointers, slices, string-keyed maps, structs (nested, inlined, with names, "-", omit,
   omitempty, unexported fields), defined scalar / slice / map types, and interface{} as the
   type of a struct field, slice element, map value or pointer target.  What an interface
   holds is ANY Go value that Fold accepts (of any type: arrays, defined types, structs with
   inlined maps or interfaces, ... - no restriction to the fragment); it comes back as generic
   data (a struct as a map[string]interface{}, ...), which [deep_eq] compares by the value it
   folds to.
   Hypotheses beyond C11_direct_nested_partial: strings, keys, field names and tags are byte
   strings ([has_type], needed by C12_fold). *)
Theorem C11_direct_iface_partial : forall T v evs,
  nest3 T = true -> has_type T v = true -> ksorted T v = true -> fold_value T v = (evs, None) ->
  exists v', unfold_value T (zero_of T) evs = UDone v' /\
             forall F, (3 * (tsize T + vsize v) + 6 <= F)%nat -> deep_eq F T (omit_view F T v) v' = true.
Proof.
  intros T v evs Hn Hh Hk H.
  destruct (C12_fold_fuel T v evs (S (tsize T + vsize v)) Hh H (le_n _)) as (tr & Hst & Hsf).
  pose proof (C09_fold T v evs Hh H) as Hc. unfold contract_ok in Hc. rewrite Hst in Hc.
  destruct (unfold_of_value T v _ _ evs tr Hn Hh Hk Hsf Hst Hc eq_refl) as (v' & Hu & Hd).
  exists v'. split; [exact Hu|]. intros F HF. pose proof (cdepth_fuel _ _ _ _ Hsf) as Hcd.
  apply Hd; [rewrite ftsize_tsize; lia|lia].
Qed.
Print Assumptions C11_direct_iface_partial.

(* ---------- an instance ---------- *)
(* struct { A interface{}; B interface{} `struct:",omitempty"`; C []interface{};
            D map[string]interface{}; E *interface{}; F int8; G inner `struct:",inline"` } *)
Definition ri_inner : gtype :=
  TStruct [([88], [], TNum KInt); ([89], [44] ++ s_omitempty, TPtr TString); ([122], [], TBool)].
Definition ri_inl : gtype := TStruct [([80], [], TIface); ([81], [44] ++ s_omitempty, TString)].
Definition ri_T : gtype :=
  TStruct [([65], [], TIface); ([66], [44] ++ s_omitempty, TIface); ([67], [], TSlice TIface);
           ([68], [], TMap TIface); ([69], [], TPtr TIface); ([70], [], TNum KInt8);
           ([71], [44] ++ s_inline, ri_inl)].
Definition ri_iv (a : Z) (s : gvalue) : gvalue := GStruct [GNum a; s; GBool true].
Definition ri_v (x y : gvalue) : gvalue :=
  GStruct [x; y; GList [x; GNil; y]; GMap [([97], x); ([98], y)]; GPtr x; GNum (-3); GStruct [y; GStr []]].
(* dynamic values: an int8, a string, a []interface{}, a map[string]interface{}, a struct, a
   pointer to a struct, nil, a nil *struct, a []byte, an array, an empty string, a nil slice *)
Definition ri_dyn : list gvalue :=
  [GIface (TNum KInt8) (GNum 5); GIface TString (GStr [104]);
   GIface (TSlice TIface) (GList [GIface TBool (GBool true); GNil]);
   GIface (TMap TIface) (GMap [([98], GIface (TNum KUint8) (GNum 7))]);
   GIface ri_inner (ri_iv 1 GNil); GIface (TPtr ri_inner) (GPtr (ri_iv 2 (GPtr (GStr [120]))));
   GNil; GIface (TPtr ri_inner) GNil; GIface (TSlice (TNum KUint8)) (GList [GNum 1; GNum 2]);
   GIface (TArray 2 TBool) (GList [GBool true; GBool false]); GIface TString (GStr []);
   GIface (TSlice TIface) GNil].
Definition ri_x : gvalue := GIface ri_inner (ri_iv 1 GNil).
Definition ri_y : gvalue := GIface (TMap TIface) (GMap [([98], GIface (TNum KUint8) (GNum 7))]).

Example C11_iface_example_hyps :
  nest3 ri_T = true /\
  forallb (fun x => forallb (fun y => has_type ri_T (ri_v x y) && ksorted ri_T (ri_v x y) &&
                                      match snd (fold_value ri_T (ri_v x y)) with None => true | _ => false end)
                            ri_dyn) ri_dyn = true.
Proof. vm_compute. split; reflexivity. Qed.

Example C11_iface_example_value :
  unfold_value ri_T (zero_of ri_T) (fst (fold_value ri_T (ri_v ri_x ri_y))) =
  UDone (GStruct
    [GIface (TMap TIface) (GMap [([120], GIface (TNum KInt64) (GNum 1))]);
     GIface (TMap TIface) (GMap [([98], GIface (TNum KUint8) (GNum 7))]);
     GList [GIface (TMap TIface) (GMap [([120], GIface (TNum KInt64) (GNum 1))]); GNil;
            GIface (TMap TIface) (GMap [([98], GIface (TNum KUint8) (GNum 7))])];
     GMap [([97], GIface (TMap TIface) (GMap [([120], GIface (TNum KInt64) (GNum 1))]));
           ([98], GIface (TMap TIface) (GMap [([98], GIface (TNum KUint8) (GNum 7))]))];
     GPtr (GIface (TMap TIface) (GMap [([120], GIface (TNum KInt64) (GNum 1))]));
     GNum (-3);
     GStruct [GIface (TMap TIface) (GMap [([98], GIface (TNum KUint8) (GNum 7))]); GStr []]]).
Proof. vm_compute. reflexivity. Qed.

Example C11_iface_example_thm :
  exists v', unfold_value ri_T (zero_of ri_T) (fst (fold_value ri_T (ri_v ri_x ri_y))) = UDone v' /\
    forall F, (3 * (tsize ri_T + vsize (ri_v ri_x ri_y)) + 6 <= F)%nat ->
              deep_eq F ri_T (omit_view F ri_T (ri_v ri_x ri_y)) v' = true.
Proof.
  apply (C11_direct_iface_partial ri_T (ri_v ri_x ri_y)); vm_compute; reflexivity.
Qed.

(* ====================================================================== *)
(* Part 7: C11 through a codec                                              *)
(* ====================================================================== *)

(* The key step: what the unfolder makes of a stream depends (up to deep equality) only on
   the canonical VALUE of the stream.  [cv] forgets exactly what a codec changes: integer
   widths (int8 vs int64 vs uint64), announced lengths, element types of containers, extended
   vs basic events, by-reference strings.  Integers convert by value (conv k' k z does not
   depend on the integer kind k' it arrives with); floats keep their width in [cv].
   So: ANY well-formed stream with the canonical value of the fold events unfolds into a zero
   target of type T to a value deeply equal to v. *)
Theorem C11_value_route : forall T v evs,
  nest3 T = true -> has_type T v = true -> ksorted T v = true -> fold_value T v = (evs, None) ->
  exists tr, stream_tree evs = Some tr /\ wf_tree tr = true /\
    spec_fold (S (tsize T + vsize v)) T v = Some (cv (value_of tr)) /\
    forall pevs t', stream_tree pevs = Some t' -> wf_tree t' = true ->
      cv (value_of t') = cv (value_of tr) ->
      exists v', unfold_value T (zero_of T) pevs = UDone v' /\
        forall F, (3 * (tsize T + vsize v) + 6 <= F)%nat -> deep_eq F T (omit_view F T v) v' = true.
Proof.
  intros T v evs Hn Hh Hk H.
  destruct (C12_fold_fuel T v evs (S (tsize T + vsize v)) Hh H (le_n _)) as (tr & Hst & Hsf).
  pose proof (C09_fold T v evs Hh H) as Hc. unfold contract_ok in Hc. rewrite Hst in Hc.
  exists tr. split; [exact Hst|]. split; [exact Hc|]. split; [exact Hsf|].
  intros pevs t' Hst' Hwf' Hcv.
  destruct (unfold_of_value T v _ _ pevs t' Hn Hh Hk Hsf Hst' Hwf' Hcv) as (v' & Hu & Hd).
  exists v'. split; [exact Hu|]. intros F HF. pose proof (cdepth_fuel _ _ _ _ Hsf) as Hcd.
  apply Hd; [rewrite ftsize_tsize; lia|lia].
Qed.
Print Assumptions C11_value_route.

(* ---------- CBOR ---------- *)
From SF Require Import Cbor.Enc Cbor.Parse.

(* lengths below 2^64 (true of every Go value; Coq lists are unbounded) *)
Definition cbor_small_stream (evs : list event) : bool :=
  match stream_tree evs with Some t => Cbor.RoundtripProofs.tree_small t | None => false end.

(* C11 through CBOR: the fold events, encoded by the CBOR encoder model, parsed by the CBOR
   parser model from any chunking of the bytes, and unfolded into a zero target *)
Theorem C11_cbor_route_partial : forall T v evs,
  nest3 T = true -> has_type T v = true -> ksorted T v = true -> fold_value T v = (evs, None) ->
  cbor_small_stream evs = true ->
  exists bs, cbor_encode evs = Some bs /\ all_bytes bs = true /\
    ((zlen bs <=? Cbor.ConformanceProofs.MaxInt64) = true -> forall cs, concat cs = bs ->
       exists pevs v', run_chunks None cs = Ok (pevs, nilE) /\
         unfold_value T (zero_of T) pevs = UDone v' /\
         forall F, (3 * (tsize T + vsize v) + 6 <= F)%nat -> deep_eq F T (omit_view F T v) v' = true).
Proof.
  intros T v evs Hn Hh Hk H Hsm.
  destruct (C11_value_route T v evs Hn Hh Hk H) as (tr & Hst & Hwf & _ & Hroute).
  unfold cbor_small_stream in Hsm. rewrite Hst in Hsm.
  destruct (Cbor.ComposeProofs.C01_cbor tr Hwf Hsm) as (bs & E & Hb & Hp).
  rewrite <- (stream_tree_inv evs tr Hst) in E.
  exists bs. split; [exact E|]. split; [exact Hb|]. intros Hsz cs Hcs.
  destruct (Hp Hsz cs Hcs) as (pevs & t' & Hrun & Hst' & Hwf' & Hcv).
  destruct (Hroute pevs t' Hst' Hwf' Hcv) as (v' & Hu & Hd).
  exists pevs, v'. auto.
Qed.
Print Assumptions C11_cbor_route_partial.

(* ---------- UBJSON ---------- *)
From SF Require Import Ubjson.Enc Ubjson.Img Ubjson.Parse.

(* no integer above MaxInt64 (finding F1/F3: UBJSON carries such a uint64 as a high-precision
   number, which the parser delivers as a STRING - a uint64 target then refuses it) *)
Fixpoint cv_noh (c : cvalue) : bool :=
  match c with
  | CNum (CInt z) => z <=? max_int64
  | CArr l => forallb cv_noh l
  | CObj ms => forallb (fun kv => cv_noh (snd kv)) ms
  | _ => true
  end.

Lemma scalar_img_noh s : cv_noh (cv (scalar_value s)) = true -> ubj_img_scalar s = cv (scalar_value s).
Proof.
  destruct s as [|b|s|k z]; try reflexivity. cbn [scalar_value cv ubj_img_scalar]. intro H.
  destruct (is_uint_kind k) eqn:Ek; [|reflexivity].
  destruct k; try discriminate Ek; cbn [canon_num cv_noh] in H; (replace (max_int64 <? z) with false by lia); reflexivity.
Qed.

Lemma xelems_noh bt es : forallb (xelem_ok bt) es = true -> is_uint_bt bt = true ->
  forallb (fun s => cv_noh (cv (scalar_value s))) es = true -> needs_h es = false.
Proof.
  intros Hw Hb Hn. unfold needs_h. induction es as [|s es IH]; [reflexivity|].
  cbn [forallb existsb] in *. apply andb_true_iff in Hw. destruct Hw as [Hs Hw].
  apply andb_true_iff in Hn. destruct Hn as [Hns Hn]. rewrite (IH Hw Hn), orb_false_r.
  unfold xelem_ok in Hs. destruct bt; try discriminate Hb; apply andb_true_iff in Hs; destruct Hs as [Hm _];
    destruct s as [| | |k z]; try discriminate Hm; destruct k; try discriminate Hm;
    cbn [scalar_value cv canon_num cv_noh snum] in *; lia.
Qed.

Lemma ubj_img_noh : forall tr, wf_tree tr = true -> cv_noh (cv (value_of tr)) = true ->
  ubj_img tr = cv (value_of tr).
Proof.
  induction tr as [s r|len bt es IH|len bt ms IH|bt es|bt ms] using tree_ind'; intros Hwf Hn.
  - apply scalar_img_noh. exact Hn.
  - cbn [ubj_img value_of cv cv_noh] in *. f_equal. rewrite map_map in *. apply map_ext_in. intros x Hx.
    rewrite Forall_forall in IH. rewrite wf_arr in Hwf. apply andb_true_iff in Hwf. destruct Hwf as [_ H3].
    rewrite forallb_forall in H3. rewrite forallb_map, forallb_forall in Hn. apply IH; auto.
  - cbn [ubj_img value_of cv cv_noh] in *. f_equal. rewrite map_map in *. apply map_ext_in. intros m Hm. cbn [fst snd].
    rewrite Forall_forall in IH. rewrite wf_obj in Hwf. apply andb_true_iff in Hwf. destruct Hwf as [_ H3].
    rewrite forallb_forall in H3. specialize (H3 m Hm). apply andb_true_iff in H3. destruct H3 as [_ H3].
    rewrite forallb_map, forallb_forall in Hn. specialize (Hn m Hm). cbn [snd] in Hn. f_equal. apply IH; auto.
  - cbn [ubj_img value_of cv cv_noh wf_tree] in *. rewrite map_map in *. rewrite forallb_map in Hn.
    destruct (is_uint_bt bt) eqn:Eb; cbn [andb]; [|reflexivity]. rewrite (xelems_noh bt es Hwf Eb Hn). reflexivity.
  - cbn [ubj_img value_of cv cv_noh wf_tree] in *. rewrite map_map in *. rewrite forallb_map in Hn. cbn [fst snd] in *.
    apply andb_true_iff in Hwf. destruct Hwf as [_ Hwf].
    destruct (is_uint_bt bt) eqn:Eb; cbn [andb]; [|reflexivity].
    rewrite (xelems_noh bt (map snd ms)); [reflexivity| |exact Eb|].
    + rewrite forallb_map. apply forallb_forall. intros m Hm. rewrite forallb_forall in Hwf. specialize (Hwf m Hm).
      apply andb_true_iff in Hwf. tauto.
    + rewrite forallb_map. exact Hn.
Qed.

Definition ubj_small_stream (evs : list event) : bool :=
  match stream_tree evs with Some t => Ubjson.RoundtripProofs.tree_small t | None => false end.

(* the documented value of v has no integer above MaxInt64 *)
Definition value_noh (T : gtype) (v : gvalue) : bool :=
  match spec_fold (S (tsize T + vsize v)) T v with Some c => cv_noh c | None => false end.

(* C11 through UBJSON.  Premises on the encoder output as in C01_ubj: at most MaxInt64 bytes,
   and the resource guard of the parser (no_huge_zero_typed).  Chunking: every chunking the
   parser model accepts delivers the same events. *)
Theorem C11_ubj_route_partial : forall T v evs,
  nest3 T = true -> has_type T v = true -> ksorted T v = true -> fold_value T v = (evs, None) ->
  ubj_small_stream evs = true -> value_noh T v = true ->
  exists bs, ubj_encode evs = Some bs /\ all_bytes bs = true /\
    ((zlen bs <=? Cbor.ConformanceProofs.MaxInt64) = true ->
     Ubjson.ConformanceProofs.no_huge_zero_typed bs = true ->
     exists pevs v' p, urun_parse None bs = Ok (pevs, unilE, p) /\
       (forall cs r, concat cs = bs -> urun_chunks None cs = Ok r -> fst r = (pevs, unilE)) /\
       unfold_value T (zero_of T) pevs = UDone v' /\
       forall F, (3 * (tsize T + vsize v) + 6 <= F)%nat -> deep_eq F T (omit_view F T v) v' = true).
Proof.
  intros T v evs Hn Hh Hk H Hsm Hnh.
  destruct (C11_value_route T v evs Hn Hh Hk H) as (tr & Hst & Hwf & Hsf & Hroute).
  unfold ubj_small_stream in Hsm. rewrite Hst in Hsm.
  unfold value_noh in Hnh. rewrite Hsf in Hnh.
  destruct (Core.ComposeProofs.C01_ubj tr Hwf Hsm) as (bs & E & Hb & Hp).
  rewrite <- (stream_tree_inv evs tr Hst) in E.
  exists bs. split; [exact E|]. split; [exact Hb|]. intros Hsz Hg.
  destruct (Hp Hsz Hg) as (pevs & t' & p & Hrun & Hst' & Hwf' & Hcv & Hch).
  rewrite (ubj_img_noh tr Hwf Hnh) in Hcv.
  destruct (Hroute pevs t' Hst' Hwf' Hcv) as (v' & Hu & Hd).
  exists pevs, v', p. auto.
Qed.
Print Assumptions C11_ubj_route_partial.

(* ---------- JSON ---------- *)
From SF Require Import Base.Utf8 Json.Enc Json.Parse.

(* the documented value has no floats, and its strings and keys are valid UTF-8: then the
   JSON image of the fold events (json_img: floats as read back by ParseFloat, strings
   sanitized) is the value itself *)
Fixpoint cv_exact (c : cvalue) : bool :=
  match c with
  | CStr s => utf8_valid s
  | CNum (CInt _) => true
  | CNum _ => false
  | CArr l => forallb cv_exact l
  | CObj ms => forallb (fun kv => utf8_valid (fst kv) && cv_exact (snd kv)) ms
  | _ => true
  end.

Lemma scalar_exact_cv s : cv_exact (cv (scalar_value s)) = true -> Json.RoundtripProofs.scalar_exact s = true.
Proof. destruct s as [|b|s|k z]; try reflexivity; [exact (fun H => H)|]. destruct k; try reflexivity; discriminate. Qed.

Lemma tree_exact_cv : forall tr, cv_exact (cv (value_of tr)) = true -> Json.RoundtripProofs.tree_exact tr = true.
Proof.
  induction tr as [s r|len bt es IH|len bt ms IH|bt es|bt ms] using tree_ind'; intro H.
  - apply scalar_exact_cv. exact H.
  - cbn [value_of cv cv_exact Json.RoundtripProofs.tree_exact] in *. rewrite map_map, forallb_map in H.
    apply forallb_forall. intros x Hx. rewrite Forall_forall in IH. rewrite forallb_forall in H. apply IH; auto.
  - cbn [value_of cv cv_exact Json.RoundtripProofs.tree_exact] in *. rewrite map_map, forallb_map in H.
    apply forallb_forall. intros m Hm. rewrite Forall_forall in IH. rewrite forallb_forall in H.
    specialize (H m Hm). cbn [fst snd] in H. apply andb_true_iff in H. destruct H as [H1 H2].
    rewrite H1. apply IH; auto.
  - cbn [value_of cv cv_exact Json.RoundtripProofs.tree_exact] in *. rewrite map_map, forallb_map in H.
    apply forallb_forall. intros x Hx. rewrite forallb_forall in H. apply scalar_exact_cv. apply H. exact Hx.
  - cbn [value_of cv cv_exact Json.RoundtripProofs.tree_exact] in *. rewrite map_map, forallb_map in H.
    apply forallb_forall. intros m Hm. rewrite forallb_forall in H. specialize (H m Hm). cbn [fst snd] in H.
    apply andb_true_iff in H. destruct H as [H1 H2]. rewrite H1. apply scalar_exact_cv. exact H2.
Qed.

Lemma cv_exact_finite : forall c, cv_exact c = true -> Core.ComposeProofs.cv_finite c = true.
Proof.
  induction c as [| b | s | n | vs IH | kvs IH] using Core.ComposeProofs.cvalue_ind'; intro H; try reflexivity.
  - destruct n; try discriminate H; reflexivity.
  - cbn [cv_exact Core.ComposeProofs.cv_finite] in *. apply forallb_forall. intros x Hx.
    rewrite Forall_forall in IH. rewrite forallb_forall in H. apply IH; auto.
  - cbn [cv_exact Core.ComposeProofs.cv_finite] in *. apply forallb_forall. intros x Hx.
    rewrite Forall_forall in IH. rewrite forallb_forall in H. specialize (H x Hx). apply andb_true_iff in H.
    apply IH; tauto.
Qed.

Definition value_exact (T : gtype) (v : gvalue) : bool :=
  match spec_fold (S (tsize T + vsize v)) T v with Some c => cv_exact c | None => false end.

Section JsonRoute.
  Import Json.EncProofs Json.RoundtripProofs Json.Spec.

  Variable ffmt : Z -> Z -> bytes.        (* strconv.AppendFloat(_, f, 'g', -1, w) on the bit pattern *)
  Variable pf : bytes -> option Z.         (* strconv.ParseFloat(_, 64) as bits; None = range error *)
  Variable fimg : Z -> Z -> cnum.
  Variable fbits_r : Z -> Z -> Z.

  (* the hypotheses of Core/ComposeProofs.v (JsonCompose) *)
  Hypothesis ffmt_number : forall w bits, w = 32 \/ w = 64 -> in_u w bits = true ->
    nonfinite w bits = false ->
    exists isint, json_number (ffmt w bits) = NumOk (ffmt w bits) isint [] /\
                  json_num_value pf (ffmt w bits) isint = Some (fimg w bits).
  Hypothesis ffmt_chars : forall w bits, w = 32 \/ w = 64 -> in_u w bits = true ->
    nonfinite w bits = false -> Forall (fun c => In c fchars) (ffmt w bits).
  Hypothesis pf_radix : forall w bits, w = 32 \/ w = 64 -> in_u w bits = true ->
    nonfinite w bits = false -> snd (radix_scan (ffmt w bits) 0) = true ->
    pf (radix_patch (ffmt w bits)) = Some (fbits_r w bits).
  Hypothesis pf_ok : forall l z, pf l = Some z -> in_u 64 z = true.

  (* C11 through JSON, for values without floats whose strings and keys are valid UTF-8
     (integers of every width, booleans, strings, pointers, slices, maps, structs, interfaces):
     any encoder configuration, any chunking *)
  Theorem C11_json_route_partial : forall cfg T v evs,
    nest3 T = true -> has_type T v = true -> ksorted T v = true -> fold_value T v = (evs, None) ->
    value_exact T v = true ->
    exists e' pevs v' p,
      json_run cfg ffmt (jenc0 None) evs 0 = JRun e' None /\
      all_bytes (w_bytes (je_w e')) = true /\
      jrun_parse pf None (w_bytes (je_w e')) = Ok (pevs, jpnil, p) /\
      (forall cs, concat cs = w_bytes (je_w e') -> exists p', jrun_chunks pf None cs = Ok (pevs, jpnil, p')) /\
      unfold_value T (zero_of T) pevs = UDone v' /\
      forall F, (3 * (tsize T + vsize v) + 6 <= F)%nat -> deep_eq F T (omit_view F T v) v' = true.
  Proof using ffmt_number ffmt_chars pf_radix pf_ok.
    intros cfg T v evs Hn Hh Hk H Hex.
    destruct (C11_value_route T v evs Hn Hh Hk H) as (tr & Hst & Hwf & Hsf & Hroute).
    unfold value_exact in Hex. rewrite Hsf in Hex.
    pose proof (tree_exact_cv tr Hex) as Hte.
    pose proof (Core.ComposeProofs.tree_finite_cv tr (cv_exact_finite _ Hex)) as Hfin.
    destruct (Core.ComposeProofs.C01_json ffmt pf fimg fbits_r ffmt_number ffmt_chars pf_radix pf_ok cfg tr Hwf (or_intror Hfin))
      as (e' & pevs & t' & p & Hrun & Hb & Hp & Hst' & Hwf' & Hcv & Hch).
    rewrite (json_img_exact _ _ _ cfg tr Hte) in Hcv.
    rewrite <- (stream_tree_inv evs tr Hst) in Hrun.
    destruct (Hroute pevs t' Hst' Hwf' Hcv) as (v' & Hu & Hd).
    exists e', pevs, v', p. auto 8.
  Qed.
End JsonRoute.
Print Assumptions C11_json_route_partial.

(* ---------- the numeric conversions depend on the canonical number only ---------- *)
(* (whatever the target kind and whether or not the value fits: an integer is converted by
   value, a float keeps its width in the canonical number) *)
Lemma conv_cv k1 z1 k2 z2 k : canon_num k1 z1 = canon_num k2 z2 -> conv k1 k z1 = conv k2 k z2.
Proof.
  intro H. destruct k1; destruct k2; cbn [canon_num] in H; try discriminate H; injection H as ->; reflexivity.
Qed.

(* but an interface{} target keeps the kind the number arrives with: streams with the same
   canonical value give different (deeply equal) values - so the results of two streams with
   the same value are related by deep_eq, not by equality *)
Example iface_target_keeps_kind :
  cv (value_of (TVal (SNum KInt64 5) false)) = cv (value_of (TVal (SNum KUint8 5) false)) /\
  unfold_value TIface GNil [EVal (SNum KInt64 5)] = UDone (GIface (TNum KInt64) (GNum 5)) /\
  unfold_value TIface GNil [EVal (SNum KUint8 5)] = UDone (GIface (TNum KUint8) (GNum 5)) /\
  deep_eq 3 TIface (GIface (TNum KInt64) (GNum 5)) (GIface (TNum KUint8) (GNum 5)) = true.
Proof. vm_compute. repeat split; reflexivity. Qed.

(* ---------- instances ---------- *)
Definition ri_val : gvalue := ri_v ri_x ri_y.
Definition ri_evs : list event := fst (fold_value ri_T ri_val).

Lemma ri_nest : nest3 ri_T = true. Proof. vm_compute. reflexivity. Qed.
Lemma ri_has_type : has_type ri_T ri_val = true. Proof. vm_compute. reflexivity. Qed.
Lemma ri_ksorted : ksorted ri_T ri_val = true. Proof. vm_compute. reflexivity. Qed.
Lemma ri_fold : fold_value ri_T ri_val = (ri_evs, None). Proof. vm_compute. reflexivity. Qed.
Lemma ri_cbor_small : cbor_small_stream ri_evs = true. Proof. vm_compute. reflexivity. Qed.
Lemma ri_ubj_small : ubj_small_stream ri_evs = true. Proof. vm_compute. reflexivity. Qed.
Lemma ri_noh : value_noh ri_T ri_val = true. Proof. vm_compute. reflexivity. Qed.
Lemma ri_exact : value_exact ri_T ri_val = true. Proof. vm_compute. reflexivity. Qed.

Example C11_cbor_example :
  exists bs, cbor_encode ri_evs = Some bs /\ (zlen bs <=? Cbor.ConformanceProofs.MaxInt64) = true /\
    forall cs, concat cs = bs ->
      exists pevs v', run_chunks None cs = Ok (pevs, nilE) /\
        unfold_value ri_T (zero_of ri_T) pevs = UDone v' /\
        forall F, (3 * (tsize ri_T + vsize ri_val) + 6 <= F)%nat -> deep_eq F ri_T (omit_view F ri_T ri_val) v' = true.
Proof.
  destruct (C11_cbor_route_partial ri_T ri_val ri_evs ri_nest ri_has_type ri_ksorted ri_fold ri_cbor_small) as (bs & E & Hb & Hp).
  exists bs. split; [exact E|].
  assert (Hsz : (zlen bs <=? Cbor.ConformanceProofs.MaxInt64) = true).
  { pose proof E as E2. vm_compute in E2. injection E2 as <-. vm_compute. reflexivity. }
  split; [exact Hsz|]. exact (Hp Hsz).
Qed.

(* the same computed: the bytes cut after the 7th, what the parser delivers (integers as
   uint8 / int8, by-reference keys, announced lengths), what the unfolder makes of it *)
Example C11_cbor_example_computed :
  match cbor_encode ri_evs with
  | Some bs =>
      match run_chunks None [firstn 7 bs; skipn 7 bs] with
      | Ok (pevs, e) =>
          e = nilE /\
          unfold_value ri_T (zero_of ri_T) pevs =
          UDone (GStruct
            [GIface (TMap TIface) (GMap [([120], GIface (TNum KUint8) (GNum 1))]);
             GIface (TMap TIface) (GMap [([98], GIface (TNum KUint8) (GNum 7))]);
             GList [GIface (TMap TIface) (GMap [([120], GIface (TNum KUint8) (GNum 1))]); GNil;
                    GIface (TMap TIface) (GMap [([98], GIface (TNum KUint8) (GNum 7))])];
             GMap [([97], GIface (TMap TIface) (GMap [([120], GIface (TNum KUint8) (GNum 1))]));
                   ([98], GIface (TMap TIface) (GMap [([98], GIface (TNum KUint8) (GNum 7))]))];
             GPtr (GIface (TMap TIface) (GMap [([120], GIface (TNum KUint8) (GNum 1))]));
             GNum (-3);
             GStruct [GIface (TMap TIface) (GMap [([98], GIface (TNum KUint8) (GNum 7))]); GStr []]])
      | _ => False
      end
  | None => False
  end.
Proof. vm_compute. split; reflexivity. Qed.

Example C11_ubj_example :
  exists bs, ubj_encode ri_evs = Some bs /\ (zlen bs <=? Cbor.ConformanceProofs.MaxInt64) = true /\
    Ubjson.ConformanceProofs.no_huge_zero_typed bs = true /\
    exists pevs v' p, urun_parse None bs = Ok (pevs, unilE, p) /\
      unfold_value ri_T (zero_of ri_T) pevs = UDone v' /\
      forall F, (3 * (tsize ri_T + vsize ri_val) + 6 <= F)%nat -> deep_eq F ri_T (omit_view F ri_T ri_val) v' = true.
Proof.
  destruct (C11_ubj_route_partial ri_T ri_val ri_evs ri_nest ri_has_type ri_ksorted ri_fold ri_ubj_small ri_noh) as (bs & E & Hb & Hp).
  exists bs. split; [exact E|].
  assert (Hsz : (zlen bs <=? Cbor.ConformanceProofs.MaxInt64) = true /\ Ubjson.ConformanceProofs.no_huge_zero_typed bs = true).
  { pose proof E as E2. vm_compute in E2. injection E2 as <-. vm_compute. split; reflexivity. }
  destruct Hsz as [Hsz Hg]. split; [exact Hsz|]. split; [exact Hg|].
  destruct (Hp Hsz Hg) as (pevs & v' & p & H1 & _ & H3 & H4). exists pevs, v', p. auto.
Qed.

(* Why [value_noh] is a premise (finding F1/F3): a uint64 above MaxInt64 is written as a
   high-precision number ('H'), which the UBJSON parser delivers as a string; a uint64
   target refuses it.  Fold accepts the value, the encoder accepts the events, the parser
   accepts the bytes - the round trip fails at the first event. *)
Example C11_ubj_counterexample :
  let T := TNum KUint64 in let v := GNum (2 ^ 63) in
  has_type T v = true /\ value_noh T v = false /\
  fold_value T v = ([EVal (SNum KUint64 (2 ^ 63))], None) /\
  match ubj_encode [EVal (SNum KUint64 (2 ^ 63))] with
  | Some bs =>
      match urun_parse None bs with
      | Ok (pevs, e, _) =>
          e = unilE /\ pevs = [EStrRef [57; 50; 50; 51; 51; 55; 50; 48; 51; 54; 56; 53; 52; 55; 55; 53; 56; 48; 56]] /\
          unfold_value T (zero_of T) pevs = UFail 0
      | _ => False
      end
  | None => False
  end.
Proof. vm_compute. repeat split; reflexivity. Qed.

Example C11_json_example :
  let toy := Core.ComposeProofs.ComposeExamples.toy_ffmt in
  let tpf := Core.ComposeProofs.ComposeExamples.toy_pf in
  forall cfg, exists e' pevs v' p,
    json_run cfg toy (jenc0 None) ri_evs 0 = JRun e' None /\
    jrun_parse tpf None (w_bytes (je_w e')) = Ok (pevs, jpnil, p) /\
    unfold_value ri_T (zero_of ri_T) pevs = UDone v' /\
    forall F, (3 * (tsize ri_T + vsize ri_val) + 6 <= F)%nat -> deep_eq F ri_T (omit_view F ri_T ri_val) v' = true.
Proof.
  intros toy tpf cfg.
  destruct (C11_json_route_partial _ _ _ _ Core.ComposeProofs.ComposeExamples.toy_number
              Core.ComposeProofs.ComposeExamples.toy_chars Core.ComposeProofs.ComposeExamples.toy_radix
              Core.ComposeProofs.ComposeExamples.toy_pf_ok cfg ri_T ri_val ri_evs ri_nest ri_has_type ri_ksorted ri_fold ri_exact)
    as (e' & pevs & v' & p & H1 & _ & H3 & _ & H5 & H6).
  exists e', pevs, v', p. auto.
Qed.

(* Why [value_exact] excludes floats even where Go's strconv round-trips them: a float64
   held by an interface{} whose shortest text has no fraction or exponent (0.0 -> "0") is
   read back by the JSON parser as an integer, and the interface{} target then holds an int64,
   not a float64 - not deeply equal (reflect.DeepEqual(float64(0), int64(0)) is false).  A
   float64-typed field receiving the same event converts it back (0).  (The toy oracle prints
   bits 0 as "0", as strconv does.)  With explicit_radix the text would be "0.0". *)
Example C11_json_float_in_interface_counterexample :
  let T := TStruct [([65], [], TIface); ([66], [], TNum KFloat64)] in
  let v := GStruct [GIface (TNum KFloat64) (GNum 0); GNum 0] in
  let cfg := {| escape_html := false; ignore_invalid := false; explicit_radix := false |} in
  nest3 T = true /\ has_type T v = true /\ value_exact T v = false /\
  match json_run cfg Core.ComposeProofs.ComposeExamples.toy_ffmt (jenc0 None) (fst (fold_value T v)) 0 with
  | JRun e' None =>
      w_bytes (je_w e') = [123; 34; 97; 34; 58; 48; 44; 34; 98; 34; 58; 48; 125] /\     (* {"a":0,"b":0} *)
      match jrun_parse Core.ComposeProofs.ComposeExamples.toy_pf None (w_bytes (je_w e')) with
      | Ok (pevs, e, _) =>
          e = jpnil /\
          unfold_value T (zero_of T) pevs = UDone (GStruct [GIface (TNum KInt64) (GNum 0); GNum 0]) /\
          deep_eq 30 T (omit_view 30 T v) (GStruct [GIface (TNum KInt64) (GNum 0); GNum 0]) = false
      | _ => False
      end
  | _ => False
  end.
Proof. vm_compute. repeat split; reflexivity. Qed.
