(* L1 model of gotype/symbols.go (the unfolder's key cache) and its L0 spec.

   Go state:   m   map[string]*symbol      -> lm   : assoc list key -> value stored in the symbol
               lst doubly linked ring       -> llst : the ring read from lst.next (oldest first)
               max int                      -> lmax
   A *symbol carries the string it was created with; [lm] maps a key to that
   string, [llst] lists the strings of the ring cells in ring order.
   get returns (string, provenance): the provenance says whether the returned
   string shares memory with the caller's []byte (C15/C20: it must not). *)
From SF Require Import Base.Prelude.
Open Scope Z_scope.

Inductive prov := Fresh | AliasInput.

Record lru := { lmax : Z; lm : list (bytes * bytes); llst : list bytes }.

Definition lru_init (max : Z) : lru := {| lmax := max; lm := []; llst := [] |}.

Fixpoint assoc_find (k : bytes) (m : list (bytes * bytes)) : option bytes :=
  match m with
  | [] => None
  | (k', v) :: r => if bytes_eqb k k' then Some v else assoc_find k r
  end.

Fixpoint assoc_del (k : bytes) (m : list (bytes * bytes)) : list (bytes * bytes) :=
  match m with
  | [] => []
  | (k', v) :: r => if bytes_eqb k k' then assoc_del k r else (k', v) :: assoc_del k r
  end.

Fixpoint list_del (k : bytes) (l : list bytes) : list bytes :=
  match l with
  | [] => []
  | x :: r => if bytes_eqb k x then r else x :: list_del k r
  end.

(* symbolCache.lookup: on a hit unlink the symbol and append it at the back. *)
Definition lru_lookup (c : lru) (k : bytes) : option (bytes * lru) :=
  match assoc_find k (lm c) with
  | Some v => Some (v, {| lmax := lmax c; lm := lm c; llst := list_del v (llst c) ++ [v] |})
  | None => None
  end.

(* symbolCache.add (after the fix: a full cache with nothing to evict caches nothing;
   before the fix this was a nil dereference = Panic 1). *)
Definition lru_add (c : lru) (k : bytes) : res lru :=
  if zlen (lm c) =? lmax c then
    match llst c with
    | [] => Ok c
    | old :: rest =>
        Ok {| lmax := lmax c; lm := (k, k) :: assoc_del old (lm c); llst := rest ++ [k] |}
    end
  else Ok {| lmax := lmax c; lm := (k, k) :: lm c; llst := llst c ++ [k] |}.

(* symbolCache.get on an enabled cache. *)
Definition lru_get (c : lru) (k : bytes) : res (bytes * prov * lru) :=
  match lru_lookup c k with
  | Some (v, c') => Ok (v, Fresh, c')
  | None => c' <- lru_add c k ;; Ok (k, Fresh, c')
  end.

(* A history of gets: returned strings and the final cache. *)
Fixpoint lru_run (c : lru) (ks : list bytes) : res (list bytes * lru) :=
  match ks with
  | [] => Ok ([], c)
  | k :: r =>
      '(v, _, c') <- lru_get c k ;;
      '(vs, c'') <- lru_run c' r ;;
      Ok (v :: vs, c'')
  end.

(* ---------- L0: abstract LRU over a list of keys, oldest first ---------- *)
Definition spec_get (max : Z) (l : list bytes) (k : bytes) : list bytes :=
  if existsb (bytes_eqb k) l then list_del k l ++ [k]
  else if zlen l =? max then
         match l with [] => [] | _ :: r => r ++ [k] end
       else l ++ [k].

Fixpoint spec_run (max : Z) (l : list bytes) (ks : list bytes) : list bytes :=
  match ks with [] => l | k :: r => spec_run max (spec_get max l k) r end.
