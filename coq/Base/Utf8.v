(* unicode/utf8 and unicode/utf16 as documented (Go standard library; modelled,
   sampled against the real functions by the harness). *)
From SF Require Import Base.Prelude.
Open Scope Z_scope.

Definition rune_error := 65533.

Definition cont_byte (b : Z) : bool := (128 <=? b) && (b <=? 191).

(* utf8.DecodeRune: (rune, size); (RuneError, 1) on any invalid or short encoding *)
Definition decode_rune (p : bytes) : Z * Z :=
  match p with
  | [] => (rune_error, 0)
  | p0 :: r =>
      if p0 <? 128 then (p0, 1)
      else if (p0 <? 194) || (244 <? p0) then (rune_error, 1)
      else if p0 <? 224 then
        match r with
        | b1 :: _ => if cont_byte b1 then ((p0 - 192) * 64 + (b1 - 128), 2) else (rune_error, 1)
        | _ => (rune_error, 1)
        end
      else if p0 <? 240 then
        match r with
        | b1 :: b2 :: _ =>
            let lo := if p0 =? 224 then 160 else 128 in
            let hi := if p0 =? 237 then 159 else 191 in
            if (lo <=? b1) && (b1 <=? hi) && cont_byte b2
            then ((p0 - 224) * 4096 + (b1 - 128) * 64 + (b2 - 128), 3) else (rune_error, 1)
        | _ => (rune_error, 1)
        end
      else
        match r with
        | b1 :: b2 :: b3 :: _ =>
            let lo := if p0 =? 240 then 144 else 128 in
            let hi := if p0 =? 244 then 143 else 191 in
            if (lo <=? b1) && (b1 <=? hi) && cont_byte b2 && cont_byte b3
            then ((p0 - 240) * 262144 + (b1 - 128) * 4096 + (b2 - 128) * 64 + (b3 - 128), 4)
            else (rune_error, 1)
        | _ => (rune_error, 1)
        end
  end.

Definition is_surrogate (r : Z) : bool := (55296 <=? r) && (r <? 57344).

(* utf8.EncodeRune *)
Definition encode_rune (r : Z) : bytes :=
  let r := if (r <? 0) || (1114111 <? r) || is_surrogate r then rune_error else r in
  if r <=? 127 then [r]
  else if r <=? 2047 then [192 + r / 64; 128 + r mod 64]
  else if r <=? 65535 then [224 + r / 4096; 128 + (r / 64) mod 64; 128 + r mod 64]
  else [240 + r / 262144; 128 + (r / 4096) mod 64; 128 + (r / 64) mod 64; 128 + r mod 64].

(* utf16.DecodeRune *)
Definition utf16_decode (r1 r2 : Z) : Z :=
  if (55296 <=? r1) && (r1 <? 56320) && (56320 <=? r2) && (r2 <? 57344)
  then (r1 - 55296) * 1024 + (r2 - 56320) + 65536 else rune_error.

Definition hexval (c : Z) : option Z :=
  if (48 <=? c) && (c <=? 57) then Some (c - 48)
  else if (97 <=? c) && (c <=? 102) then Some (c - 87)
  else if (65 <=? c) && (c <=? 70) then Some (c - 55)
  else None.

(* strconv.ParseUint(s, 16, 64) on exactly four characters *)
Definition parse_hex4 (l : bytes) : option Z :=
  match l with
  | [a; b; c; d] =>
      match hexval a, hexval b, hexval c, hexval d with
      | Some x, Some y, Some z, Some w => Some (x * 4096 + y * 256 + z * 16 + w)
      | _, _, _, _ => None
      end
  | _ => None
  end.

Definition hexdigit (n : Z) : Z := if n <? 10 then 48 + n else 87 + n.

(* replace every invalid byte by U+FFFD (what the JSON encoder does to a string) *)
Fixpoint sanitize_fuel (fuel : nat) (s : bytes) : bytes :=
  match fuel with
  | O => []
  | S f =>
      match s with
      | [] => []
      | b :: r =>
          let '(c, sz) := decode_rune s in
          if (c =? rune_error) && (sz =? 1) then [239; 191; 189] ++ sanitize_fuel f r
          else firstn (Z.to_nat sz) s ++ sanitize_fuel f (skipn (Z.to_nat sz) s)
      end
  end.
Definition sanitize (s : bytes) : bytes := sanitize_fuel (length s) s.

Definition utf8_valid (s : bytes) : bool := bytes_eqb (sanitize s) s.
