(* Base vocabulary shared by all models: bytes, outcomes, two's complement,
   big-endian numbers.  No axioms, stdlib only. *)
From Coq Require Export List NArith ZArith Bool Lia.
From Coq Require Import ZifyBool ZifyNat ZifyN.
Export ListNotations.
Open Scope Z_scope.

Ltac Zify.zify_post_hook ::= Z.div_mod_to_equations.

(* A byte is a Z in [0,256).  Byte strings are lists. *)
Definition byte := Z.
Definition bytes := list Z.

Definition is_byte (b : Z) : bool := (0 <=? b) && (b <? 256).
Definition all_bytes (l : bytes) : bool := forallb is_byte l.

(* Outcomes a Go call can have. *)
Inductive res (A : Type) : Type :=
| Ok (a : A)
| Err (e : Z)          (* error class, small enum per component *)
| Panic (why : Z)
| OutOfFuel.
Arguments Ok {A} a.
Arguments Err {A} e.
Arguments Panic {A} why.
Arguments OutOfFuel {A}.

Definition bind {A B} (r : res A) (f : A -> res B) : res B :=
  match r with
  | Ok a => f a
  | Err e => Err e
  | Panic w => Panic w
  | OutOfFuel => OutOfFuel
  end.
Notation "x <- r ;; k" := (bind r (fun x => k))
  (at level 61, r at next level, right associativity).
Notation "' p <- r ;; k" := (bind r (fun p => k))
  (at level 61, p pattern, r at next level, right associativity).

Definition is_ok {A} (r : res A) : bool := match r with Ok _ => true | _ => false end.
Definition is_err {A} (r : res A) : bool := match r with Err _ => true | _ => false end.
Definition no_crash {A} (r : res A) : bool :=
  match r with Ok _ | Err _ => true | _ => false end.

(* Two's complement. *)
Definition wrapu (w : Z) (z : Z) : Z := z mod 2 ^ w.
Definition wraps (w : Z) (z : Z) : Z :=
  let m := z mod 2 ^ w in if m <? 2 ^ (w - 1) then m else m - 2 ^ w.

Definition in_u (w z : Z) : bool := (0 <=? z) && (z <? 2 ^ w).
Definition in_s (w z : Z) : bool := (- 2 ^ (w - 1) <=? z) && (z <? 2 ^ (w - 1)).

(* Big-endian encoding of n in k bytes. *)
Fixpoint be_enc (k : nat) (n : Z) : bytes :=
  match k with
  | O => []
  | S k' => ((n / 256 ^ Z.of_nat k') mod 256) :: be_enc k' n
  end.

Fixpoint be_dec_acc (acc : Z) (l : bytes) : Z :=
  match l with
  | [] => acc
  | b :: r => be_dec_acc (acc * 256 + b) r
  end.
Definition be_dec (l : bytes) : Z := be_dec_acc 0 l.

Fixpoint list_eqb {A} (eqb : A -> A -> bool) (a b : list A) : bool :=
  match a, b with
  | [], [] => true
  | x :: a', y :: b' => eqb x y && list_eqb eqb a' b'
  | _, _ => false
  end.
Definition bytes_eqb : bytes -> bytes -> bool := list_eqb Z.eqb.

Definition zlen {A} (l : list A) : Z := Z.of_nat (length l).

Definition opt_bind {A B} (o : option A) (f : A -> option B) : option B :=
  match o with Some a => f a | None => None end.
