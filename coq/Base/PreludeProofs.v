From SF Require Import Base.Prelude.
From Coq Require Import ZifyBool ZifyNat ZifyN.
Open Scope Z_scope.

Lemma list_eqb_spec {A} (eqb : A -> A -> bool)
  (H : forall x y, eqb x y = true <-> x = y) :
  forall a b, list_eqb eqb a b = true <-> a = b.
Proof.
  induction a as [|x a IH]; destruct b as [|y b]; cbn; split; intro E;
    try reflexivity; try discriminate.
  - apply andb_true_iff in E as [E1 E2]. apply H in E1. apply IH in E2. congruence.
  - inversion E; subst. apply andb_true_iff; split; [apply H | apply IH]; reflexivity.
Qed.

Lemma bytes_eqb_spec a b : bytes_eqb a b = true <-> a = b.
Proof. apply list_eqb_spec. intros; apply Z.eqb_eq. Qed.

Lemma bytes_eqb_refl a : bytes_eqb a a = true.
Proof. apply bytes_eqb_spec; reflexivity. Qed.

Lemma be_enc_length k n : length (be_enc k n) = k.
Proof. induction k; cbn; congruence. Qed.

Lemma be_enc_bytes k n : all_bytes (be_enc k n) = true.
Proof.
  unfold all_bytes. induction k as [|k IH]; cbn [be_enc forallb]; [reflexivity|].
  rewrite IH, andb_true_r. unfold is_byte.
  pose proof (Z.mod_pos_bound (n / 256 ^ Z.of_nat k) 256 ltac:(lia)). lia.
Qed.

Lemma be_dec_acc_enc_mod k : forall acc n,
  be_dec_acc acc (be_enc k n) = acc * 256 ^ Z.of_nat k + n mod 256 ^ Z.of_nat k.
Proof.
  induction k as [|k IH]; intros acc n.
  - cbn. rewrite Z.mod_1_r. lia.
  - cbn [be_enc be_dec_acc]. rewrite IH.
    replace (Z.of_nat (S k)) with (Z.of_nat k + 1) by lia.
    rewrite Z.pow_add_r by lia. change (256 ^ 1) with 256.
    set (p := 256 ^ Z.of_nat k).
    assert (Hp : 0 < p) by (apply Z.pow_pos_nonneg; lia).
    rewrite (Z.rem_mul_r n p 256) by lia. lia.
Qed.

Lemma be_dec_acc_enc k acc n : 0 <= n < 256 ^ Z.of_nat k ->
  be_dec_acc acc (be_enc k n) = acc * 256 ^ Z.of_nat k + n.
Proof. intro H. rewrite be_dec_acc_enc_mod. rewrite Z.mod_small by lia. reflexivity. Qed.

Lemma be_dec_enc k n : 0 <= n < 256 ^ Z.of_nat k -> be_dec (be_enc k n) = n.
Proof. intro H. unfold be_dec. rewrite be_dec_acc_enc by assumption. lia. Qed.

Lemma be_dec_acc_app a b : forall acc,
  be_dec_acc acc (a ++ b) = be_dec_acc (be_dec_acc acc a) b.
Proof. induction a as [|x a IH]; intro acc; cbn; [reflexivity | apply IH]. Qed.

Lemma be_dec_acc_bound l : forall acc, all_bytes l = true -> 0 <= acc ->
  0 <= be_dec_acc acc l < (acc + 1) * 256 ^ Z.of_nat (length l).
Proof.
  induction l as [|b l IH]; intros acc Hb Hacc.
  - cbn. lia.
  - cbn [all_bytes forallb] in Hb. apply andb_true_iff in Hb as [Hb1 Hb2].
    unfold is_byte in Hb1. cbn [be_dec_acc length].
    specialize (IH (acc * 256 + b) Hb2 ltac:(lia)).
    replace (Z.of_nat (S (length l))) with (Z.of_nat (length l) + 1) by lia.
    rewrite Z.pow_add_r by lia. change (256 ^ 1) with 256.
    assert (0 < 256 ^ Z.of_nat (length l)) by (apply Z.pow_pos_nonneg; lia).
    nia.
Qed.

Lemma be_dec_bound l : all_bytes l = true -> 0 <= be_dec l < 256 ^ Z.of_nat (length l).
Proof. intro H. pose proof (be_dec_acc_bound l 0 H ltac:(lia)). unfold be_dec. lia. Qed.

Lemma wrapu_small w z : 0 <= w -> 0 <= z < 2 ^ w -> wrapu w z = z.
Proof. intros. unfold wrapu. apply Z.mod_small. lia. Qed.

Lemma wraps_small w z : 0 < w -> - 2 ^ (w - 1) <= z < 2 ^ (w - 1) -> wraps w z = z.
Proof.
  intros Hw Hz. unfold wraps.
  assert (E : 2 ^ w = 2 * 2 ^ (w - 1)).
  { replace w with ((w - 1) + 1) at 1 by lia. rewrite Z.pow_add_r by lia. lia. }
  assert (0 < 2 ^ (w - 1)) by (apply Z.pow_pos_nonneg; lia).
  destruct (Z_lt_le_dec z 0).
  - replace (z mod 2 ^ w) with (z + 2 ^ w).
    + destruct (Z.ltb_spec (z + 2 ^ w) (2 ^ (w - 1))); lia.
    + apply Z.mod_unique with (q := -1); lia.
  - rewrite Z.mod_small by lia. destruct (Z.ltb_spec z (2 ^ (w - 1))); lia.
Qed.
