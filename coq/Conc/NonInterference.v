(* C19: independent instances do not interfere.  Generic part, proved once: if every
   operation reads the (frozen) package-level state and reads and writes only the instance
   it is invoked on, then under ANY interleaving of the operations of any number of
   instances each instance ends in the state, and produces the outputs, of running its own
   operations alone.  The premise "package-level state is frozen after init" is a table
   regenerated from the Go sources on every run (Conc/Globals_gen.v, tools/globals) and
   checked by computation in Properties/C19.v. *)
From SF Require Import Base.Prelude.
Open Scope Z_scope.

(* ---------- the generated table ---------- *)
Inductive gclass := CValue | CFrozen | CShared.
Record ginfo := mk_ginfo {
  g_pkg : bytes; g_name : bytes; g_class : gclass;
  g_assign : Z;      (* direct assignments outside init() *)
  g_elem : Z;        (* writes through the variable *)
  g_addr : Z;        (* address taken *)
  g_escape : Z       (* a reference to writable shared memory handed on *)
}.
Definition no_late_write (g : ginfo) : bool :=
  (g_assign g =? 0) && (g_elem g =? 0) && (g_addr g =? 0) && (g_escape g =? 0).
Definition globals_frozen (l : list ginfo) : bool := forallb no_late_write l.

(* ---------- schedules ---------- *)
Section NonInterference.
  Variables (G I O R : Type).
  (* one operation on one instance: reads the globals, returns the new instance state and a result *)
  Variable step : G -> I -> O -> I * R.

  Definition sys := nat -> I.
  Definition upd (s : sys) (i : nat) (x : I) : sys := fun j => if Nat.eqb j i then x else s j.

  (* a schedule: which instance performs which operation next *)
  Fixpoint run_sys (g : G) (s : sys) (sched : list (nat * O)) : sys * list (nat * R) :=
    match sched with
    | [] => (s, [])
    | (i, o) :: rest =>
        let '(x, r) := step g (s i) o in
        let '(s', rs) := run_sys g (upd s i x) rest in
        (s', (i, r) :: rs)
    end.

  Fixpoint run_seq (g : G) (x : I) (ops : list O) : I * list R :=
    match ops with
    | [] => (x, [])
    | o :: rest =>
        let '(x', r) := step g x o in
        let '(x'', rs) := run_seq g x' rest in
        (x'', r :: rs)
    end.

  Definition proj {A} (i : nat) (l : list (nat * A)) : list A :=
    map snd (filter (fun e => Nat.eqb (fst e) i) l).

  Theorem interleaving_irrelevant : forall g sched s i,
    fst (run_sys g s sched) i = fst (run_seq g (s i) (proj i sched)) /\
    proj i (snd (run_sys g s sched)) = snd (run_seq g (s i) (proj i sched)).
  Proof.
    intros g sched. induction sched as [|[j o] rest IH]; intros s i.
    - split; reflexivity.
    - cbn [run_sys]. destruct (step g (s j) o) as [x r] eqn:E.
      destruct (run_sys g (upd s j x) rest) as [s' rs] eqn:E2.
      specialize (IH (upd s j x) i). rewrite E2 in IH. cbn [fst snd] in IH.
      assert (Hp : forall A (a : A) (l : list (nat * A)),
                 proj i ((j, a) :: l) = if Nat.eqb j i then a :: proj i l else proj i l).
      { intros A a l. unfold proj. cbn [filter fst]. destruct (Nat.eqb j i); reflexivity. }
      cbn [fst snd]. rewrite !Hp.
      destruct (Nat.eqb j i) eqn:Eji.
      + apply Nat.eqb_eq in Eji. subst j. cbn [run_seq]. rewrite E.
        unfold upd in IH. rewrite Nat.eqb_refl in IH.
        destruct (run_seq g x (proj i rest)) as [x'' rs'']. cbn [fst snd] in *.
        destruct IH as [IH1 IH2]. split; [exact IH1 | rewrite IH2; reflexivity].
      + unfold upd in IH. rewrite Nat.eqb_sym in Eji. rewrite Eji in IH. exact IH.
  Qed.
End NonInterference.
