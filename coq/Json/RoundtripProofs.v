(* C07 (value part) for JSON: the bytes the encoder model (Json/Enc.v) writes
   for a well-formed tree are read back by the RFC 8259 reference decoder
   (Json/Spec.v) as the image of the tree's value:
   - strings and keys are sanitized (invalid UTF-8 bytes become U+FFFD),
   - integers keep their value,
   - finite floats become what the reference makes of the text strconv wrote,
   - non-finite floats become null (ignore_invalid),
   - typed arrays / objects count as their expansion.
   Part 1  strings:   jstring_loop writes [esc_body]; json_string reads it back as [sanitize]
   Part 2  numbers:   number lexing is stable under appending a delimiter; decimal print/parse round trip
   Part 3  encoder:   the bytes written for a tree are [sep ++ tree_text]
   Part 4  decoder:   json_ref reads [tree_text t ++ rest] as [json_img t]
   Part 5  C07_json, json_enc_tree_value; the explicit_radix patch is a number (from the grammar hypothesis) *)
From SF Require Import Base.Prelude Base.PreludeProofs Base.Utf8 Core.Events Core.EventsProofs
  Core.AdapterProofs Ubjson.Enc Json.Enc Json.EncProofs Json.Spec Json.SpecProofs.
From Coq Require Import ZifyBool ZifyNat ZifyN.
Open Scope Z_scope.
Ltac Zify.zify_post_hook ::= Z.div_mod_to_equations.

(* ====================================================================== *)
(* Part 1: strings                                                         *)
(* ====================================================================== *)

Definition ls_chunk (c : Z) : bytes := [92; 117; 50; 48; 50; hexdigit (c mod 16)].
Definition bad_chunk : bytes := [92; 117; 102; 102; 102; 100].

(* the bytes jstring_loop writes between the quotation marks *)
Fixpoint esc_body (fuel : nat) (html : bool) (s : bytes) : bytes :=
  match fuel with
  | O => []
  | S f =>
      match s with
      | [] => []
      | b :: r =>
          if b <? 128 then (if escape_set html b then esc_chunk b else [b]) ++ esc_body f html r
          else
            let '(c, sz) := decode_rune s in
            if (c =? rune_error) && (sz =? 1) then bad_chunk ++ esc_body f html r
            else if (c =? 8232) || (c =? 8233) then ls_chunk c ++ esc_body f html (skipn (Z.to_nat sz) s)
            else firstn (Z.to_nat sz) s ++ esc_body f html (skipn (Z.to_nat sz) s)
      end
  end.

Definition str_text (html : bool) (s : bytes) : bytes := 34 :: esc_body (S (length s)) html s ++ [34].

(* ---- encoder side ---- *)
Lemma flush_bytes e rseg : w_fail (je_w e) = None ->
  bres e (je_first e) (je_inarr e) (rev rseg) (flush e rseg).
Proof.
  intro N. unfold flush. destruct rseg as [|x l]; [|apply jw_bytes; exact N].
  exists e. cbn [rev]. rewrite app_nil_r. auto.
Qed.

Lemma jstring_loop_bytes html fuel : forall e s rseg,
  w_fail (je_w e) = None -> (length s < fuel)%nat ->
  bres e (je_first e) (je_inarr e) (rev rseg ++ esc_body fuel html s ++ [34])
       (jstring_loop fuel html e s rseg).
Proof.
  induction fuel as [|f IH]; intros e s rseg N Hf; [lia|]. cbn [jstring_loop esc_body].
  destruct s as [|b r].
  { destruct (flush_bytes e rseg N) as (e1 & -> & F1 & A1 & N1 & B1). rewrite jthen_nil.
    destruct (jw_bytes e1 [34] N1) as (e2 & E2 & F2 & A2 & N2 & B2).
    exists e2. split; [exact E2|]. split; [congruence|]. split; [congruence|]. split; [exact N2|].
    rewrite B2, B1, <- app_assoc. reflexivity. }
  cbn [length] in Hf.
  destruct (b <? 128) eqn:E128.
  { destruct (escape_set html b) eqn:Eesc; cbn [negb].
    - destruct (flush_bytes e rseg N) as (e1 & -> & F1 & A1 & N1 & B1). rewrite jthen_nil.
      rewrite esc_chunk_eq.
      destruct (jw_bytes e1 (esc_chunk b) N1) as (e2 & -> & F2 & A2 & N2 & B2). rewrite jthen_nil.
      destruct (IH e2 r [] N2 ltac:(lia)) as (e3 & E3 & F3 & A3 & N3 & B3).
      exists e3. split; [exact E3|]. split; [congruence|]. split; [congruence|]. split; [exact N3|].
      rewrite B3, B2, B1. cbn [rev app]. rewrite <- !app_assoc. reflexivity.
    - destruct (IH e r (b :: rseg) N ltac:(lia)) as (e3 & E3 & F3 & A3 & N3 & B3).
      exists e3. split; [exact E3|]. split; [exact F3|]. split; [exact A3|]. split; [exact N3|].
      rewrite B3. cbn [rev app]. rewrite <- !app_assoc. reflexivity. }
  destruct (decode_rune (b :: r)) as [c sz] eqn:D.
  pose proof (decode_rune_size b r c sz D) as Hsz.
  assert (Hskip : (length (skipn (Z.to_nat sz) (b :: r)) < f)%nat).
  { rewrite skipn_length. cbn [length]. lia. }
  destruct ((c =? rune_error) && (sz =? 1)).
  { destruct (flush_bytes e rseg N) as (e1 & -> & F1 & A1 & N1 & B1). rewrite jthen_nil.
    destruct (jw_bytes e1 [92; 117; 102; 102; 102; 100] N1) as (e2 & -> & F2 & A2 & N2 & B2).
    rewrite jthen_nil.
    destruct (IH e2 r [] N2 ltac:(lia)) as (e3 & E3 & F3 & A3 & N3 & B3).
    exists e3. split; [exact E3|]. split; [congruence|]. split; [congruence|]. split; [exact N3|].
    rewrite B3, B2, B1. unfold bad_chunk. cbn [rev app]. rewrite <- !app_assoc. reflexivity. }
  destruct ((c =? 8232) || (c =? 8233)).
  { destruct (flush_bytes e rseg N) as (e1 & -> & F1 & A1 & N1 & B1). rewrite jthen_nil.
    destruct (jw_bytes e1 [92; 117; 50; 48; 50] N1) as (e2 & -> & F2 & A2 & N2 & B2).
    rewrite jthen_nil.
    destruct (jw_bytes e2 [hexdigit (c mod 16)] N2) as (e3 & -> & F3 & A3 & N3 & B3).
    rewrite jthen_nil.
    destruct (IH e3 _ [] N3 Hskip) as (e4 & E4 & F4 & A4 & N4 & B4).
    exists e4. split; [exact E4|]. split; [congruence|]. split; [congruence|]. split; [exact N4|].
    rewrite B4, B3, B2, B1. unfold ls_chunk. cbn [rev app]. rewrite <- !app_assoc. reflexivity. }
  destruct (IH e _ (rev (firstn (Z.to_nat sz) (b :: r)) ++ rseg) N Hskip) as (e3 & E3 & F3 & A3 & N3 & B3).
  exists e3. split; [exact E3|]. split; [exact F3|]. split; [exact A3|]. split; [exact N3|].
  rewrite B3, rev_app_distr, rev_involutive, <- !app_assoc. reflexivity.
Qed.

Lemma jstring_bytes cfg e s : w_fail (je_w e) = None ->
  bres e (after_val e) (je_inarr e) (sep e ++ str_text (escape_html cfg) s) (jstring cfg e s).
Proof.
  intro N. unfold jstring.
  destruct (try_elem_next_bytes e N) as (e1 & -> & F1 & A1 & N1 & B1). rewrite jthen_nil.
  destruct (jw_bytes e1 [34] N1) as (e2 & -> & F2 & A2 & N2 & B2). rewrite jthen_nil.
  destruct (jstring_loop_bytes (escape_html cfg) (S (length s)) e2 s [] N2 ltac:(lia))
    as (e3 & E3 & F3 & A3 & N3 & B3).
  exists e3. split; [exact E3|]. split; [congruence|]. split; [congruence|]. split; [exact N3|].
  rewrite B3, B2, B1. unfold str_text. cbn [rev app]. rewrite <- !app_assoc. reflexivity.
Qed.

(* ---- decoder side ---- *)
Lemma str_step g b c r racc out rest : b = c :: r -> (c =? 34) = false ->
  json_char b = ChOk out rest ->
  json_string_loop (S g) b racc = json_string_loop g rest (rev out ++ racc).
Proof. intros -> Hc H. cbn [json_string_loop]. rewrite Hc, H. reflexivity. Qed.

Lemma str_plain_run l : forall g x racc, forallb plain l = true -> (length l <= g)%nat ->
  json_string_loop g (l ++ x) racc = json_string_loop (g - length l) x (rev l ++ racc).
Proof.
  induction l as [|c l IH]; intros g x racc Hp Hg.
  - cbn [app length rev]. rewrite Nat.sub_0_r. reflexivity.
  - cbn [forallb] in Hp. apply andb_prop in Hp. destruct Hp as [Hc Hl].
    cbn [length] in Hg. destruct g as [|g]; [lia|].
    cbn [app]. erewrite str_step; [|reflexivity| |apply json_char_plain; exact Hc].
    + rewrite IH by (try assumption; lia). cbn [length rev Nat.sub app]. rewrite <- app_assoc. reflexivity.
    + unfold plain in Hc. lia.
Qed.

Lemma hexval_hexdigit n : 0 <= n < 16 -> hexval (hexdigit n) = Some n.
Proof.
  intro H. unfold hexdigit, hexval. destruct (n <? 10) eqn:E.
  - replace ((48 <=? 48 + n) && (48 + n <=? 57)) with true by lia. f_equal. lia.
  - replace ((48 <=? 87 + n) && (87 + n <=? 57)) with false by lia.
    replace ((97 <=? 87 + n) && (87 + n <=? 102)) with true by lia. f_equal. lia.
Qed.

Lemma json_escape_u r2 : json_escape (117 :: r2) =
  match hex4 r2 with
  | HexTrunc => ChTrunc
  | HexBad => ChBad
  | HexOk code r3 =>
      if is_high_surrogate code then
        match low_escape r3 with
        | Some (lo, r4) => ChOk (encode_rune (utf16_decode code lo)) r4
        | None => ChOk (encode_rune rune_error) r3
        end
      else if is_low_surrogate code then ChOk (encode_rune rune_error) r3
      else ChOk (encode_rune code) r3
  end.
Proof. reflexivity. Qed.

Lemma encode_rune_ascii b : 0 <= b < 128 -> encode_rune b = [b].
Proof.
  intro H. unfold encode_rune, is_surrogate.
  replace ((b <? 0) || (1114111 <? b) || (55296 <=? b) && (b <? 57344)) with false by lia.
  replace (b <=? 127) with true by lia. reflexivity.
Qed.

(* the escape chunk of an ASCII byte reads back as that byte *)
Lemma json_char_esc_chunk b x : 0 <= b < 128 ->
  json_char (esc_chunk b ++ x) = ChOk [b] x.
Proof.
  intro Hb. unfold esc_chunk.
  destruct ((b =? 92) || (b =? 34)) eqn:E1.
  { assert (H : b = 92 \/ b = 34) by lia. destruct H as [-> | ->]; reflexivity. }
  destruct (b =? 10) eqn:E2; [assert (b = 10) by lia; subst b; reflexivity|].
  destruct (b =? 13) eqn:E3; [assert (b = 13) by lia; subst b; reflexivity|].
  destruct (b =? 9) eqn:E4; [assert (b = 9) by lia; subst b; reflexivity|].
  cbn [app]. change (json_char (92 :: 117 :: 48 :: 48 :: hexdigit (b / 16) :: hexdigit (b mod 16) :: x))
    with (json_escape (117 :: 48 :: 48 :: hexdigit (b / 16) :: hexdigit (b mod 16) :: x)).
  rewrite json_escape_u. unfold hex4.
  change (hexval 48) with (Some 0).
  rewrite (hexval_hexdigit (b / 16)) by lia. rewrite (hexval_hexdigit (b mod 16)) by lia.
  replace (0 * 4096 + 0 * 256 + b / 16 * 16 + b mod 16) with b by lia.
  unfold is_high_surrogate, is_low_surrogate.
  replace ((55296 <=? b) && (b <=? 56319)) with false by lia.
  replace ((56320 <=? b) && (b <=? 57343)) with false by lia.
  rewrite encode_rune_ascii by exact Hb. reflexivity.
Qed.

Lemma esc_chunk_head b : exists c r, esc_chunk b = c :: r /\ c = 92.
Proof.
  unfold esc_chunk. destruct ((b =? 92) || (b =? 34)); [eauto|].
  destruct (b =? 10); [eauto|]. destruct (b =? 13); [eauto|]. destruct (b =? 9); eauto.
Qed.

Lemma esc_chunk_length b : (1 <= length (esc_chunk b))%nat.
Proof. destruct (esc_chunk_head b) as (c & r & -> & _). cbn [length]. lia. Qed.

Lemma json_char_bad_chunk x : json_char (bad_chunk ++ x) = ChOk [239; 191; 189] x.
Proof. reflexivity. Qed.

Lemma json_char_ls_chunk c x : c = 8232 \/ c = 8233 ->
  json_char (ls_chunk c ++ x) = ChOk [226; 128; 168 + (c - 8232)] x.
Proof. intros [-> | ->]; reflexivity. Qed.

(* U+2028 / U+2029 have exactly one encoding *)
Lemma decode_rune_ls s c sz : decode_rune s = (c, sz) -> c = 8232 \/ c = 8233 ->
  sz = 3 /\ exists rest, s = [226; 128; 168 + (c - 8232)] ++ rest.
Proof.
  intros D Hc. unfold decode_rune in D.
  destruct s as [|p0 r]; [injection D as <- <-; unfold rune_error in Hc; lia|].
  destruct (p0 <? 128) eqn:E0; [injection D as <- <-; lia|].
  destruct ((p0 <? 194) || (244 <? p0)) eqn:E1; [injection D as <- <-; unfold rune_error in Hc; lia|].
  destruct (p0 <? 224) eqn:E2.
  { destruct r as [|b1 r]; [injection D as <- <-; unfold rune_error in Hc; lia|].
    unfold cont_byte in D.
    destruct ((128 <=? b1) && (b1 <=? 191)) eqn:E3; injection D as <- <-; unfold rune_error in Hc; lia. }
  destruct (p0 <? 240) eqn:E3.
  { destruct r as [|b1 [|b2 r]]; try (injection D as <- <-; unfold rune_error in Hc; lia).
    unfold cont_byte in D.
    match type of D with (if ?x then _ else _) = _ => destruct x eqn:E4 end;
      [|injection D as <- <-; unfold rune_error in Hc; lia].
    injection D as <- <-. split; [reflexivity|]. exists r.
    assert (Hb : 128 <= b1 <= 191 /\ 128 <= b2 <= 191) by (destruct (p0 =? 224), (p0 =? 237); lia).
    assert (p0 = 226 /\ b1 = 128 /\ b2 = 168 + ((p0 - 224) * 4096 + (b1 - 128) * 64 + (b2 - 128) - 8232)) by lia.
    cbn [app]. destruct H as (-> & -> & H2). rewrite <- H2. reflexivity. }
  destruct r as [|b1 [|b2 [|b3 r]]]; try (injection D as <- <-; unfold rune_error in Hc; lia).
  unfold cont_byte in D.
  match type of D with (if ?x then _ else _) = _ => destruct x eqn:E4 end;
    [|injection D as <- <-; unfold rune_error in Hc; lia].
  injection D as <- <-.
  cbv zeta in E4. exfalso. destruct (p0 =? 240) eqn:E5, (p0 =? 244) eqn:E6; lia.
Qed.

Lemma plain_high l : Forall (fun x => 128 <= x < 256) l -> forallb plain l = true.
Proof.
  induction 1 as [|x l Hx Hl IH]; [reflexivity|]. cbn [forallb]. rewrite IH.
  unfold plain. lia.
Qed.

(* what jstring_loop wrote is read back as the sanitized string *)
Lemma str_dec html f : forall s g racc rest, (length s <= f)%nat -> all_bytes s = true ->
  (length (esc_body (S f) html s) < g)%nat ->
  json_string_loop g (esc_body (S f) html s ++ 34 :: rest) racc = StrOk (rev racc ++ sanitize_fuel f s) rest.
Proof.
  induction f as [|f IH]; intros s g racc rest Hlen Hb Hg.
  { destruct s; [|cbn [length] in Hlen; lia]. destruct g as [|g]; [lia|].
    cbn [esc_body app json_string_loop sanitize_fuel]. change (34 =? 34) with true. cbn iota.
    rewrite app_nil_r. reflexivity. }
  destruct s as [|b r].
  { destruct g as [|g]; [lia|].
    cbn [esc_body app json_string_loop sanitize_fuel]. change (34 =? 34) with true. cbn iota.
    rewrite app_nil_r. reflexivity. }
  cbn [length] in Hlen. cbn [all_bytes forallb] in Hb. apply andb_prop in Hb. destruct Hb as [Hb0 Hbr].
  fold (all_bytes r) in Hbr. unfold is_byte in Hb0.
  remember (S f) as f1 eqn:Ef1. cbn [esc_body] in Hg |- *. subst f1. cbn [sanitize_fuel].
  destruct (b <? 128) eqn:E128.
  { assert (Hd : decode_rune (b :: r) = (b, 1)) by (unfold decode_rune; rewrite E128; reflexivity).
    rewrite Hd. replace ((b =? rune_error) && (1 =? 1)) with false by (unfold rune_error; lia).
    change (Z.to_nat 1) with 1%nat. cbn [firstn skipn].
    rewrite app_length in Hg. rewrite <- app_assoc.
    destruct (escape_set html b) eqn:Eesc.
    - destruct (esc_chunk_head b) as (c0 & r0 & Ech & Hc0).
      pose proof (esc_chunk_length b) as Hl.
      destruct g as [|g]; [lia|].
      erewrite str_step; [| rewrite Ech; reflexivity | lia | apply json_char_esc_chunk; lia].
      rewrite IH by (try assumption; lia).
      cbn [rev app]. rewrite <- !app_assoc. reflexivity.
    - cbn [length] in Hg. destruct g as [|g]; [lia|].
      unfold escape_set in Eesc.
      erewrite str_step; [|reflexivity| |apply json_char_plain; unfold plain]; [|lia|lia].
      rewrite IH by (try assumption; lia).
      cbn [rev app]. rewrite <- !app_assoc. reflexivity. }
  destruct (decode_rune (b :: r)) as [c sz] eqn:D.
  pose proof (decode_rune_size b r c sz D) as Hsz.
  assert (Hskipl : (length (skipn (Z.to_nat sz) (b :: r)) <= f)%nat).
  { rewrite skipn_length. cbn [length]. lia. }
  assert (Hskipb : all_bytes (skipn (Z.to_nat sz) (b :: r)) = true).
  { assert (Hall : all_bytes (b :: r) = true).
    { cbn [all_bytes forallb]. fold (all_bytes r). rewrite Hbr. unfold is_byte. lia. }
    rewrite <- (firstn_skipn (Z.to_nat sz) (b :: r)), all_bytes_app in Hall.
    apply andb_prop in Hall. apply Hall. }
  destruct ((c =? rune_error) && (sz =? 1)) eqn:Eerr.
  { rewrite app_length in Hg. rewrite <- app_assoc. destruct g as [|g]; [lia|]. cbn [bad_chunk length] in Hg.
    erewrite str_step; [|reflexivity|reflexivity|apply json_char_bad_chunk].
    rewrite IH by (try assumption; lia).
    cbn [rev app]. rewrite <- !app_assoc. reflexivity. }
  destruct ((c =? 8232) || (c =? 8233)) eqn:Els.
  { rewrite app_length in Hg. rewrite <- app_assoc.
    assert (Hc : c = 8232 \/ c = 8233) by lia.
    destruct (decode_rune_ls _ _ _ D Hc) as (-> & rest' & Es).
    destruct g as [|g]; [lia|]. cbn [ls_chunk length] in Hg.
    erewrite str_step; [|reflexivity|reflexivity|apply json_char_ls_chunk; exact Hc].
    rewrite IH by (try assumption; lia).
    rewrite Es. change (Z.to_nat 3) with 3%nat. cbn [firstn skipn app rev].
    rewrite <- !app_assoc. reflexivity. }
  rewrite app_length in Hg. rewrite <- app_assoc.
  destruct (decode_rune_copy b r c sz E128 D Eerr) as (ru & rest' & Heq & Hrl & _ & Hrange).
  rewrite Heq in *. rewrite <- Hrl in *.
  rewrite firstn_app, Nat.sub_diag, firstn_all in *. cbn [firstn] in *. rewrite app_nil_r in *.
  rewrite skipn_app, Nat.sub_diag, skipn_all in *. cbn [skipn app] in *.
  rewrite str_plain_run by (try (apply plain_high; exact Hrange); lia).
  rewrite IH by (try assumption; lia).
  rewrite rev_app_distr, rev_involutive, <- !app_assoc. reflexivity.
Qed.

Theorem json_string_roundtrip html s rest : all_bytes s = true ->
  json_string (esc_body (S (length s)) html s ++ 34 :: rest) = StrOk (sanitize s) rest.
Proof.
  intro Hb. unfold json_string, sanitize.
  rewrite (str_dec html (length s) s _ [] rest); [reflexivity|lia|exact Hb|].
  rewrite app_length. cbn [length]. lia.
Qed.

(* the same for the body alone *)
Lemma unescape_step g b c r out rest : b = c :: r -> (c =? 34) = false ->
  json_char b = ChOk out rest ->
  json_unescape_loop (S g) b = match json_unescape_loop g rest with Some t => Some (out ++ t) | None => None end.
Proof. intros -> Hc H. cbn [json_unescape_loop]. rewrite Hc, H. reflexivity. Qed.

(* ====================================================================== *)
(* Part 2: numbers                                                         *)
(* ====================================================================== *)

(* a byte that cannot continue a number literal (or the end of the input) *)
Definition num_cont (c : Z) : bool := is_dig c || (c =? 46) || (c =? 101) || (c =? 69).
Definition num_stop (rest : bytes) : bool :=
  match rest with [] => true | c :: _ => negb (num_cont c) end.

(* what follows a value inside a document: , ] } whitespace or the end *)
Definition delim (rest : bytes) : bool :=
  match rest with [] => true | c :: _ => (c =? 44) || (c =? 93) || (c =? 125) || is_ws c end.

Lemma delim_num_stop rest : delim rest = true -> num_stop rest = true.
Proof. destruct rest as [|c r]; [reflexivity|]. unfold delim, num_stop, num_cont, is_ws, is_dig. lia. Qed.

Definition nodig_head (rest : bytes) : bool :=
  match rest with [] => true | c :: _ => negb (is_dig c) end.

Lemma span_digits_app b : forall ds r rest, span_digits b = (ds, r) -> nodig_head rest = true ->
  span_digits (b ++ rest) = (ds, r ++ rest).
Proof.
  induction b as [|c b IH]; intros ds r rest H Hr.
  - injection H as <- <-. cbn [app]. destruct rest as [|x rest]; [reflexivity|].
    cbn [span_digits]. cbn [nodig_head] in Hr. destruct (is_dig x); [discriminate|reflexivity].
  - cbn [span_digits app] in H |- *. destruct (is_dig c).
    + destruct (span_digits b) as [ds' r'] eqn:ES. injection H as <- <-.
      rewrite (IH _ _ rest eq_refl Hr). reflexivity.
    + injection H as <- <-. reflexivity.
Qed.

Lemma lex_int_app b i r rest : lex_int b = POk i r -> nodig_head rest = true ->
  lex_int (b ++ rest) = POk i (r ++ rest).
Proof.
  unfold lex_int. destruct b as [|c b]; [discriminate|]. cbn [app].
  destruct (c =? 48); [intro H; injection H as <- <-; reflexivity|].
  destruct ((49 <=? c) && (c <=? 57)); [|discriminate].
  destruct (span_digits b) as [ds r'] eqn:ES. intros H Hr. injection H as <- <-.
  rewrite (span_digits_app _ _ _ rest ES Hr). reflexivity.
Qed.

Lemma lex_digits1_app b ds r rest : lex_digits1 b = POk ds r -> nodig_head rest = true ->
  lex_digits1 (b ++ rest) = POk ds (r ++ rest).
Proof.
  unfold lex_digits1. destruct (span_digits b) as [ds' r'] eqn:ES. intros H Hr.
  rewrite (span_digits_app _ _ _ rest ES Hr).
  destruct ds' as [|d ds']; [destruct r'; discriminate|]. injection H as <- <-. reflexivity.
Qed.

Lemma lex_frac_app b fr r rest : lex_frac b = POk fr r -> num_stop rest = true ->
  lex_frac (b ++ rest) = POk fr (r ++ rest).
Proof.
  assert (Hnd : num_stop rest = true -> nodig_head rest = true).
  { destruct rest as [|x rest]; [reflexivity|]. unfold num_stop, num_cont, nodig_head, is_dig. lia. }
  unfold lex_frac. destruct b as [|c b].
  - intros H Hr. injection H as <- <-. cbn [app]. destruct rest as [|x rest]; [reflexivity|].
    unfold num_stop, num_cont in Hr. replace (x =? 46) with false by lia. reflexivity.
  - cbn [app]. destruct (c =? 46).
    + destruct (lex_digits1 b) as [ds r'| |] eqn:EL; try discriminate.
      intros H Hr. injection H as <- <-. rewrite (lex_digits1_app _ _ _ rest EL (Hnd Hr)). reflexivity.
    + intros H _. injection H as <- <-. reflexivity.
Qed.

Lemma lex_exp_app b ex r rest : lex_exp b = POk ex r -> num_stop rest = true ->
  lex_exp (b ++ rest) = POk ex (r ++ rest).
Proof.
  assert (Hnd : num_stop rest = true -> nodig_head rest = true).
  { destruct rest as [|x rest]; [reflexivity|]. unfold num_stop, num_cont, nodig_head, is_dig. lia. }
  unfold lex_exp. destruct b as [|c b].
  - intros H Hr. injection H as <- <-. cbn [app]. destruct rest as [|x rest]; [reflexivity|].
    unfold num_stop, num_cont in Hr. replace ((x =? 101) || (x =? 69)) with false by lia. reflexivity.
  - cbn [app]. destruct ((c =? 101) || (c =? 69)).
    + destruct b as [|x b].
      * cbn [lex_digits1 span_digits]. discriminate.
      * cbn [app]. destruct ((x =? 43) || (x =? 45)).
        -- destruct (lex_digits1 b) as [ds r'| |] eqn:EL; try discriminate.
           intros H Hr. injection H as <- <-. rewrite (lex_digits1_app _ _ _ rest EL (Hnd Hr)). reflexivity.
        -- destruct (lex_digits1 (x :: b)) as [ds r'| |] eqn:EL; try discriminate.
           intros H Hr. injection H as <- <-.
           change (x :: b ++ rest) with ((x :: b) ++ rest).
           rewrite (lex_digits1_app _ _ _ rest EL (Hnd Hr)). reflexivity.
    + intros H _. injection H as <- <-. reflexivity.
Qed.

(* number lexing is stable under appending anything that cannot continue a number *)
Definition sign_split (b : bytes) : bytes * bytes :=
  match b with
  | c :: r => if c =? 45 then ([c], r) else ([], b)
  | [] => ([], b)
  end.

Lemma json_number_eq b : json_number b =
  match lex_int (snd (sign_split b)) with
  | PTrunc => NumTrunc
  | PBad => NumBad
  | POk i b2 =>
      match lex_frac b2 with
      | PTrunc => NumTrunc
      | PBad => NumBad
      | POk fr b3 =>
          match lex_exp b3 with
          | PTrunc => NumTrunc
          | PBad => NumBad
          | POk ex b4 => NumOk (fst (sign_split b) ++ i ++ fr ++ ex) (is_nil fr && is_nil ex) b4
          end
      end
  end.
Proof.
  unfold json_number, sign_split. destruct b as [|c r]; [reflexivity|]. destruct (c =? 45); reflexivity.
Qed.

Lemma sign_split_app b rest : lex_int (snd (sign_split b)) <> PTrunc ->
  sign_split (b ++ rest) = (fst (sign_split b), snd (sign_split b) ++ rest).
Proof.
  unfold sign_split. destruct b as [|c b0]; [intro H; exfalso; apply H; reflexivity|].
  intros _. cbn [app]. destruct (c =? 45); reflexivity.
Qed.

Lemma json_number_app b lit isint r rest : json_number b = NumOk lit isint r -> num_stop rest = true ->
  json_number (b ++ rest) = NumOk lit isint (r ++ rest).
Proof.
  intros H Hr.
  assert (Hnd : nodig_head rest = true).
  { destruct rest as [|x rest]; [reflexivity|]. unfold num_stop, num_cont, is_dig in Hr. unfold nodig_head, is_dig. lia. }
  rewrite json_number_eq in H |- *.
  destruct (lex_int (snd (sign_split b))) as [i b2| |] eqn:E1; try discriminate.
  rewrite sign_split_app by (rewrite E1; discriminate). cbn [fst snd].
  rewrite (lex_int_app _ _ _ rest E1 Hnd).
  destruct (lex_frac b2) as [fr b3| |] eqn:E2; try discriminate.
  rewrite (lex_frac_app _ _ _ rest E2 Hr).
  destruct (lex_exp b3) as [ex b4| |] eqn:E3; try discriminate.
  rewrite (lex_exp_app _ _ _ rest E3 Hr).
  injection H as <- <- <-. reflexivity.
Qed.

(* ---- decimal digits ---- *)
Lemma dec_acc_app a b n : dec_acc (a ++ b) n = dec_acc b (dec_acc a n).
Proof. unfold dec_acc. apply fold_left_app. Qed.

Lemma all_digits_app a b : all_digits (a ++ b) = all_digits a && all_digits b.
Proof. apply forallb_app. Qed.

Lemma digits_fuel_spec f : forall n acc, 0 <= n < 10 ^ Z.of_nat (S f) ->
  exists d ds, digits_fuel (S f) n acc = d :: ds ++ acc /\ all_digits (d :: ds) = true /\
    dec_value (d :: ds) = n /\ (n = 0 -> d = 48 /\ ds = []) /\ (0 < n -> 49 <= d <= 57).
Proof.
  induction f as [|f IH]; intros n acc Hn.
  - change (10 ^ Z.of_nat 1) with 10 in Hn. cbn [digits_fuel].
    replace (n <? 10) with true by lia.
    exists (48 + n), []. split; [reflexivity|]. split; [cbn [all_digits forallb]; unfold is_dig; lia|].
    split; [unfold dec_value; cbn [fold_left]; lia|]. split; [intro; split; [lia|reflexivity]|lia].
  - remember (S f) as f1 eqn:Ef1. cbn [digits_fuel]. destruct (n <? 10) eqn:E.
    + exists (48 + n), []. split; [reflexivity|]. split; [cbn [all_digits forallb]; unfold is_dig; lia|].
      split; [unfold dec_value; cbn [fold_left]; lia|]. split; [intro; split; [lia|reflexivity]|lia].
    + assert (Hn' : 0 <= n / 10 < 10 ^ Z.of_nat f1).
      { rewrite Nat2Z.inj_succ, Z.pow_succ_r in Hn by lia. lia. }
      subst f1.
      destruct (IH (n / 10) ((48 + n mod 10) :: acc) Hn') as (d & ds & E1 & Hd & Hv & _ & Hpos).
      exists d, (ds ++ [48 + n mod 10]). split; [rewrite E1, <- app_assoc; reflexivity|].
      split.
      { change (d :: ds ++ [48 + n mod 10]) with ((d :: ds) ++ [48 + n mod 10]).
        rewrite all_digits_app, Hd. cbn [all_digits forallb andb]. unfold is_dig. lia. }
      split.
      { change (d :: ds ++ [48 + n mod 10]) with ((d :: ds) ++ [48 + n mod 10]).
        rewrite dec_value_acc, dec_acc_app, <- dec_value_acc, Hv. unfold dec_acc. cbn [fold_left]. lia. }
      split; [lia|]. intros _. apply Hpos. lia.
Qed.

Lemma digits_spec n : 0 <= n < 18446744073709551616 ->
  exists d ds, digits n = d :: ds /\ all_digits (d :: ds) = true /\
    dec_value (d :: ds) = n /\ (n = 0 -> d = 48 /\ ds = []) /\ (0 < n -> 49 <= d <= 57).
Proof.
  intro Hn. unfold digits.
  destruct (digits_fuel_spec 24 n []) as (d & ds & E & H).
  { assert (18446744073709551616 < 10 ^ Z.of_nat 25) by reflexivity. lia. }
  exists d, ds. rewrite E, app_nil_r. split; [reflexivity|exact H].
Qed.

(* the text of an integer is an integer literal of the grammar with the same value *)
Definition reads_as (pf : bytes -> option Z) (txt : bytes) (n : cnum) : Prop :=
  exists isint, json_number txt = NumOk txt isint [] /\ json_num_value pf txt isint = Some n.

Lemma span_digits_all ds : all_digits ds = true -> span_digits ds = (ds, []).
Proof.
  induction ds as [|c ds IH]; intro H; [reflexivity|].
  cbn [all_digits forallb] in H. apply andb_prop in H. destruct H as [Hc Hd].
  cbn [span_digits]. rewrite Hc, (IH Hd). reflexivity.
Qed.

Lemma json_number_nat d ds sg : all_digits (d :: ds) = true ->
  ((d = 48 /\ ds = []) \/ 49 <= d <= 57) -> sg = [] \/ sg = [45] ->
  json_number (sg ++ d :: ds) = NumOk (sg ++ d :: ds) true [].
Proof.
  intros Hd Hlead Hsg.
  assert (Hi : lex_int (d :: ds) = POk (d :: ds) []).
  { unfold lex_int. destruct Hlead as [[-> ->]|Hlead]; [reflexivity|].
    replace (d =? 48) with false by lia. replace ((49 <=? d) && (d <=? 57)) with true by lia.
    cbn [all_digits forallb] in Hd. apply andb_prop in Hd. destruct Hd as [_ Hd].
    rewrite (span_digits_all ds Hd). reflexivity. }
  assert (Hd48 : (d =? 45) = false).
  { cbn [all_digits forallb] in Hd. apply andb_prop in Hd. destruct Hd as [Hd _]. unfold is_dig in Hd. lia. }
  rewrite json_number_eq.
  assert (Hs : sign_split (sg ++ d :: ds) = (sg, d :: ds)).
  { destruct Hsg as [-> | ->]; cbn [app sign_split]; [rewrite Hd48|]; reflexivity. }
  rewrite Hs. cbn [fst snd]. rewrite Hi. cbn [lex_frac lex_exp is_nil andb]. rewrite !app_nil_r. reflexivity.
Qed.

Lemma int_reads_as pf z : -9223372036854775808 <= z < 18446744073709551616 ->
  reads_as pf (int_chunk z) (CInt z).
Proof.
  intro Hz. unfold int_chunk. exists true. destruct (z <? 0) eqn:E.
  - destruct (digits_spec (- z) ltac:(lia)) as (d & ds & Ed & Hd & Hv & H0 & Hpos).
    rewrite Ed. split.
    + apply (json_number_nat d ds [45] Hd); [right; apply Hpos; lia|right; reflexivity].
    + unfold json_num_value, int_value. change (45 =? 45) with true. cbn iota. rewrite Hv.
      replace ((-9223372036854775808 <=? - - z) && (- - z <? 18446744073709551616)) with true by lia.
      f_equal. f_equal. lia.
  - destruct (digits_spec z ltac:(lia)) as (d & ds & Ed & Hd & Hv & H0 & Hpos).
    rewrite Ed. split.
    + apply (json_number_nat d ds [] Hd); [|left; reflexivity].
      destruct (Z.eq_dec z 0) as [Hz0|Hz0]; [left; apply H0; exact Hz0|right; apply Hpos; lia].
    + unfold json_num_value, int_value.
      assert (Hd45 : (d =? 45) = false).
      { cbn [all_digits forallb] in Hd. apply andb_prop in Hd. destruct Hd as [Hd _]. unfold is_dig in Hd. lia. }
      rewrite Hd45, Hv.
      replace ((-9223372036854775808 <=? z) && (z <? 18446744073709551616)) with true by lia.
      reflexivity.
Qed.

Lemma nkind_int_range k z : nkind_ok k z = true -> k <> KFloat32 -> k <> KFloat64 ->
  -9223372036854775808 <= z < 18446744073709551616.
Proof.
  intros H H1 H2. destruct k; try contradiction; cbn [nkind_ok] in H; unfold in_s, in_u in H;
    repeat match type of H with context [2 ^ ?a] =>
      let v := eval vm_compute in (2 ^ a) in change (2 ^ a) with v in H end; lia.
Qed.
