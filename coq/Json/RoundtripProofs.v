(* C07 (value part) for JSON: the bytes the encoder model (Json/Enc.v) writes
   for a well-formed tree are read back by the RFC 8259 reference decoder
   (Json/Spec.v) as the image of the tree's value:
   - strings and keys are sanitized (invalid UTF-8 bytes become U+FFFD),
   - integers keep their value,
   - finite floats become what the reference makes of the text strconv wrote,
   - non-finite floats become null (ignore_invalid),
   - typed arrays / objects count as their expansion.
   Part 1  strings:   jstring_loop writes [esc_body]; json_string reads it back as [sanitize]
   Part 2  numbers:   number lexing is stable under appending a delimiter; decimal print/parse round trip
   Part 3  encoder:   the bytes written for a tree are [sep ++ tree_text]
   Part 4  decoder:   json_ref reads [tree_text t ++ rest] as [json_img t]
   Part 5  C07_json, json_enc_tree_value (hypotheses: the float text and the patched float text read as numbers)
   Part 6  the explicit_radix patch of a number text over +-.0123456789e is a number text
   Part 7  C07_json_strconv: the same with hypotheses about strconv only
   Part 8  json_img_expand, json_img_exact (no floats + valid UTF-8: the image is the value itself)
   Part 9  a toy instance *)
From SF Require Import Base.Prelude Base.PreludeProofs Base.Utf8 Core.Events Core.EventsProofs
  Core.AdapterProofs Ubjson.Enc Json.Enc Json.EncProofs Json.Spec Json.SpecProofs.
From Coq Require Import ZifyBool ZifyNat ZifyN.
Open Scope Z_scope.
Ltac Zify.zify_post_hook ::= Z.div_mod_to_equations.

(* ====================================================================== *)
(* Part 1: strings                                                         *)
(* ====================================================================== *)

Definition ls_chunk (c : Z) : bytes := [92; 117; 50; 48; 50; hexdigit (c mod 16)].
Definition bad_chunk : bytes := [92; 117; 102; 102; 102; 100].

(* the bytes jstring_loop writes between the quotation marks *)
Fixpoint esc_body (fuel : nat) (html : bool) (s : bytes) : bytes :=
  match fuel with
  | O => []
  | S f =>
      match s with
      | [] => []
      | b :: r =>
          if b <? 128 then (if escape_set html b then esc_chunk b else [b]) ++ esc_body f html r
          else
            let '(c, sz) := decode_rune s in
            if (c =? rune_error) && (sz =? 1) then bad_chunk ++ esc_body f html r
            else if (c =? 8232) || (c =? 8233) then ls_chunk c ++ esc_body f html (skipn (Z.to_nat sz) s)
            else firstn (Z.to_nat sz) s ++ esc_body f html (skipn (Z.to_nat sz) s)
      end
  end.

Definition str_text (html : bool) (s : bytes) : bytes := 34 :: esc_body (S (length s)) html s ++ [34].

(* ---- encoder side ---- *)
Lemma flush_bytes e rseg : w_fail (je_w e) = None ->
  bres e (je_first e) (je_inarr e) (rev rseg) (flush e rseg).
Proof.
  intro N. unfold flush. destruct rseg as [|x l]; [|apply jw_bytes; exact N].
  exists e. cbn [rev]. rewrite app_nil_r. auto.
Qed.

Lemma jstring_loop_bytes html fuel : forall e s rseg,
  w_fail (je_w e) = None -> (length s < fuel)%nat ->
  bres e (je_first e) (je_inarr e) (rev rseg ++ esc_body fuel html s ++ [34])
       (jstring_loop fuel html e s rseg).
Proof.
  induction fuel as [|f IH]; intros e s rseg N Hf; [lia|]. cbn [jstring_loop esc_body].
  destruct s as [|b r].
  { destruct (flush_bytes e rseg N) as (e1 & -> & F1 & A1 & N1 & B1). rewrite jthen_nil.
    destruct (jw_bytes e1 [34] N1) as (e2 & E2 & F2 & A2 & N2 & B2).
    exists e2. split; [exact E2|]. split; [congruence|]. split; [congruence|]. split; [exact N2|].
    rewrite B2, B1, <- app_assoc. reflexivity. }
  cbn [length] in Hf.
  destruct (b <? 128) eqn:E128.
  { destruct (escape_set html b) eqn:Eesc; cbn [negb].
    - destruct (flush_bytes e rseg N) as (e1 & -> & F1 & A1 & N1 & B1). rewrite jthen_nil.
      rewrite esc_chunk_eq.
      destruct (jw_bytes e1 (esc_chunk b) N1) as (e2 & -> & F2 & A2 & N2 & B2). rewrite jthen_nil.
      destruct (IH e2 r [] N2 ltac:(lia)) as (e3 & E3 & F3 & A3 & N3 & B3).
      exists e3. split; [exact E3|]. split; [congruence|]. split; [congruence|]. split; [exact N3|].
      rewrite B3, B2, B1. cbn [rev app]. rewrite <- !app_assoc. reflexivity.
    - destruct (IH e r (b :: rseg) N ltac:(lia)) as (e3 & E3 & F3 & A3 & N3 & B3).
      exists e3. split; [exact E3|]. split; [exact F3|]. split; [exact A3|]. split; [exact N3|].
      rewrite B3. cbn [rev app]. rewrite <- !app_assoc. reflexivity. }
  destruct (decode_rune (b :: r)) as [c sz] eqn:D.
  pose proof (decode_rune_size b r c sz D) as Hsz.
  assert (Hskip : (length (skipn (Z.to_nat sz) (b :: r)) < f)%nat).
  { rewrite skipn_length. cbn [length]. lia. }
  destruct ((c =? rune_error) && (sz =? 1)).
  { destruct (flush_bytes e rseg N) as (e1 & -> & F1 & A1 & N1 & B1). rewrite jthen_nil.
    destruct (jw_bytes e1 [92; 117; 102; 102; 102; 100] N1) as (e2 & -> & F2 & A2 & N2 & B2).
    rewrite jthen_nil.
    destruct (IH e2 r [] N2 ltac:(lia)) as (e3 & E3 & F3 & A3 & N3 & B3).
    exists e3. split; [exact E3|]. split; [congruence|]. split; [congruence|]. split; [exact N3|].
    rewrite B3, B2, B1. unfold bad_chunk. cbn [rev app]. rewrite <- !app_assoc. reflexivity. }
  destruct ((c =? 8232) || (c =? 8233)).
  { destruct (flush_bytes e rseg N) as (e1 & -> & F1 & A1 & N1 & B1). rewrite jthen_nil.
    destruct (jw_bytes e1 [92; 117; 50; 48; 50] N1) as (e2 & -> & F2 & A2 & N2 & B2).
    rewrite jthen_nil.
    destruct (jw_bytes e2 [hexdigit (c mod 16)] N2) as (e3 & -> & F3 & A3 & N3 & B3).
    rewrite jthen_nil.
    destruct (IH e3 _ [] N3 Hskip) as (e4 & E4 & F4 & A4 & N4 & B4).
    exists e4. split; [exact E4|]. split; [congruence|]. split; [congruence|]. split; [exact N4|].
    rewrite B4, B3, B2, B1. unfold ls_chunk. cbn [rev app]. rewrite <- !app_assoc. reflexivity. }
  destruct (IH e _ (rev (firstn (Z.to_nat sz) (b :: r)) ++ rseg) N Hskip) as (e3 & E3 & F3 & A3 & N3 & B3).
  exists e3. split; [exact E3|]. split; [exact F3|]. split; [exact A3|]. split; [exact N3|].
  rewrite B3, rev_app_distr, rev_involutive, <- !app_assoc. reflexivity.
Qed.

Lemma jstring_bytes cfg e s : w_fail (je_w e) = None ->
  bres e (after_val e) (je_inarr e) (sep e ++ str_text (escape_html cfg) s) (jstring cfg e s).
Proof.
  intro N. unfold jstring.
  destruct (try_elem_next_bytes e N) as (e1 & -> & F1 & A1 & N1 & B1). rewrite jthen_nil.
  destruct (jw_bytes e1 [34] N1) as (e2 & -> & F2 & A2 & N2 & B2). rewrite jthen_nil.
  destruct (jstring_loop_bytes (escape_html cfg) (S (length s)) e2 s [] N2 ltac:(lia))
    as (e3 & E3 & F3 & A3 & N3 & B3).
  exists e3. split; [exact E3|]. split; [congruence|]. split; [congruence|]. split; [exact N3|].
  rewrite B3, B2, B1. unfold str_text. cbn [rev app]. rewrite <- !app_assoc. reflexivity.
Qed.

(* ---- decoder side ---- *)
Lemma str_step g b c r racc out rest : b = c :: r -> (c =? 34) = false ->
  json_char b = ChOk out rest ->
  json_string_loop (S g) b racc = json_string_loop g rest (rev out ++ racc).
Proof. intros -> Hc H. cbn [json_string_loop]. rewrite Hc, H. reflexivity. Qed.

Lemma str_plain_run l : forall g x racc, forallb plain l = true -> (length l <= g)%nat ->
  json_string_loop g (l ++ x) racc = json_string_loop (g - length l) x (rev l ++ racc).
Proof.
  induction l as [|c l IH]; intros g x racc Hp Hg.
  - cbn [app length rev]. rewrite Nat.sub_0_r. reflexivity.
  - cbn [forallb] in Hp. apply andb_prop in Hp. destruct Hp as [Hc Hl].
    cbn [length] in Hg. destruct g as [|g]; [lia|].
    cbn [app]. erewrite str_step; [|reflexivity| |apply json_char_plain; exact Hc].
    + rewrite IH by (try assumption; lia). cbn [length rev Nat.sub app]. rewrite <- app_assoc. reflexivity.
    + unfold plain in Hc. lia.
Qed.

Lemma hexval_hexdigit n : 0 <= n < 16 -> hexval (hexdigit n) = Some n.
Proof.
  intro H. unfold hexdigit, hexval. destruct (n <? 10) eqn:E.
  - replace ((48 <=? 48 + n) && (48 + n <=? 57)) with true by lia. f_equal. lia.
  - replace ((48 <=? 87 + n) && (87 + n <=? 57)) with false by lia.
    replace ((97 <=? 87 + n) && (87 + n <=? 102)) with true by lia. f_equal. lia.
Qed.

Lemma json_escape_u r2 : json_escape (117 :: r2) =
  match hex4 r2 with
  | HexTrunc => ChTrunc
  | HexBad => ChBad
  | HexOk code r3 =>
      if is_high_surrogate code then
        match low_escape r3 with
        | Some (lo, r4) => ChOk (encode_rune (utf16_decode code lo)) r4
        | None => ChOk (encode_rune rune_error) r3
        end
      else if is_low_surrogate code then ChOk (encode_rune rune_error) r3
      else ChOk (encode_rune code) r3
  end.
Proof. reflexivity. Qed.

Lemma encode_rune_ascii b : 0 <= b < 128 -> encode_rune b = [b].
Proof.
  intro H. unfold encode_rune, is_surrogate.
  replace ((b <? 0) || (1114111 <? b) || (55296 <=? b) && (b <? 57344)) with false by lia.
  replace (b <=? 127) with true by lia. reflexivity.
Qed.

(* the escape chunk of an ASCII byte reads back as that byte *)
Lemma json_char_esc_chunk b x : 0 <= b < 128 ->
  json_char (esc_chunk b ++ x) = ChOk [b] x.
Proof.
  intro Hb. unfold esc_chunk.
  destruct ((b =? 92) || (b =? 34)) eqn:E1.
  { assert (H : b = 92 \/ b = 34) by lia. destruct H as [-> | ->]; reflexivity. }
  destruct (b =? 10) eqn:E2; [assert (b = 10) by lia; subst b; reflexivity|].
  destruct (b =? 13) eqn:E3; [assert (b = 13) by lia; subst b; reflexivity|].
  destruct (b =? 9) eqn:E4; [assert (b = 9) by lia; subst b; reflexivity|].
  cbn [app]. change (json_char (92 :: 117 :: 48 :: 48 :: hexdigit (b / 16) :: hexdigit (b mod 16) :: x))
    with (json_escape (117 :: 48 :: 48 :: hexdigit (b / 16) :: hexdigit (b mod 16) :: x)).
  rewrite json_escape_u. unfold hex4.
  change (hexval 48) with (Some 0).
  rewrite (hexval_hexdigit (b / 16)) by lia. rewrite (hexval_hexdigit (b mod 16)) by lia.
  replace (0 * 4096 + 0 * 256 + b / 16 * 16 + b mod 16) with b by lia.
  unfold is_high_surrogate, is_low_surrogate.
  replace ((55296 <=? b) && (b <=? 56319)) with false by lia.
  replace ((56320 <=? b) && (b <=? 57343)) with false by lia.
  rewrite encode_rune_ascii by exact Hb. reflexivity.
Qed.

Lemma esc_chunk_head b : exists c r, esc_chunk b = c :: r /\ c = 92.
Proof.
  unfold esc_chunk. destruct ((b =? 92) || (b =? 34)); [eauto|].
  destruct (b =? 10); [eauto|]. destruct (b =? 13); [eauto|]. destruct (b =? 9); eauto.
Qed.

Lemma esc_chunk_length b : (1 <= length (esc_chunk b))%nat.
Proof. destruct (esc_chunk_head b) as (c & r & -> & _). cbn [length]. lia. Qed.

Lemma json_char_bad_chunk x : json_char (bad_chunk ++ x) = ChOk [239; 191; 189] x.
Proof. reflexivity. Qed.

Lemma json_char_ls_chunk c x : c = 8232 \/ c = 8233 ->
  json_char (ls_chunk c ++ x) = ChOk [226; 128; 168 + (c - 8232)] x.
Proof. intros [-> | ->]; reflexivity. Qed.

(* U+2028 / U+2029 have exactly one encoding *)
Lemma decode_rune_ls s c sz : decode_rune s = (c, sz) -> c = 8232 \/ c = 8233 ->
  sz = 3 /\ exists rest, s = [226; 128; 168 + (c - 8232)] ++ rest.
Proof.
  intros D Hc. unfold decode_rune in D.
  destruct s as [|p0 r]; [injection D as <- <-; unfold rune_error in Hc; lia|].
  destruct (p0 <? 128) eqn:E0; [injection D as <- <-; lia|].
  destruct ((p0 <? 194) || (244 <? p0)) eqn:E1; [injection D as <- <-; unfold rune_error in Hc; lia|].
  destruct (p0 <? 224) eqn:E2.
  { destruct r as [|b1 r]; [injection D as <- <-; unfold rune_error in Hc; lia|].
    unfold cont_byte in D.
    destruct ((128 <=? b1) && (b1 <=? 191)) eqn:E3; injection D as <- <-; unfold rune_error in Hc; lia. }
  destruct (p0 <? 240) eqn:E3.
  { destruct r as [|b1 [|b2 r]]; try (injection D as <- <-; unfold rune_error in Hc; lia).
    unfold cont_byte in D.
    match type of D with (if ?x then _ else _) = _ => destruct x eqn:E4 end;
      [|injection D as <- <-; unfold rune_error in Hc; lia].
    injection D as <- <-. split; [reflexivity|]. exists r.
    assert (Hb : 128 <= b1 <= 191 /\ 128 <= b2 <= 191) by (destruct (p0 =? 224), (p0 =? 237); lia).
    assert (p0 = 226 /\ b1 = 128 /\ b2 = 168 + ((p0 - 224) * 4096 + (b1 - 128) * 64 + (b2 - 128) - 8232)) by lia.
    cbn [app]. destruct H as (-> & -> & H2). rewrite <- H2. reflexivity. }
  destruct r as [|b1 [|b2 [|b3 r]]]; try (injection D as <- <-; unfold rune_error in Hc; lia).
  unfold cont_byte in D.
  match type of D with (if ?x then _ else _) = _ => destruct x eqn:E4 end;
    [|injection D as <- <-; unfold rune_error in Hc; lia].
  injection D as <- <-.
  cbv zeta in E4. exfalso. destruct (p0 =? 240) eqn:E5, (p0 =? 244) eqn:E6; lia.
Qed.

Lemma plain_high l : Forall (fun x => 128 <= x < 256) l -> forallb plain l = true.
Proof.
  induction 1 as [|x l Hx Hl IH]; [reflexivity|]. cbn [forallb]. rewrite IH.
  unfold plain. lia.
Qed.

(* what jstring_loop wrote is read back as the sanitized string *)
Lemma str_dec html f : forall s g racc rest, (length s <= f)%nat -> all_bytes s = true ->
  (length (esc_body (S f) html s) < g)%nat ->
  json_string_loop g (esc_body (S f) html s ++ 34 :: rest) racc = StrOk (rev racc ++ sanitize_fuel f s) rest.
Proof.
  induction f as [|f IH]; intros s g racc rest Hlen Hb Hg.
  { destruct s; [|cbn [length] in Hlen; lia]. destruct g as [|g]; [lia|].
    cbn [esc_body app json_string_loop sanitize_fuel]. change (34 =? 34) with true. cbn iota.
    rewrite app_nil_r. reflexivity. }
  destruct s as [|b r].
  { destruct g as [|g]; [lia|].
    cbn [esc_body app json_string_loop sanitize_fuel]. change (34 =? 34) with true. cbn iota.
    rewrite app_nil_r. reflexivity. }
  cbn [length] in Hlen. cbn [all_bytes forallb] in Hb. apply andb_prop in Hb. destruct Hb as [Hb0 Hbr].
  fold (all_bytes r) in Hbr. unfold is_byte in Hb0.
  remember (S f) as f1 eqn:Ef1. cbn [esc_body] in Hg |- *. subst f1. cbn [sanitize_fuel].
  destruct (b <? 128) eqn:E128.
  { assert (Hd : decode_rune (b :: r) = (b, 1)) by (unfold decode_rune; rewrite E128; reflexivity).
    rewrite Hd. replace ((b =? rune_error) && (1 =? 1)) with false by (unfold rune_error; lia).
    change (Z.to_nat 1) with 1%nat. cbn [firstn skipn].
    rewrite app_length in Hg. rewrite <- app_assoc.
    destruct (escape_set html b) eqn:Eesc.
    - destruct (esc_chunk_head b) as (c0 & r0 & Ech & Hc0).
      pose proof (esc_chunk_length b) as Hl.
      destruct g as [|g]; [lia|].
      erewrite str_step; [| rewrite Ech; reflexivity | lia | apply json_char_esc_chunk; lia].
      rewrite IH by (try assumption; lia).
      cbn [rev app]. rewrite <- !app_assoc. reflexivity.
    - cbn [length] in Hg. destruct g as [|g]; [lia|].
      unfold escape_set in Eesc.
      erewrite str_step; [|reflexivity| |apply json_char_plain; unfold plain]; [|lia|lia].
      rewrite IH by (try assumption; lia).
      cbn [rev app]. rewrite <- !app_assoc. reflexivity. }
  destruct (decode_rune (b :: r)) as [c sz] eqn:D.
  pose proof (decode_rune_size b r c sz D) as Hsz.
  assert (Hskipl : (length (skipn (Z.to_nat sz) (b :: r)) <= f)%nat).
  { rewrite skipn_length. cbn [length]. lia. }
  assert (Hskipb : all_bytes (skipn (Z.to_nat sz) (b :: r)) = true).
  { assert (Hall : all_bytes (b :: r) = true).
    { cbn [all_bytes forallb]. fold (all_bytes r). rewrite Hbr. unfold is_byte. lia. }
    rewrite <- (firstn_skipn (Z.to_nat sz) (b :: r)), all_bytes_app in Hall.
    apply andb_prop in Hall. apply Hall. }
  destruct ((c =? rune_error) && (sz =? 1)) eqn:Eerr.
  { rewrite app_length in Hg. rewrite <- app_assoc. destruct g as [|g]; [lia|]. cbn [bad_chunk length] in Hg.
    erewrite str_step; [|reflexivity|reflexivity|apply json_char_bad_chunk].
    rewrite IH by (try assumption; lia).
    cbn [rev app]. rewrite <- !app_assoc. reflexivity. }
  destruct ((c =? 8232) || (c =? 8233)) eqn:Els.
  { rewrite app_length in Hg. rewrite <- app_assoc.
    assert (Hc : c = 8232 \/ c = 8233) by lia.
    destruct (decode_rune_ls _ _ _ D Hc) as (-> & rest' & Es).
    destruct g as [|g]; [lia|]. cbn [ls_chunk length] in Hg.
    erewrite str_step; [|reflexivity|reflexivity|apply json_char_ls_chunk; exact Hc].
    rewrite IH by (try assumption; lia).
    rewrite Es. change (Z.to_nat 3) with 3%nat. cbn [firstn skipn app rev].
    rewrite <- !app_assoc. reflexivity. }
  rewrite app_length in Hg. rewrite <- app_assoc.
  destruct (decode_rune_copy b r c sz E128 D Eerr) as (ru & rest' & Heq & Hrl & _ & Hrange).
  rewrite Heq in *. rewrite <- Hrl in *.
  rewrite firstn_app, Nat.sub_diag, firstn_all in *. cbn [firstn] in *. rewrite app_nil_r in *.
  rewrite skipn_app, Nat.sub_diag, skipn_all in *. cbn [skipn app] in *.
  rewrite str_plain_run by (try (apply plain_high; exact Hrange); lia).
  rewrite IH by (try assumption; lia).
  rewrite rev_app_distr, rev_involutive, <- !app_assoc. reflexivity.
Qed.

Theorem json_string_roundtrip html s rest : all_bytes s = true ->
  json_string (esc_body (S (length s)) html s ++ 34 :: rest) = StrOk (sanitize s) rest.
Proof.
  intro Hb. unfold json_string, sanitize.
  rewrite (str_dec html (length s) s _ [] rest); [reflexivity|lia|exact Hb|].
  rewrite app_length. cbn [length]. lia.
Qed.

(* the same for the body alone *)

Lemma unescape_mono fu : forall s t fu', json_unescape_loop fu s = Some t -> (length s < fu')%nat ->
  json_unescape_loop fu' s = Some t.
Proof.
  induction fu as [|fu IH]; intros s t fu' H Hl; [discriminate|].
  destruct fu' as [|fu']; [lia|]. cbn [json_unescape_loop] in H |- *.
  destruct s as [|c r]; [exact H|].
  destruct (c =? 34) eqn:Eq; [discriminate|].
  destruct (json_char (c :: r)) as [o b'| |] eqn:EC; try discriminate.
  destruct (json_unescape_loop fu b') as [t'|] eqn:EU; [|discriminate].
  destruct (json_char_inv _ _ _ _ EC Eq) as (cons & Ec & Hne & _ & _).
  assert (Hlen : (length b' < length (c :: r))%nat).
  { rewrite Ec, app_length. destruct cons; [contradiction|]. cbn [length]. lia. }
  rewrite (IH b' t' fu' EU) by (cbn [length] in *; lia). exact H.
Qed.

Theorem json_unescape_roundtrip html s : all_bytes s = true ->
  json_unescape (esc_body (S (length s)) html s) = Some (sanitize s).
Proof.
  intro Hb. pose proof (json_string_roundtrip html s [] Hb) as H. unfold json_string in H.
  destruct (json_string_inv _ _ _ _ _ H) as (body & t & fu & Eb & Eo & Hu & _).
  apply app_inv_tail in Eb. subst body. cbn [rev app] in Eo. subst t.
  unfold json_unescape. eapply unescape_mono; [exact Hu|lia].
Qed.
Print Assumptions json_string_roundtrip.
Print Assumptions json_unescape_roundtrip.

(* ====================================================================== *)
(* Part 2: numbers                                                         *)
(* ====================================================================== *)

(* a byte that cannot continue a number literal (or the end of the input) *)
Definition num_cont (c : Z) : bool := is_dig c || (c =? 46) || (c =? 101) || (c =? 69).
Definition num_stop (rest : bytes) : bool :=
  match rest with [] => true | c :: _ => negb (num_cont c) end.

(* what follows a value inside a document: , ] } whitespace or the end *)
Definition delim (rest : bytes) : bool :=
  match rest with [] => true | c :: _ => (c =? 44) || (c =? 93) || (c =? 125) || is_ws c end.

Lemma delim_num_stop rest : delim rest = true -> num_stop rest = true.
Proof. destruct rest as [|c r]; [reflexivity|]. unfold delim, num_stop, num_cont, is_ws, is_dig. lia. Qed.

Definition nodig_head (rest : bytes) : bool :=
  match rest with [] => true | c :: _ => negb (is_dig c) end.

Lemma span_digits_app b : forall ds r rest, span_digits b = (ds, r) -> nodig_head rest = true ->
  span_digits (b ++ rest) = (ds, r ++ rest).
Proof.
  induction b as [|c b IH]; intros ds r rest H Hr.
  - injection H as <- <-. cbn [app]. destruct rest as [|x rest]; [reflexivity|].
    cbn [span_digits]. cbn [nodig_head] in Hr. destruct (is_dig x); [discriminate|reflexivity].
  - cbn [span_digits app] in H |- *. destruct (is_dig c).
    + destruct (span_digits b) as [ds' r'] eqn:ES. injection H as <- <-.
      rewrite (IH _ _ rest eq_refl Hr). reflexivity.
    + injection H as <- <-. reflexivity.
Qed.

Lemma lex_int_app b i r rest : lex_int b = POk i r -> nodig_head rest = true ->
  lex_int (b ++ rest) = POk i (r ++ rest).
Proof.
  unfold lex_int. destruct b as [|c b]; [discriminate|]. cbn [app].
  destruct (c =? 48); [intro H; injection H as <- <-; reflexivity|].
  destruct ((49 <=? c) && (c <=? 57)); [|discriminate].
  destruct (span_digits b) as [ds r'] eqn:ES. intros H Hr. injection H as <- <-.
  rewrite (span_digits_app _ _ _ rest ES Hr). reflexivity.
Qed.

Lemma lex_digits1_app b ds r rest : lex_digits1 b = POk ds r -> nodig_head rest = true ->
  lex_digits1 (b ++ rest) = POk ds (r ++ rest).
Proof.
  unfold lex_digits1. destruct (span_digits b) as [ds' r'] eqn:ES. intros H Hr.
  rewrite (span_digits_app _ _ _ rest ES Hr).
  destruct ds' as [|d ds']; [destruct r'; discriminate|]. injection H as <- <-. reflexivity.
Qed.

Lemma lex_frac_app b fr r rest : lex_frac b = POk fr r -> num_stop rest = true ->
  lex_frac (b ++ rest) = POk fr (r ++ rest).
Proof.
  assert (Hnd : num_stop rest = true -> nodig_head rest = true).
  { destruct rest as [|x rest]; [reflexivity|]. unfold num_stop, num_cont, nodig_head, is_dig. lia. }
  unfold lex_frac. destruct b as [|c b].
  - intros H Hr. injection H as <- <-. cbn [app]. destruct rest as [|x rest]; [reflexivity|].
    unfold num_stop, num_cont in Hr. replace (x =? 46) with false by lia. reflexivity.
  - cbn [app]. destruct (c =? 46).
    + destruct (lex_digits1 b) as [ds r'| |] eqn:EL; try discriminate.
      intros H Hr. injection H as <- <-. rewrite (lex_digits1_app _ _ _ rest EL (Hnd Hr)). reflexivity.
    + intros H _. injection H as <- <-. reflexivity.
Qed.

Lemma lex_exp_app b ex r rest : lex_exp b = POk ex r -> num_stop rest = true ->
  lex_exp (b ++ rest) = POk ex (r ++ rest).
Proof.
  assert (Hnd : num_stop rest = true -> nodig_head rest = true).
  { destruct rest as [|x rest]; [reflexivity|]. unfold num_stop, num_cont, nodig_head, is_dig. lia. }
  unfold lex_exp. destruct b as [|c b].
  - intros H Hr. injection H as <- <-. cbn [app]. destruct rest as [|x rest]; [reflexivity|].
    unfold num_stop, num_cont in Hr. replace ((x =? 101) || (x =? 69)) with false by lia. reflexivity.
  - cbn [app]. destruct ((c =? 101) || (c =? 69)).
    + destruct b as [|x b].
      * cbn [lex_digits1 span_digits]. discriminate.
      * cbn [app]. destruct ((x =? 43) || (x =? 45)).
        -- destruct (lex_digits1 b) as [ds r'| |] eqn:EL; try discriminate.
           intros H Hr. injection H as <- <-. rewrite (lex_digits1_app _ _ _ rest EL (Hnd Hr)). reflexivity.
        -- destruct (lex_digits1 (x :: b)) as [ds r'| |] eqn:EL; try discriminate.
           intros H Hr. injection H as <- <-.
           change (x :: b ++ rest) with ((x :: b) ++ rest).
           rewrite (lex_digits1_app _ _ _ rest EL (Hnd Hr)). reflexivity.
    + intros H _. injection H as <- <-. reflexivity.
Qed.

(* number lexing is stable under appending anything that cannot continue a number *)
Definition sign_split (b : bytes) : bytes * bytes :=
  match b with
  | c :: r => if c =? 45 then ([c], r) else ([], b)
  | [] => ([], b)
  end.

Lemma json_number_eq b : json_number b =
  match lex_int (snd (sign_split b)) with
  | PTrunc => NumTrunc
  | PBad => NumBad
  | POk i b2 =>
      match lex_frac b2 with
      | PTrunc => NumTrunc
      | PBad => NumBad
      | POk fr b3 =>
          match lex_exp b3 with
          | PTrunc => NumTrunc
          | PBad => NumBad
          | POk ex b4 => NumOk (fst (sign_split b) ++ i ++ fr ++ ex) (is_nil fr && is_nil ex) b4
          end
      end
  end.
Proof.
  unfold json_number, sign_split. destruct b as [|c r]; [reflexivity|]. destruct (c =? 45); reflexivity.
Qed.

Lemma sign_split_app b rest : lex_int (snd (sign_split b)) <> PTrunc ->
  sign_split (b ++ rest) = (fst (sign_split b), snd (sign_split b) ++ rest).
Proof.
  unfold sign_split. destruct b as [|c b0]; [intro H; exfalso; apply H; reflexivity|].
  intros _. cbn [app]. destruct (c =? 45); reflexivity.
Qed.

Lemma json_number_app b lit isint r rest : json_number b = NumOk lit isint r -> num_stop rest = true ->
  json_number (b ++ rest) = NumOk lit isint (r ++ rest).
Proof.
  intros H Hr.
  assert (Hnd : nodig_head rest = true).
  { destruct rest as [|x rest]; [reflexivity|]. unfold num_stop, num_cont, is_dig in Hr. unfold nodig_head, is_dig. lia. }
  rewrite json_number_eq in H |- *.
  destruct (lex_int (snd (sign_split b))) as [i b2| |] eqn:E1; try discriminate.
  rewrite sign_split_app by (rewrite E1; discriminate). cbn [fst snd].
  rewrite (lex_int_app _ _ _ rest E1 Hnd).
  destruct (lex_frac b2) as [fr b3| |] eqn:E2; try discriminate.
  rewrite (lex_frac_app _ _ _ rest E2 Hr).
  destruct (lex_exp b3) as [ex b4| |] eqn:E3; try discriminate.
  rewrite (lex_exp_app _ _ _ rest E3 Hr).
  injection H as <- <- <-. reflexivity.
Qed.

(* ---- decimal digits ---- *)
Lemma dec_acc_app a b n : dec_acc (a ++ b) n = dec_acc b (dec_acc a n).
Proof. unfold dec_acc. apply fold_left_app. Qed.

Lemma all_digits_app a b : all_digits (a ++ b) = all_digits a && all_digits b.
Proof. apply forallb_app. Qed.

Lemma digits_fuel_spec f : forall n acc, 0 <= n < 10 ^ Z.of_nat (S f) ->
  exists d ds, digits_fuel (S f) n acc = d :: ds ++ acc /\ all_digits (d :: ds) = true /\
    dec_value (d :: ds) = n /\ (n = 0 -> d = 48 /\ ds = []) /\ (0 < n -> 49 <= d <= 57).
Proof.
  induction f as [|f IH]; intros n acc Hn.
  - change (10 ^ Z.of_nat 1) with 10 in Hn. cbn [digits_fuel].
    replace (n <? 10) with true by lia.
    exists (48 + n), []. split; [reflexivity|]. split; [cbn [all_digits forallb]; unfold is_dig; lia|].
    split; [unfold dec_value; cbn [fold_left]; lia|]. split; [intro; split; [lia|reflexivity]|lia].
  - remember (S f) as f1 eqn:Ef1. cbn [digits_fuel]. destruct (n <? 10) eqn:E.
    + exists (48 + n), []. split; [reflexivity|]. split; [cbn [all_digits forallb]; unfold is_dig; lia|].
      split; [unfold dec_value; cbn [fold_left]; lia|]. split; [intro; split; [lia|reflexivity]|lia].
    + assert (Hn' : 0 <= n / 10 < 10 ^ Z.of_nat f1).
      { rewrite Nat2Z.inj_succ, Z.pow_succ_r in Hn by lia. lia. }
      subst f1.
      destruct (IH (n / 10) ((48 + n mod 10) :: acc) Hn') as (d & ds & E1 & Hd & Hv & _ & Hpos).
      exists d, (ds ++ [48 + n mod 10]). split; [rewrite E1, <- app_assoc; reflexivity|].
      split.
      { change (d :: ds ++ [48 + n mod 10]) with ((d :: ds) ++ [48 + n mod 10]).
        rewrite all_digits_app, Hd. cbn [all_digits forallb andb]. unfold is_dig. lia. }
      split.
      { change (d :: ds ++ [48 + n mod 10]) with ((d :: ds) ++ [48 + n mod 10]).
        rewrite dec_value_acc, dec_acc_app, <- dec_value_acc, Hv. unfold dec_acc. cbn [fold_left]. lia. }
      split; [lia|]. intros _. apply Hpos. lia.
Qed.

Lemma digits_spec n : 0 <= n < 18446744073709551616 ->
  exists d ds, digits n = d :: ds /\ all_digits (d :: ds) = true /\
    dec_value (d :: ds) = n /\ (n = 0 -> d = 48 /\ ds = []) /\ (0 < n -> 49 <= d <= 57).
Proof.
  intro Hn. unfold digits.
  destruct (digits_fuel_spec 24 n []) as (d & ds & E & H).
  { assert (18446744073709551616 < 10 ^ Z.of_nat 25) by reflexivity. lia. }
  exists d, ds. rewrite E, app_nil_r. split; [reflexivity|exact H].
Qed.

(* the text of an integer is an integer literal of the grammar with the same value *)
Definition reads_as (pf : bytes -> option Z) (txt : bytes) (n : cnum) : Prop :=
  exists isint, json_number txt = NumOk txt isint [] /\ json_num_value pf txt isint = Some n.

Lemma span_digits_all ds : all_digits ds = true -> span_digits ds = (ds, []).
Proof.
  induction ds as [|c ds IH]; intro H; [reflexivity|].
  cbn [all_digits forallb] in H. apply andb_prop in H. destruct H as [Hc Hd].
  cbn [span_digits]. rewrite Hc, (IH Hd). reflexivity.
Qed.

Lemma json_number_nat d ds sg : all_digits (d :: ds) = true ->
  ((d = 48 /\ ds = []) \/ 49 <= d <= 57) -> sg = [] \/ sg = [45] ->
  json_number (sg ++ d :: ds) = NumOk (sg ++ d :: ds) true [].
Proof.
  intros Hd Hlead Hsg.
  assert (Hi : lex_int (d :: ds) = POk (d :: ds) []).
  { unfold lex_int. destruct Hlead as [[-> ->]|Hlead]; [reflexivity|].
    replace (d =? 48) with false by lia. replace ((49 <=? d) && (d <=? 57)) with true by lia.
    cbn [all_digits forallb] in Hd. apply andb_prop in Hd. destruct Hd as [_ Hd].
    rewrite (span_digits_all ds Hd). reflexivity. }
  assert (Hd48 : (d =? 45) = false).
  { cbn [all_digits forallb] in Hd. apply andb_prop in Hd. destruct Hd as [Hd _]. unfold is_dig in Hd. lia. }
  rewrite json_number_eq.
  assert (Hs : sign_split (sg ++ d :: ds) = (sg, d :: ds)).
  { destruct Hsg as [-> | ->]; cbn [app sign_split]; [rewrite Hd48|]; reflexivity. }
  rewrite Hs. cbn [fst snd]. rewrite Hi. cbn [lex_frac lex_exp is_nil andb]. rewrite !app_nil_r. reflexivity.
Qed.

Lemma int_reads_as pf z : -9223372036854775808 <= z < 18446744073709551616 ->
  reads_as pf (int_chunk z) (CInt z).
Proof.
  intro Hz. unfold int_chunk. exists true. destruct (z <? 0) eqn:E.
  - destruct (digits_spec (- z) ltac:(lia)) as (d & ds & Ed & Hd & Hv & H0 & Hpos).
    rewrite Ed. split.
    + apply (json_number_nat d ds [45] Hd); [right; apply Hpos; lia|right; reflexivity].
    + unfold json_num_value, int_value. change (45 =? 45) with true. cbn iota. rewrite Hv.
      replace ((-9223372036854775808 <=? - - z) && (- - z <? 18446744073709551616)) with true by lia.
      f_equal. f_equal. lia.
  - destruct (digits_spec z ltac:(lia)) as (d & ds & Ed & Hd & Hv & H0 & Hpos).
    rewrite Ed. split.
    + apply (json_number_nat d ds [] Hd); [|left; reflexivity].
      destruct (Z.eq_dec z 0) as [Hz0|Hz0]; [left; apply H0; exact Hz0|right; apply Hpos; lia].
    + unfold json_num_value, int_value.
      assert (Hd45 : (d =? 45) = false).
      { cbn [all_digits forallb] in Hd. apply andb_prop in Hd. destruct Hd as [Hd _]. unfold is_dig in Hd. lia. }
      rewrite Hd45, Hv.
      replace ((-9223372036854775808 <=? z) && (z <? 18446744073709551616)) with true by lia.
      reflexivity.
Qed.

Print Assumptions json_number_app.
Print Assumptions int_reads_as.

Lemma nkind_int_range k z : nkind_ok k z = true -> k <> KFloat32 -> k <> KFloat64 ->
  -9223372036854775808 <= z < 18446744073709551616.
Proof.
  intros H H1 H2. destruct k; try contradiction; cbn [nkind_ok] in H; unfold in_s, in_u in H;
    repeat match type of H with context [2 ^ ?a] =>
      let v := eval vm_compute in (2 ^ a) in change (2 ^ a) with v in H end; lia.
Qed.

(* ====================================================================== *)
(* Part 3: the bytes the encoder writes for a tree                          *)
(* ====================================================================== *)

(* elements / members with their separating commas *)
Fixpoint seq_text (first : bool) (l : list bytes) : bytes :=
  match l with
  | [] => []
  | x :: r => (if first then [] else [44]) ++ x ++ seq_text false r
  end.

(* the text jfloat writes under explicit_radix *)
Definition radix_patch (b : bytes) : bytes :=
  let '(idx, need) := radix_scan b 0 in
  firstn idx b ++ (if need then [46; 48] else []) ++ skipn idx b.

Lemma radix_patch_noneed b : snd (radix_scan b 0) = false -> radix_patch b = b.
Proof.
  unfold radix_patch. destruct (radix_scan b 0) as [idx need]. cbn [snd]. intros ->.
  cbn [app]. apply firstn_skipn.
Qed.

Lemma on_field_next_bytes e : w_fail (je_w e) = None ->
  bres e (bs_set (je_first e) false) (je_inarr e) (if bs_cur (je_first e) then [] else [44])
       (on_field_next e).
Proof.
  intro N. unfold on_field_next. destruct (bs_cur (je_first e)) eqn:F.
  - eexists. split; [reflexivity|]. cbn [je_first je_inarr je_w]. rewrite app_nil_r. auto.
  - rewrite bs_set_same by exact F. apply jw_bytes; exact N.
Qed.

Lemma jfinish_bytes e (isarr : bool) f a bf ba : w_fail (je_w e) = None ->
  bs_stack (je_first e) = bs_stack (bs_push f bf) ->
  bs_stack (je_inarr e) = bs_stack (bs_push a ba) ->
  bres e f a [if isarr then 93 else 125] (jfinish e isarr).
Proof.
  intros N Hf Ha. unfold jfinish.
  rewrite (bs_pop_push f _ bf Hf), (bs_pop_push a _ ba Ha).
  apply (jw_bytes {| je_w := je_w e; je_first := f; je_inarr := a |}). exact N.
Qed.

Lemma jstart_bytes e (isarr : bool) : w_fail (je_w e) = None ->
  bres e (bs_push (after_val e) true) (bs_push (je_inarr e) isarr)
       (sep e ++ [if isarr then 91 else 123]) (jstart e isarr).
Proof.
  intro N. unfold jstart.
  destruct (try_elem_next_bytes e N) as (e1 & -> & F1 & A1 & N1 & B1). rewrite jthen_nil.
  destruct (jw_bytes {| je_w := je_w e1; je_first := bs_push (je_first e1) true;
                        je_inarr := bs_push (je_inarr e1) isarr |} [if isarr then 91 else 123] N1)
    as (e2 & E2 & F2 & A2 & N2 & B2).
  exists e2. split; [exact E2|]. cbn [je_first je_inarr je_w] in *.
  split; [congruence|]. split; [congruence|]. split; [exact N2|].
  rewrite B2, B1, <- app_assoc. reflexivity.
Qed.

Lemma jint_bytes e z : w_fail (je_w e) = None ->
  bres e (after_val e) (je_inarr e) (sep e ++ int_chunk z) (jint e z).
Proof.
  intro N. unfold jint.
  destruct (try_elem_next_bytes e N) as (e1 & -> & F1 & A1 & N1 & B1). rewrite jthen_nil.
  destruct (jw_bytes e1 (int_chunk z) N1) as (e2 & E2 & F2 & A2 & N2 & B2).
  exists e2. split; [exact E2|]. split; [congruence|]. split; [congruence|]. split; [exact N2|].
  rewrite B2, B1, <- app_assoc. reflexivity.
Qed.

Lemma jlit_bytes e b : w_fail (je_w e) = None ->
  bres e (after_val e) (je_inarr e) (sep e ++ b) (try_elem_next e >>= fun e => jw e b).
Proof.
  intro N.
  destruct (try_elem_next_bytes e N) as (e1 & -> & F1 & A1 & N1 & B1). rewrite jthen_nil.
  destruct (jw_bytes e1 b N1) as (e2 & E2 & F2 & A2 & N2 & B2).
  exists e2. split; [exact E2|]. split; [congruence|]. split; [congruence|]. split; [exact N2|].
  rewrite B2, B1, <- app_assoc. reflexivity.
Qed.

Lemma jkey_bytes cfg e k : w_fail (je_w e) = None -> bs_cur (je_inarr e) = false ->
  bres e (bs_set (je_first e) false) (je_inarr e)
       ((if bs_cur (je_first e) then [] else [44]) ++ str_text (escape_html cfg) k ++ [58]) (jkey cfg e k).
Proof.
  intros N Hin. unfold jkey.
  destruct (on_field_next_bytes e N) as (e1 & -> & F1 & A1 & N1 & B1). rewrite jthen_nil.
  destruct (jstring_bytes cfg e1 k N1) as (e2 & -> & F2 & A2 & N2 & B2). rewrite jthen_nil.
  destruct (jw_bytes e2 [58] N2) as (e3 & E3 & F3 & A3 & N3 & B3).
  assert (Hav : after_val e1 = je_first e1) by (unfold after_val; rewrite A1, Hin; reflexivity).
  assert (Hsep : sep e1 = []) by (unfold sep; rewrite A1, Hin; reflexivity).
  exists e3. split; [exact E3|]. split; [congruence|]. split; [congruence|]. split; [exact N3|].
  rewrite B3, B2, B1, Hsep. cbn [app]. rewrite <- !app_assoc. reflexivity.
Qed.

Section EncText.
  Variable ffmt : Z -> Z -> bytes.
  Variable cfg : jcfg.

  Definition float_text (w bits : Z) : bytes :=
    if nonfinite w bits then kw_null
    else if explicit_radix cfg then radix_patch (ffmt w bits) else ffmt w bits.

  Definition scalar_text (s : scalar) : bytes :=
    match s with
    | SNil => kw_null
    | SBool true => kw_true
    | SBool false => kw_false
    | SStr s => str_text (escape_html cfg) s
    | SNum KFloat32 z => float_text 32 z
    | SNum KFloat64 z => float_text 64 z
    | SNum _ z => int_chunk z
    end.

  Definition member_text {A} (text : A -> bytes) (k : bytes) (v : A) : bytes :=
    str_text (escape_html cfg) k ++ 58 :: text v.

  Fixpoint tree_text (t : tree) : bytes :=
    match t with
    | TVal s _ => scalar_text s
    | TArr _ _ es => 91 :: seq_text true (map tree_text es) ++ [93]
    | TObj _ _ ms => 123 :: seq_text true (map (fun m => member_text tree_text (fst (fst m)) (snd m)) ms) ++ [125]
    | TXArr _ es => 91 :: seq_text true (map scalar_text es) ++ [93]
    | TXObj _ ms => 123 :: seq_text true (map (fun m => member_text scalar_text (fst m) (snd m)) ms) ++ [125]
    end.

  Lemma jfloat_bytes e w bits : w_fail (je_w e) = None ->
    ignore_invalid cfg = true \/ nonfinite w bits = false ->
    bres e (after_val e) (je_inarr e) (sep e ++ float_text w bits) (jfloat cfg ffmt e w bits).
  Proof.
    intros N Hfin. unfold jfloat, float_text.
    destruct (try_elem_next_bytes e N) as (e1 & -> & F1 & A1 & N1 & B1). rewrite jthen_nil.
    destruct (nonfinite w bits).
    { destruct Hfin as [-> | Hfin]; [|discriminate].
      destruct (jw_bytes e1 [110; 117; 108; 108] N1) as (e2 & E2 & F2 & A2 & N2 & B2).
      exists e2. split; [exact E2|]. split; [congruence|]. split; [congruence|]. split; [exact N2|].
      rewrite B2, B1, <- app_assoc. reflexivity. }
    destruct (explicit_radix cfg).
    2:{ destruct (jw_bytes e1 (ffmt w bits) N1) as (e2 & E2 & F2 & A2 & N2 & B2).
        exists e2. split; [exact E2|]. split; [congruence|]. split; [congruence|]. split; [exact N2|].
        rewrite B2, B1, <- app_assoc. reflexivity. }
    unfold radix_patch. destruct (radix_scan (ffmt w bits) 0) as [idx need].
    destruct (jw_bytes e1 (firstn idx (ffmt w bits)) N1) as (e2 & -> & F2 & A2 & N2 & B2).
    rewrite jthen_nil.
    destruct need.
    - destruct (jw_bytes e2 [46; 48] N2) as (e3 & -> & F3 & A3 & N3 & B3). rewrite jthen_nil.
      destruct (jw_bytes e3 (skipn idx (ffmt w bits)) N3) as (e4 & E4 & F4 & A4 & N4 & B4).
      exists e4. split; [exact E4|]. split; [congruence|]. split; [congruence|]. split; [exact N4|].
      rewrite B4, B3, B2, B1, <- !app_assoc. reflexivity.
    - rewrite jthen_nil.
      destruct (jw_bytes e2 (skipn idx (ffmt w bits)) N2) as (e4 & E4 & F4 & A4 & N4 & B4).
      exists e4. split; [exact E4|]. split; [congruence|]. split; [congruence|]. split; [exact N4|].
      rewrite B4, B2, B1, <- !app_assoc. reflexivity.
  Qed.

  Lemma jscalar_bytes e s : w_fail (je_w e) = None ->
    ignore_invalid cfg = true \/ scalar_finite s = true ->
    bres e (after_val e) (je_inarr e) (sep e ++ scalar_text s) (jscalar cfg ffmt e s).
  Proof.
    intros N Hfin. destruct s as [|b|s|k z]; cbn [jscalar scalar_text].
    - apply jlit_bytes; exact N.
    - destruct b; apply jlit_bytes; exact N.
    - apply jstring_bytes; exact N.
    - destruct k; try (apply jint_bytes; exact N); apply jfloat_bytes; try exact N;
        cbn [scalar_finite] in Hfin; (destruct Hfin as [H|H]; [left; exact H|right]);
        apply negb_true_iff in H; exact H.
  Qed.

  (* ---- runs ---- *)
  Definition tres (e : jenc) (f a : bstack) (out : bytes) (r : jrun_res) : Prop :=
    exists e', r = JRun e' None /\ je_first e' = f /\ je_inarr e' = a /\
               w_fail (je_w e') = None /\ w_bytes (je_w e') = w_bytes (je_w e) ++ out.

  Lemma tres_one e ev i f a out : bres e f a out (json_on cfg ffmt e ev) ->
    tres e f a out (json_run cfg ffmt e [ev] i).
  Proof.
    intros (e1 & E & F & A & N & B). cbn [json_run]. rewrite E.
    change (jnil =? jnil) with true. cbn iota. exists e1. auto.
  Qed.

  Lemma tres_app e evs1 evs2 i f a o1 f' a' o2 :
    tres e f a o1 (json_run cfg ffmt e evs1 i) ->
    (forall e1, je_first e1 = f -> je_inarr e1 = a -> w_fail (je_w e1) = None ->
                tres e1 f' a' o2 (json_run cfg ffmt e1 evs2 (i + length evs1))) ->
    tres e f' a' (o1 ++ o2) (json_run cfg ffmt e (evs1 ++ evs2) i).
  Proof.
    intros (e1 & E & F & A & N & B) Hk. rewrite json_run_app, E.
    destruct (Hk e1 F A N) as (e2 & E2 & F2 & A2 & N2 & B2).
    exists e2. split; [exact E2|]. split; [exact F2|]. split; [exact A2|]. split; [exact N2|].
    rewrite B2, B, <- app_assoc. reflexivity.
  Qed.

  Lemma tres_cons e ev r i f a o1 f' a' o2 :
    bres e f a o1 (json_on cfg ffmt e ev) ->
    (forall e1, je_first e1 = f -> je_inarr e1 = a -> w_fail (je_w e1) = None ->
                tres e1 f' a' o2 (json_run cfg ffmt e1 r (i + 1))) ->
    tres e f' a' (o1 ++ o2) (json_run cfg ffmt e (ev :: r) i).
  Proof.
    intros H Hk. change (ev :: r) with ([ev] ++ r). eapply tres_app; [apply tres_one; exact H|exact Hk].
  Qed.

  Lemma tres_out e f a o o' r : tres e f a o r -> o = o' -> tres e f a o' r.
  Proof. intros H <-. exact H. Qed.

  Definition fin_ok' (t : tree) : Prop := ignore_invalid cfg = true \/ tree_finite t = true.

  Definition PT (t : tree) : Prop :=
    fin_ok' t -> forall e i, w_fail (je_w e) = None ->
    tres e (after_val e) (je_inarr e) (sep e ++ tree_text t) (json_run cfg ffmt e (flatten t) i).

  Lemma PT_val s r : PT (TVal s r).
  Proof.
    intros Hfin e i N.
    assert (Hs : ignore_invalid cfg = true \/ scalar_finite s = true) by exact Hfin.
    assert (H1 : tres e (after_val e) (je_inarr e) (sep e ++ scalar_text s) (json_run cfg ffmt e [EVal s] i)).
    { apply tres_one. cbn [json_on json_basic]. apply jscalar_bytes; assumption. }
    destruct s as [|b|s|k z]; try exact H1.
    destruct r; [|exact H1]. cbn [flatten tree_text scalar_text].
    apply tres_one. cbn [json_on json_basic]. apply jstring_bytes; exact N.
  Qed.

  Definition next_first (n : bool) (s : bstack) : bstack := if n then s else bs_set s false.

  Lemma bs_set_idem s : bs_set (bs_set s false) false = bs_set s false.
  Proof. reflexivity. Qed.

  Lemma elems_text es : Forall PT es ->
    ignore_invalid cfg = true \/ forallb tree_finite es = true ->
    forall e i, w_fail (je_w e) = None -> bs_cur (je_inarr e) = true ->
    tres e (next_first (is_nil es) (je_first e)) (je_inarr e)
         (seq_text (bs_cur (je_first e)) (map tree_text es))
         (json_run cfg ffmt e (flatten_elems es) i).
  Proof.
    induction 1 as [|t r Ht Hr IH]; intros Hfin e i N Hin; unfold flatten_elems; cbn [flat_map].
    - exists e. cbn [map seq_text is_nil next_first]. rewrite app_nil_r. auto.
    - assert (Hft : fin_ok' t /\ (ignore_invalid cfg = true \/ forallb tree_finite r = true)).
      { destruct Hfin as [H|H]; [split; left; exact H|]. cbn [forallb] in H.
        apply andb_true_iff in H. destruct H as [H1 H2]. split; right; assumption. }
      destruct Hft as [Hft Hfr].
      cbn [map seq_text is_nil next_first].
      destruct (Ht Hft e i N) as (e1 & E1 & F1 & A1 & N1 & B1).
      rewrite json_run_app, E1.
      assert (Hin1 : bs_cur (je_inarr e1) = true) by congruence.
      destruct (IH Hfr e1 (i + length (flatten t))%nat N1 Hin1) as (e2 & E2 & F2 & A2 & N2 & B2).
      fold (flatten_elems r). exists e2. split; [exact E2|].
      assert (Hav : after_val e = bs_set (je_first e) false) by (unfold after_val; rewrite Hin; reflexivity).
      split.
      { rewrite F2, F1, Hav. destruct (is_nil r); reflexivity. }
      split; [congruence|]. split; [exact N2|].
      rewrite B2, B1, F1, Hav. cbn [bs_set bs_cur]. unfold sep. rewrite Hin. cbn [andb].
      destruct (bs_cur (je_first e)); cbn [negb]; rewrite <- !app_assoc; reflexivity.
  Qed.

  Lemma PT_arr len bt es : Forall PT es -> PT (TArr len bt es).
  Proof.
    intros Hes Hfin e i N. rewrite flatten_arr.
    assert (Hf : ignore_invalid cfg = true \/ forallb tree_finite es = true) by exact Hfin.
    destruct (jstart_bytes e true N) as (e1 & E1 & F1 & A1 & N1 & B1).
    cbn [json_run json_on json_basic]. rewrite E1. change (jnil =? jnil) with true. cbn iota.
    assert (Hin1 : bs_cur (je_inarr e1) = true) by (rewrite A1; reflexivity).
    destruct (elems_text es Hes Hf e1 (S i) N1 Hin1) as (e2 & E2 & F2 & A2 & N2 & B2).
    rewrite json_run_app, E2.
    destruct (jfinish_bytes e2 true (after_val e) (je_inarr e) true true N2) as (e3 & E3 & F3 & A3 & N3 & B3).
    { rewrite F2, F1. destruct (is_nil es); reflexivity. }
    { rewrite A2, A1. reflexivity. }
    cbn [json_run json_on json_basic]. rewrite E3. change (jnil =? jnil) with true. cbn iota.
    exists e3. split; [reflexivity|]. split; [exact F3|]. split; [exact A3|]. split; [exact N3|].
    rewrite B3, B2, B1, F1. cbn [bs_push bs_cur tree_text]. rewrite <- !app_assoc. reflexivity.
  Qed.

  Lemma members_text ms : Forall (fun m => PT (snd m)) ms ->
    ignore_invalid cfg = true \/ forallb (fun m => tree_finite (snd m)) ms = true ->
    forall e i, w_fail (je_w e) = None -> bs_cur (je_inarr e) = false ->
    tres e (next_first (is_nil ms) (je_first e)) (je_inarr e)
         (seq_text (bs_cur (je_first e)) (map (fun m => member_text tree_text (fst (fst m)) (snd m)) ms))
         (json_run cfg ffmt e (flatten_members ms) i).
  Proof.
    induction 1 as [|[[k byref] t] r Ht Hr IH]; intros Hfin e i N Hin;
      unfold flatten_members; cbn [flat_map].
    - exists e. cbn [map seq_text is_nil next_first]. rewrite app_nil_r. auto.
    - cbn [snd] in Ht.
      assert (Hft : fin_ok' t /\ (ignore_invalid cfg = true \/
                                 forallb (fun m => tree_finite (snd m)) r = true)).
      { destruct Hfin as [H|H]; [split; left; exact H|]. cbn [forallb snd] in H.
        apply andb_true_iff in H. destruct H as [H1 H2]. split; right; assumption. }
      destruct Hft as [Hft Hfr].
      assert (Hk : bres e (bs_set (je_first e) false) (je_inarr e)
                     ((if bs_cur (je_first e) then [] else [44]) ++ str_text (escape_html cfg) k ++ [58])
                     (json_on cfg ffmt e (key_event k byref))).
      { unfold key_event. destruct byref; cbn [json_on json_basic]; apply jkey_bytes; assumption. }
      destruct Hk as (e0 & E0 & F0 & A0 & N0 & B0).
      cbn [app json_run]. rewrite E0. change (jnil =? jnil) with true. cbn iota.
      destruct (Ht Hft e0 (S i) N0) as (e1 & E1 & F1 & A1 & N1 & B1).
      rewrite json_run_app, E1.
      assert (Hin0 : bs_cur (je_inarr e0) = false) by congruence.
      assert (Hin1 : bs_cur (je_inarr e1) = false) by congruence.
      destruct (IH Hfr e1 (S i + length (flatten t))%nat N1 Hin1) as (e2 & E2 & F2 & A2 & N2 & B2).
      fold (flatten_members r). exists e2. split; [exact E2|].
      assert (Hav : after_val e0 = bs_set (je_first e) false) by (unfold after_val; rewrite Hin0; exact F0).
      split.
      { cbn [is_nil next_first]. rewrite F2, F1, Hav. destruct (is_nil r); reflexivity. }
      split; [congruence|]. split; [exact N2|].
      rewrite B2, B1, B0, F1, Hav. cbn [bs_set bs_cur map seq_text fst snd]. unfold sep. rewrite Hin0. cbn [andb].
      change (member_text tree_text k t) with (str_text (escape_html cfg) k ++ 58 :: tree_text t).
      destruct (bs_cur (je_first e)); rewrite <- ?app_assoc; cbn [app]; rewrite <- ?app_assoc; cbn [app];
        reflexivity.
  Qed.

  Lemma PT_obj len bt ms : Forall (fun m => PT (snd m)) ms -> PT (TObj len bt ms).
  Proof.
    intros Hms Hfin e i N. rewrite flatten_obj.
    assert (Hf : ignore_invalid cfg = true \/ forallb (fun m => tree_finite (snd m)) ms = true)
      by exact Hfin.
    destruct (jstart_bytes e false N) as (e1 & E1 & F1 & A1 & N1 & B1).
    cbn [json_run json_on json_basic]. rewrite E1. change (jnil =? jnil) with true. cbn iota.
    assert (Hin1 : bs_cur (je_inarr e1) = false) by (rewrite A1; reflexivity).
    destruct (members_text ms Hms Hf e1 (S i) N1 Hin1) as (e2 & E2 & F2 & A2 & N2 & B2).
    rewrite json_run_app, E2.
    destruct (jfinish_bytes e2 false (after_val e) (je_inarr e) true false N2) as (e3 & E3 & F3 & A3 & N3 & B3).
    { rewrite F2, F1. destruct (is_nil ms); reflexivity. }
    { rewrite A2, A1. reflexivity. }
    cbn [json_run json_on json_basic]. rewrite E3. change (jnil =? jnil) with true. cbn iota.
    exists e3. split; [reflexivity|]. split; [exact F3|]. split; [exact A3|]. split; [exact N3|].
    rewrite B3, B2, B1, F1. cbn [bs_push bs_cur tree_text]. rewrite <- !app_assoc. reflexivity.
  Qed.

  Lemma tres_of_seq e ev i f a out : is_basic ev = false -> forallb is_basic (expand ev) = true ->
    tres e f a out (json_run cfg ffmt e (expand ev) i) -> tres e f a out (json_run cfg ffmt e [ev] i).
  Proof.
    intros Hx Hb (e1 & E & F & A & N & B). cbn [json_run].
    assert (Hon : json_on cfg ffmt e ev = json_seq cfg ffmt e (expand ev)).
    { destruct ev; try discriminate; reflexivity. }
    rewrite Hon, (json_seq_run ffmt cfg _ e i Hb), E.
    change (jnil =? jnil) with true. cbn iota. exists e1. auto.
  Qed.

  Lemma PT_xarr bt es : PT (TXArr bt es).
  Proof.
    intros Hfin e i N. cbn [flatten].
    apply tres_of_seq; [reflexivity| |].
    - cbn [expand forallb is_basic]. rewrite forallb_app. cbn [forallb is_basic].
      rewrite andb_true_r. clear. induction es as [|s r IH]; [reflexivity|].
      cbn [map forallb is_basic]. exact IH.
    - cbn [expand]. rewrite <- Json.EncProofs.flatten_elems_vals, <- flatten_arr.
      assert (Ht : tree_text (TXArr bt es) = tree_text (TArr (zlen es) bt (map (fun s => TVal s false) es))).
      { cbn [tree_text]. rewrite map_map. reflexivity. }
      rewrite Ht. apply PT_arr; [| |exact N].
      + apply Forall_forall. intros t Hin. apply in_map_iff in Hin. destruct Hin as (s & <- & _).
        apply PT_val.
      + destruct Hfin as [H|H]; [left; exact H|right]. cbn [tree_finite] in H |- *.
        rewrite <- H. clear. induction es as [|s r IH]; [reflexivity|].
        cbn [map forallb tree_finite]. rewrite IH. reflexivity.
  Qed.

  Lemma PT_xobj bt ms : PT (TXObj bt ms).
  Proof.
    intros Hfin e i N. cbn [flatten].
    apply tres_of_seq; [reflexivity| |].
    - cbn [expand forallb is_basic]. rewrite forallb_app. cbn [forallb is_basic].
      rewrite andb_true_r. clear. induction ms as [|m r IH]; [reflexivity|].
      cbn [flat_map app forallb is_basic]. exact IH.
    - cbn [expand]. rewrite <- Json.EncProofs.flatten_members_vals, <- flatten_obj.
      assert (Ht : tree_text (TXObj bt ms) =
                   tree_text (TObj (zlen ms) bt (map (fun m : bytes * scalar => (fst m, false, TVal (snd m) false)) ms))).
      { cbn [tree_text]. rewrite map_map. reflexivity. }
      rewrite Ht. apply PT_obj; [| |exact N].
      + apply Forall_forall. intros t Hin. apply in_map_iff in Hin. destruct Hin as (m & <- & _).
        cbn [snd]. apply PT_val.
      + destruct Hfin as [H|H]; [left; exact H|right]. cbn [tree_finite] in H |- *.
        rewrite <- H. clear. induction ms as [|m r IH]; [reflexivity|].
        cbn [map forallb tree_finite snd]. rewrite IH. reflexivity.
  Qed.

  (* the bytes written for a tree, from any healthy encoder state *)
  Theorem json_enc_tree_text : forall t, ignore_invalid cfg = true \/ tree_finite t = true ->
    forall e i, w_fail (je_w e) = None ->
    exists e', json_run cfg ffmt e (flatten t) i = JRun e' None /\
      je_first e' = after_val e /\ je_inarr e' = je_inarr e /\ w_fail (je_w e') = None /\
      w_bytes (je_w e') = w_bytes (je_w e) ++ sep e ++ tree_text t.
  Proof.
    intro t. change (PT t). induction t using tree_ind'.
    - apply PT_val.
    - apply PT_arr; assumption.
    - apply PT_obj; assumption.
    - apply PT_xarr.
    - apply PT_xobj.
  Qed.
End EncText.
Print Assumptions json_enc_tree_text.

(* ====================================================================== *)
(* Part 4: the reference decoder reads the text back                       *)
(* ====================================================================== *)

Lemma json_ref_S pf f b : json_ref pf (S f) b =
  match skip_ws b with
  | [] => RTruncated
  | c :: r =>
      if c =? 110 then lit_value kw_null CNil (c :: r)
      else if c =? 116 then lit_value kw_true (CBool true) (c :: r)
      else if c =? 102 then lit_value kw_false (CBool false) (c :: r)
      else if c =? 34 then
        match json_string r with
        | StrOk s rest => RValue (CStr s) rest
        | StrTrunc => RTruncated
        | StrBad => RMalformed
        end
      else if c =? 91 then
        match skip_ws r with
        | [] => RTruncated
        | d :: r' => if d =? 93 then RValue (CArr []) r' else json_elems (json_ref pf f) f r []
        end
      else if c =? 123 then
        match skip_ws r with
        | [] => RTruncated
        | d :: r' => if d =? 125 then RValue (CObj []) r' else json_members (json_ref pf f) f r []
        end
      else if (c =? 45) || is_dig c then
        match json_number (c :: r) with
        | NumOk lit isint rest =>
            match json_num_value pf lit isint with
            | Some n => RValue (CNum n) rest
            | None => RUnsupported
            end
        | NumTrunc => RTruncated
        | NumBad => RMalformed
        end
      else RMalformed
  end.
Proof. reflexivity. Qed.

Lemma json_ref_null pf f rest : json_ref pf (S f) (kw_null ++ rest) = RValue CNil rest.
Proof. reflexivity. Qed.
Lemma json_ref_true pf f rest : json_ref pf (S f) (kw_true ++ rest) = RValue (CBool true) rest.
Proof. reflexivity. Qed.
Lemma json_ref_false pf f rest : json_ref pf (S f) (kw_false ++ rest) = RValue (CBool false) rest.
Proof. reflexivity. Qed.

Lemma json_ref_quote pf f r : json_ref pf (S f) (34 :: r) =
  match json_string r with
  | StrOk s rest => RValue (CStr s) rest
  | StrTrunc => RTruncated
  | StrBad => RMalformed
  end.
Proof. reflexivity. Qed.

Lemma json_ref_arr pf f r : json_ref pf (S f) (91 :: r) =
  match skip_ws r with
  | [] => RTruncated
  | d :: r' => if d =? 93 then RValue (CArr []) r' else json_elems (json_ref pf f) f r []
  end.
Proof. reflexivity. Qed.

Lemma json_ref_obj pf f r : json_ref pf (S f) (123 :: r) =
  match skip_ws r with
  | [] => RTruncated
  | d :: r' => if d =? 125 then RValue (CObj []) r' else json_members (json_ref pf f) f r []
  end.
Proof. reflexivity. Qed.

Lemma json_ref_str pf f html s rest : all_bytes s = true ->
  json_ref pf (S f) (str_text html s ++ rest) = RValue (CStr (sanitize s)) rest.
Proof.
  intro Hb. unfold str_text. cbn [app]. rewrite json_ref_quote, <- app_assoc. cbn [app].
  rewrite json_string_roundtrip by exact Hb. reflexivity.
Qed.

(* a literal of the number grammar followed by a byte that cannot continue it *)
Lemma reads_as_head pf txt n : reads_as pf txt n ->
  exists c r, txt = c :: r /\ (c =? 45) || is_dig c = true.
Proof.
  intros (isint & Hn & _). rewrite json_number_eq in Hn. unfold sign_split in Hn.
  destruct txt as [|c r]; [discriminate|]. exists c, r. split; [reflexivity|].
  destruct (c =? 45) eqn:E; [reflexivity|]. cbn [snd lex_int orb] in Hn.
  unfold is_dig. destruct (c =? 48) eqn:E0; [lia|].
  destruct ((49 <=? c) && (c <=? 57)) eqn:E1; [lia|discriminate].
Qed.

Lemma json_ref_num pf f txt n rest : reads_as pf txt n -> num_stop rest = true ->
  json_ref pf (S f) (txt ++ rest) = RValue (CNum n) rest.
Proof.
  intros Hr Hs. destruct (reads_as_head pf txt n Hr) as (c & r & -> & Hc).
  destruct Hr as (isint & Hn & Hv).
  pose proof (json_number_app _ _ _ _ rest Hn Hs) as Hn'. cbn [app] in Hn'.
  rewrite json_ref_S. cbn [app].
  assert (Hws : is_ws c = false) by (unfold is_ws; unfold is_dig in Hc; lia).
  cbn [skip_ws]. rewrite Hws. unfold is_dig in Hc.
  replace (c =? 110) with false by lia. replace (c =? 116) with false by lia.
  replace (c =? 102) with false by lia. replace (c =? 34) with false by lia.
  replace (c =? 91) with false by lia. replace (c =? 123) with false by lia.
  fold (is_dig c) in Hc. rewrite Hc, Hn', Hv. reflexivity.
Qed.

(* a value starts with neither a closing bracket nor a closing brace *)
Lemma json_ref_value_head pf f b v rest : json_ref pf f b = RValue v rest ->
  exists c r, skip_ws b = c :: r /\ (c =? 93) = false /\ (c =? 125) = false.
Proof.
  destruct f as [|f]; [discriminate|]. rewrite json_ref_S.
  destruct (skip_ws b) as [|c r]; [discriminate|]. intro H. exists c, r. split; [reflexivity|].
  split.
  - destruct (c =? 93) eqn:E; [|reflexivity]. assert (c = 93) by lia. subst c. discriminate H.
  - destruct (c =? 125) eqn:E; [|reflexivity]. assert (c = 125) by lia. subst c. discriminate H.
Qed.

Lemma json_elems_S value g b acc : json_elems value (S g) b acc =
  match value b with
  | RValue v r =>
      match skip_ws r with
      | [] => RTruncated
      | c :: r' =>
          if c =? 44 then json_elems value g r' (v :: acc)
          else if c =? 93 then RValue (CArr (rev (v :: acc))) r'
          else RMalformed
      end
  | e => e
  end.
Proof. reflexivity. Qed.

Lemma seq_text_false_cons x r : seq_text false (x :: r) = 44 :: x ++ seq_text false r.
Proof. reflexivity. Qed.

(* elements: [value] reads every element text followed by a delimiter *)
Lemma elems_dec (value : bytes -> ref_result) (text : tree -> bytes) (img : tree -> cvalue) :
  forall r x g acc rest,
  (forall t, In t (x :: r) -> forall rest', delim rest' = true -> value (text t ++ rest') = RValue (img t) rest') ->
  (length r < g)%nat ->
  json_elems value g (text x ++ seq_text false (map text r) ++ 93 :: rest) acc =
  RValue (CArr (rev acc ++ img x :: map img r)) rest.
Proof.
  induction r as [|y r IH]; intros x g acc rest Hv Hg; (destruct g as [|g]; [lia|]); rewrite json_elems_S.
  - cbn [map seq_text app]. rewrite (Hv x (or_introl eq_refl)) by reflexivity.
    cbn [skip_ws is_ws]. change (is_ws 93) with false. cbn iota.
    change (93 =? 44) with false. change (93 =? 93) with true. cbn iota. cbn [rev map]. reflexivity.
  - cbn [map]. rewrite seq_text_false_cons. cbn [app].
    rewrite (Hv x (or_introl eq_refl)) by reflexivity.
    cbn [skip_ws]. change (is_ws 44) with false. cbn iota. change (44 =? 44) with true. cbn iota.
    rewrite <- app_assoc. rewrite IH.
    + cbn [rev map]. rewrite <- app_assoc. reflexivity.
    + intros t Ht. apply Hv. right. exact Ht.
    + cbn [length] in Hg. lia.
Qed.

Lemma json_members_S value g b acc : json_members value (S g) b acc =
  match skip_ws b with
  | [] => RTruncated
  | q :: r0 =>
      if negb (q =? 34) then RMalformed else
      match json_string r0 with
      | StrTrunc => RTruncated
      | StrBad => RMalformed
      | StrOk k r1 =>
          match skip_ws r1 with
          | [] => RTruncated
          | c :: r2 =>
              if negb (c =? 58) then RMalformed else
              match value r2 with
              | RValue v r3 =>
                  match skip_ws r3 with
                  | [] => RTruncated
                  | d :: r4 =>
                      if d =? 44 then json_members value g r4 ((k, v) :: acc)
                      else if d =? 125 then RValue (CObj (rev ((k, v) :: acc))) r4
                      else RMalformed
                  end
              | e => e
              end
          end
      end
  end.
Proof. reflexivity. Qed.

Lemma members_dec {A} (value : bytes -> ref_result) (html : bool) (key : A -> bytes) (text : A -> bytes)
  (img : A -> cvalue) :
  forall (r : list A) (x : A) g acc rest,
  (forall m, In m (x :: r) -> all_bytes (key m) = true /\
     forall rest', delim rest' = true -> value (text m ++ rest') = RValue (img m) rest') ->
  (length r < g)%nat ->
  json_members value g
    ((str_text html (key x) ++ 58 :: text x) ++
     seq_text false (map (fun m => str_text html (key m) ++ 58 :: text m) r) ++ 125 :: rest) acc =
  RValue (CObj (rev acc ++ (sanitize (key x), img x) :: map (fun m => (sanitize (key m), img m)) r)) rest.
Proof.
  induction r as [|y r IH]; intros x g acc rest Hv Hg; (destruct g as [|g]; [lia|]); rewrite json_members_S;
    destruct (Hv x (or_introl eq_refl)) as [Hk Hx];
    unfold str_text at 1; cbn [app skip_ws]; change (is_ws 34) with false; cbn iota;
    change (negb (34 =? 34)) with false; cbn iota;
    rewrite <- !app_assoc; cbn [app]; rewrite (json_string_roundtrip html (key x) _ Hk);
    cbn [skip_ws]; change (is_ws 58) with false; cbn iota; change (negb (58 =? 58)) with false; cbn iota.
  - cbn [map seq_text app]. rewrite Hx by reflexivity.
    cbn [skip_ws]. change (is_ws 125) with false. cbn iota.
    change (125 =? 44) with false. change (125 =? 125) with true. cbn iota. cbn [rev map]. reflexivity.
  - cbn [map]. rewrite seq_text_false_cons. cbn [app]. rewrite Hx by reflexivity.
    cbn [skip_ws]. change (is_ws 44) with false. cbn iota. change (44 =? 44) with true. cbn iota.
    rewrite <- (app_assoc (str_text html (key y) ++ 58 :: text y)). rewrite IH.
    + cbn [rev map]. rewrite <- app_assoc. reflexivity.
    + intros t Ht. apply Hv. right. exact Ht.
    + cbn [length] in Hg. lia.
Qed.

Lemma seq_text_len_in first l x : In x l -> (length x <= length (seq_text first l))%nat.
Proof.
  revert first. induction l as [|y l IH]; intros first H; [contradiction|].
  cbn [seq_text]. rewrite !app_length. destruct H as [-> | H]; [lia|].
  specialize (IH false H). lia.
Qed.

Lemma seq_text_len_count l : (length l <= length (seq_text false l))%nat.
Proof.
  induction l as [|y l IH]; [cbn; lia|]. cbn [seq_text length]. rewrite !app_length. cbn [length]. lia.
Qed.

Lemma seq_text_len_count_true l : (length l <= S (length (seq_text true l)))%nat.
Proof.
  destruct l as [|y l]; [cbn; lia|]. cbn [seq_text length app]. rewrite app_length.
  pose proof (seq_text_len_count l). lia.
Qed.

Lemma delim_seq_arr l rest : delim (seq_text false l ++ 93 :: rest) = true.
Proof. destruct l; reflexivity. Qed.
Lemma delim_seq_obj l rest : delim (seq_text false l ++ 125 :: rest) = true.
Proof. destruct l; reflexivity. Qed.

(* ====================================================================== *)
(* Part 5: C07 for JSON                                                    *)
(* ====================================================================== *)
Section JsonRT.
  Variable ffmt : Z -> Z -> bytes.        (* strconv.AppendFloat(_, f, 'g', -1, w) on the float with bit pattern [bits] *)
  Variable pf : bytes -> option Z.         (* strconv.ParseFloat(_, 64) as bits; None = range error *)
  Variable fimg : Z -> Z -> cnum.          (* what the reference reads the text of a finite float as *)
  Variable fimg_r : Z -> Z -> cnum.        (* the same for the text with ".0" inserted (explicit_radix) *)

  (* H-grammar + H-value: the text strconv writes for a finite float is a
     number of the RFC 8259 grammar (all of it), and [fimg] is its value *)
  Hypothesis ffmt_number : forall w bits, w = 32 \/ w = 64 -> in_u w bits = true ->
    nonfinite w bits = false ->
    exists isint, json_number (ffmt w bits) = NumOk (ffmt w bits) isint [] /\
                  json_num_value pf (ffmt w bits) isint = Some (fimg w bits).
  (* the same for the patched text, when the encoder inserts ".0" *)
  Hypothesis ffmt_radix : forall w bits, w = 32 \/ w = 64 -> in_u w bits = true ->
    nonfinite w bits = false -> snd (radix_scan (ffmt w bits) 0) = true ->
    exists isint, json_number (radix_patch (ffmt w bits)) = NumOk (radix_patch (ffmt w bits)) isint [] /\
                  json_num_value pf (radix_patch (ffmt w bits)) isint = Some (fimg_r w bits).

  Section Cfg.
    Variable cfg : jcfg.

    Definition float_img (w bits : Z) : cvalue :=
      if nonfinite w bits then CNil
      else CNum (if explicit_radix cfg && snd (radix_scan (ffmt w bits) 0) then fimg_r w bits else fimg w bits).

    Definition scalar_img (s : scalar) : cvalue :=
      match s with
      | SNil => CNil
      | SBool b => CBool b
      | SStr s => CStr (sanitize s)
      | SNum KFloat32 z => float_img 32 z
      | SNum KFloat64 z => float_img 64 z
      | SNum _ z => CNum (CInt z)
      end.

    (* the image of a tree's value under a trip through JSON *)
    Fixpoint json_img (t : tree) : cvalue :=
      match t with
      | TVal s _ => scalar_img s
      | TArr _ _ es => CArr (map json_img es)
      | TObj _ _ ms => CObj (map (fun m => (sanitize (fst (fst m)), json_img (snd m))) ms)
      | TXArr _ es => CArr (map scalar_img es)
      | TXObj _ ms => CObj (map (fun m => (sanitize (fst m), scalar_img (snd m))) ms)
      end.

    Lemma float_dec w bits f rest : w = 32 \/ w = 64 -> in_u w bits = true ->
      ignore_invalid cfg = true \/ nonfinite w bits = false -> num_stop rest = true ->
      json_ref pf (S f) (float_text ffmt cfg w bits ++ rest) = RValue (float_img w bits) rest.
    Proof.
      intros Hw Hu Hfin Hs. unfold float_text, float_img.
      destruct (nonfinite w bits) eqn:Hnf; [apply json_ref_null|].
      destruct (explicit_radix cfg); cbn [andb].
      - destruct (snd (radix_scan (ffmt w bits) 0)) eqn:Hneed.
        + apply json_ref_num; [|exact Hs]. apply ffmt_radix; assumption.
        + rewrite radix_patch_noneed by exact Hneed. apply json_ref_num; [|exact Hs].
          apply ffmt_number; assumption.
      - apply json_ref_num; [|exact Hs]. apply ffmt_number; assumption.
    Qed.

    Lemma scalar_dec s f rest : scalar_ok s = true ->
      ignore_invalid cfg = true \/ scalar_finite s = true -> delim rest = true ->
      json_ref pf (S f) (scalar_text ffmt cfg s ++ rest) = RValue (scalar_img s) rest.
    Proof.
      intros Hok Hfin Hd. pose proof (delim_num_stop rest Hd) as Hs.
      destruct s as [|b|s|k z]; cbn [scalar_text scalar_img].
      - apply json_ref_null.
      - destruct b; [apply json_ref_true|apply json_ref_false].
      - apply json_ref_str. exact Hok.
      - cbn [scalar_ok] in Hok.
        assert (Hint : k <> KFloat32 -> k <> KFloat64 ->
                       json_ref pf (S f) (int_chunk z ++ rest) = RValue (CNum (CInt z)) rest).
        { intros H1 H2. apply json_ref_num; [|exact Hs]. apply int_reads_as.
          eapply nkind_int_range; eassumption. }
        destruct k; try (apply Hint; discriminate);
          (apply float_dec; [auto|exact Hok| |exact Hs]);
          cbn [scalar_finite] in Hfin; (destruct Hfin as [H|H]; [left; exact H|right]);
          apply negb_true_iff in H; exact H.
    Qed.

    Definition QT (t : tree) : Prop :=
      wf_tree t = true -> fin_ok' cfg t -> forall f rest, delim rest = true ->
      (length (tree_text ffmt cfg t) < f)%nat ->
      json_ref pf f (tree_text ffmt cfg t ++ rest) = RValue (json_img t) rest.

    Lemma QT_val s r : QT (TVal s r).
    Proof.
      intros Hwf Hfin f rest Hd Hf. destruct f as [|f]; [lia|].
      cbn [tree_text json_img]. apply scalar_dec; assumption.
    Qed.

    Lemma QT_arr len bt es : Forall QT es -> QT (TArr len bt es).
    Proof.
      intros Hes Hwf Hfin f rest Hd Hf. destruct f as [|f]; [lia|].
      rewrite wf_arr in Hwf. apply andb_true_iff in Hwf. destruct Hwf as [_ Hwf].
      cbn [tree_text json_img] in Hf |- *. cbn [app]. rewrite json_ref_arr.
      cbn [length] in Hf. rewrite app_length in Hf. cbn [length] in Hf.
      assert (Hv : forall t, In t es -> forall rest', delim rest' = true ->
                   json_ref pf f (tree_text ffmt cfg t ++ rest') = RValue (json_img t) rest').
      { intros t Ht rest' Hd'. rewrite Forall_forall in Hes. apply (Hes t Ht).
        - rewrite forallb_forall in Hwf. apply Hwf. exact Ht.
        - destruct Hfin as [H|H]; [left; exact H|right]. cbn [tree_finite] in H.
          rewrite forallb_forall in H. apply H. exact Ht.
        - exact Hd'.
        - pose proof (seq_text_len_in true (map (tree_text ffmt cfg) es) (tree_text ffmt cfg t)
                        (in_map _ _ _ Ht)). lia. }
      pose proof (seq_text_len_count_true (map (tree_text ffmt cfg) es)) as Hcnt.
      rewrite map_length in Hcnt.
      destruct es as [|x r]; [reflexivity|].
      cbn [map seq_text app]. rewrite <- !app_assoc. cbn [app].
      pose proof (Hv x (or_introl eq_refl) _ (delim_seq_arr (map (tree_text ffmt cfg) r) rest)) as Hx.
      destruct (json_ref_value_head _ _ _ _ _ Hx) as (c & r' & Hsk & Hc & _).
      rewrite Hsk, Hc.
      rewrite (elems_dec (json_ref pf f) (tree_text ffmt cfg) json_img r x f [] rest Hv).
      - reflexivity.
      - cbn [length] in Hcnt. lia.
    Qed.

    Lemma QT_obj len bt ms : Forall (fun m => QT (snd m)) ms -> QT (TObj len bt ms).
    Proof.
      intros Hms Hwf Hfin f rest Hd Hf. destruct f as [|f]; [lia|].
      rewrite wf_obj in Hwf. apply andb_true_iff in Hwf. destruct Hwf as [_ Hwf].
      cbn [tree_text json_img] in Hf |- *. cbn [app]. rewrite json_ref_obj.
      cbn [length] in Hf. rewrite app_length in Hf. cbn [length] in Hf.
      set (mt := fun m : bytes * bool * tree => member_text cfg (tree_text ffmt cfg) (fst (fst m)) (snd m)) in *.
      assert (Hv : forall m, In m ms -> all_bytes (fst (fst m)) = true /\ forall rest', delim rest' = true ->
                   json_ref pf f (tree_text ffmt cfg (snd m) ++ rest') = RValue (json_img (snd m)) rest').
      { intros m Hm. rewrite forallb_forall in Hwf. specialize (Hwf m Hm).
        apply andb_true_iff in Hwf. destruct Hwf as [Hk Hwm]. split; [exact Hk|].
        intros rest' Hd'. rewrite Forall_forall in Hms. apply (Hms m Hm).
        - exact Hwm.
        - destruct Hfin as [H|H]; [left; exact H|right]. cbn [tree_finite] in H.
          rewrite forallb_forall in H. apply (H m Hm).
        - exact Hd'.
        - pose proof (seq_text_len_in true (map mt ms) (mt m) (in_map _ _ _ Hm)) as Hl.
          unfold mt at 1 in Hl. unfold member_text in Hl. rewrite app_length in Hl. cbn [length] in Hl. lia. }
      pose proof (seq_text_len_count_true (map mt ms)) as Hcnt.
      rewrite map_length in Hcnt.
      destruct ms as [|x r]; [reflexivity|].
      cbn [map seq_text app]. rewrite <- !app_assoc. cbn [app].
      unfold mt at 1. unfold member_text, str_text at 1. cbn [app skip_ws]. change (is_ws 34) with false. cbn iota.
      change (34 =? 125) with false. cbn iota.
      pose proof (members_dec (json_ref pf f) (escape_html cfg) (fun m : bytes * bool * tree => fst (fst m))
                    (fun m => tree_text ffmt cfg (snd m)) (fun m => json_img (snd m)) r x f [] rest Hv) as Hmd.
      apply Hmd. cbn [length] in Hcnt. lia.
    Qed.

    Lemma QT_xarr bt es : QT (TXArr bt es).
    Proof.
      intros Hwf Hfin f rest Hd Hf.
      pose proof (expand_tree_wf (TXArr bt es) Hwf) as Hwf'. cbn [expand_tree_top] in Hwf'.
      assert (Ht : tree_text ffmt cfg (TXArr bt es) =
                   tree_text ffmt cfg (TArr (zlen es) bt (map (fun s => TVal s false) es))).
      { cbn [tree_text]. rewrite map_map. reflexivity. }
      assert (Hi : json_img (TXArr bt es) = json_img (TArr (zlen es) bt (map (fun s => TVal s false) es))).
      { cbn [json_img]. rewrite map_map. reflexivity. }
      rewrite Ht in Hf |- *. rewrite Hi.
      apply QT_arr; try assumption.
      - apply Forall_forall. intros t Hin. apply in_map_iff in Hin. destruct Hin as (s & <- & _).
        apply QT_val.
      - destruct Hfin as [H|H]; [left; exact H|right]. cbn [tree_finite] in H |- *.
        rewrite <- H. clear. induction es as [|s r IH]; [reflexivity|].
        cbn [map forallb tree_finite]. rewrite IH. reflexivity.
    Qed.

    Lemma QT_xobj bt ms : QT (TXObj bt ms).
    Proof.
      intros Hwf Hfin f rest Hd Hf.
      pose proof (expand_tree_wf (TXObj bt ms) Hwf) as Hwf'. cbn [expand_tree_top] in Hwf'.
      assert (Ht : tree_text ffmt cfg (TXObj bt ms) =
                   tree_text ffmt cfg (TObj (zlen ms) bt (map (fun m : bytes * scalar => (fst m, false, TVal (snd m) false)) ms))).
      { cbn [tree_text]. rewrite map_map. reflexivity. }
      assert (Hi : json_img (TXObj bt ms) =
                   json_img (TObj (zlen ms) bt (map (fun m : bytes * scalar => (fst m, false, TVal (snd m) false)) ms))).
      { cbn [json_img]. rewrite map_map. reflexivity. }
      rewrite Ht in Hf |- *. rewrite Hi.
      apply QT_obj; try assumption.
      - apply Forall_forall. intros t Hin. apply in_map_iff in Hin. destruct Hin as (m & <- & _).
        cbn [snd]. apply QT_val.
      - destruct Hfin as [H|H]; [left; exact H|right]. cbn [tree_finite] in H |- *.
        rewrite <- H. clear. induction ms as [|m r IH]; [reflexivity|].
        cbn [map forallb tree_finite snd]. rewrite IH. reflexivity.
    Qed.

    (* the reference decoder reads the text of a well-formed tree, followed by
       a delimiter, as the image of the tree *)
    Theorem json_dec_tree_text : forall t, wf_tree t = true ->
      ignore_invalid cfg = true \/ tree_finite t = true ->
      forall fuel rest, delim rest = true -> (length (tree_text ffmt cfg t) < fuel)%nat ->
      json_ref pf fuel (tree_text ffmt cfg t ++ rest) = RValue (json_img t) rest.
    Proof.
      intro t. change (QT t). induction t using tree_ind'.
      - apply QT_val.
      - apply QT_arr; assumption.
      - apply QT_obj; assumption.
      - apply QT_xarr.
      - apply QT_xobj.
    Qed.

    (* C07 (value part), generalised: from any healthy encoder state (top level,
       inside an array, after a key) the bytes appended for a well-formed tree are
       the separator followed by a text that the reference decoder reads, in front
       of any delimiter, as the image of the tree *)
    Theorem json_enc_tree_value : forall t, wf_tree t = true ->
      ignore_invalid cfg = true \/ tree_finite t = true ->
      forall e i, w_fail (je_w e) = None ->
      exists e' txt, json_run cfg ffmt e (flatten t) i = JRun e' None /\
        je_first e' = after_val e /\ je_inarr e' = je_inarr e /\ w_fail (je_w e') = None /\
        w_bytes (je_w e') = w_bytes (je_w e) ++ sep e ++ txt /\
        forall fuel rest, delim rest = true -> (length txt < fuel)%nat ->
          json_ref pf fuel (txt ++ rest) = RValue (json_img t) rest.
    Proof.
      intros t Hwf Hfin e i N.
      destruct (json_enc_tree_text ffmt cfg t Hfin e i N) as (e' & E & F & A & N' & B).
      exists e', (tree_text ffmt cfg t). repeat (split; [assumption|]).
      intros fuel rest Hd Hf. apply json_dec_tree_text; assumption.
    Qed.

    Theorem C07_json_cfg : forall t, wf_tree t = true ->
      ignore_invalid cfg = true \/ tree_finite t = true ->
      exists e', json_run cfg ffmt (jenc0 None) (flatten t) 0 = JRun e' None /\
                 json_decode pf (w_bytes (je_w e')) = RValue (json_img t) [].
    Proof.
      intros t Hwf Hfin.
      destruct (json_enc_tree_value t Hwf Hfin (jenc0 None) 0%nat eq_refl)
        as (e' & txt & E & _ & _ & _ & B & D).
      exists e'. split; [exact E|].
      change (w_bytes (je_w (jenc0 None)) ++ sep (jenc0 None) ++ txt) with txt in B. rewrite B.
      unfold json_decode. specialize (D (S (length txt)) [] eq_refl ltac:(lia)).
      rewrite app_nil_r in D. rewrite D. reflexivity.
    Qed.
  End Cfg.

  Theorem C07_json : forall cfg t, wf_tree t = true ->
    (ignore_invalid cfg = true \/ tree_finite t = true) ->
    exists e', json_run cfg ffmt (jenc0 None) (flatten t) 0 = JRun e' None /\
               json_decode pf (w_bytes (je_w e')) = RValue (json_img cfg t) [].
  Proof. exact C07_json_cfg. Qed.
End JsonRT.
Print Assumptions json_dec_tree_text.
Print Assumptions json_enc_tree_value.
Print Assumptions C07_json.

(* ====================================================================== *)
(* Part 6: the explicit_radix patch of a number text is a number text      *)
(*   (so that only ParseFloat's value on it remains a hypothesis)          *)
(* ====================================================================== *)
Lemma radix_scan_skip p : forall q i, (forall c, In c p -> c <> 101 /\ c <> 46) ->
  radix_scan (p ++ q) i = radix_scan q (i + length p).
Proof.
  induction p as [|c p IH]; intros q i H.
  - cbn [app length]. rewrite Nat.add_0_r. reflexivity.
  - cbn [app radix_scan]. destruct (H c (or_introl eq_refl)) as [H1 H2].
    replace (c =? 101) with false by lia. replace (c =? 46) with false by lia.
    rewrite IH by (intros c' Hc'; apply H; right; exact Hc').
    cbn [length]. f_equal. lia.
Qed.

Lemma digits_no_radix ds : all_digits ds = true -> forall c, In c ds -> c <> 101 /\ c <> 46.
Proof.
  intros H c Hc. unfold all_digits in H. rewrite forallb_forall in H. specialize (H c Hc).
  unfold is_dig in H. lia.
Qed.

Lemma lex_int_relex b1 i b2 x : lex_int b1 = POk i b2 -> nodig_head x = true ->
  lex_int (i ++ x) = POk i x.
Proof.
  unfold lex_int. destruct b1 as [|c r]; [discriminate|].
  destruct (c =? 48) eqn:E0.
  - intros H _. injection H as <- <-. reflexivity.
  - destruct ((49 <=? c) && (c <=? 57)) eqn:E1; [|discriminate].
    destruct (span_digits r) as [ds r'] eqn:ES. intros H Hx. injection H as <- <-.
    destruct (span_digits_inv _ _ _ ES) as [_ Hd].
    cbn [app]. rewrite E0, E1.
    rewrite (span_digits_app ds ds [] x (span_digits_all ds Hd) Hx). reflexivity.
Qed.

(* unsigned part *)
Lemma radix_patch_unsigned b1 i b2 fr b3 ex k :
  lex_int b1 = POk i b2 -> lex_frac b2 = POk fr b3 -> lex_exp b3 = POk ex [] ->
  ~ In 69 b1 -> snd (radix_scan b1 k) = true ->
  exists idx, radix_scan b1 k = ((k + idx)%nat, true) /\
    firstn idx b1 ++ [46; 48] ++ skipn idx b1 = i ++ [46; 48] ++ ex /\
    lex_int (i ++ [46; 48] ++ ex) = POk i ([46; 48] ++ ex) /\
    lex_frac ([46; 48] ++ ex) = POk [46; 48] ex /\ lex_exp ex = POk ex [].
Proof.
  intros Hi Hf He H69 Hneed.
  destruct (lex_int_inv _ _ _ Hi) as (-> & Hne & Hd).
  pose proof (lex_int_relex _ _ _ ([46; 48] ++ ex) Hi eq_refl) as Hi'.
  rewrite (radix_scan_skip i b2 k (digits_no_radix i Hd)) in Hneed |- *.
  destruct b2 as [|c r2].
  { (* digits only *)
    cbn [lex_frac] in Hf. injection Hf as <- <-. cbn [lex_exp] in He. injection He as <-.
    exists (length i). cbn [radix_scan]. split; [reflexivity|].
    rewrite app_nil_r, firstn_all, skipn_all. split; [reflexivity|]. split; [exact Hi'|].
    split; reflexivity. }
  unfold lex_frac in Hf. destruct (c =? 46) eqn:E46.
  { exfalso. cbn [radix_scan] in Hneed. rewrite E46 in Hneed.
    replace (c =? 101) with false in Hneed by lia. cbn [snd] in Hneed. discriminate. }
  injection Hf as <- <-.
  destruct (lex_exp_inv _ _ _ He) as (Hex & _ & _). rewrite app_nil_r in Hex. subst ex.
  unfold lex_exp in He. destruct ((c =? 101) || (c =? 69)) eqn:Ee; [|discriminate].
  assert (Hc : c = 101).
  { destruct (c =? 69) eqn:E69; [|lia]. exfalso. apply H69. apply in_or_app. right. left. lia. }
  subst c. exists (length i). cbn [radix_scan]. change (101 =? 101) with true. cbn iota.
  split; [reflexivity|].
  rewrite firstn_app, Nat.sub_diag, firstn_all. cbn [firstn]. rewrite app_nil_r.
  rewrite skipn_app, Nat.sub_diag, skipn_all. cbn [skipn app].
  split; [reflexivity|]. split; [exact Hi'|]. split; [reflexivity|].
  unfold lex_exp. change ((101 =? 101) || (101 =? 69)) with true. cbn iota. exact He.
Qed.

Theorem radix_patch_number b isint : json_number b = NumOk b isint [] ->
  Forall (fun c => In c fchars) b -> snd (radix_scan b 0) = true ->
  json_number (radix_patch b) = NumOk (radix_patch b) false [].
Proof.
  intros Hn Hch Hneed.
  assert (H69 : ~ In 69 b).
  { intro H. rewrite Forall_forall in Hch. specialize (Hch 69 H). unfold fchars in Hch. cbn [In] in Hch.
    repeat (destruct Hch as [Hch|Hch]; [discriminate|]). exact Hch. }
  rewrite json_number_eq in Hn.
  destruct (lex_int (snd (sign_split b))) as [i b2| |] eqn:E1; try discriminate.
  destruct (lex_frac b2) as [fr b3| |] eqn:E2; try discriminate.
  destruct (lex_exp b3) as [ex b4| |] eqn:E3; try discriminate.
  injection Hn as Hlit _ Hb4. subst b4.
  unfold radix_patch.
  destruct b as [|c r]; [discriminate E1|].
  unfold sign_split in E1, Hlit. destruct (c =? 45) eqn:E45; cbn [fst snd] in E1, Hlit.
  - assert (c = 45) by lia. subst c.
    cbn [radix_scan] in Hneed |- *. change (45 =? 101) with false in *. change (45 =? 46) with false in *.
    cbn iota in Hneed |- *.
    destruct (radix_patch_unsigned r i b2 fr b3 ex 1 E1 E2 E3) as (idx & Hs & Ht & Hi' & Hf' & He').
    { intro H. apply H69. right. exact H. }
    { exact Hneed. }
    rewrite Hs. change (1 + idx)%nat with (S idx). cbn [firstn skipn app].
    change (firstn idx r ++ 46 :: 48 :: skipn idx r) with (firstn idx r ++ [46; 48] ++ skipn idx r).
    rewrite Ht. rewrite json_number_eq. cbn [sign_split fst snd]. change (45 =? 45) with true. cbn iota.
    cbn [fst snd]. rewrite Hi', Hf', He'. reflexivity.
  - destruct (radix_patch_unsigned (c :: r) i b2 fr b3 ex 0 E1 E2 E3 H69 Hneed)
      as (idx & Hs & Ht & Hi' & Hf' & He').
    rewrite Hs. cbn [Nat.add]. rewrite Ht. rewrite json_number_eq.
    assert (Hss : sign_split (i ++ [46; 48] ++ ex) = ([], i ++ [46; 48] ++ ex)).
    { destruct (lex_int_inv _ _ _ E1) as (Hb & Hne & Hd). destruct i as [|d ds]; [contradiction|].
      cbn [app] in Hb. injection Hb as <- _. cbn [app sign_split]. rewrite E45. reflexivity. }
    rewrite Hss. cbn [fst snd]. rewrite Hi', Hf', He'. reflexivity.
Qed.
Print Assumptions radix_patch_number.

(* ====================================================================== *)
(* Part 7: C07 with hypotheses about strconv only                          *)
(*   - AppendFloat writes a number of the RFC grammar using only the       *)
(*     characters +-.0123456789e  (fchars),                                *)
(*   - ParseFloat accepts the text with ".0" inserted.                     *)
(* ====================================================================== *)
Section JsonRTStrconv.
  Variable ffmt : Z -> Z -> bytes.
  Variable pf : bytes -> option Z.
  Variable fimg : Z -> Z -> cnum.
  Variable fbits_r : Z -> Z -> Z.

  Hypothesis ffmt_number : forall w bits, w = 32 \/ w = 64 -> in_u w bits = true ->
    nonfinite w bits = false ->
    exists isint, json_number (ffmt w bits) = NumOk (ffmt w bits) isint [] /\
                  json_num_value pf (ffmt w bits) isint = Some (fimg w bits).
  Hypothesis ffmt_chars : forall w bits, w = 32 \/ w = 64 -> in_u w bits = true ->
    nonfinite w bits = false -> Forall (fun c => In c fchars) (ffmt w bits).
  Hypothesis pf_radix : forall w bits, w = 32 \/ w = 64 -> in_u w bits = true ->
    nonfinite w bits = false -> snd (radix_scan (ffmt w bits) 0) = true ->
    pf (radix_patch (ffmt w bits)) = Some (fbits_r w bits).

  Lemma ffmt_radix_derived : forall w bits, w = 32 \/ w = 64 -> in_u w bits = true ->
    nonfinite w bits = false -> snd (radix_scan (ffmt w bits) 0) = true ->
    exists isint, json_number (radix_patch (ffmt w bits)) = NumOk (radix_patch (ffmt w bits)) isint [] /\
                  json_num_value pf (radix_patch (ffmt w bits)) isint = Some (CF64 (fbits_r w bits)).
  Proof.
    intros w bits Hw Hu Hnf Hneed. exists false.
    destruct (ffmt_number w bits Hw Hu Hnf) as (isint & Hn & _).
    split.
    - eapply radix_patch_number; [exact Hn|apply ffmt_chars; assumption|exact Hneed].
    - unfold json_num_value. rewrite pf_radix by assumption. reflexivity.
  Qed.

  Theorem C07_json_strconv : forall cfg t, wf_tree t = true ->
    (ignore_invalid cfg = true \/ tree_finite t = true) ->
    exists e', json_run cfg ffmt (jenc0 None) (flatten t) 0 = JRun e' None /\
               json_decode pf (w_bytes (je_w e')) =
               RValue (json_img ffmt fimg (fun w bits => CF64 (fbits_r w bits)) cfg t) [].
  Proof. apply C07_json; [exact ffmt_number|exact ffmt_radix_derived]. Qed.

  Theorem json_enc_tree_value_strconv : forall cfg t, wf_tree t = true ->
    ignore_invalid cfg = true \/ tree_finite t = true ->
    forall e i, w_fail (je_w e) = None ->
    exists e' txt, json_run cfg ffmt e (flatten t) i = JRun e' None /\
      je_first e' = after_val e /\ je_inarr e' = je_inarr e /\ w_fail (je_w e') = None /\
      w_bytes (je_w e') = w_bytes (je_w e) ++ sep e ++ txt /\
      forall fuel rest, delim rest = true -> (length txt < fuel)%nat ->
        json_ref pf fuel (txt ++ rest) =
        RValue (json_img ffmt fimg (fun w bits => CF64 (fbits_r w bits)) cfg t) rest.
  Proof. apply json_enc_tree_value; [exact ffmt_number|exact ffmt_radix_derived]. Qed.
End JsonRTStrconv.
Print Assumptions C07_json_strconv.
Print Assumptions json_enc_tree_value_strconv.

(* ====================================================================== *)
(* Part 8: facts about the image                                           *)
(* ====================================================================== *)
Section Img.
  Variable ffmt : Z -> Z -> bytes.
  Variables fimg fimg_r : Z -> Z -> cnum.
  Variable cfg : jcfg.
  Notation img := (json_img ffmt fimg fimg_r cfg).
  Notation simg := (scalar_img ffmt fimg fimg_r cfg).

  (* extended events count as their expansion; by-reference strings as strings *)
  Theorem json_img_expand : forall t, img (expand_tree t) = img t.
  Proof.
    induction t as [s r|len bt es IH|len bt ms IH|bt es|bt ms] using tree_ind'; cbn [expand_tree json_img].
    - reflexivity.
    - f_equal. rewrite map_map. apply map_ext_in. intros t Ht. rewrite Forall_forall in IH. apply IH. exact Ht.
    - f_equal. rewrite map_map. apply map_ext_in. intros m Hm. rewrite Forall_forall in IH.
      cbn [fst snd]. rewrite (IH m Hm). reflexivity.
    - f_equal. rewrite map_map. reflexivity.
    - f_equal. rewrite map_map. reflexivity.
  Qed.

  (* without floats and with valid UTF-8 the image is the value itself *)
  Definition scalar_exact (s : scalar) : bool :=
    match s with
    | SStr b => utf8_valid b
    | SNum KFloat32 _ | SNum KFloat64 _ => false
    | _ => true
    end.

  Fixpoint tree_exact (t : tree) : bool :=
    match t with
    | TVal s _ => scalar_exact s
    | TArr _ _ es => forallb tree_exact es
    | TObj _ _ ms => forallb (fun m => utf8_valid (fst (fst m)) && tree_exact (snd m)) ms
    | TXArr _ es => forallb scalar_exact es
    | TXObj _ ms => forallb (fun m => utf8_valid (fst m) && scalar_exact (snd m)) ms
    end.

  Lemma utf8_valid_sanitize b : utf8_valid b = true -> sanitize b = b.
  Proof. unfold utf8_valid. apply bytes_eqb_spec. Qed.

  Lemma scalar_img_exact s : scalar_exact s = true -> simg s = cv (scalar_value s).
  Proof.
    destruct s as [|b|b|k z]; cbn [scalar_exact scalar_img scalar_value cv]; intro H; try reflexivity.
    - rewrite (utf8_valid_sanitize b H). reflexivity.
    - destruct k; try discriminate; reflexivity.
  Qed.

  Theorem json_img_exact : forall t, tree_exact t = true -> img t = cv (value_of t).
  Proof.
    induction t as [s r|len bt es IH|len bt ms IH|bt es|bt ms] using tree_ind';
      cbn [tree_exact json_img value_of cv]; intro H.
    - apply scalar_img_exact. exact H.
    - f_equal. rewrite map_map. apply map_ext_in. intros t Ht.
      rewrite Forall_forall in IH. rewrite forallb_forall in H. apply IH; [exact Ht|apply H; exact Ht].
    - f_equal. rewrite map_map. apply map_ext_in. intros m Hm.
      rewrite Forall_forall in IH. rewrite forallb_forall in H. specialize (H m Hm).
      apply andb_true_iff in H. destruct H as [Hk Ht]. cbn [fst snd].
      rewrite (utf8_valid_sanitize _ Hk), (IH m Hm Ht). reflexivity.
    - f_equal. rewrite map_map. apply map_ext_in. intros s Hs.
      rewrite forallb_forall in H. apply scalar_img_exact. apply H. exact Hs.
    - f_equal. rewrite map_map. apply map_ext_in. intros m Hm.
      rewrite forallb_forall in H. specialize (H m Hm).
      apply andb_true_iff in H. destruct H as [Hk Hs]. cbn [fst snd].
      rewrite (utf8_valid_sanitize _ Hk), (scalar_img_exact _ Hs). reflexivity.
  Qed.
End Img.
Print Assumptions json_img_expand.
Print Assumptions json_img_exact.

(* ====================================================================== *)
(* Part 9: a toy instance (the hypotheses are satisfiable; the definitions *)
(*   compute what they should)                                             *)
(* ====================================================================== *)
Module JsonRTExamples.
  (* bits 0 -> "0", bits 1 -> "1e+06", anything else -> "2.5" *)
  Definition toy_ffmt (w bits : Z) : bytes :=
    if bits =? 0 then [48] else if bits =? 1 then [49; 101; 43; 48; 54] else [50; 46; 53].
  Definition toy_pf (l : bytes) : option Z := Some (zlen l).
  Definition toy_fimg (w bits : Z) : cnum :=
    if bits =? 0 then CInt 0 else if bits =? 1 then CF64 5 else CF64 3.
  Definition toy_fimg_r (w bits : Z) : cnum := if bits =? 0 then CF64 3 else CF64 7.

  Theorem C07_json_toy : forall cfg t, wf_tree t = true ->
    (ignore_invalid cfg = true \/ tree_finite t = true) ->
    exists e', json_run cfg toy_ffmt (jenc0 None) (flatten t) 0 = JRun e' None /\
               json_decode toy_pf (w_bytes (je_w e')) = RValue (json_img toy_ffmt toy_fimg toy_fimg_r cfg t) [].
  Proof.
    apply C07_json.
    - intros w bits _ _ _. unfold toy_ffmt, toy_fimg.
      destruct (bits =? 0); [|destruct (bits =? 1)]; eexists; split; reflexivity.
    - intros w bits _ _ _. unfold toy_ffmt, toy_fimg_r.
      destruct (bits =? 0); [|destruct (bits =? 1)]; cbn; intro H; try discriminate H;
        eexists; split; reflexivity.
  Qed.

  Definition cfg_all : jcfg := {| escape_html := true; ignore_invalid := true; explicit_radix := true |}.
  Definition cfg_none : jcfg := {| escape_html := false; ignore_invalid := false; explicit_radix := false |}.

  (* an object with a key holding '<', LF, an invalid byte and U+2028; integers at the 64-bit limits, floats of all
     three toy shapes, a NaN, a by-reference string with a quote and a backslash, empty containers, a typed int8
     array and a typed string object *)
  Definition sample : tree :=
    TObj 3 BAny
      [([97; 60; 10; 255; 226; 128; 168], false,
        TArr (-1) BAny [TVal (SNum KInt (-5)) false; TVal (SNum KUint64 18446744073709551615) false;
                        TVal (SNum KFloat32 0) false; TVal (SNum KFloat64 1) false; TVal (SNum KFloat64 2) false;
                        TVal (SNum KFloat64 9218868437227405313) false;
                        TVal (SStr [195; 169; 34; 92]) true; TVal SNil false; TVal (SBool true) false;
                        TArr 0 BAny []; TObj 0 BAny []]);
       ([116], true, TXArr BInt8 [SNum KInt8 (-128); SNum KInt8 127]);
       ([111], false, TXObj BString [([107; 38], SStr [1; 128])])].

  Definition check (cfg : jcfg) (t : tree) : bool :=
    match json_run cfg toy_ffmt (jenc0 None) (flatten t) 0 with
    | JRun e' None =>
        match json_decode toy_pf (w_bytes (je_w e')) with
        | RValue v [] => cvalue_eqb v (json_img toy_ffmt toy_fimg toy_fimg_r cfg t)
        | _ => false
        end
    | _ => false
    end.

  Example sample_wf : wf_tree sample = true.
  Proof. vm_compute. reflexivity. Qed.
  Example sample_all : check cfg_all sample = true.
  Proof. vm_compute. reflexivity. Qed.
  Example sample_text :
    match json_run cfg_all toy_ffmt (jenc0 None) (flatten sample) 0 with
    | JRun e' None => w_bytes (je_w e')
    | _ => []
    end =
    (* the text: key a\u003c\n\ufffd\u2028, then [-5,18446744073709551615,0.0,1.0e+06,2.5,null,...] etc. *)
    [123; 34;97;92;117;48;48;51;99;92;110;92;117;102;102;102;100;92;117;50;48;50;56;34; 58;
     91; 45;53; 44; 49;56;52;52;54;55;52;52;48;55;51;55;48;57;53;53;49;54;49;53; 44; 48;46;48; 44;
     49;46;48;101;43;48;54; 44; 50;46;53; 44; 110;117;108;108; 44; 34;195;169;92;34;92;92;34; 44;
     110;117;108;108; 44; 116;114;117;101; 44; 91;93; 44; 123;125; 93; 44;
     34;116;34; 58; 91; 45;49;50;56; 44; 49;50;55; 93; 44;
     34;111;34; 58; 123; 34;107;92;117;48;48;50;54;34; 58; 34;92;117;48;48;48;49;92;117;102;102;102;100;34; 125; 125].
  Proof. vm_compute. reflexivity. Qed.
  Example sample_img :
    json_img toy_ffmt toy_fimg toy_fimg_r cfg_all sample =
    CObj [([97; 60; 10; 239; 191; 189; 226; 128; 168],
           CArr [CNum (CInt (-5)); CNum (CInt 18446744073709551615); CNum (CF64 3); CNum (CF64 7); CNum (CF64 3);
                 CNil; CStr [195; 169; 34; 92]; CNil; CBool true; CArr []; CObj []]);
          ([116], CArr [CNum (CInt (-128)); CNum (CInt 127)]);
          ([111], CObj [([107; 38], CStr [1; 239; 191; 189])])].
  Proof. vm_compute. reflexivity. Qed.
End JsonRTExamples.
Print Assumptions JsonRTExamples.C07_json_toy.
