(* L1: the JSON parser, json/parse.go + decode.go (after the fixes recorded in
   known-findings.txt).  strconv.ParseFloat is an oracle [pf]: literal -> bits.
   The literalBuffer is modelled by its contents; whether unquote could reuse it
   (by-reference delivery) or had to allocate (by-value) depends on capacities
   and is not modelled: strings and keys are always emitted as EStrRef / EKeyRef
   and the harness merges the two delivery forms for this parser. *)
From SF Require Import Base.Prelude Base.Utf8 Core.Events.
Open Scope Z_scope.

Definition jeGeneric := 1.     (* all parser errors are one class *)
Definition jeEOF := 8.
Definition jpnil := -1.
Definition jeVisitor := 99.

(* states *)
Definition jFailed := 0. Definition jStart := 1. Definition jArr := 2. Definition jArrValue := 3.
Definition jArrNext := 4. Definition jDict := 5. Definition jDictField := 6. Definition jDictNextField := 7.
Definition jDictFieldValue := 8. Definition jDictFieldValueSep := 9. Definition jDictFieldStateEnd := 10.
Definition jNull := 11. Definition jTrue := 12. Definition jFalse := 13. Definition jString := 14.
Definition jNumber := 15.

Record jparser := {
  jp_cur : Z; jp_states : list Z;       (* top first *)
  jp_lit : bytes;                        (* literalBuffer contents *)
  jp_inesc : bool; jp_isdbl : bool; jp_req : Z;
  jp_err : Z
}.
Definition jparser0 : jparser :=
  {| jp_cur := jStart; jp_states := []; jp_lit := []; jp_inesc := false; jp_isdbl := false; jp_req := 0; jp_err := 0 |}.

Definition jset_cur (p : jparser) (c : Z) : jparser :=
  {| jp_cur := c; jp_states := jp_states p; jp_lit := jp_lit p; jp_inesc := jp_inesc p; jp_isdbl := jp_isdbl p; jp_req := jp_req p; jp_err := jp_err p |}.
Definition jset_lit (p : jparser) (l : bytes) : jparser :=
  {| jp_cur := jp_cur p; jp_states := jp_states p; jp_lit := l; jp_inesc := jp_inesc p; jp_isdbl := jp_isdbl p; jp_req := jp_req p; jp_err := jp_err p |}.
Definition jset_inesc (p : jparser) (b : bool) : jparser :=
  {| jp_cur := jp_cur p; jp_states := jp_states p; jp_lit := jp_lit p; jp_inesc := b; jp_isdbl := jp_isdbl p; jp_req := jp_req p; jp_err := jp_err p |}.
Definition jset_isdbl (p : jparser) (b : bool) : jparser :=
  {| jp_cur := jp_cur p; jp_states := jp_states p; jp_lit := jp_lit p; jp_inesc := jp_inesc p; jp_isdbl := b; jp_req := jp_req p; jp_err := jp_err p |}.
Definition jset_req (p : jparser) (n : Z) : jparser :=
  {| jp_cur := jp_cur p; jp_states := jp_states p; jp_lit := jp_lit p; jp_inesc := jp_inesc p; jp_isdbl := jp_isdbl p; jp_req := n; jp_err := jp_err p |}.
Definition jset_err (p : jparser) (e : Z) : jparser :=
  {| jp_cur := jp_cur p; jp_states := jp_states p; jp_lit := jp_lit p; jp_inesc := jp_inesc p; jp_isdbl := jp_isdbl p; jp_req := jp_req p; jp_err := e |}.

Definition jpush (p : jparser) (next : Z) : jparser :=
  {| jp_cur := next;
     jp_states := if jp_cur p =? jFailed then jp_states p else jp_cur p :: jp_states p;
     jp_lit := jp_lit p; jp_inesc := jp_inesc p; jp_isdbl := jp_isdbl p; jp_req := jp_req p; jp_err := jp_err p |}.
Definition jpop (p : jparser) : jparser :=
  match jp_states p with
  | [] => jset_cur p jFailed
  | c :: r => {| jp_cur := c; jp_states := r; jp_lit := jp_lit p; jp_inesc := jp_inesc p; jp_isdbl := jp_isdbl p; jp_req := jp_req p; jp_err := jp_err p |}
  end.

(* step result: (rest, reported, err); Go often returns a nil rest with an error *)
Inductive jsres := JS (p : jparser) (s : sink) (rest : bytes) (rep : bool) (err : Z) | JCrash (why : Z).

Definition jvis (s : sink) (e : event) : sink * Z :=
  let '(s', ok) := emit s e in (s', if ok then jpnil else jeVisitor).
Definition jisnil (e : Z) : bool := e =? jpnil.

(* unicode.IsSpace on a byte (Latin-1) *)
Definition is_space (c : Z) : bool :=
  ((9 <=? c) && (c <=? 13)) || (c =? 32) || (c =? 133) || (c =? 160).
Fixpoint trim_left (b : bytes) : bytes :=
  match b with [] => [] | c :: r => if is_space c then trim_left r else b end.

Definition is_digit (c : Z) : bool := (48 <=? c) && (c <=? 57).

(* ---- unquote ---- *)
Inductive uqres := UQ (out : bytes) | UQErr | UQCrash.

(* first loop: index of the first "unusual" byte *)
Fixpoint plain_prefix (fuel : nat) (s : bytes) : nat :=
  match fuel with
  | O => 0
  | S f =>
      match s with
      | [] => 0
      | c :: r =>
          if (c =? 92) || (c =? 34) || (c <? 32) then 0
          else if c <? 128 then S (plain_prefix f r)
          else let '(ru, sz) := decode_rune s in
               if (ru =? rune_error) && (sz =? 1) then 0
               else (Z.to_nat sz + plain_prefix f (skipn (Z.to_nat sz) s))%nat
      end
  end.

(* second loop, producing the output in reverse *)
Fixpoint unquote_loop (fuel : nat) (s : bytes) (racc : bytes) : uqres :=
  match fuel with
  | O => UQCrash
  | S f =>
      match s with
      | [] => UQ (rev racc)
      | c :: r =>
          if c =? 92 then
            match r with
            | [] => UQErr                      (* errUnquoteInEscape *)
            | x :: r2 =>
                if (x =? 34) || (x =? 92) || (x =? 47) || (x =? 39) then unquote_loop f r2 (x :: racc)
                else if x =? 98 then unquote_loop f r2 (8 :: racc)
                else if x =? 102 then unquote_loop f r2 (12 :: racc)
                else if x =? 110 then unquote_loop f r2 (10 :: racc)
                else if x =? 114 then unquote_loop f r2 (13 :: racc)
                else if x =? 116 then unquote_loop f r2 (9 :: racc)
                else if x =? 117 then
                  if zlen r2 <? 4 then UQErr else
                  match parse_hex4 (firstn 4 r2) with
                  | None => UQErr
                  | Some code =>
                      let r3 := skipn 4 r2 in
                      if is_surrogate code then
                        let valid := (6 <=? zlen r3) && (nth 0 r3 0 =? 92) && (nth 1 r3 0 =? 117) in
                        let '(ru, r4) :=
                          if valid then
                            match parse_hex4 (firstn 4 (skipn 2 r3)) with
                            | Some code2 =>
                                let d := utf16_decode code code2 in
                                if d =? rune_error then (rune_error, r3) else (d, skipn 6 r3)
                            | None => (rune_error, r3)
                            end
                          else (rune_error, r3) in
                        unquote_loop f r4 (rev (encode_rune ru) ++ racc)
                      else unquote_loop f r3 (rev (encode_rune code) ++ racc)
                  end
                else UQErr                     (* errUnquoteUnknownEscape *)
            end
          else if (c =? 34) || (c <? 32) then UQErr     (* errUnquoteInvalidChar *)
          else if c <? 128 then unquote_loop f r (c :: racc)
          else
            let '(_, sz) := decode_rune s in
            unquote_loop f (skipn (Z.to_nat sz) s) (rev (firstn (Z.to_nat sz) s) ++ racc)
      end
  end.

Definition unquote (s : bytes) : uqres :=
  let i := plain_prefix (length s) s in
  if Nat.eqb i (length s) then UQ s
  else unquote_loop (S (length s)) (skipn i s) (rev (firstn i s)).

(* ---- doString: (Some (content, rest) when the closing quote was found) ---- *)
(* scan for the closing quote; returns (index of the quote in buf, inEscape at the end) *)
Fixpoint scan_quote (buf : bytes) (inesc : bool) (i : nat) : option nat * bool :=
  match buf with
  | [] => (None, inesc)
  | c :: r =>
      if inesc then scan_quote r false (S i)
      else if c =? 34 then (Some i, false)
      else if c =? 92 then scan_quote r true (S i)
      else scan_quote r false (S i)
  end.

Inductive dsres := DSMore (p : jparser) | DSDone (p : jparser) (content : bytes) (rest : bytes) | DSErr (p : jparser) | DSCrash (why : Z).

Definition do_string (p : jparser) (b : bytes) : dsres :=
  let at_start := zlen (jp_lit p) =? 0 in
  match (if at_start then match b with [] => None | _ :: r => Some r end else Some b) with
  | None => DSCrash 1                         (* b[1:] of an empty slice *)
  | Some buf =>
      let '(found, inesc) := scan_quote buf (jp_inesc p) 0 in
      let p1 := jset_inesc p inesc in
      match found with
      | None => DSMore (jset_lit p1 (jp_lit p1 ++ b))
      | Some i =>
          let stop := (i + (if at_start then 2 else 1))%nat in
          let rest := skipn stop b in
          let tok := jp_lit p1 ++ firstn stop b in
          let p2 := jset_lit p1 [] in
          (* b = b[1 : len(b)-1] *)
          if zlen tok <? 2 then DSCrash 2 else
          let content := firstn (length tok - 2) (skipn 1 tok) in
          match unquote content with
          | UQ out => DSDone p2 out rest
          | UQErr => DSErr p2
          | UQCrash => DSCrash 3
          end
      end
  end.

(* ---- numbers ---- *)
Definition is_stop (c : Z) : bool :=
  (c =? 32) || (c =? 9) || (c =? 12) || (c =? 10) || (c =? 13) || (c =? 44) || (c =? 93) || (c =? 125).

Fixpoint scan_number (b : bytes) (dbl : bool) (i : nat) : option nat * bool :=
  match b with
  | [] => (None, dbl)
  | c :: r => if is_stop c then (Some i, dbl)
              else scan_number r (dbl || (c =? 46) || (c =? 101) || (c =? 69)) (S i)
  end.

(* parseUint: None = error (not a digit / overflow) *)
Fixpoint parse_uint (b : bytes) (n : Z) : option Z :=
  match b with
  | [] => Some n
  | c :: r =>
      let d := c - 48 in
      if (d <? 0) || (d >? 9) then None
      else if n >=? 1844674407370955162 then None        (* cutoff = MaxUint64/10 + 1 *)
      else
        let n1 := n * 10 + d in
        if n1 >? 18446744073709551615 then None else parse_uint r n1
  end.

(* reportNumber: event or error; pf = strconv.ParseFloat oracle *)
Definition report_number (pf : bytes -> option Z) (s : sink) (b : bytes) (dbl : bool) : option (sink * Z) :=
  if dbl then
    match pf b with
    | Some bits => let '(s1, e) := jvis s (EVal (SNum KFloat64 bits)) in Some (s1, e)
    | None => Some (s, jeGeneric)
    end
  else
    match b with
    | [] => None                                (* b[0] on an empty literal: panic *)
    | c :: r =>
        let neg := c =? 45 in
        let digits := if (c =? 43) || (c =? 45) then r else b in
        match digits with
        | [] => Some (s, jeGeneric)               (* a sign without digits is no number *)
        | _ =>
        match parse_uint digits 0 with
        | None => Some (s, jeGeneric)
        | Some u =>
            if negb neg && (u >? 9223372036854775807) then
              let '(s1, e) := jvis s (EVal (SNum KUint64 u)) in Some (s1, e)
            else if neg && (u >? 9223372036854775808) then Some (s, jeGeneric)
            else let '(s1, e) := jvis s (EVal (SNum KInt64 (if neg then - u else u))) in Some (s1, e)
        end
        end
    end.

Definition step_number (pf : bytes -> option Z) (p : jparser) (s : sink) (b : bytes) : jsres :=
  let '(found, dbl) := scan_number b (jp_isdbl p) 0 in
  let p1 := jset_isdbl p dbl in
  match found with
  | None => JS (jset_lit p1 (jp_lit p1 ++ b)) s [] false jpnil
  | Some i =>
      let rest := skipn i b in
      let tok := jp_lit p1 ++ firstn i b in
      let p2 := jset_lit p1 [] in
      match report_number pf s tok dbl with
      | None => JCrash 4
      | Some (s1, e) => JS (jpop p2) s1 rest true e
      end
  end.

(* ---- null / true / false ---- *)
Fixpoint has_prefix (b s : bytes) : bool :=
  match s, b with
  | [], _ => true
  | x :: s', y :: b' => (x =? y) && has_prefix b' s'
  | _ :: _, [] => false
  end.

Definition step_kind (p : jparser) (s : sink) (b : bytes) (kind : bytes) (ev : event) : jsres :=
  let n := jp_req p in
  if (n <? 0) || (zlen kind <? n) then JCrash 5 else
  let suffix := skipn (length kind - Z.to_nat n) kind in
  let L := zlen b in
  let done := negb (L <? n) in
  let p1 := if done then p else jset_req p (n - L) in
  let n1 := if done then n else L in
  let s1 := firstn (Z.to_nat n1) suffix in
  if negb (has_prefix b s1) then JS p1 s b false jeGeneric
  else
    let p2 := if done then jpop p1 else p1 in
    let rest := skipn (Z.to_nat n1) b in
    if done then let '(s2, e) := jvis s ev in JS p2 s2 rest true e
    else JS p2 s rest false jpnil.

Definition kNull := [110; 117; 108; 108].
Definition kTrue := [116; 114; 117; 101].
Definition kFalse := [102; 97; 108; 115; 101].

Definition step_string (p : jparser) (s : sink) (b : bytes) : jsres :=
  match do_string p b with
  | DSCrash w => JCrash w
  | DSMore p1 => JS p1 s [] false jpnil
  | DSErr p1 => JS p1 s [] false jeGeneric
  | DSDone p1 content rest =>
      let '(s1, e) := jvis s (EStrRef content) in JS (jpop p1) s1 rest true e
  end.

Definition step_value (pf : bytes -> option Z) (p : jparser) (s : sink) (b : bytes) (ret : Z) : jsres :=
  match trim_left b with
  | [] => JS p s [] false jpnil
  | c :: r =>
      let b1 := c :: r in
      let p1 := jset_cur p ret in
      if c =? 123 then let '(s1, e) := jvis s (EObjStart (-1) BAny) in JS (jpush p1 jDict) s1 r false e
      else if c =? 91 then let '(s1, e) := jvis s (EArrStart (-1) BAny) in JS (jpush p1 jArr) s1 r false e
      else if c =? 110 then step_kind (jset_req (jpush p1 jNull) 3) s r kNull (EVal SNil)
      else if c =? 102 then step_kind (jset_req (jpush p1 jFalse) 4) s r kFalse (EVal (SBool false))
      else if c =? 116 then step_kind (jset_req (jpush p1 jTrue) 3) s r kTrue (EVal (SBool true))
      else if c =? 34 then step_string (jset_inesc (jpush (jset_lit p1 []) jString) false) s b1
      else if (c =? 45) || (c =? 43) || (c =? 46) || is_digit c then
        step_number pf (jset_isdbl (jpush (jset_lit (jset_isdbl p1 false) []) jNumber) false) s b1
      else JS (jset_isdbl p1 false) s b1 false jeGeneric
  end.

Definition end_container (p : jparser) (s : sink) (b : bytes) (ev : event) : jsres :=
  match b with
  | [] => JCrash 6
  | _ :: r => let '(s1, e) := jvis s ev in JS (jpop p) s1 r true e
  end.

Definition step_dict (p : jparser) (s : sink) (b : bytes) (allow_end : bool) : jsres :=
  match trim_left b with
  | [] => JS p s [] false jpnil
  | c :: r =>
      if c =? 125 then
        if negb allow_end then JS p s [] false jeGeneric else end_container p s (c :: r) EObjEnd
      else if c =? 34 then JS (jset_cur p jDictField) s (c :: r) false jpnil
      else JS p s [] false jeGeneric
  end.

Definition step_dict_key (p : jparser) (s : sink) (b : bytes) : jsres :=
  match do_string p b with
  | DSCrash w => JCrash w
  | DSMore p1 => JS p1 s [] false jpnil
  | DSErr p1 => JS p1 s [] false jeGeneric
  | DSDone p1 content rest =>
      let '(s1, e) := jvis s (EKeyRef content) in JS (jset_cur p1 jDictFieldValueSep) s1 rest false e
  end.

Definition step_dict_value_end (p : jparser) (s : sink) (b : bytes) : jsres :=
  match trim_left b with
  | [] => JS p s [] false jpnil
  | c :: r =>
      if c =? 125 then end_container p s (c :: r) EObjEnd
      else if c =? 44 then JS (jset_cur p jDictNextField) s r false jpnil
      else JS p s [] false jeGeneric
  end.

Definition step_array (p : jparser) (s : sink) (b : bytes) : jsres :=
  match trim_left b with
  | [] => JS p s [] false jpnil
  | c :: r =>
      if c =? 93 then end_container p s (c :: r) EArrEnd
      else JS (jset_cur p jArrValue) s (c :: r) false jpnil
  end.

Definition step_arr_value_end (p : jparser) (s : sink) (b : bytes) : jsres :=
  match trim_left b with
  | [] => JS p s [] false jpnil
  | c :: r =>
      if c =? 93 then end_container p s (c :: r) EArrEnd
      else if c =? 44 then JS (jset_cur p jArrValue) s r false jpnil
      else JS p s [] false jeGeneric
  end.

(* one iteration of feedUntil's switch *)
Definition jstep (pf : bytes -> option Z) (p : jparser) (s : sink) (b : bytes) : jsres :=
  let c := jp_cur p in
  if c =? jFailed then JS (if jp_err p =? 0 then jset_err p jeGeneric else p) s b false (if jp_err p =? 0 then jeGeneric else jp_err p)
  else if c =? jStart then step_value pf p s b jStart
  else if c =? jDict then step_dict p s b true
  else if c =? jDictNextField then step_dict p s b false
  else if c =? jDictField then step_dict_key p s b
  else if c =? jDictFieldValueSep then
    match trim_left b with
    | [] => JS p s [] false jpnil
    | x :: r => JS (jset_cur p jDictFieldValue) s r false (if x =? 58 then jpnil else jeGeneric)
    end
  else if c =? jDictFieldValue then step_value pf p s b jDictFieldStateEnd
  else if c =? jDictFieldStateEnd then step_dict_value_end p s b
  else if c =? jArr then step_array p s b
  else if c =? jArrValue then
    match step_value pf p s b jArrNext with JS p1 s1 r _ e => JS p1 s1 r false e | x => x end
  else if c =? jArrNext then step_arr_value_end p s b
  else if c =? jNull then step_kind p s b kNull (EVal SNil)
  else if c =? jTrue then step_kind p s b kTrue (EVal (SBool true))
  else if c =? jFalse then step_kind p s b kFalse (EVal (SBool false))
  else if c =? jString then step_string p s b
  else if c =? jNumber then step_number pf p s b
  else JS p s b false jeGeneric.

(* feedUntil: loops while !reported && len(b) > 0; returns the unconsumed rest.
   A failed state returns "0 consumed". *)
Fixpoint jfeed_until (fuel : nat) (pf : bytes -> option Z) (p : jparser) (s : sink) (b : bytes) (orig : bytes)
  : res jsres :=
  match fuel with
  | O => OutOfFuel
  | S f =>
      if zlen b =? 0 then Ok (JS p s b false jpnil)
      else
        match jstep pf p s b with
        | JCrash w => Panic w
        | JS p1 s1 rest rep err =>
            if (jp_cur p =? jFailed) then Ok (JS p1 s1 orig false err)
            else if negb (jisnil err) then Ok (JS p1 s1 rest rep err)
            else
              let rep1 := rep && (zlen (jp_states p1) =? 0) in
              if rep1 then Ok (JS p1 s1 rest true jpnil) else jfeed_until f pf p1 s1 rest orig
        end
  end.

Definition jfeed_fuel (b : bytes) : nat := 4 * length b + 8.

Fixpoint jfeed (fuel : nat) (pf : bytes -> option Z) (p : jparser) (s : sink) (b : bytes) : res (jparser * sink * Z) :=
  match fuel with
  | O => OutOfFuel
  | S f =>
      if zlen b >? 0 then
        match jfeed_until (jfeed_fuel b) pf p s b b with
        | Ok (JS p1 s1 rest _ err) => if jisnil err then jfeed f pf p1 s1 rest else Ok (p1, s1, err)
        | Ok (JCrash w) => Panic w
        | Err e => Err e | Panic w => Panic w | OutOfFuel => OutOfFuel
        end
      else Ok (p, s, jpnil)
  end.

(* finalize: (parser, sink, err) or a panic *)
Definition jfinalize (pf : bytes -> option Z) (p : jparser) (s : sink) : option (jparser * sink * Z) :=
  let r :=
    if jp_cur p =? jNumber then
      match report_number pf s (jp_lit p) (jp_isdbl p) with
      | None => None
      | Some (s1, e) => if jisnil e then Some (jset_lit (jpop p) [], s1, jpnil, true) else Some (p, s1, e, false)
      end
    else Some (p, s, jpnil, true) in
  match r with
  | None => None
  | Some (p1, s1, e, cont) =>
      if negb cont then Some (p1, s1, e)
      else if (zlen (jp_states p1) >? 0) && negb (jp_cur p1 =? jStart) then Some (p1, s1, jeGeneric)
      else Some (p1, s1, jpnil)
  end.

Definition jp_write (pf : bytes -> option Z) (p : jparser) (s : sink) (b : bytes) : res (jparser * sink * Z) :=
  match jfeed (2 * length b + 2) pf p s b with
  | Ok (p1, s1, err) => Ok (jset_err p1 (if jisnil err then 0 else err), s1, err)
  | r => r
  end.

Definition with_final (pf : bytes -> option Z) (p : jparser) (s : sink) : res (jparser * sink * Z) :=
  match jfinalize pf p s with Some r => Ok r | None => Panic 7 end.

(* Parser.Parse resets states, literalBuffer and the current state first *)
Definition jp_parse (pf : bytes -> option Z) (p : jparser) (s : sink) (b : bytes) : res (jparser * sink * Z) :=
  let p0 := jset_cur (jset_lit {| jp_cur := jp_cur p; jp_states := []; jp_lit := jp_lit p; jp_inesc := jp_inesc p;
                                   jp_isdbl := jp_isdbl p; jp_req := jp_req p; jp_err := jp_err p |} []) jStart in
  match jfeed (2 * length b + 2) pf p0 s b with
  | Ok (p1, s1, err) => if jisnil err then with_final pf p1 s1 else Ok (p1, s1, err)
  | r => r
  end.

Fixpoint jp_writes (pf : bytes -> option Z) (p : jparser) (s : sink) (chunks : list bytes) : res (jparser * sink * Z) :=
  match chunks with
  | [] => with_final pf p s
  | c :: r =>
      match jp_write pf p s c with
      | Ok (p1, s1, err) => if jisnil err then jp_writes pf p1 s1 r else Ok (p1, s1, err)
      | x => x
      end
  end.

Definition jrun_chunks (pf : bytes -> option Z) (vfail : option nat) (chunks : list bytes) : res (list event * Z * jparser) :=
  match jp_writes pf jparser0 (sink0 vfail) chunks with
  | Ok (p, s, err) => Ok (s_log s, err, p)
  | Err e => Err e | Panic w => Panic w | OutOfFuel => OutOfFuel
  end.

Definition jrun_parse (pf : bytes -> option Z) (vfail : option nat) (b : bytes) : res (list event * Z * jparser) :=
  match jp_parse pf jparser0 (sink0 vfail) b with
  | Ok (p, s, err) => Ok (s_log s, err, p)
  | Err e => Err e | Panic w => Panic w | OutOfFuel => OutOfFuel
  end.

(* ---------- Decoder ---------- *)
Record jdecoder := { jd_p : jparser; jd_buf : bytes; jd_script : list (bytes * Z); jd_bytesdec : bool }.

(* Decoder.finalize(eof) *)
Definition jdec_finalize (pf : bytes -> option Z) (d : jdecoder) (s : sink) : res (jdecoder * sink * Z) :=
  let pending := jp_cur (jd_p d) =? jNumber in
  match jfinalize pf (jd_p d) s with
  | None => Panic 8
  | Some (p1, s1, e) =>
      let d1 := {| jd_p := p1; jd_buf := jd_buf d; jd_script := jd_script d; jd_bytesdec := jd_bytesdec d |} in
      if negb (jisnil e) then Ok (d1, s1, e)
      else if pending then Ok (d1, s1, jpnil)
      else Ok (d1, s1, jeEOF)
  end.

Fixpoint jdec_next (fuel : nat) (pf : bytes -> option Z) (d : jdecoder) (s : sink) : res (jdecoder * sink * Z) :=
  match fuel with
  | O => OutOfFuel
  | S f =>
      let fill : jdecoder + res (jdecoder * sink * Z) :=
        if zlen (jd_buf d) =? 0 then
          if jd_bytesdec d then inr (jdec_finalize pf d s)
          else
            match jd_script d with
            | [] => inr (jdec_finalize pf d s)
            | (data, err) :: rest =>
                let d1 := {| jd_p := jd_p d; jd_buf := data; jd_script := rest; jd_bytesdec := false |} in
                if (zlen data =? 0) && negb (err =? 0) then
                  if err =? jeEOF then inr (jdec_finalize pf d1 s) else inr (Ok (d1, s, err))
                else inl d1
            end
        else inl d in
      match fill with
      | inr r => r
      | inl d1 =>
          match jfeed_until (jfeed_fuel (jd_buf d1)) pf (jd_p d1) s (jd_buf d1) (jd_buf d1) with
          | Ok (JS p1 s1 rest rep err) =>
              let d2 := {| jd_p := p1; jd_buf := rest; jd_script := jd_script d1; jd_bytesdec := jd_bytesdec d1 |} in
              if negb (jisnil err) then Ok ({| jd_p := p1; jd_buf := jd_buf d1; jd_script := jd_script d1; jd_bytesdec := jd_bytesdec d1 |}, s1, err)
              else if rep then Ok (d2, s1, jpnil)
              else jdec_next f pf d2 s1
          | Ok (JCrash w) => Panic w
          | Err e => Err e | Panic w => Panic w | OutOfFuel => OutOfFuel
          end
      end
  end.
