(* C16 / C17 / C18 for the JSON parser model: how the parser treats its
   visitor, what state it is in after an accepted input, and the pull decoder.
   The float parser [pf] is a Section variable. *)
From Coq Require Import Setoid List NArith ZArith Bool Lia.
From Coq Require Import ZifyBool ZifyNat ZifyN.
From SF Require Import Base.Prelude Base.Utf8 Core.Events Json.Parse Json.ParseSafety.
Import ListNotations.
Open Scope Z_scope.
Ltac Zify.zify_post_hook ::= Z.div_mod_to_equations.

(* ====================================================================== *)
(* Part 0: visitor programs.  A function of the sink is "representable"   *)
(* when it is the interpretation of a straight-line program of visitor    *)
(* calls that returns at the first failing call with that call's error.   *)
(* ====================================================================== *)

Definition out (A : Type) : Type := option (A * sink * Z).

Inductive prog (A : Type) : Type :=
| PRet (a : A) (e : Z)
| PAbort
| PVis (ev : event) (afail : A) (k : prog A).
Arguments PRet {A} a e.
Arguments PAbort {A}.
Arguments PVis {A} ev afail k.

Fixpoint run {A} (pr : prog A) (s : sink) : out A :=
  match pr with
  | PRet a e => Some (a, s, e)
  | PAbort => None
  | PVis ev af k => let '(s1, ok) := emit s ev in if ok then run k s1 else Some (af, s1, jeVisitor)
  end.

Fixpoint ptrace {A} (pr : prog A) : list event :=
  match pr with PVis ev _ k => ev :: ptrace k | _ => [] end.
Fixpoint pfinal {A} (pr : prog A) : option (A * Z) :=
  match pr with PRet a e => Some (a, e) | PAbort => None | PVis _ _ k => pfinal k end.

Definition s_add (s : sink) (l : list event) : sink :=
  {| s_rlog := rev l ++ s_rlog s; s_n := length l + s_n s; s_fail := s_fail s |}.

Lemma s_add_nil : forall s, s_add s [] = s.
Proof. intros [l n f]; reflexivity. Qed.

Lemma s_add_add : forall s l1 l2, s_add (s_add s l1) l2 = s_add s (l1 ++ l2).
Proof.
  intros s l1 l2. unfold s_add; cbn [s_rlog s_n s_fail]. f_equal.
  - rewrite rev_app_distr, app_assoc. reflexivity.
  - rewrite app_length. lia.
Qed.

Lemma emit_spec : forall s e,
  emit s e = (s_add s [e], match s_fail s with Some k => Nat.ltb (s_n s) k | None => true end).
Proof. intros s e. unfold emit, s_add. cbn [rev app length Nat.add]. destruct (s_fail s); reflexivity. Qed.

Definition final_out {A} (pr : prog A) (s : sink) : out A :=
  match pfinal pr with Some (a, e) => Some (a, s_add s (ptrace pr), e) | None => None end.

Lemma run_nofail : forall A (pr : prog A) s, s_fail s = None -> run pr s = final_out pr s.
Proof.
  induction pr as [a e| |ev af k IH]; intros s Hs; unfold final_out; cbn [run pfinal ptrace].
  - rewrite s_add_nil. reflexivity.
  - reflexivity.
  - rewrite emit_spec, Hs. rewrite IH by exact Hs. unfold final_out.
    destruct (pfinal k) as [[a e]|]; [|reflexivity]. rewrite s_add_add. reflexivity.
Qed.

Lemma run_fail : forall A (pr : prog A) s k, s_fail s = Some k -> (s_n s <= k)%nat ->
  (if (length (ptrace pr) <=? k - s_n s)%nat then run pr s = final_out pr s
   else exists af, run pr s = Some (af, s_add s (firstn (S (k - s_n s)) (ptrace pr)), jeVisitor)).
Proof.
  induction pr as [a e| |ev af k0 IH]; intros s k Hs Hn; cbn [run pfinal ptrace length].
  - cbn [Nat.leb]. unfold final_out. cbn [pfinal ptrace]. rewrite s_add_nil. reflexivity.
  - reflexivity.
  - rewrite emit_spec, Hs.
    destruct (Nat.ltb (s_n s) k) eqn:E.
    + apply Nat.ltb_lt in E.
      assert (Hs1 : s_fail (s_add s [ev]) = Some k) by exact Hs.
      assert (Hn1 : (s_n (s_add s [ev]) <= k)%nat) by (cbn [s_add s_n length]; lia).
      specialize (IH _ _ Hs1 Hn1).
      replace (k - s_n (s_add s [ev]))%nat with (k - s_n s - 1)%nat in IH by (cbn [s_add s_n length]; lia).
      destruct (Nat.leb (S (length (ptrace k0))) (k - s_n s)) eqn:L.
      * apply Nat.leb_le in L.
        assert (L' : Nat.leb (length (ptrace k0)) (k - s_n s - 1) = true) by (apply Nat.leb_le; lia).
        rewrite L' in IH. rewrite IH. unfold final_out. cbn [pfinal ptrace].
        destruct (pfinal k0) as [[a e]|]; [|reflexivity]. rewrite s_add_add. reflexivity.
      * apply Nat.leb_gt in L.
        assert (L' : Nat.leb (length (ptrace k0)) (k - s_n s - 1) = false) by (apply Nat.leb_gt; lia).
        rewrite L' in IH. destruct IH as [af' IH]. exists af'. rewrite IH. rewrite s_add_add.
        replace (S (k - s_n s)) with (S (S (k - s_n s - 1))) by lia. reflexivity.
    + apply Nat.ltb_ge in E. assert (k - s_n s = 0)%nat as -> by lia.
      cbn [Nat.leb]. exists af. reflexivity.
Qed.

(* representability *)
Definition Rep {A} (f : sink -> out A) : Type := { pr : prog A | forall s, f s = run pr s }.

Lemma Rep_ret : forall A (a : A) e, Rep (fun s => Some (a, s, e)).
Proof. intros A a e. exists (PRet a e). reflexivity. Qed.

Lemma Rep_abort : forall A, Rep (fun _ => @None (A * sink * Z)).
Proof. intros A. exists PAbort. reflexivity. Qed.

Lemma Rep_ext : forall A (f g : sink -> out A), (forall s, f s = g s) -> Rep g -> Rep f.
Proof. intros A f g H [pr Hpr]. exists pr. intros s. rewrite H. apply Hpr. Qed.

Lemma jvis_emit : forall s ev s1 ok, emit s ev = (s1, ok) -> jvis s ev = (s1, if ok then jpnil else jeVisitor).
Proof. intros s ev s1 ok E. unfold jvis. rewrite E. reflexivity. Qed.

(* the visitor call: on failure the function returns at once with the visitor's error *)
Lemma Rep_vis : forall A (f : sink -> out A) ev af (g : sink -> out A),
  (forall s s1, jvis s ev = (s1, jpnil) -> f s = g s1) ->
  (forall s s1, jvis s ev = (s1, jeVisitor) -> f s = Some (af, s1, jeVisitor)) ->
  Rep g -> Rep f.
Proof.
  intros A f ev af g H1 H2 [pr Hpr]. exists (PVis ev af pr). intros s. cbn [run].
  destruct (emit s ev) as [s1 ok] eqn:E. apply jvis_emit in E. destruct ok.
  - rewrite (H1 _ _ E). apply Hpr.
  - apply (H2 _ _ E).
Qed.

(* sequencing: the continuation runs only after a nil error *)
Fixpoint pbind {A B} (pr : prog A) (phi : A -> Z -> B) (K : A -> prog B) : prog B :=
  match pr with
  | PRet a e => if jisnil e then K a else PRet (phi a e) e
  | PAbort => PAbort
  | PVis ev af k => PVis ev (phi af jeVisitor) (pbind k phi K)
  end.

Lemma run_pbind : forall A B (pr : prog A) (phi : A -> Z -> B) K s,
  run (pbind pr phi K) s =
  match run pr s with
  | None => None
  | Some (a, s1, e) => if jisnil e then run (K a) s1 else Some (phi a e, s1, e)
  end.
Proof.
  induction pr as [a e| |ev af k IH]; intros phi K s; cbn [pbind run].
  - destruct (jisnil e); reflexivity.
  - reflexivity.
  - destruct (emit s ev) as [s1 ok]. destruct ok; [apply IH|reflexivity].
Qed.

Lemma Rep_bind : forall A B (g : sink -> out A) (phi : A -> Z -> B) (h : A -> sink -> out B)
  (f : sink -> out B),
  Rep g -> (forall a, Rep (h a)) ->
  (forall s, f s = match g s with
                   | None => None
                   | Some (a, s1, e) => if jisnil e then h a s1 else Some (phi a e, s1, e)
                   end) ->
  Rep f.
Proof.
  intros A B g phi h f [pg Hg] Hh Hf.
  exists (pbind pg phi (fun a => proj1_sig (Hh a))). intros s.
  rewrite Hf, run_pbind, Hg. destruct (run pg s) as [[[a s1] e]|]; [|reflexivity].
  destruct (jisnil e); [|reflexivity]. apply (proj2_sig (Hh a)).
Qed.

Lemma jisnil_true' : forall e, jisnil e = true -> e = jpnil.
Proof. intros e H. apply Z.eqb_eq in H. exact H. Qed.

Lemma Rep_map : forall A B (g : sink -> out A) (phi : A -> Z -> B) (f : sink -> out B),
  Rep g ->
  (forall s, f s = match g s with None => None | Some (a, s1, e) => Some (phi a e, s1, e) end) ->
  Rep f.
Proof.
  intros A B g phi f Hg Hf.
  apply (Rep_bind A B g phi (fun a s => Some (phi a jpnil, s, jpnil)) f Hg).
  - intros a. apply Rep_ret.
  - intros s. rewrite Hf. destruct (g s) as [[[a s1] e]|]; [|reflexivity].
    destruct (jisnil e) eqn:E; [|reflexivity]. apply jisnil_true' in E. subst e. reflexivity.
Qed.

(* ---------- what representability gives ---------- *)
Lemma s_log_add0 : forall f l, s_log (s_add (sink0 f) l) = l.
Proof. intros. unfold s_log, s_add, sink0. cbn [s_rlog]. rewrite app_nil_r. apply rev_involutive. Qed.

Lemma rep_prompt0 : forall A (f : sink -> out A), Rep f -> forall k a s e,
  f (sink0 (Some k)) = Some (a, s, e) ->
  (length (s_log s) <= S k)%nat /\ (length (s_log s) = S k -> e = jeVisitor).
Proof.
  intros A f [pr Hpr] k a s e H. rewrite Hpr in H.
  pose proof (run_fail A pr (sink0 (Some k)) k eq_refl (Nat.le_0_l k)) as R.
  cbn [sink0 s_n] in R. rewrite Nat.sub_0_r in R.
  destruct (Nat.leb (length (ptrace pr)) k) eqn:L.
  - apply Nat.leb_le in L. rewrite R in H. unfold final_out in H.
    destruct (pfinal pr) as [[a' e']|]; [|discriminate]. inversion H; subst.
    change {| s_rlog := []; s_n := 0; s_fail := Some k |} with (sink0 (Some k)).
    rewrite s_log_add0. split; lia.
  - apply Nat.leb_gt in L. destruct R as [af R].
    remember (firstn (S k) (ptrace pr)) as t eqn:Ht.
    rewrite R in H. injection H as Ha Hs He. subst a s e.
    change {| s_rlog := []; s_n := 0; s_fail := Some k |} with (sink0 (Some k)).
    rewrite s_log_add0. split; [|reflexivity]. subst t. rewrite firstn_length. lia.
Qed.

Lemma rep_prefix0 : forall A (f : sink -> out A), Rep f -> forall k a0 s0 e0,
  f (sink0 None) = Some (a0, s0, e0) ->
  exists a s, f (sink0 (Some k)) = Some (a, s, if (length (s_log s0) <=? k)%nat then e0 else jeVisitor) /\
              s_log s = firstn (S k) (s_log s0) /\
              ((length (s_log s0) <= k)%nat -> a = a0).
Proof.
  intros A f [pr Hpr] k a0 s0 e0 H. rewrite Hpr in H. rewrite Hpr.
  rewrite run_nofail in H by reflexivity. unfold final_out in H.
  destruct (pfinal pr) as [[a' e']|] eqn:F; [|discriminate]. inversion H; subst. clear H.
  rewrite s_log_add0.
  pose proof (run_fail A pr (sink0 (Some k)) k eq_refl (Nat.le_0_l k)) as R.
  cbn [sink0 s_n] in R. rewrite Nat.sub_0_r in R.
  change {| s_rlog := []; s_n := 0; s_fail := Some k |} with (sink0 (Some k)) in R.
  destruct (Nat.leb (length (ptrace pr)) k) eqn:L.
  - apply Nat.leb_le in L. rewrite R. unfold final_out. rewrite F.
    eexists _, _. split; [reflexivity|]. rewrite s_log_add0. split; [|reflexivity].
    symmetry. apply firstn_all2. lia.
  - apply Nat.leb_gt in L. destruct R as [af R]. rewrite R.
    eexists _, _. split; [reflexivity|]. rewrite s_log_add0. split; [reflexivity|]. lia.
Qed.

Lemma rep_prompt_gen : forall A (f : sink -> out A), Rep f -> forall s k a s' e,
  s_fail s = Some k -> (s_n s <= k)%nat -> f s = Some (a, s', e) ->
  exists l, s' = s_add s l /\ (s_n s' <= S k)%nat /\ (s_n s' = S k -> e = jeVisitor).
Proof.
  intros A f [pr Hpr] s k a s' e Hs Hn H. rewrite Hpr in H.
  pose proof (run_fail A pr s k Hs Hn) as R.
  destruct (Nat.leb (length (ptrace pr)) (k - s_n s)) eqn:L.
  - apply Nat.leb_le in L. rewrite R in H. unfold final_out in H.
    destruct (pfinal pr) as [[a' e']|]; [|discriminate]. inversion H; subst.
    exists (ptrace pr). split; [reflexivity|]. cbn [s_add s_n]. split; lia.
  - apply Nat.leb_gt in L. destruct R as [af R].
    remember (firstn (S (k - s_n s)) (ptrace pr)) as t eqn:Ht.
    rewrite R in H. inversion H; subst a s' e.
    exists t. split; [reflexivity|]. cbn [s_add s_n].
    assert (length t = S (k - s_n s)) by (subst t; rewrite firstn_length; lia).
    split; [lia|reflexivity].
Qed.

(* ====================================================================== *)
(* Part 1: every parser function is representable (core lemma of C16)     *)
(* ====================================================================== *)

Definition osr (r : jsres) : out (jparser * bytes * bool) :=
  match r with JS p s rest d e => Some ((p, rest, d), s, e) | JCrash _ => None end.

Ltac vred :=
  cbv beta iota zeta;
  change (jisnil jpnil) with true; change (jisnil jeVisitor) with false;
  change (negb true) with false; change (negb false) with true;
  cbv beta iota zeta.

Ltac vis_step :=
  eapply Rep_vis;
  [ let s := fresh "s" in let s1 := fresh "s1" in let E := fresh "E" in
    intros s s1 E; cbv beta; rewrite E; vred; reflexivity
  | let s := fresh "s" in let s1 := fresh "s1" in let E := fresh "E" in
    intros s s1 E; cbv beta; rewrite E; vred; reflexivity
  | cbv beta ].

Lemma Rep_sr : forall p rest d e, Rep (fun s => osr (JS p s rest d e)).
Proof. intros. apply (Rep_ret _ (p, rest, d) e). Qed.
Lemma Rep_crash : forall w, Rep (fun s => osr (JCrash w)).
Proof. intros. apply Rep_abort. Qed.

Ltac brk2 :=
  match goal with
  | |- Rep (fun s => _ (if ?c then _ else _)) => destruct c eqn:?
  | |- Rep (fun s => _ (match ?b with [] => _ | _ :: _ => _ end)) => destruct b
  | |- Rep (fun s => _ (match ?o with Some _ => _ | None => _ end)) => destruct o
  end.

Ltac fin := first [ apply Rep_sr | apply Rep_crash ].
Ltac rep_auto := repeat first [ fin | brk2 | vis_step ].

Section JsonVisitor.
Variable pf : bytes -> option Z.

Definition orn (r : option (sink * Z)) : out unit :=
  match r with Some (s, e) => Some (tt, s, e) | None => None end.

Lemma Rep_rn : forall e, Rep (fun s => orn (Some (s, e))).
Proof. intros. apply (Rep_ret _ tt e). Qed.
Lemma Rep_rn_none : Rep (fun s : sink => orn None).
Proof. apply Rep_abort. Qed.

Lemma report_number_rep : forall b dbl, Rep (fun s => orn (report_number pf s b dbl)).
Proof.
  intros b dbl. unfold report_number.
  destruct dbl.
  - destruct (pf b) as [bits|]; [|apply Rep_rn]. vis_step. apply Rep_rn.
  - destruct b as [|c r]; [apply Rep_rn_none|]. cbv zeta.
    destruct (parse_uint _ 0) as [u|]; [|apply Rep_rn].
    destruct (negb (c =? 45) && (u >? 9223372036854775807)); [vis_step; apply Rep_rn|].
    destruct ((c =? 45) && (u >? 9223372036854775808)); [apply Rep_rn|].
    vis_step. apply Rep_rn.
Qed.

Lemma step_number_rep : forall p b, Rep (fun s => osr (step_number pf p s b)).
Proof.
  intros p b. unfold step_number.
  destruct (scan_number b (jp_isdbl p) 0) as [found dbl]. cbv zeta.
  destruct found as [i|]; [|apply Rep_sr].
  match goal with |- context [report_number pf _ ?tok dbl] =>
    apply (Rep_map _ _ _ (fun _ e => (jpop (jset_lit (jset_isdbl p dbl) []), skipn i b, true)) _
                   (report_number_rep tok dbl)) end.
  intros s. destruct (report_number pf s _ dbl) as [[s1 e]|]; reflexivity.
Qed.

Lemma step_kind_rep : forall p b kind ev, Rep (fun s => osr (step_kind p s b kind ev)).
Proof. intros. unfold step_kind. cbv zeta. rep_auto. Qed.

Lemma step_string_rep : forall p b, Rep (fun s => osr (step_string p s b)).
Proof.
  intros. unfold step_string. destruct (do_string p b) as [p1|p1 content rest|p1|w]; rep_auto.
Qed.

Lemma step_dict_key_rep : forall p b, Rep (fun s => osr (step_dict_key p s b)).
Proof.
  intros. unfold step_dict_key. destruct (do_string p b) as [p1|p1 content rest|p1|w]; rep_auto.
Qed.

Lemma end_container_rep : forall p b ev, Rep (fun s => osr (end_container p s b ev)).
Proof. intros. unfold end_container. rep_auto. Qed.

Lemma step_value_rep : forall p b ret, Rep (fun s => osr (step_value pf p s b ret)).
Proof.
  intros. unfold step_value. destruct (trim_left b) as [|c r]; [apply Rep_sr|]. cbv zeta.
  repeat first [ fin | apply step_kind_rep | apply step_string_rep | apply step_number_rep | brk2 | vis_step ].
Qed.

Lemma step_dict_rep : forall p b ae, Rep (fun s => osr (step_dict p s b ae)).
Proof.
  intros. unfold step_dict. destruct (trim_left b) as [|c r]; [apply Rep_sr|].
  repeat first [ fin | apply end_container_rep | brk2 ].
Qed.

Lemma step_dict_value_end_rep : forall p b, Rep (fun s => osr (step_dict_value_end p s b)).
Proof.
  intros. unfold step_dict_value_end. destruct (trim_left b) as [|c r]; [apply Rep_sr|].
  repeat first [ fin | apply end_container_rep | brk2 ].
Qed.

Lemma step_array_rep : forall p b, Rep (fun s => osr (step_array p s b)).
Proof.
  intros. unfold step_array. destruct (trim_left b) as [|c r]; [apply Rep_sr|].
  repeat first [ fin | apply end_container_rep | brk2 ].
Qed.

Lemma step_arr_value_end_rep : forall p b, Rep (fun s => osr (step_arr_value_end p s b)).
Proof.
  intros. unfold step_arr_value_end. destruct (trim_left b) as [|c r]; [apply Rep_sr|].
  repeat first [ fin | apply end_container_rep | brk2 ].
Qed.

(* Core lemma of C16: one parser step is a straight-line visitor program. *)
Lemma jstep_rep : forall p b, Rep (fun s => osr (jstep pf p s b)).
Proof.
  intros. unfold jstep. cbv zeta.
  repeat (match goal with |- Rep (fun s => _ (if ?c then _ else _)) => destruct c eqn:? end;
    [solve [ repeat first [ fin | apply step_value_rep | apply step_dict_rep | apply step_dict_key_rep
                          | apply step_dict_value_end_rep | apply step_array_rep
                          | apply step_arr_value_end_rep | apply step_kind_rep | apply step_string_rep
                          | apply step_number_rep | brk2 ]
           | (* jArrValue: the reported flag is dropped *)
             apply (Rep_map _ _ _ (fun a _ => (fst (fst a), snd (fst a), false)) _
                      (step_value_rep p b jArrNext));
             intros s; destruct (step_value pf p s b jArrNext); reflexivity ] |]).
  apply Rep_sr.
Qed.

(* ---------- the feed loops ---------- *)
Definition ores (r : res jsres) : out (jparser * bytes * bool) :=
  match r with Ok x => osr x | _ => None end.
Definition orf (r : res (jparser * sink * Z)) : out jparser :=
  match r with Ok (p, s, e) => Some (p, s, e) | _ => None end.

Lemma jfeed_until_rep : forall fuel p b orig, Rep (fun s => ores (jfeed_until fuel pf p s b orig)).
Proof.
  induction fuel as [|f IH]; intros p b orig.
  - apply Rep_abort.
  - cbn [jfeed_until]. destruct (zlen b =? 0); [apply Rep_sr|].
    destruct (jp_cur p =? jFailed) eqn:Ef.
    + apply (Rep_map _ _ _ (fun a _ => (fst (fst a), orig, false)) _ (jstep_rep p b)).
      intros s. destruct (jstep pf p s b); reflexivity.
    + apply (Rep_bind _ _ (fun s => osr (jstep pf p s b)) (fun a _ => a)
               (fun a s => let '(p1, rest, rep) := a in
                  if rep && (zlen (jp_states p1) =? 0) then Some ((p1, rest, true), s, jpnil)
                  else ores (jfeed_until f pf p1 s rest orig))).
      * apply jstep_rep.
      * intros [[p1 rest] rep]. destruct (rep && (zlen (jp_states p1) =? 0)); [apply Rep_ret|apply IH].
      * intros s. destruct (jstep pf p s b) as [p1 s1 rest rep err|w]; [|reflexivity].
        cbn [osr]. destruct (jisnil err) eqn:E; cbn [negb].
        -- apply jisnil_true' in E. subst err.
           destruct (rep && (zlen (jp_states p1) =? 0)); reflexivity.
        -- reflexivity.
Qed.

Lemma jfeed_rep : forall fuel p b, Rep (fun s => orf (jfeed fuel pf p s b)).
Proof.
  induction fuel as [|f IH]; intros p b.
  - apply Rep_abort.
  - cbn [jfeed]. destruct (zlen b >? 0); [|apply Rep_ret].
    apply (Rep_bind _ _ (fun s => ores (jfeed_until (jfeed_fuel b) pf p s b b)) (fun a _ => fst (fst a))
             (fun a s => orf (jfeed f pf (fst (fst a)) s (snd (fst a))))).
    + apply jfeed_until_rep.
    + intros a. apply IH.
    + intros s. destruct (jfeed_until (jfeed_fuel b) pf p s b b) as [[p1 s1 rest d err|w]| | |]; try reflexivity.
      cbn [ores osr fst snd]. destruct (jisnil err); reflexivity.
Qed.

Lemma jp_write_rep : forall p b, Rep (fun s => orf (jp_write pf p s b)).
Proof.
  intros. unfold jp_write.
  apply (Rep_map _ _ _ (fun p1 e => jset_err p1 (if jisnil e then 0 else e)) _ (jfeed_rep (2 * length b + 2) p b)).
  intros s. destruct (jfeed (2 * length b + 2) pf p s b) as [[[p1 s1] e]| | |]; reflexivity.
Qed.

Definition ofin (r : option (jparser * sink * Z)) : out jparser := r.

Lemma jfinalize_rep : forall p, Rep (fun s => ofin (jfinalize pf p s)).
Proof.
  intros p. unfold jfinalize, ofin.
  destruct (jp_cur p =? jNumber).
  - apply (Rep_bind _ _ _ (fun _ _ => p)
             (fun _ s => if (zlen (jp_states (jpop p)) >? 0) && negb (jp_cur (jpop p) =? jStart)
                         then Some (jpop p, s, jeGeneric) else Some (jpop p, s, jpnil))
             _ (report_number_rep (jp_lit p) (jp_isdbl p))).
    + intros _. destruct (_ && _); apply Rep_ret.
    + intros s. destruct (report_number pf s (jp_lit p) (jp_isdbl p)) as [[s1 e]|]; [|reflexivity].
      cbn [orn]. destruct (jisnil e); cbn [negb]; reflexivity.
  - cbn [negb]. destruct (_ && _); apply Rep_ret.
Qed.

Lemma with_final_rep : forall p, Rep (fun s => orf (with_final pf p s)).
Proof.
  intros p. eapply Rep_ext; [|apply (jfinalize_rep p)].
  intros s. unfold with_final, ofin. destruct (jfinalize pf p s) as [[[p1 s1] e]|]; reflexivity.
Qed.

Lemma jp_parse_rep : forall p b, Rep (fun s => orf (jp_parse pf p s b)).
Proof.
  intros. unfold jp_parse. cbv zeta.
  match goal with |- context [jfeed ?n pf ?q _ b] =>
    apply (Rep_bind _ _ _ (fun p1 _ => p1) (fun p1 s => orf (with_final pf p1 s)) _ (jfeed_rep n q b)) end.
  - intros a. apply with_final_rep.
  - intros s.
    match goal with |- context [jfeed ?n pf ?q s b] => destruct (jfeed n pf q s b) as [[[p1 s1] e]| | |] end;
      try reflexivity.
    cbn [orf]. destruct (jisnil e); reflexivity.
Qed.

Lemma jp_writes_rep : forall chunks p, Rep (fun s => orf (jp_writes pf p s chunks)).
Proof.
  induction chunks as [|c r IH]; intros p.
  - apply with_final_rep.
  - cbn [jp_writes].
    apply (Rep_bind _ _ _ (fun p1 _ => p1) (fun p1 s => orf (jp_writes pf p1 s r)) _ (jp_write_rep p c)).
    + intros a. apply IH.
    + intros s. destruct (jp_write pf p s c) as [[[p1 s1] e]| | |]; try reflexivity.
      cbn [orf]. destruct (jisnil e); reflexivity.
Qed.

(* ---------- C16 for the parser ---------- *)
Lemma jrun_chunks_orf : forall v chunks evs e p,
  jrun_chunks pf v chunks = Ok (evs, e, p) <->
  exists s, orf (jp_writes pf jparser0 (sink0 v) chunks) = Some (p, s, e) /\ evs = s_log s.
Proof.
  intros. unfold jrun_chunks. destruct (jp_writes pf jparser0 (sink0 v) chunks) as [[[p' s] e']| | |]; cbn [orf].
  - split.
    + intros H. inversion H; subst. eauto.
    + intros (s' & H & ->). inversion H; subst. reflexivity.
  - split; [discriminate|]. intros (s' & H & _). discriminate.
  - split; [discriminate|]. intros (s' & H & _). discriminate.
  - split; [discriminate|]. intros (s' & H & _). discriminate.
Qed.

Lemma jrun_parse_orf : forall v b evs e p,
  jrun_parse pf v b = Ok (evs, e, p) <->
  exists s, orf (jp_parse pf jparser0 (sink0 v) b) = Some (p, s, e) /\ evs = s_log s.
Proof.
  intros. unfold jrun_parse. destruct (jp_parse pf jparser0 (sink0 v) b) as [[[p' s] e']| | |]; cbn [orf].
  - split.
    + intros H. inversion H; subst. eauto.
    + intros (s' & H & ->). inversion H; subst. reflexivity.
  - split; [discriminate|]. intros (s' & H & _). discriminate.
  - split; [discriminate|]. intros (s' & H & _). discriminate.
  - split; [discriminate|]. intros (s' & H & _). discriminate.
Qed.

(* no event is delivered after the failing one, and its error is returned unchanged *)
Theorem C16_json_parse_prompt : forall k chunks evs e p,
  jrun_chunks pf (Some k) chunks = Ok (evs, e, p) ->
  (length evs <= S k)%nat /\ (length evs = S k -> e = jeVisitor).
Proof.
  intros k chunks evs e p H. apply jrun_chunks_orf in H. destruct H as (s & H & ->).
  exact (rep_prompt0 _ _ (jp_writes_rep chunks jparser0) k p s e H).
Qed.

(* the failing run is determined by the unfailing one: it delivers exactly the
   first k+1 events, and returns the visitor's error iff the unfailing run has
   more than k events (otherwise the same verdict and the same final parser) *)
Theorem C16_json_parse_fail_spec : forall k chunks evs0 e0 p0,
  jrun_chunks pf None chunks = Ok (evs0, e0, p0) ->
  exists p, jrun_chunks pf (Some k) chunks =
              Ok (firstn (S k) evs0, (if (length evs0 <=? k)%nat then e0 else jeVisitor), p) /\
            ((length evs0 <= k)%nat -> p = p0).
Proof.
  intros k chunks evs0 e0 p0 H. apply jrun_chunks_orf in H. destruct H as (s0 & H & ->).
  destruct (rep_prefix0 _ _ (jp_writes_rep chunks jparser0) k p0 s0 e0 H) as (a & s & H1 & H2 & H3).
  exists a. split; [|exact H3]. apply jrun_chunks_orf. exists s. split; [exact H1|]. symmetry. exact H2.
Qed.

Theorem C16_json_parse_prefix : forall k chunks evs e p evs0 e0 p0,
  jrun_chunks pf (Some k) chunks = Ok (evs, e, p) -> jrun_chunks pf None chunks = Ok (evs0, e0, p0) ->
  evs = firstn (S k) evs0 /\ e = (if (length evs0 <=? k)%nat then e0 else jeVisitor).
Proof.
  intros k chunks evs e p evs0 e0 p0 H H0.
  destruct (C16_json_parse_fail_spec k chunks evs0 e0 p0 H0) as (p' & H1 & _).
  rewrite H1 in H. inversion H. split; reflexivity.
Qed.

Theorem C16_json_run_parse_prompt : forall k b evs e p,
  jrun_parse pf (Some k) b = Ok (evs, e, p) ->
  (length evs <= S k)%nat /\ (length evs = S k -> e = jeVisitor).
Proof.
  intros k b evs e p H. apply jrun_parse_orf in H. destruct H as (s & H & ->).
  exact (rep_prompt0 _ _ (jp_parse_rep jparser0 b) k p s e H).
Qed.

Theorem C16_json_run_parse_fail_spec : forall k b evs0 e0 p0,
  jrun_parse pf None b = Ok (evs0, e0, p0) ->
  exists p, jrun_parse pf (Some k) b =
              Ok (firstn (S k) evs0, (if (length evs0 <=? k)%nat then e0 else jeVisitor), p) /\
            ((length evs0 <= k)%nat -> p = p0).
Proof.
  intros k b evs0 e0 p0 H. apply jrun_parse_orf in H. destruct H as (s0 & H & ->).
  destruct (rep_prefix0 _ _ (jp_parse_rep jparser0 b) k p0 s0 e0 H) as (a & s & H1 & H2 & H3).
  exists a. split; [|exact H3]. apply jrun_parse_orf. exists s. split; [exact H1|]. symmetry. exact H2.
Qed.

Theorem C16_json_run_parse_prefix : forall k b evs e p evs0 e0 p0,
  jrun_parse pf (Some k) b = Ok (evs, e, p) -> jrun_parse pf None b = Ok (evs0, e0, p0) ->
  evs = firstn (S k) evs0 /\ e = (if (length evs0 <=? k)%nat then e0 else jeVisitor).
Proof.
  intros k b evs e p evs0 e0 p0 H H0.
  destruct (C16_json_run_parse_fail_spec k b evs0 e0 p0 H0) as (p' & H1 & _).
  rewrite H1 in H. inversion H. split; reflexivity.
Qed.

(* with totality (C03): the failing run is the truncated unfailing run *)
Theorem C16_json_parse_total_prefix : forall k chunks,
  exists evs0 e0 p0 p,
    jrun_chunks pf None chunks = Ok (evs0, e0, p0) /\
    jrun_chunks pf (Some k) chunks =
      Ok (firstn (S k) evs0, (if (length evs0 <=? k)%nat then e0 else jeVisitor), p).
Proof.
  intros k chunks. destruct (C03_json_chunks_total_any pf None chunks) as (evs0 & e0 & p0 & H0).
  destruct (C16_json_parse_fail_spec k chunks evs0 e0 p0 H0) as (p & H & _).
  exists evs0, e0, p0, p. auto.
Qed.

End JsonVisitor.

Print Assumptions C16_json_parse_prompt.
Print Assumptions C16_json_parse_fail_spec.
Print Assumptions C16_json_parse_prefix.
Print Assumptions C16_json_run_parse_prompt.
Print Assumptions C16_json_run_parse_fail_spec.
Print Assumptions C16_json_run_parse_prefix.
Print Assumptions C16_json_parse_total_prefix.
